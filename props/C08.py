"""C08 - No server input can corrupt memory or wedge LibVNCClient.

Proof: coq/Props/Properties_C08.v - for the mirror of the client decoders over PARTIAL framebuffer /
scratch-buffer primitives (coq/Dec/Cli*.v): no out-of-bounds access for every token stream on the
paths whose checks suffice, progress of every HandleRFBServerMessage step, and machine-checked witnesses
(`..._refuted`) for the paths whose checks do NOT suffice.
Tie: the extracted mirror and the REAL client (harness/vdrv_clifuzz.c: ASan build, poisoned 4 MiB guard
bands around the framebuffer, one forked child per case, watchdog) run the same malformed streams:
  stream A (model-compared): grammar-aware mutations of valid streams produced by the extracted reference
      encoders (header fields, counts, lengths, decompressed payloads too short / too long, corrupt
      blocks, flag bytes, truncation, resize, UltraZip tables, Tight no-zlib / wide gradient ...) at token
      level, i.e. before compression; verdict (ok / fail / eof) and framebuffer are compared;
  stream B (implementation only): byte-level garbage after a valid handshake and mutated handshakes.
The property predicate itself (no sanitizer report, no signal, no hang, i.e. verdict ok for every case)
is evaluated on the implementation's output independently of the mirror.
"""
import os, random, sys
import vlib
import C07

LEVEL = "proof"
PROP_FILE = "Props/Properties_C08.v"
PID = "C08"
WRAPS = ("read", "write", "select")


# ---------------------------------------------------------------- token-level mutations
BOUND16 = [0, 1, 2, 15, 16, 17, 255, 256, 2047, 2048, 2049, 32767, 32768, 65534, 65535]
ENCS32 = [0, 1, 2, 4, 5, 6, 7, 8, 9, 15, 16, 17, 0xffff0009, 0xffffff10, 0xffffff11, 0xffffff18, 0xffffff20,
          0xffffff21, 0xfffffecc, 0xfffe0000, 0xfffe0001, 0xfffe0002, 0xfffe0003, 0xfffffefe, 3, 10, 0x7fffffff, 0xffffffff]


def hexset(h, pos, val, nbytes):
    v = "%0*x" % (2 * nbytes, val & ((1 << (8 * nbytes)) - 1))
    return h[:2 * pos] + v + h[2 * pos + 2 * nbytes:]


def mutate_tokens(rng, tok, W, H):
    """tok: token script lines of one valid case -> mutated copy + list of mutation tags"""
    L = list(tok)
    tags = []
    idx_b, idx_z, idx_l = [], [], []
    # rectangle headers: a 'b' line right after an FBU header (b 0000nnnn) or after rectangle payloads; we
    # recognise them syntactically: 12+ bytes whose bytes 8..11 are a known encoding number
    def rect_lines():
        out = []
        for i in idx_b:
            h = L[i][2:]
            if len(h) >= 24 and int(h[16:24], 16) in ENCS32:
                out.append(i)
        return out
    for _ in range(rng.choice([1, 1, 2, 3])):
        kind = rng.random()
        idx_b[:] = [i for i, l in enumerate(L) if l.startswith("b ") and len(l) > 2]
        idx_z[:] = [i for i, l in enumerate(L) if l.startswith("z ")]
        idx_l[:] = [i for i, l in enumerate(L) if l.startswith("l ")]
        rl = rect_lines()
        if kind < 0.30 and rl:
            i = rng.choice(rl)
            h = L[i][2:]
            f = rng.choice(["x", "y", "w", "h", "enc", "wh"])
            if f == "enc":
                h = hexset(h, 8, rng.choice(ENCS32), 4)
            elif f == "wh":
                h = hexset(hexset(h, 4, rng.choice([0, 1, W, W + 1, 65535]), 2), 6, rng.choice([0, 1, H, H + 1, 65535]), 2)
            else:
                pos = {"x": 0, "y": 2, "w": 4, "h": 6}[f]
                h = hexset(h, pos, rng.choice(BOUND16 + [W - 1, W, W + 1, H - 1, H, H + 1]), 2)
            L[i] = "b " + h
            tags.append("hdr." + f)
        elif kind < 0.50 and idx_b:
            i = rng.choice(idx_b)
            h = L[i][2:]
            n = len(h) // 2
            if n == 0:
                continue
            pos = rng.randrange(n)
            m = rng.random()
            if m < 0.4:
                h = hexset(h, pos, rng.choice([0, 1, 2, 0x7f, 0x80, 0xfe, 0xff, rng.getrandbits(8)]), 1)
                tags.append("byte")
            elif m < 0.6 and pos + 2 <= n:
                h = hexset(h, pos, rng.choice(BOUND16), 2)
                tags.append("u16")
            elif m < 0.8 and pos + 4 <= n:
                h = hexset(h, pos, rng.choice([0, 1, 0xff, 0x100, 0xffff, 0x10000, 0x7fffffff, 0x80000000, 0xffffffff,
                                               38400, 38401, 51200, 51201, 61440, 61441]), 4)
                tags.append("u32")
            else:
                k = rng.choice([1, 2, 4, 16, 100])
                h = h[:2 * pos] + "".join("%02x" % rng.getrandbits(8) for _ in range(k)) + h[2 * pos:]
                tags.append("insert")
            L[i] = "b " + h
        elif kind < 0.62 and idx_b:
            i = rng.choice(idx_b)
            h = L[i][2:]
            cut = rng.randrange(len(h) // 2 + 1)
            L[i] = "b " + h[:2 * cut] if cut else "b"
            # drop what follows up to the next run
            j = i + 1
            while j < len(L) and L[j] != "run":
                if L[j][:2] in ("b ", "z ", "l ") or L[j] == "b":
                    del L[j]
                else:
                    j += 1
            tags.append("truncate")
        elif kind < 0.80 and idx_z:
            i = rng.choice(idx_z)
            p = L[i].split()
            sid, fresh, ok = int(p[1]), int(p[2]), int(p[3])
            data = p[4] if len(p) > 4 else ""
            m = rng.random()
            if m < 0.25:
                data = data[:2 * rng.randrange(len(data) // 2 + 1)]
                tags.append("z.short")
            elif m < 0.55:
                extra = rng.choice([1, 2, 16, len(data) // 2, 2 * len(data) // 2, 5 * len(data) // 2 + 7])
                data = data + (data * 6 + "00" * extra)[:2 * extra] if rng.random() < 0.5 else data + "".join("%02x" % rng.getrandbits(8) for _ in range(min(extra, 4000)))
                tags.append("z.long")
            elif m < 0.70:
                ok = 0
                tags.append("z.corrupt")
            elif m < 0.85 and len(data) >= 2:
                pos = rng.randrange(len(data) // 2)
                data = hexset(data, pos, rng.choice([0, 1, 2, 16, 17, 100, 127, 128, 129, 130, 200, 255]), 1)
                tags.append("z.byte")
            else:
                if rng.random() < 0.5:
                    fresh = 1 - fresh
                else:
                    sid = rng.randrange(5)
                tags.append("z.stream")
            L[i] = "z %d %d %d %s" % (sid, fresh, ok, data)
        elif kind < 0.88 and idx_l:
            i = rng.choice(idx_l)
            data = L[i][2:]
            if rng.random() < 0.5:
                data = data[:2 * rng.randrange(len(data) // 2 + 1)]
                tags.append("l.short")
            else:
                data = data + "".join("%02x" % rng.getrandbits(8) for _ in range(rng.choice([1, 4, 100, 3000])))
                tags.append("l.long")
            L[i] = "l " + data
        else:
            body = [i for i, l in enumerate(L) if l[:2] in ("b ", "z ", "l ")]
            if len(body) >= 2:
                i, j = rng.sample(body, 2)
                m = rng.random()
                if m < 0.4:
                    L[i], L[j] = L[j], L[i]
                    tags.append("swap")
                elif m < 0.7:
                    L.insert(i, L[j])
                    tags.append("dup")
                else:
                    del L[i]
                    tags.append("del")
    return L, tags


def be16(v):
    return "%04x" % (v & 0xffff)


def be32(v):
    return "%08x" % (v & 0xffffffff)


def init_line(W, H, fmtname, sibpp=32, sigmax=255):
    return "init %d %d %s %d %d %s" % (W, H, " ".join(map(str, C07.FORMATS[fmtname])), sibpp, sigmax, C07.ALL_ENCS)


JPEGS = [(320, 320), (321, 320), (400, 300), (512, 256), (64, 48)]


def gen_special(rng, k):
    """hand-shaped malformed streams aimed at the bounds logic of specific decoders"""
    fmtname = rng.choice(list(C07.FORMATS))
    bpp = C07.FORMATS[fmtname][0]
    bypp = bpp // 8
    W, H = rng.choice([1, 8, 16, 17, 40, 65]), rng.choice([1, 8, 16, 17, 40])
    which = rng.choice(["ultrazip", "ultrazip", "tight_rows", "tight_nozlib", "tight_pal", "tight_wide", "trle_rle", "zrle_short",
                        "zrle_types", "zrle_exact", "zero_dim", "zero_dim", "zero_dim", "tight_jpeg", "tight_jpeg", "tile_seq", "tile_seq", "tile_seq", "corre_count", "rre_count", "hextile_sub", "resize", "cursor", "lengths", "raw_big", "copy_oob",
                        "cursor_trunc", "cursor_trunc", "trunc_large", "trunc_large"])
    L = ["case %d special:%s %s %dx%d" % (k, which, fmtname, W, H)]
    tags = ["special." + which]
    rb = lambda n: "".join("%02x" % rng.getrandbits(8) for _ in range(n))
    hdr = lambda x, y, w, h, enc: be16(x) + be16(y) + be16(w) + be16(h) + be32(enc)
    if which == "tight_wide":
        W, H = rng.choice([2048, 2049, 2100, 4096, 4097]), rng.choice([1, 2])
        L[0] = "case %d special:%s %s %dx%d" % (k, which, fmtname, W, H)
    if which == "zrle_exact":
        W, H = 64 + rng.randint(1, 8), 1
        L[0] = "case %d special:%s %s %dx%d" % (k, which, fmtname, W, H)
    if which == "tight_nozlib":
        W, H = rng.choice([(40, 40), (400, 300), (640, 480)])
        L[0] = "case %d special:%s %s %dx%d" % (k, which, fmtname, W, H)
    L.append(init_line(W, H, fmtname, *rng.choice([(32, 255), (16, 63), (16, 31)])))
    L.append("fill %d" % rng.randrange(1 << 30))
    L.append("dump 0")
    if which == "ultrazip":
        nrec = rng.choice([0, 1, 2, 3, 40, 41, 42, 43, 1000, 65535])
        # rw scales the announced uncompressed size by 65535: small, around the int limit (32767..32769), maximal
        ry, rw = rng.choice([(1, 0), (0, 1), (500, 0), (100, 0), (0, 0), (65535, 0), (0, 2), (7, 30), (0, 32767), (32000, 32767),
                             (0, 32769), (65535, 32769), (1, 40000), (0, 65535), (65535, 65535)])
        recs = ""
        for _ in range(rng.choice([0, 1, 2, 3])):
            sx, sy = rng.choice([0, 1, W - 1, W]), rng.choice([0, 1, H - 1, H])
            sw, sh = rng.choice([0, 1, 2, W, W + 1, 65535]), rng.choice([0, 1, 2, H, H + 1, 65535])
            se = rng.choice([0, 0, 0, 1, 5])
            recs += hdr(sx, sy, sw, sh, se)
            if se == 0:
                recs += rb(min(sw * sh * bypp, rng.choice([0, 4, 64, 4000])))
        L += ["b 00000001", "b " + hdr(nrec, ry, rw, 0, 0xffff0009), "l " + recs]
    elif which == "tight_rows":
        w, h = rng.randint(1, W), rng.randint(1, H)
        x, y = rng.randint(0, W - w), H - h
        rows = h + rng.choice([-1, 1, 2, 7, 100, 1000])
        bpp_t = 3 if fmtname in ("rgb888", "bgr888", "rgb888up") else bypp
        flt = rng.choice(["00", "4000", "4002"])
        L += ["b 00000001", "b " + hdr(x, y, w, h, 7), "b " + flt, "z 1 1 1 " + rb(max(rows, 0) * w * bpp_t if max(rows, 0) * w * bpp_t >= 12 else 12)]
    elif which == "tight_nozlib":
        w, h = W, H
        n = rng.choice([1, 11, 12, 127, 128, 16383, 16384, 100000, 307200, 307201])
        cl = [n & 0x7f | (0x80 if n > 127 else 0)]
        if n > 127:
            cl.append((n >> 7) & 0x7f | (0x80 if n > 16383 else 0))
        if n > 16383:
            cl.append(n >> 14)
        L += ["b 00000001", "b " + hdr(0, 0, w, h, 7), "b " + rng.choice(["a0", "e000", "e002", "a1"]), "b " + bytes(cl).hex() + rb(min(n, 400000))]
    elif which == "tight_pal":
        w, h = rng.randint(1, W), rng.randint(1, H)
        ncol = rng.choice([0, 1, 2, 3, 16, 255, 256])
        bpp_t = 3 if fmtname in ("rgb888", "bgr888", "rgb888up") else bypp
        pal = rb(ncol * bpp_t)
        rowsz = (w + 7) // 8 if ncol == 2 else w
        data = rb(rowsz * h)
        body = ["b 00000001", "b " + hdr(0, 0, w, h, 7), "b 4001" + "%02x" % ((ncol - 1) & 255) + pal]
        body.append(("b " + data) if rowsz * h < 12 else ("z 1 1 1 " + data))
        L += body
    elif which == "tight_wide":
        flt = rng.choice(["4002", "4002", "00", "4001" + "01" + rb(2 * (3 if fmtname in ("rgb888", "bgr888", "rgb888up") else bypp))])
        bpp_t = 3 if fmtname in ("rgb888", "bgr888", "rgb888up") else bypp
        L += ["b 00000001", "b " + hdr(0, 0, W, H, 7), "b " + flt, "z 1 1 1 " + rb(W * bpp_t * H)]
    elif which == "trle_rle":
        w, h = min(W, 16), min(H, 16)
        cpx = {1: 1, 2: 2, 4: 3 if fmtname in ("rgb888", "bgr888", "rgb888up") else 4}[bypp]
        nruns = rng.choice([1, w * h - 1, w * h])
        body = "80" if rng.random() < 0.6 else "82" + rb(2 * cpx)
        if body == "80":
            body += (rb(cpx) + "00") * max(nruns - 1, 0) + rb(cpx) + "ff" * rng.choice([0, 1, 255, 600, 900, 2100, 5000]) + "00"
        else:
            body += "00" * max(nruns - 1, 0) + "80" + "ff" * rng.choice([0, 1, 255, 600, 900, 2100, 5000]) + "00"
        L += ["b 00000001", "b " + hdr(0, 0, w, h, 15), "b " + body]
    elif which == "zrle_short":
        w, h = W, H
        data = rng.choice(["00", "", "01", "80", "7f", "ff", "00" + rb(3), "82" + rb(9), "11" + rb(40)])
        L += ["b 00000001", "b " + hdr(0, 0, w, h, 16), "z 5 1 1 " + data,
              "b 00000001", "b " + hdr(0, 0, w, h, 16), "z 5 0 1 " + rng.choice(["00", "7f", "ff", "80"])]
    elif which == "zrle_types":
        w, h = W, H
        t = rng.choice([2, 16, 17, 100, 127, 128, 129, 130, 255])
        data = "%02x" % t + rb(rng.choice([0, 10, 200, 600, 2000]))
        L += ["b 00000001", "b " + hdr(0, 0, w, h, 16), "z 5 1 1 " + data]
    elif which == "zrle_exact":
        # the decompressed data fills the scratch area (2 x raw size of the rectangle) to the last byte and the last
        # tile ends exactly there: reads of whole machine words for the final CPIXEL / run length leave the block
        cpx = {1: 1, 2: 2, 4: 3 if fmtname in ("rgb888", "bgr888", "rgb888up") else 4}[bypp]
        e = W - 64
        cap = 2 * cpx * W + rng.choice([0, 0, 0, -1, 1, 4])
        t2 = rng.choice(["00" + rb(cpx * e), "01" + rb(cpx), "80" + rb(cpx) + "%02x" % (e - 1)])
        room = cap - len(t2) // 2 - (1 + cpx + 1)
        r = max(0, min(63, room // (cpx + 1)))
        kk = max(0, room - r * (cpx + 1))
        t1 = "80" + (rb(cpx) + "00") * r + rb(cpx) + "ff" * kk + "00"
        L += ["b 00000001", "b " + hdr(0, 0, W, H, 16), "z 5 1 1 " + t1 + t2]
    elif which == "zero_dim":
        # rectangles of width 0 and / or height 0 at every position the 'Rect too large' test lets through (x = W, y = H
        # included), for EVERY decoder, with a payload the decoder accepts as far as it reads one
        enc, ename = rng.choice([(0, "raw"), (1, "copyrect"), (2, "rre"), (4, "corre"), (5, "hextile"), (6, "zlib"), (7, "tight"),
                                 (9, "ultra"), (15, "trle"), (16, "zrle"), (17, "zywrle"), (0xffff0009, "ultrazip")])
        x, y, w, h = rng.choice([(W, 0, 0, H), (W, rng.randrange(H), 0, H - 0) , (0, H, W, 0), (W, H, 0, 0), (0, 0, 0, H), (0, 0, W, 0),
                                 (rng.randrange(W + 1), rng.randrange(H + 1), 0, 0), (W, 0, 0, 1), (W - 1, H - 1, 0, 1), (W, H - 1, 0, 1)])
        if y + h > H:
            h = H - y
        L[0] = "case %d special:%s %s %dx%d %s %d,%d,%d,%d" % (k, which, fmtname, W, H, ename, x, y, w, h)
        L += ["b 00000001", "b " + hdr(x, y, w, h, enc)]
        if ename == "tight":
            ctl = rng.choice(["00", "4000", "4002", "4002", "4002", "4001" + "01" + rb(2 * (3 if fmtname in ("rgb888", "bgr888", "rgb888up") else bypp)),
                              "80" + rb(3 if fmtname in ("rgb888", "bgr888", "rgb888up") else bypp), "0f", "44" + "02"])
            L.append("b " + ctl)
        elif ename in ("zlib", "zrle", "zywrle"):
            L.append("z %d 1 1 " % (0 if ename == "zlib" else 5) + rb(rng.choice([0, 1, 4])))
        elif ename in ("ultra", "ultrazip"):
            L.append("l " + rb(rng.choice([0, 4, 12])))
        elif ename == "copyrect":
            L.append("b " + be16(rng.choice([0, W - 1, W])) + be16(rng.choice([0, H - 1, H])))
        elif ename in ("rre", "corre"):
            n = rng.choice([0, 1, 2])
            L.append("b " + be32(n) + rb(bypp) + "".join(rb(bypp) + (be16(0) * 4 if ename == "rre" else "00000000") for _ in range(n)))
        elif ename == "hextile":
            L.append("b " + rb(rng.choice([0, 1, 4])) if rng.random() < 0.5 else "b 02" + rb(bypp))
        elif ename == "trle":
            L.append("b " + rng.choice(["00", "01" + rb(4), "80" + rb(5), "7f", "02" + rb(8)]))
        L.append("b 02")                      # a bell behind the rectangle: is the stream still in step?
    elif which == "tight_jpeg":
        # Tight JPEG rectangles (real JPEG images from corpus/C08/jpeg_WxH.hex): image as large as, larger or smaller than
        # the rectangle, rectangles beyond the 102400 pixels whose RGB form fits client->buffer, truncated / corrupt data
        jw, jh = rng.choice(JPEGS)
        blob = open(os.path.join(vlib.VERIF, "corpus", PID, "jpeg_%dx%d.hex" % (jw, jh))).read().strip()
        rw_, rh_ = rng.choice([(jw, jh), (jw, jh), (jw, jh), (jw + 1, jh), (jw, jh - 1), (jw // 2, jh // 2), (jw * 2, jh), (1, 1)])
        W, H = max(rw_, 1) + rng.choice([0, 3]), max(rh_, 1) + rng.choice([0, 2])
        m = rng.random()
        if m < 0.15:
            blob = blob[:2 * rng.randrange(2, len(blob) // 2)]
        elif m < 0.25:
            pos = 2 * rng.randrange(20, len(blob) // 2)
            blob = blob[:pos] + "%02x" % rng.getrandbits(8) + blob[pos + 2:]
        n = len(blob) // 2
        cl = [n & 0x7f | (0x80 if n > 127 else 0)]
        if n > 127:
            cl.append((n >> 7) & 0x7f | (0x80 if n > 16383 else 0))
        if n > 16383:
            cl.append(n >> 14)
        L[:] = ["case %d special:%s %s %dx%d jpeg %dx%d" % (k, which, fmtname, W, H, jw, jh),
                init_line(W, H, fmtname, *rng.choice([(32, 255), (16, 63), (16, 31)])), "fill %d" % rng.randrange(1 << 30), "dump 0",
                "b 00000001", "b " + hdr(0, 0, rw_, rh_, 7), "b 9" + rng.choice("0f3") + bytes(cl).hex() + blob]
    elif which == "tile_seq":
        # sequences of TRLE / ZRLE tile types, conforming or not: a tile that leaves a palette of n entries (n at every
        # index-width boundary) or none, anything in between, then 127 / 129 (palette reuse; does not exist in ZRLE and
        # must be refused there).  The payload sizes follow the decoder's last_type bookkeeping so that the stream
        # stays in step as long as the decoder accepts it.
        trle = rng.random() < 0.7
        tsz = 16 if trle else 64
        cpx = {1: 1, 2: 2, 4: 3 if fmtname in ("rgb888", "bgr888", "rgb888up") else 4}[bypp]
        th = rng.choice([1, 2, 3])
        ntile = rng.choice([2, 3, 3, 4, 5])
        Wt = tsz * ntile - rng.choice([0, 0, tsz - 1, tsz - 7])
        last, bits = 0, 0
        body = ""
        bitsof = lambda n: 8 if n > 16 else 4 if n > 4 else 2 if n > 2 else 1
        for ti in range(ntile):
            tw = min(tsz, Wt - ti * tsz)
            npx = tw * th
            kind = rng.choice(["raw", "solid", "packed", "packed", "prle", "prle", "plain", "r127", "r127", "r129", "r129"])
            if ti == 0 and rng.random() < 0.8:
                kind = rng.choice(["packed", "prle"])
            if kind == "raw":
                body += "00" + rb(cpx * npx)
            elif kind == "solid":
                body += "01" + rb(cpx)
                last = 1
            elif kind == "packed":
                n = rng.choice([2, 3, 4, 5, 8, 15, 16])
                bits = bitsof(n)
                body += "%02x" % n + rb(cpx * n) + rb(((tw * bits + 7) // 8) * th)
                last = n
            elif kind in ("prle", "r129"):
                if kind == "prle":
                    n = rng.choice([2, 3, 4, 5, 8, 16, 17, 64, 127])
                    body += "%02x" % (128 + n) + rb(cpx * n)
                    last = 128 + n
                else:
                    body += "81"
                left = npx
                while left > 0:
                    run = min(left, rng.choice([1, 1, 1, 2, 5, 16, 17, 300]))
                    idx = rng.randrange(rng.choice([2, 4, 16, 128]))
                    if run == 1 and rng.random() < 0.7:
                        body += "%02x" % idx
                    else:
                        body += "%02x" % (idx | 0x80) + "ff" * ((run - 1) // 255) + "%02x" % ((run - 1) % 255)
                    left -= run
            elif kind == "plain":
                body += "80"
                left = npx
                while left > 0:
                    run = min(left, rng.choice([1, 2, 5, 16, 17, 300]))
                    body += rb(cpx) + "ff" * ((run - 1) // 255) + "%02x" % ((run - 1) % 255)
                    left -= run
            else:                                   # 127
                body += "7f"
                if not trle:
                    break
                if last in (0, 128):
                    break                           # the decoder returns FALSE here
                if last == 1:
                    continue                        # repeats the solid colour, no payload
                if last >= 130:
                    last &= 0x7f
                    bits = bitsof(last)
                if last <= 16:
                    body += rb(((tw * bits + 7) // 8) * th)
                else:
                    break
        body += rb(rng.choice([0, 0, 0, 3]))
        W, H = Wt, th
        L[:] = ["case %d special:%s %s %dx%d" % (k, which, fmtname, W, H),
                init_line(W, H, fmtname, *rng.choice([(32, 255), (16, 63), (16, 31)])), "fill %d" % rng.randrange(1 << 30), "dump 0"]
        if trle:
            L += ["b 00000001", "b " + hdr(0, 0, W, H, 15), "b " + body]
        else:
            L += ["b 00000001", "b " + hdr(0, 0, W, H, 16), "z 5 1 1 " + body]
    elif which == "corre_count":
        n = rng.choice([0, 1, 38399, 38400, 38401, 51200, 51201, 61440, 61441, 0xffffffff])
        L += ["b 00000001", "b " + hdr(0, 0, W, H, 4) + be32(n) + rb(bypp) + rb(min(n, 70000) * (4 + bypp) if n < 100000 else 64)]
    elif which == "rre_count":
        n = rng.choice([0, 1, 5, 0xffff, 0xffffffff])
        subs = "".join(rb(bypp) + be16(rng.choice([0, W - 1, W, 65535])) + be16(rng.choice([0, H - 1, H, 65535])) +
                       be16(rng.choice([0, 1, W, 65535])) + be16(rng.choice([0, 1, H, 65535])) for _ in range(min(n, 6)))
        L += ["b 00000001", "b " + hdr(0, 0, W, H, 2) + be32(n) + rb(bypp) + subs]
    elif which == "hextile_sub":
        tiles = ((W + 15) // 16) * ((H + 15) // 16)
        body = ""
        for _ in range(tiles):
            fl = rng.choice([1, 2, 2 | 8, 2 | 4 | 8, 2 | 8 | 16, 8, 8 | 16, 0, 0x1f, 0xff & ~1])
            body += "%02x" % fl
            if fl & 1:
                continue
            if fl & 2:
                body += rb(bypp)
            if fl & 4:
                body += rb(bypp)
            if fl & 8:
                n = rng.choice([0, 1, 3, 255])
                body += "%02x" % n + rb(n * ((2 + bypp) if fl & 16 else 2))
        L += ["b 00000001", "b " + hdr(0, 0, W, H, 5) + body]
    elif which == "resize":
        for _ in range(rng.choice([1, 2, 3])):
            nw, nh = rng.choice([(0, 0), (0, 5), (5, 0), (1, 1), (65535, 1), (1, 65535), (65535, 65535), (3000, 3000), (20, 20),
                                 # the MallocFrameBuffer policy boundary (4 MiB: exactly / one row or column more, per bytes-per-pixel)
                                 # and the int boundary of width * height (* bytes per pixel)
                                 (1024, 4096 // bypp), (1025, 4096 // bypp), (1024, 4096 // bypp + 1), (4096 // bypp, 1024),
                                 (46341, 46341), (32768, 65535 // bypp), (65535, 32769)])
            m = rng.random()
            if m < 0.4:
                L += ["b 00000001", "b " + hdr(0, 0, nw, nh, 0xffffff21)]
            elif m < 0.6:
                L += ["b 0400" + be16(nw) + be16(nh)]
            elif m < 0.8:
                L += ["b 0f00" + be16(7) + be16(7) + be16(nw) + be16(nh) + "0000"]
            else:
                ns = rng.choice([0, 1, 2, 255])
                L += ["b 00000001", "b " + hdr(0, 0, nw, nh, 0xfffffecc) + "%02x000000" % ns + rb(16 * min(ns, 3))]
            enc = rng.choice([0, 2, 5, 16])
            w, h = rng.choice([(1, 1), (nw, nh), (20, 20)])
            L += ["b 00000001", "b " + hdr(0, 0, w, h, enc) + rb(rng.choice([0, 8, 64, 1700]))]
    elif which == "cursor":
        cw, ch = rng.choice([(0, 0), (1, 1), (1023, 1), (1024, 1), (1, 1024), (65535, 65535), (17, 3), (1023, 1023)])
        enc = rng.choice([0xffffff10, 0xffffff11])
        L += ["b 00000001", "b " + hdr(1, 2, cw, ch, enc) + rb(rng.choice([0, 6, 50, 5000]))]
    elif which == "cursor_trunc":
        # a complete cursor update, then a second one (or a third) cut at an arbitrary point: the stream ends inside
        # the payload, HandleRFBServerMessage fails and the harness calls rfbClientCleanup (dangling pointers, double free)
        def cur(cw, ch, rich):
            bpr = (cw + 7) // 8
            if rich:
                return hdr(1, 1, cw, ch, 0xffffff11) + rb(cw * ch * bypp) + rb(bpr * ch)
            return hdr(1, 1, cw, ch, 0xffffff10) + rb(6) + rb(bpr * ch) + rb(bpr * ch)
        full = [cur(rng.choice([1, 7, 16, 33]), rng.choice([1, 5, 16]), rng.random() < 0.5) for _ in range(rng.choice([1, 1, 2]))]
        last = cur(rng.choice([1, 8, 17, 64]), rng.choice([1, 4, 32]), rng.random() < 0.5)
        cut = rng.randrange(24, len(last) + 1, 2)
        for c in full:
            L += ["b 00000001", "b " + c]
        L += ["b 00000001", "b " + last[:cut]]
    elif which == "trunc_large":
        # the stream ends in the middle of a payload that is read with one large (> 8 KiB) request
        m = rng.choice(["cut", "chat", "raw", "ident", "zlib", "name"])
        n = rng.choice([8193, 9000, 20000, 70000, 300000])
        got = rng.choice([0, 1, 100, 8191, 8192, 8193, n - 8193, n - 1])
        got = max(0, min(got, n - 1))
        if m == "cut":
            L += ["b 03000000" + be32(n) + rb(got)]
        elif m == "chat":
            L += ["b 0b000000" + be32(n) + rb(got)]
        elif m == "ident":
            n = min(n, 65535); got = min(got, n - 1)
            L += ["b 00000001", "b " + hdr(0, 0, n, 0, rng.choice([0xfffe0003, 0xfffe0002])) + rb(got)]
        elif m == "raw":
            # a resize makes room for a rectangle whose rows exceed 8 KiB in total
            nw, nh = 600, 40
            L += ["b 00000001", "b " + hdr(0, 0, nw, nh, 0xffffff21), "b 00000001",
                  "b " + hdr(0, 0, nw, nh, 0) + rb(min(got, nw * nh * bypp - 1))]
        elif m == "zlib":
            nw, nh = 200, 100
            L += ["b 00000001", "b " + hdr(0, 0, nw, nh, 0xffffff21), "b 00000001",
                  "b " + hdr(0, 0, nw, nh, rng.choice([6, 16, 9])) + be32(n) + rb(got)]
        else:
            L += ["b " + rb(0)]
    elif which == "lengths":
        m = rng.choice(["cut", "chat", "ident", "suppenc"])
        n = rng.choice([0, 1, 0x100000, 0x100001, 0x7fffffff, 0x80000000, 0xffffffff, 0xfff00000, 10485760, 10485761])
        if m == "cut":
            L += ["b 03000000" + be32(n) + rb(min(n, 2000))]
        elif m == "chat":
            L += ["b 0b000000" + be32(n) + rb(min(n, 2000))]
        else:
            L += ["b 00000001", "b " + hdr(0, 0, rng.choice([0, 1, 65535]), rng.choice([0, 65535]), 0xfffe0003 if m == "ident" else 0xfffe0002) + rb(300)]
    elif which == "raw_big":
        w, h = rng.choice([(W, H), (W + 1, H), (W, H + 1), (65535, 65535), (0, H), (W, 0)])
        L += ["b 00000001", "b " + hdr(0, 0, w, h, 0) + rb(min(w * h * bypp, 3000))]
    elif which == "copy_oob":
        w, h = rng.randint(1, W), rng.randint(1, H)
        L += ["b 00000001", "b " + hdr(rng.choice([0, W - w, W - w + 1]), rng.choice([0, H - h]), w, h, 1) +
              be16(rng.choice([0, W - w, W - w + 1, 65535])) + be16(rng.choice([0, H - h, H - h + 1, 65535]))]
    L.append("seg " + " ".join(map(str, C07.gen_seg(rng))))
    L.append("run")
    return dict(tok=L, tags=tags, kind="special")


def gen_mutated(ctx, k):
    c = C07.gen_case(ctx, k, C07.MODEL_ENCS, big=(k % 9 == 0))
    return c


def auth_payload(rng, t, rb, focus=False):
    """the server's side of the sub-negotiation of security type t, with hostile counts and lengths"""
    u32 = lambda v: (v & 0xffffffff).to_bytes(4, "big")
    if t == 19:                                            # VeNCrypt: version, ack, list of 32-bit sub-types
        out = bytearray(rng.choice([b"\x00\x02"] * (30 if focus else 6) + [b"\x00\x01", b"\x01\x02", b"\x00\x00", b"\xff\xff"]))
        out.append(rng.choice([0] * (20 if focus else 4) + [1, 255]))       # 0 = version accepted
        n = rng.choice([0, 1, 2, 5, 39, 40, 41, 50, 64, 100, 128, 254, 255])
        if focus and rng.random() < 0.5:
            n = rng.choice([38, 39, 40, 41, 42, 45, 46, 50, 56, 64, 100, 200, 255])   # around a 500-character list of values
        out.append(n)
        kind = rng.random()
        for i in range(n):
            if kind < 0.6:                                 # nothing the client supports: every entry goes into the log line
                v = rng.choice([0, 3, 4, 19, 265, 1000, 99999, 0x7fffffff, 0x80000000, 0xffffffff, rng.getrandbits(32)])
                if focus and kind < 0.3:
                    v = rng.choice([0x7fffffff, 0x80000000, 0x80000001, 0xfffffffe, 1000000000 + rng.getrandbits(28)])   # 10-11 characters each
            elif kind < 0.8:                               # a supported plain type somewhere in a long list
                v = rng.choice([1, 2, 256]) if i == n // 2 else rng.choice([0, 3, 0xffffffff, rng.getrandbits(32)])
            else:                                          # TLS / X509 / SASL sub-types
                v = rng.choice([257, 258, 259, 260, 261, 262, 263, 264, 1, 2, 256, rng.getrandbits(32)])
            out += u32(v)
        if rng.random() < 0.3:
            out = out[:rng.randrange(len(out) + 1)]
        return bytes(out)
    if t == 30:                                            # Apple Remote Desktop: generator, key length, prime, peer key
        kl = rng.choice([0, 1, 2, 8, 16, 128, 256, 1024, 65535])
        return b"\x00\x02" + kl.to_bytes(2, "big") + rb(min(kl, 300)) + rb(min(kl, 300))
    if t == 113:                                           # UltraVNC MS-Logon II: generator, modulus, response (64 bit each)
        return rng.choice([rb(24), b"\0" * 24, b"\xff" * 24, rb(8) + b"\0" * 8 + rb(8), rb(10)])
    if t == 20:                                            # SASL: mechanism list
        n = rng.choice([0, 1, 5, 99, 100, 101, 300, 0x100000, 0xffffffff])
        mech = rng.choice([b"PLAIN", b"ANONYMOUS", b"DIGEST-MD5,PLAIN", rb(min(n, 300))])
        return u32(n) + (mech + b"\0" * 300)[:min(n, 300)]
    if t == 18:                                            # anonymous TLS: whatever follows is fed to the TLS handshake
        return rb(rng.choice([0, 5, 100]))
    return b""


def gen_handshake(rng, k):
    """stream B: mutated handshakes and garbage after a valid handshake (implementation only)"""
    fmtname = rng.choice(list(C07.FORMATS))
    fmt = C07.FORMATS[fmtname]
    rb = lambda n: bytes(rng.getrandbits(8) for _ in range(n))
    ver = rng.choice([b"RFB 003.008\n", b"RFB 003.007\n", b"RFB 003.003\n", b"RFB 003.889\n", b"RFB 004.001\n", b"RFB 003.005\n",
                      b"RFB 003.016\n", b"RFB 000.000\n", b"RFB 999.999\n", b"XYZ 003.008\n", rb(12), b"RFB 003.008", b""])
    if rng.random() < 0.4:
        # a negotiation that gets as far as the scheme's own sub-protocol: valid version, the scheme offered alone
        # (or after types the client does not know), its payload with hostile counts / lengths
        ver = rng.choice([b"RFB 003.008\n", b"RFB 003.008\n", b"RFB 003.007\n", b"RFB 003.889\n"])
        t0 = rng.choice([19, 19, 19, 19, 30, 113, 20, 18, 2])
        pre = [rng.choice([0xfe, 17, 99]) for _ in range(rng.choice([0, 0, 1, 3]))]
        body = bytearray(ver) + bytes([len(pre) + 1]) + bytes(pre) + bytes([t0]) + auth_payload(rng, t0, rb, focus=True)
        body += rng.choice([rb(16), b""]) + rng.choice([0, 0, 1]).to_bytes(4, "big") + rb(rng.choice([0, 24, 60]))
        L = ["case %d handshake %s auth%d" % (k, fmtname, t0), "hsraw %s | %s" % (" ".join(map(str, fmt)), bytes(body).hex()),
             "dump 0", "seg " + " ".join(map(str, C07.gen_seg(rng))), "run"]
        return dict(tok=L, tags=["handshake", "handshake.auth%d" % t0], kind="implonly")
    body = bytearray(ver)
    minor3 = ver.startswith(b"RFB 003.003")
    if minor3:
        sch = rng.choice([0, 1, 2, 5, 16, 0xffffffff, 0xfffffffa, 0xfffffffa, 30, 113, 19])
        body += sch.to_bytes(4, "big")
        if sch == 0xfffffffa:                                  # MS-Logon (3.3 only): generator, modulus, response
            body += rng.choice([rb(24), b"\0" * 24, rb(8) + b"\0" * 8 + rb(8), b"\xff" * 24])
        else:
            body += auth_payload(rng, sch, rb)
    else:
        nt = rng.choice([0, 1, 2, 5, 255])
        body.append(nt)
        if nt == 0:
            n = rng.choice([0, 5, 0x100000, 0x100001, 0xffffffff])
            body += n.to_bytes(4, "big") + rb(min(n, 300))
        else:
            types = [rng.choice([1, 1, 2, 2, 5, 16, 17, 18, 19, 20, 30, 113, 129, 0xfe, 0xff]) for _ in range(nt)]
            if rng.random() < 0.5:
                # put one of the schemes with a negotiation of its own first: the client takes the first type it knows
                types[0] = rng.choice([19, 19, 19, 30, 113, 20, 18, 2])
            body += bytes(types)
            body += auth_payload(rng, types[0], rb)
    body += rng.choice([rb(16), b""])                      # a VncAuth challenge (or nothing)
    res = rng.choice([0, 0, 0, 1, 2, 7, 0xffffffff])
    body += res.to_bytes(4, "big")
    if res == 1:
        n = rng.choice([0, 5, 0x100000, 0x100001, 0xffffffff])
        body += n.to_bytes(4, "big") + rb(min(n, 300))
    W, H = rng.choice([(0, 0), (1, 1), (16, 16), (65535, 1), (65535, 65535), (2048, 2)])
    si = bytearray(W.to_bytes(2, "big") + H.to_bytes(2, "big"))
    si += bytes([rng.choice([0, 1, 8, 16, 24, 32, 64, 255]), rng.choice([0, 8, 24, 32, 255]), rng.choice([0, 1]), rng.choice([0, 1])])
    si += rb(6) + rb(3) + b"\0\0\0"
    nl = rng.choice([0, 1, 5, 0x100000, 0x100001, 0x7fffffff, 0xffffffff])
    si += nl.to_bytes(4, "big") + rb(min(nl, 200))
    body += si
    if rng.random() < 0.6:
        body += rb(rng.choice([1, 20, 300, 5000]))
    L = ["case %d handshake %s" % (k, fmtname), "hsraw %s | %s" % (" ".join(map(str, fmt)), bytes(body).hex()),
         "dump 0", "seg " + " ".join(map(str, C07.gen_seg(rng))), "run"]
    return dict(tok=L, tags=["handshake"], kind="implonly")


def gen_garbage(rng, k):
    fmtname = rng.choice(list(C07.FORMATS))
    W, H = rng.choice([1, 16, 40]), rng.choice([1, 16, 40])
    L = ["case %d garbage %s %dx%d" % (k, fmtname, W, H), init_line(W, H, fmtname), "dump 0"]
    n = rng.choice([1, 4, 16, 64, 400, 4000])
    first = rng.choice([0, 0, 0, 2, 3, 4, 11, 15, 250, rng.getrandbits(8)])
    L.append("b %02x" % first + "".join("%02x" % rng.choice([0, 0, 1, 255, rng.getrandbits(8)]) for _ in range(n)))
    L += ["seg " + " ".join(map(str, C07.gen_seg(rng))), "run"]
    return dict(tok=L, tags=["garbage"], kind="model")


# ---------------------------------------------------------------- running
def build(ctx):
    cexe = vlib.build_harness("vdrv_clifuzz", ["vdrv_clifuzz.c"], wraps=WRAPS, client=True, server=False)
    proof_ok = vlib.prove(ctx, PROP_FILE, ["Extract/Extract_C08.vo"])
    C07.sync_extraction(PID)
    mexe = vlib.build_ocaml(PID, "driver_C08.ml", "Extract/Extract_C08.vo")
    return cexe, mexe, proof_ok


def jpeg16_big(case):
    """does the script send a Tight JPEG rectangle of more than RFB_BUFFER_SIZE / 3 pixels to a 16-bpp client?"""
    tok = case.get("tok", [])
    init = next((l.split() for l in tok if l.startswith("init ")), None)
    if not init or len(init) < 4 or init[3] != "16":
        return False
    for a, b in zip(tok, tok[1:]):
        if a.startswith("b ") and len(a) == 2 + 24 and a.endswith("00000007") and b.startswith("b 9"):
            w, h = int(a[2 + 8:2 + 12], 16), int(a[2 + 12:2 + 16], 16)
            if w * h * 3 > 307200:
                return True
    return False


def cause_of(verdict):
    """classify a sanitizer verdict by the library frames, the access kind and the error class"""
    p = verdict.split()
    if len(p) < 2 or p[1] == "ok":
        return None
    if p[1] != "asan":
        if p[1] == "signal" and "Fatal_error:" in verdict:
            return "dh_params_abort"            # libgcrypt: "Fatal error: divide by zero" / "Invalid argument", abort()
        return " ".join(p[1:3])
    kind, rw, fns = p[2], p[3], p[4] if len(p) > 4 else "-"
    # the classes of known_findings.d/C08.json are tied to the function AND to the access kind of the
    # confirmed defect: anything else in the same function is a different failure
    if kind == "FPE" and "rfbPowM64" in verdict or kind == "FPE" and "rfbMulM64" in verdict:
        return "dh_params_abort"
    if "HandleUltraZip" in fns and rw == "READ":
        return "ultrazip_walk"
    if "HandleUltraZip" in fns and "lzo1x_decompress" in fns and kind == "SEGV":
        return "ultrazip_int_overflow"
    if "DecompressJpegRect" in fns:
        return "tight_jpeg16_overflow"
    if "FilterGradient" in fns and rw == "WRITE" and kind in ("heap-buffer-overflow", "use-after-poison") and (FIXMASK & 2):
        # with the row-count check of 0870444 in place the gradient filter only leaves the framebuffer through the
        # unconditional first-pixel store of a zero-width rectangle
        return "tight_gradient_w0"
    if "FilterGradient" in fns and kind == "stack-buffer-overflow":
        return "tight_wide_gradient"
    if ("Filter" in fns or "HandleTight" in fns) and kind in ("heap-buffer-overflow", "use-after-poison"):
        return "tight_extra_rows" if rw == "WRITE" else "tight_buffer_overread"
    if "HandleTRLE" in fns and "ReadFromRFBServer" in fns and rw == "WRITE":
        return "trle_rle_overflow"
    if "HandleZRLETile24" in fns and rw == "READ" and kind == "heap-buffer-overflow" and (FIXMASK & 32):
        # with the remaining-data checks of 112b5b7 in place the only over-read left in the 24-bit instances is the
        # 4-byte read of the last 3-byte CPIXEL of the scratch area
        return "zrle_cpixel24_tail"
    if "HandleZRLE" in fns and rw == "READ" and kind == "heap-buffer-overflow":
        return "zrle_overread"
    if "HandleZRLETile" in fns and rw == "READ" and kind == "stack-buffer-overflow":
        return "zrle_palette_index"
    return "other:%s:%s:%s" % (kind, rw, fns.split("<")[0])


OOB_CAUSE = {79: "tight_gradient_w0", 45: "ultrazip_int_overflow", 40: "ultrazip_walk", 41: "ultrazip_walk", 77: "tight_extra_rows", 78: "tight_wide_gradient", 73: "tight_wide_gradient",
             76: "tight_wide_gradient", 70: "tight_wide_gradient", 74: "tight_buffer_overread", 75: "tight_extra_rows",
             72: "tight_extra_rows", 50: "trle_rle_overflow", 51: "trle_rle_overflow", 52: "trle_rle_overflow",
             53: "trle_rle_overflow", 55: "trle_rle_overflow", 31: "zrle_overread", 32: "zrle_overread", 33: "zrle_overread",
             35: "zrle_overread", 36: "zrle_overread", 38: "zrle_overread", 39: "zrle_overread", 42: "zrle_overread",
             43: "zrle_overread", 47: "zrle_overread", 44: "zrle_palette_index", 34: "zrle_palette_index"}


CPIX_CODES = (32, 36, 39, 42, 47)      # Oob codes of cpix_at: a CPIXEL read that leaves the scratch area
FIXMASK = 0


def oob_cause(code):
    if (FIXMASK & 32) and code in CPIX_CODES:
        return "zrle_cpixel24_tail"
    return OOB_CAUSE.get(code, "oob%d" % code)


WITNESSES = [("w_ultrazip.script", 0), ("w_tightrows.script", 1), ("w_tightgrad.script", 2), ("w_tightnoz.script", 3),
             ("w_trle.script", 4), ("w_zrleneg.script", 5), ("w_zrlepal.script", 6),
             ("w_zrle_cpixel24.script", 8), ("w_ultrazip_hugew.script", 9), ("w_tightgrad_w0.script", 10)]


def with_fixed(tok, mask):
    out = []
    for l in tok:
        out.append(l)
        if l.startswith("init "):
            out.append("fixed %d" % mask)
    return out


def probe_fixes(cexe, mexe):
    """which of the proposed fixes (notes/fix_C08_*.diff) does the code under test contain?  A defect counts as
    fixed when its witness does not trip the sanitizer AND the implementation behaves exactly like the mirror
    with that fix switched on; otherwise the unchanged control flow is assumed (and compared)."""
    # notes/fix_C07_4.diff (ZRLE raw_buffer sized by the worst case): changes the scratch size every ZRLE witness sees
    script = "\n".join(C07.PROBE_ZBOUND) + "\n"
    rc1, cout, cerr = vlib.run_driver([cexe, "20"], script, timeout=120)
    rc2, mout, merr = vlib.run_driver([mexe, "dec"], script, timeout=120, unlimited_stack=True)
    il = vlib.split_cases(cout)
    ml = vlib.split_cases(mout)
    zb = 4096 if (il and ml and [l for l in il[0][1] if not l.startswith("verdict ")] == ml[0][1] and "end ok" in ml[0][1]) else 0
    mask = zb
    cdir = os.path.join(vlib.VERIF, "corpus", PID)
    for fn, bit in WITNESSES:
        path = os.path.join(cdir, fn)
        if not os.path.exists(path):
            continue
        lines = [l for l in open(path).read().split("\n") if l.strip() and not l.startswith("#")]
        tok = with_fixed(lines, (1 << bit) | zb)
        rc1, cout, cerr = vlib.run_driver([cexe, "20"], "\n".join(tok) + "\n", timeout=120)
        il = vlib.split_cases(cout)
        il = il[0][1] if il else ["verdict missing"]
        verdict = next((l for l in il if l.startswith("verdict ")), "verdict missing")
        if verdict != "verdict ok":
            continue
        rc2, mout, merr = vlib.run_driver([mexe, "dec"], "\n".join(tok) + "\n", timeout=120, unlimited_stack=True)
        ml = vlib.split_cases(mout)
        ml = ml[0][1] if ml else []
        if C07.compare_lines([l for l in il if not l.startswith("verdict ")], ml) is None and "end desync" not in ml:
            mask |= 1 << bit
    # notes/fix_C07_1.diff (15-bit CPIXEL instances): probed with the C07 probe on this harness
    script = "\n".join(C07.PROBE_CP15) + "\n"
    rc1, cout, cerr = vlib.run_driver([cexe, "20"], script, timeout=120)
    rc2, mout, merr = vlib.run_driver([mexe, "dec"], script, timeout=120, unlimited_stack=True)
    il = vlib.split_cases(cout)
    ml = vlib.split_cases(mout)
    if il and ml and [l for l in il[0][1] if not l.startswith("verdict ")] == ml[0][1] and "end ok" in ml[0][1]:
        mask |= 128
    # notes/fix_C07_3.diff (ZRLE inflate stream of its own): a Zlib rectangle followed by a ZRLE rectangle
    script = "\n".join(C07.PROBE_ZSTREAM) + "\n"
    rc1, cout, cerr = vlib.run_driver([cexe, "20"], script, timeout=120)
    rc2, mout, merr = vlib.run_driver([mexe, "dec"], script, timeout=120, unlimited_stack=True)
    il = vlib.split_cases(cout)
    ml = vlib.split_cases(mout)
    if il and ml and [l for l in il[0][1] if not l.startswith("verdict ")] == ml[0][1] and "end ok" in ml[0][1]:
        mask |= 2048
    return mask


def run_all(cexe, mexe, cases, limit=6):
    script = "\n".join("\n".join(c["tok"]) for c in cases) + "\n"
    rc1, cout, cerr = vlib.run_driver([cexe, str(limit)], script, timeout=3000)
    mcases = [c for c in cases if c["kind"] != "implonly"]
    mscript = "\n".join("\n".join(c["tok"]) for c in mcases) + "\n"
    rc2, mout, merr = vlib.run_driver([mexe, "dec"], mscript, timeout=3000, unlimited_stack=True)
    return (rc1, cout, cerr), (rc2, mout, merr)


def judge(case, il, ml):
    """-> (oracle_error or None, mismatch or None, cause)"""
    verdict = next((l for l in il if l.startswith("verdict ")), "verdict missing")
    body = [l for l in il if not l.startswith("verdict ")]
    cause = cause_of(verdict)
    if cause is not None and cause.startswith("other") and jpeg16_big(case):
        # C08-F28 without a clean sanitizer report: libjpeg (not instrumented) has overwritten the members of rfbClient
        # behind client->buffer, the process dies later (rfbClientCleanup, the next message, the sanitizer itself)
        cause = "tight_jpeg16_overflow"
    oerr = None
    if cause is not None:
        oerr = "memory-safety / liveness violated on the implementation: " + verdict[8:]
    mism = None
    if ml is not None:
        mend = next((l for l in ml if l.startswith("end ")), "")
        if mend.startswith("end oob"):
            code = int(mend.split()[2])
            if cause is None:
                # the mirror says the C path leaves an object, the run shows no sanitizer report
                iend = next((l for l in body if l.startswith("end ")), "")
                if not (iend.startswith("end fail") or iend.startswith("end eof")):
                    mism = ("model-oob", code, oob_cause(code))
        elif "end desync" in ml:
            pass
        elif cause is None:
            # compare up to the first desync-free end of the model
            d = C07.compare_lines(body, ml)
            if d is not None:
                mism = ("diff", d)
    return oerr, mism, cause


def check(ctx):
    cexe, mexe, proof_ok = build(ctx)
    rng = ctx.rng
    cases = []
    global FIXMASK
    fixmask = FIXMASK = probe_fixes(cexe, mexe)
    ctx.coverage["fixes_detected_mask"] = fixmask
    # corpus: confirmed witnesses first
    cdir = os.path.join(vlib.VERIF, "corpus", PID)
    if os.path.isdir(cdir):
        for fn in sorted(os.listdir(cdir)):
            if fn.endswith(".script"):
                lines = [l for l in open(os.path.join(cdir, fn)).read().split("\n") if l.strip() and not l.startswith("#")]
                cases.append(dict(tok=lines, tags=["corpus:" + fn],
                                  kind="implonly" if any(l.startswith("hsraw") for l in lines) else "model"))
    nmut = 700 if ctx.quick() else 8000
    nspec = 500 if ctx.quick() else 6000
    nhs = 250 if ctx.quick() else 3000
    ngar = 150 if ctx.quick() else 2000
    base = [gen_mutated(ctx, i) for i in range(nmut)]
    C07.encode(mexe, base)
    for c in base:
        W, H = c["W"], c["H"]
        tok, tags = mutate_tokens(rng, c["tok"], max(W, 1), max(H, 1))
        tok = [l for l in tok]
        tok.insert(2, "dump 0")
        cases.append(dict(tok=tok, tags=tags, kind="model"))
    for i in range(nspec):
        cases.append(gen_special(rng, 0))
    for i in range(nhs):
        cases.append(gen_handshake(rng, 0))
    for i in range(ngar):
        cases.append(gen_garbage(rng, 0))
    for i, c in enumerate(cases):      # renumber
        p = c["tok"][0].split(" ", 2)
        c["tok"][0] = "case %d %s" % (i, p[2] if len(p) > 2 else "")
        c["tok"] = with_fixed(c["tok"], fixmask)
    (rc1, cout, cerr), (rc2, mout, merr) = run_all(cexe, mexe, cases)
    cc = vlib.split_cases(cout)
    mc = vlib.split_cases(mout)
    mi = 0
    hist, distinct = {}, set()
    ofail, mism = [], []
    verdicts = {}
    for idx, c in enumerate(cases):
        il = cc[idx][1] if idx < len(cc) else ["verdict missing"]
        ml = None
        if c["kind"] != "implonly":
            ml = mc[mi][1] if mi < len(mc) else []
            mi += 1
        oerr, mm, cause = judge(c, il, ml)
        for t in c["tags"]:
            hist[t] = hist.get(t, 0) + 1
        mend = next((l for l in (ml or []) if l.startswith("end ")), "-")
        iend = next((l for l in il if l.startswith("end ")), "-")
        distinct.add((tuple(sorted(set(c["tags"]))), iend.split(" ")[1] if " " in iend else iend, mend.split(" ")[1] if " " in mend else mend))
        verdicts[cause or "ok"] = verdicts.get(cause or "ok", 0) + 1
        if oerr:
            ofail.append((idx, oerr, cause))
        if mm:
            mism.append((idx, mm))
    if rc2 != 0:
        mism.append((0, ("diff", (0, "-", "model driver died: " + merr[-300:]))))
    ctx.coverage.update(
        evaluations=len(cases), distinct_nontrivial=len(distinct),
        rule="malformed server streams run on the real client (ASan, guard bands, watchdog, one process per case) and on the "
             "extracted mirror; distinct_nontrivial = distinct (mutation tags, implementation outcome, model outcome)",
        samples=[cases[i]["tok"][:5] for i in (0, len(cases) // 2, len(cases) - 1)],
        input_distribution=hist, implementation_verdicts=verdicts, correspondence_mismatches=len(mism),
        oracle_failures=len(ofail))
    ctx.assumptions += ["zlib/LZO are opaque letters of the model's input alphabet (exercised with the real libraries)",
                        "the mirror cannot exhibit use-after-free or third-party-library defects: sampled under ASan only"]
    seen = {}
    for idx, oerr, cause in ofail:
        seen[cause] = seen.get(cause, 0) + 1
        if seen[cause] > (2 if cause.startswith("other") else 1):
            continue
        c = cases[idx]
        il = cc[idx][1] if idx < len(cc) else []
        ctx.violation(oerr, {"cause": cause, "tags": ",".join(sorted(set(c["tags"])))[:80]},
                      "script:\n" + "\n".join(c["tok"]) + "\n\nimplementation output:\n" + "\n".join(l[:300] for l in il))
    known_oob = {m[1][2] for m in mism if m[1][0] == "model-oob"}
    diffs = [m for m in mism if m[1][0] == "diff"]
    oobs = [m for m in mism if m[1][0] == "model-oob"]
    for idx, mm in oobs[:50]:
        # the mirror predicts an out-of-bounds access that the sanitizer did not see (e.g. a stack over-read
        # that stays inside the frame): reported as a finding of its own class
        c = cases[idx]
        ctx.violation("the mirror of the C code leaves an object (Oob %d) on a stream the sanitizer run accepts" % mm[1],
                      {"cause": mm[2], "evidence": "model"}, "script:\n" + "\n".join(c["tok"]) + "\n")
    if diffs and not ctx.violations:
        idx, mm = diffs[0]
        c = cases[idx]
        il = cc[idx][1] if idx < len(cc) else []
        ctx.violation("correspondence Dec/Cli*.v <-> libvncclient no longer holds on malformed streams (%d cases differ); no "
                      "memory-safety or liveness failure was observed on the implementation" % len(diffs),
                      {"kind": "correspondence"},
                      "correspondence: coq/Dec/CliMsg.v (handle_msg) vs HandleRFBServerMessage\nfirst difference: %r\nscript:\n" % (mm[1],) +
                      "\n".join(c["tok"]) + "\n\nimplementation output:\n" + "\n".join(l[:300] for l in il), no_input=True)
    ctx.coverage["correspondence_diffs"] = len(diffs)
    if not proof_ok and not ctx.violations:
        vlib.report_proof_failure(ctx, "%d malformed streams were run without exhibiting a new failing input." % len(cases))


def replay(ctx, path):
    txt = open(path).read()
    if "script:\n" not in txt:
        print("replay names a theorem/correspondence, re-running the full check")
        return check(ctx)
    body = txt.split("script:\n", 1)[1].split("\n\n", 1)[0]
    lines = [l for l in body.split("\n") if l.strip()]
    cexe, mexe, _ = build(ctx)
    global FIXMASK
    FIXMASK = probe_fixes(cexe, mexe)
    lines = with_fixed([l for l in lines if not l.startswith("fixed ")], FIXMASK)
    case = dict(tok=lines, tags=["replay"], kind="implonly" if any(l.startswith("hsraw") for l in lines) else "model")
    (rc1, cout, cerr), (rc2, mout, merr) = run_all(cexe, mexe, [case])
    cc, mc = vlib.split_cases(cout), vlib.split_cases(mout)
    il = cc[0][1] if cc else ["verdict missing"]
    ml = mc[0][1] if mc and case["kind"] != "implonly" else None
    print("implementation:\n" + "\n".join(l[:300] for l in il) + "\nmodel:\n" + "\n".join(l[:300] for l in (ml or [])))
    oerr, mm, cause = judge(case, il, ml)
    ctx.coverage.update(evaluations=1, distinct_nontrivial=0, rule="replay", samples=[lines[:4]])
    if oerr:
        ctx.violation(oerr, {"cause": cause}, "script:\n" + "\n".join(lines) + "\n\nimplementation output:\n" + "\n".join(l[:300] for l in il))
    elif mm and mm[0] == "model-oob":
        ctx.violation("the mirror of the C code leaves an object (Oob %d)" % mm[1], {"cause": mm[2], "evidence": "model"}, "script:\n" + "\n".join(lines) + "\n")
    elif mm:
        ctx.violation("correspondence differs on the replayed script", {"kind": "correspondence"},
                      "script:\n" + "\n".join(lines) + "\n", no_input=True)
