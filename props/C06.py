"""C06 - Input events reach the application exactly when permitted, unaltered, in order.

Proof: coq/Props/Properties_C06.v - theorems about the executable mirror model
Session/InputDefs.v (reader over fragmented streams, handshake/normal message handlers,
view-only / pointer-ownership gating, one rfbProcessEvents pass over several connections).
Tie: (a) message numbers, sizes, field offsets, state codes, the 1 MiB limit are regenerated
from /repo on every run (Gen/Consts_C06.v) and the theorems re-proved over them;
(b) correspondence: the extracted model (ocaml/driver_C06.ml) and the real library
(harness/vdrv_input.c; socketpair connections, select() interposed so that every fragment
arrives exactly when the server waits for it) execute the same session scripts; after every
script line the callback log, every connection's state / view-only flag / scaled size /
pointer bookkeeping and the pointer owner are compared exactly.
Independently of the mirror model the property itself is evaluated on the implementation's
output: a message-level specification machine (no bytes, no fragments) predicts the callback
list; the same session cut in different ways must give the same log; every callback must come
from a connection that was in RFB_NORMAL and not view-only on the previous line.
"""
import json, os, shutil, struct, sys
import vlib

VARIANT = 0        # 0 = the library behaves like /repo HEAD; a set bit = that former defect is back (detect_variant)
PID = "C06"
PROP_FILE = "Props/Properties_C06.v"
EXTRACT = "Extract/Extract_C06.vo"
LIMIT = 1 << 20
SHOWLEN = 32

# ------------------------------------------------------------------ wire encoders (python, independent of the model)
def m_key(down, key):
    return bytes([4, down & 255, 0, 0]) + struct.pack(">I", key)

def m_ptr(mask, x, y):
    return bytes([5, mask & 255]) + struct.pack(">HH", x, y)

def m_cut_hdr(length):
    return bytes([6, 0, 0, 0]) + struct.pack(">I", length & 0xFFFFFFFF)

def m_cut(text):
    return m_cut_hdr(len(text)) + text

def m_spf():
    return bytes([0, 0, 0, 0, 32, 24, 0, 1]) + struct.pack(">HHH", 255, 255, 255) + bytes([16, 8, 0, 0, 0, 0])

def m_fur(incr, x, y, w, h):
    return bytes([3, incr]) + struct.pack(">HHHH", x, y, w, h)

def m_setenc(encs):
    return bytes([2, 0]) + struct.pack(">H", len(encs)) + b"".join(struct.pack(">I", e & 0xFFFFFFFF) for e in encs)

def m_scale(n, palm=False):
    return bytes([15 if palm else 8, n & 255, 0, 0])

def m_setsw(rng):
    return bytes([10, rng.randrange(256)]) + struct.pack(">HH", rng.randrange(65536), rng.randrange(65536))

def m_setserverinput(rng):
    return bytes([9, rng.randrange(256), rng.randrange(256), rng.randrange(256)])

def m_xvp(rng):
    return bytes([250, 0, 1, rng.choice([2, 3, 4])])

def m_textchat(rng):
    k = rng.random()
    if k < 0.3:
        return bytes([11, 0, 0, 0]) + struct.pack(">I", rng.choice([0xFFFFFFFF, 0xFFFFFFFE, 0xFFFFFFFD]))
    n = rng.choice([1, 2, 17, 4095])
    return bytes([11, 0, 0, 0]) + struct.pack(">I", n) + bytes(rng.randrange(256) for _ in range(n))

def m_setdesktopsize(rng):
    n = rng.choice([0, 1, 2])
    return bytes([251, 0]) + struct.pack(">HH", 64, 48) + bytes([n, 0]) + bytes(rng.randrange(256) for _ in range(16 * n))


def fnv(b):
    h = 0xcbf29ce484222325
    for x in b:
        h = ((h ^ x) * 0x100000001b3) & 0xFFFFFFFFFFFFFFFF
    return h


def fmt_text(b):
    if len(b) == 0:
        return "-"
    if len(b) <= SHOWLEN:
        return b.hex()
    return "#%016x" % fnv(b)


# ------------------------------------------------------------------ fragmentation
def cut_at(data, cuts):
    cuts = sorted(set(c for c in cuts if 0 < c < len(data)))
    out, prev = [], 0
    for c in cuts + [len(data)]:
        out.append(data[prev:c])
        prev = c
    return out


def fragment(rng, data, mode=None, boundaries=()):
    """list of byte strings whose concatenation is data"""
    n = len(data)
    if n == 0:
        return [b""]
    if mode is None:
        mode = rng.choice(["whole", "bytes", "rand", "rand", "type", "fields", "empty", "tail"])
    if mode == "whole":
        fr = [data]
    elif mode == "bytes":
        if n <= 96:
            fr = [data[i:i + 1] for i in range(n)]
        else:
            fr = [data[i:i + 1] for i in range(40)] + cut_at(data[40:], [rng.randrange(1, n - 40) for _ in range(6)])
    elif mode == "rand":
        fr = cut_at(data, [rng.randrange(1, n) for _ in range(rng.randint(1, 6))] if n > 1 else [])
    elif mode == "type":
        fr = cut_at(data, [1])
    elif mode == "fields":
        fr = cut_at(data, list(boundaries) + [b + rng.choice([-1, 1]) for b in boundaries])
    elif mode == "tail":
        fr = cut_at(data, [n - 1])
    else:
        fr = []
        for f in cut_at(data, [rng.randrange(1, n) for _ in range(3)] if n > 1 else []):
            if rng.random() < 0.5:
                fr.append(b"")
            fr.append(f)
        fr.append(b"")
    return fr


def frag_text(fr):
    return ",".join(f.hex() if f else "-" for f in fr)


# ------------------------------------------------------------------ semantic cases
class Case:
    """steps: list of dicts.
       {'k':'screen', w,h,npw,firstvo,never,always,dontdisc,deferptr,utf8}
       {'k':'connect','c':id,'vo':0/1[,'hold':1]}     hold: newClientHook answers RFB_CLIENT_ON_HOLD
       {'k':'release','c':id}                         rfbStartOnHoldClient
       {'k':'rev','c':id}                             rfbReverseConnection marks the connection it just made
       {'k':'udpon','hold':0/1} {'k':'udp','data':hex}   the UDP input channel: open the port; one datagram + one pass
       {'k':'hs','c':id,'what':'ver'|'sec'|'auth'|'init', 'data':hex | 'pw':k,'sizes':[..]}
       {'k':'msg','c':id,'data':hex,'sem':[...]}      sem = message-level meaning, see spec()
       {'k':'raw','c':id,'data':hex}                  bytes with no message-level meaning (oracle: unknown)
       {'k':'p','n':count} {'k':'eof','c':id} {'k':'vo','c':id,'v':0/1} {'k':'tick','ms':n} {'k':'sx',fw,tw,x}
       every step carrying data may have 'fr': list of hex fragments (a cut of data)"""
    def __init__(self, kind, steps, sequential=True):
        self.kind, self.steps, self.sequential = kind, steps, sequential
        self.pair = None       # index of the case this one must agree with (same session, other cut)

    def lines(self, idx):
        L = ["case %d %s" % (idx, self.kind)]
        for s in self.steps:
            k = s["k"]
            if k == "screen":
                L.append("screen %d %d %d %d %d %d %d %d %d %d" % (s["w"], s["h"], s["npw"], s["firstvo"], s["never"],
                                                                 s["always"], s["dontdisc"], s["deferptr"], s["utf8"], VARIANT))
            elif k == "connect":
                L.append("%s %d %d" % ("hconnect" if s.get("hold") else "connect", s["c"], s["vo"]))
            elif k == "release":
                L.append("release %d" % s["c"])
            elif k == "rev":
                L.append("rev %d" % s["c"])
            elif k == "udpon":
                L.append("udpon %d" % s["hold"])
            elif k == "udp":
                L.append("udp %s" % s["data"])
            elif k == "hs" and s["what"] == "auth":
                L.append("auth %d %d %s" % (s["c"], s["pw"], ",".join(map(str, s["sizes"]))))
            elif k in ("hs", "msg", "raw"):
                fr = s.get("fr") or [s["data"]]
                L.append("send %d %s" % (s["c"], ",".join(f if f else "-" for f in fr)))
            elif k == "p":
                L += ["p"] * s["n"]
            elif k == "eof":
                L.append("eof %d" % s["c"])
            elif k == "vo":
                L.append("vo %d %d" % (s["c"], s["v"]))
            elif k == "tick":
                L.append("tick %d" % s["ms"])
            elif k == "sx":
                L.append("sx %d %d %d" % (s["fw"], s["tw"], s["x"]))
        return L


def screen_step(w=100, h=80, npw=0, firstvo=0, never=0, always=0, dontdisc=0, deferptr=0, utf8=0):
    return dict(k="screen", w=w, h=h, npw=npw, firstvo=firstvo, never=never, always=always,
                dontdisc=dontdisc, deferptr=deferptr, utf8=utf8)


def with_frags(rng, step, mode=None, boundaries=()):
    data = bytes.fromhex(step["data"])
    step["fr"] = [f.hex() for f in fragment(rng, data, mode, boundaries)]
    return step


def handshake(rng, c, scr, minor=8, pw=None, shared=1, vo=0, frag=True, burst=False, rev=False):
    """steps that bring connection c to RFB_NORMAL (or to failure when pw is wrong)"""
    S = [dict(k="connect", c=c, vo=vo)]
    if rev:
        S.append(dict(k="rev", c=c))
    ver = ("RFB 003.%03d\n" % minor).encode()
    def snd(what, data):
        st = dict(k="hs", c=c, what=what, data=data.hex())
        if frag:
            with_frags(rng, st)
        return st
    haspw = scr["npw"] > 0 and not rev
    if burst and not haspw:
        # everything at once; the server still takes one state per rfbProcessEvents
        data = ver + (bytes([1]) if minor >= 7 else b"") + (bytes([shared]) if minor != 889 else b"")
        st = dict(k="hs", c=c, what="burst", data=data.hex(), minor=minor, shared=shared)
        if frag:
            with_frags(rng, st)
        S += [st, dict(k="p", n=3)]
        return S
    S += [snd("ver", ver), dict(k="p", n=1)]
    if minor >= 7:
        S += [dict(k="hs", c=c, what="sec", data=bytes([2 if haspw else 1]).hex()), dict(k="p", n=1)]
    if haspw:
        k = pw if pw is not None else 0
        sizes = rng.choice([[16], [1, 15], [8, 8], [1] * 16, [15, 1], [0, 16], [5, 0, 11]])
        S += [dict(k="hs", c=c, what="auth", pw=k, sizes=sizes), dict(k="p", n=1)]
    if minor != 889 or haspw:
        S += [dict(k="hs", c=c, what="init", data=bytes([shared]).hex()), dict(k="p", n=1)]
    return S


# ------------------------------------------------------------------ message generators (with message-level meaning)
KEY_BOUND = [0, 1, 0x20, 0x61, 0xFF, 0x100, 0xFFFF, 0x10000, 0xFF0D, 0xFFE1, 0x7FFFFFFF, 0x80000000, 0xFFFFFFFF]
COORD_BOUND = [0, 1, 2, 29, 57, 58, 99, 100, 255, 256, 32767, 32768, 65534, 65535]


def gen_input_msg(rng, big=False):
    r = rng.random()
    if r < 0.35:
        down = rng.choice([0, 1, 1, 1, 2, 127, 128, 255])
        key = rng.choice(KEY_BOUND) if rng.random() < 0.5 else rng.randrange(1 << 32)
        return dict(k="msg", data=m_key(down, key).hex(), sem=["key", down, key]), (1, 4)
    if r < 0.75:
        mask = rng.choice([0, 0, 1, 1, 2, 4, 8, 16, 128, 255, rng.randrange(256)])
        x = rng.choice(COORD_BOUND) if rng.random() < 0.5 else rng.randrange(65536)
        y = rng.choice(COORD_BOUND) if rng.random() < 0.5 else rng.randrange(65536)
        return dict(k="msg", data=m_ptr(mask, x, y).hex(), sem=["ptr", mask, x, y]), (1, 2, 4)
    n = rng.choice([0, 0, 1, 2, 5, 31, 32, 33, 255, 256, 1000, 4096, 65536 if big else 300])
    kind = rng.random()
    if kind < 0.4:
        text = bytes(rng.randrange(256) for _ in range(n))
    elif kind < 0.6:
        text = bytes([0] * n)
    elif kind < 0.8:
        text = bytes((i * 7 + 3) & 255 for i in range(n))
    else:
        text = bytes(rng.choice([0, 255, 0x80, 10, 13]) for _ in range(n))
    return dict(k="msg", data=m_cut(text).hex(), sem=["cut", text.hex()]), (1, 4, 8)


def gen_other_msg(rng, scalable=True):
    r = rng.random()
    if r < 0.2:
        return dict(k="msg", data=m_spf().hex(), sem=["noop", "SetPixelFormat"]), (1, 4)
    if r < 0.4:
        return dict(k="msg", data=m_fur(rng.randrange(2), rng.randrange(50), rng.randrange(40), rng.randrange(1, 50), rng.randrange(1, 40)).hex(),
                    sem=["noop", "FramebufferUpdateRequest"]), (1, 2, 6)
    if r < 0.6:
        encs = [rng.choice([0, 1, 2, 5, 16, -239, -223, -224, 0xFFFFFF11, 0xC0A1E5CE, 7, 1234567]) for _ in range(rng.choice([0, 1, 2, 5]))]
        return dict(k="msg", data=m_setenc(encs).hex(), sem=["noop", "SetEncodings"]), (1, 2, 4, 8)
    if r < 0.68:
        return dict(k="msg", data=m_setsw(rng).hex(), sem=["noop", "SetSW"]), (1,)
    if r < 0.76:
        return dict(k="msg", data=m_setserverinput(rng).hex(), sem=["noop", "SetServerInput"]), (1,)
    if r < 0.84:
        return dict(k="msg", data=m_xvp(rng).hex(), sem=["noop", "Xvp"]), (1,)
    if r < 0.92:
        return dict(k="msg", data=m_textchat(rng).hex(), sem=["noop", "TextChat"]), (1, 4, 8)
    return dict(k="msg", data=m_setdesktopsize(rng).hex(), sem=["noop", "SetDesktopSize"]), (1, 6, 8)


def gen_bad_msg(rng):
    r = rng.random()
    if r < 0.3:
        t = rng.choice([12, 13, 14, 16, 100, 249, 252, 255, 128])
        return dict(k="msg", data=bytes([t, 1, 2, 3]).hex(), sem=["close", "unknown type %d" % t])
    if r < 0.5:
        return dict(k="msg", data=bytes([1, 0, 0, 0, 0, 0]).hex(), sem=["close", "FixColourMapEntries"])
    if r < 0.7:
        ln = rng.choice([LIMIT + 1, LIMIT + 2, 0x7FFFFFFF, 0x80000000, 0xFFFFFFFF, 0xFFFFFFFC, 2 * LIMIT])
        return dict(k="msg", data=(m_cut_hdr(ln) + b"abcd").hex(), sem=["close", "cut text length %d" % ln])
    if r < 0.85:
        return dict(k="msg", data=bytes([8, 0, 0, 0]).hex(), sem=["close", "scale 0"])
    return dict(k="msg", data=(bytes([11, 0, 0, 0]) + struct.pack(">I", rng.choice([0, 4096, 5000, 0x7FFFFFFF]))).hex(),
                sem=["close", "text chat length"])


# ------------------------------------------------------------------ message-level specification machine (the oracle)
UDP_ID = 255       # the id under which the harness reports callbacks made for screen->udpClient


def exact_unscale(x, fw, tw):
    return (x * tw) // fw


class Spec:
    """What the property says, at the level of whole messages.  Only for sequential cases
    (one connection has pending bytes at a time).  Returns the expected callback list or None
    when the case leaves the specified territory."""
    def __init__(self):
        self.cl = {}
        self.holder = None
        self.scr = None
        self.known_scale = False     # a pointer position went through a non-trivial scale factor
        self.alt = {}                # index in the expected list -> what the binary64 formula on record yields (finding F17)
        self.udp = None              # None: port closed; else {'hold': bool}

    def one_pass(self, exp):
        """one rfbProcessEvents: every connection that is not on hold handles its next whole message"""
        busy = [i for i, c in self.cl.items() if c["phase"] != "closed" and c["pend"] and not c.get("held")]
        if len(busy) > 1:
            return None          # not sequential
        closed_now = []
        for i in busy:
            r = self.one(i, exp)
            if r is None:
                return None
            if self.cl[i]["phase"] == "closed":
                closed_now.append(i)
        for i in closed_now:
            if self.holder == i:
                self.holder = None
        return True

    def udp_datagram(self, d, exp):
        """the property for the UDP channel: input only through an open port, never on a screen that requires a
        password, never while the channel's client is on hold; a well-formed datagram is delivered unaltered
        (attributed to the UDP client, id 255), anything else is dropped"""
        if self.udp is None or self.udp["hold"] or self.scr["npw"] > 0:
            return
        if len(d) == 8 and d[0] == 4:
            exp.append("K:%d:%d:%d" % (UDP_ID, d[1], int.from_bytes(d[4:8], "big")))
        elif len(d) == 6 and d[0] == 5:
            exp.append("P:%d:%d:%d:%d" % (UDP_ID, d[1], int.from_bytes(d[2:4], "big"), int.from_bytes(d[4:6], "big")))

    def run(self, steps):
        exp = []
        order = []        # connect order, newest first
        for s in steps:
            k = s["k"]
            if k == "screen":
                self.scr = s
            elif k == "connect":
                self.cl[s["c"]] = dict(phase="ver", vo=bool(s["vo"]), minor=None, scale=(self.scr["w"], self.scr["h"]), pend=[],
                                       held=bool(s.get("hold")))
            elif k == "release":
                if s["c"] in self.cl:
                    self.cl[s["c"]]["held"] = False
            elif k == "rev":
                if s["c"] in self.cl:
                    self.cl[s["c"]]["rev"] = True       # outgoing connection: no password asked, no sharing test
            elif k == "udpon":
                if self.udp is None:
                    self.udp = dict(hold=bool(s["hold"]))
            elif k == "udp":
                self.udp_datagram(bytes.fromhex(s["data"]), exp)
                if self.one_pass(exp) is None:
                    return None
            elif k == "vo":
                if s["c"] in self.cl:
                    self.cl[s["c"]]["vo"] = bool(s["v"])
            elif k in ("hs", "msg", "raw", "eof"):
                c = self.cl.get(s["c"])
                if c is None or c["phase"] == "closed":
                    continue
                c["pend"].append(s)
            elif k == "p":
                for _ in range(s["n"]):
                    if self.one_pass(exp) is None:
                        return None
            elif k == "tick":
                pass
        return exp

    def close(self, i):
        self.cl[i]["phase"] = "closed"
        self.cl[i]["pend"] = []

    def one(self, i, exp):
        """the server handles the next whole message of connection i"""
        c = self.cl[i]
        s = c["pend"].pop(0)
        scr = self.scr
        if s["k"] == "eof":
            self.close(i)
            return True
        if s["k"] == "raw":
            return None
        if s["k"] == "hs":
            w = s["what"]
            if w == "burst":
                # version, then (>=3.7) security type None, then ClientInit: one state per pass
                c["minor"] = s["minor"]
                seq = ["ver"] + (["sec"] if s["minor"] >= 7 else []) + (["init"] if s["minor"] != 889 else [])
                c["pend"] = [dict(k="hs", what="_" + x, shared=s["shared"]) for x in seq[1:]] + c["pend"]
                c["phase"] = "sec" if s["minor"] >= 7 else "init"
                return True
            if w in ("_sec", "_init"):
                if w == "_sec":
                    if c["minor"] == 889:
                        return self.enter_normal(i, 1)
                    c["phase"] = "init"
                    return True
                return self.enter_normal(i, s["shared"])
            if w == "ver":
                if c["phase"] != "ver":
                    return None
                txt = bytes.fromhex(s["data"])
                if len(txt) != 12 or not txt.startswith(b"RFB ") or txt[4:7] != b"003":
                    self.close(i)
                    return True
                c["minor"] = int(txt[8:11])
                if c["minor"] < 7:
                    c["phase"] = "auth" if (scr["npw"] > 0 and not c.get("rev")) else "init"
                else:
                    c["phase"] = "sec"
                return True
            if w == "sec":
                if c["phase"] != "sec":
                    return None
                t = bytes.fromhex(s["data"])[0]
                needpw = scr["npw"] > 0 and not c.get("rev")
                if t != (2 if needpw else 1):
                    self.close(i)
                elif needpw:
                    c["phase"] = "auth"
                elif c["minor"] == 889:
                    return self.enter_normal(i, 1)
                else:
                    c["phase"] = "init"
                return True
            if w == "auth":
                if c["phase"] != "auth":
                    return None
                if 0 <= s["pw"] < scr["npw"]:
                    if s["pw"] >= scr["firstvo"]:
                        c["vo"] = True          # view-only by password position
                    c["phase"] = "init"
                else:
                    self.close(i)
                return True
            if w == "init":
                if c["phase"] != "init":
                    return None
                return self.enter_normal(i, bytes.fromhex(s["data"])[0])
            return None
        # a normal-protocol message
        if c["phase"] != "normal":
            return None
        sem = s["sem"]
        if sem[0] == "key":
            if not c["vo"]:
                exp.append("K:%d:%d:%d" % (i, sem[1], sem[2]))
        elif sem[0] == "ptr":
            if self.holder is not None and self.holder != i:
                return True                      # another client holds a button: never reaches the callback
            self.holder = i if sem[1] != 0 else None
            if not c["vo"]:
                fw, fh = c["scale"]
                if (fw, fh) == (scr["w"], scr["h"]):
                    x, y = sem[2], sem[3]
                else:
                    if fw <= 0 or fh <= 0:
                        return None
                    x, y = exact_unscale(sem[2], fw, scr["w"]), exact_unscale(sem[3], fh, scr["h"])
                    self.known_scale = True
                    self.alt[len(exp)] = "P:%d:%d:%d:%d" % (i, sem[1], int((sem[2] / fw) * scr["w"]), int((sem[3] / fh) * scr["h"]))
                exp.append("P:%d:%d:%d:%d" % (i, sem[1], x, y))
        elif sem[0] == "cut":
            if not c["vo"]:
                t = bytes.fromhex(sem[1])
                exp.append("C:%d:%d:%s" % (i, len(t), fmt_text(t)))
        elif sem[0] == "scale":
            n = sem[1]
            w, h = scr["w"] // n, scr["h"] // n
            if h == 0 or w == 0:
                return None          # zero-sized scaled screen: C04/C17 territory
            c["scale"] = (w, h)
        elif sem[0] == "noop":
            pass
        elif sem[0] == "close":
            self.close(i)
        elif sem[0] == "stall":      # the message is incomplete and nothing more arrives: timeout, closed
            self.close(i)
        else:
            return None
        return True

    def enter_normal(self, i, shared):
        scr = self.scr
        c = self.cl[i]
        c["phase"] = "normal"
        if not c.get("rev") and (scr["never"] or (not scr["always"] and not shared)):
            others = [j for j, o in self.cl.items() if j != i and o["phase"] == "normal"]
            if scr["dontdisc"]:
                if others:
                    self.close(i)
            else:
                for j in others:
                    self.close(j)
                    if self.holder == j:
                        self.holder = None
        return True


# ------------------------------------------------------------------ case generators
def rnd_screen(rng, **kw):
    w, h = rng.choice([(100, 80), (64, 48), (33, 17), (200, 100), (1, 1), (255, 255)])
    return screen_step(w=w, h=h, **kw)


def msgs_for(rng, c, n, big=False, others=True):
    out = []
    for _ in range(n):
        if others and rng.random() < 0.25:
            st, b = gen_other_msg(rng)
        else:
            st, b = gen_input_msg(rng, big)
        st["c"] = c
        with_frags(rng, st, None, b)
        out.append(st)
    return out


def case_single(rng, big=False):
    scr = rnd_screen(rng)
    minor = rng.choice([3, 7, 8, 8, 8, 889, 5])
    steps = [scr] + handshake(rng, 0, scr, minor=minor, burst=rng.random() < 0.3)
    for st in msgs_for(rng, 0, rng.randint(3, 14), big):
        steps += [st, dict(k="p", n=1)]
    return Case("single", steps)


def case_burst(rng):
    """several messages concatenated and cut without regard to message boundaries"""
    scr = rnd_screen(rng)
    steps = [scr] + handshake(rng, 0, scr, minor=8)
    for _ in range(rng.randint(1, 3)):
        ms = msgs_for(rng, 0, rng.randint(2, 7))
        data = b"".join(bytes.fromhex(m["data"]) for m in ms)
        fr = fragment(rng, data, rng.choice(["whole", "bytes", "rand", "rand", "empty"]))
        # the burst is one send; the messages are queued for the specification one by one
        first = True
        for m in ms:
            m2 = dict(m)
            m2["fr"] = [f.hex() for f in fr] if first else None
            m2["silent"] = not first
            first = False
            steps.append(m2)
        steps.append(dict(k="p", n=len(ms) + 1))
    return Case("burst", steps)


def case_viewonly(rng):
    how = rng.choice(["pw", "hook", "app", "pw"])
    if how == "pw":
        npw = rng.randint(1, 4)
        firstvo = rng.randint(0, npw)
        scr = rnd_screen(rng, npw=npw, firstvo=firstvo)
        steps = [scr]
        for c in range(rng.randint(1, 3)):
            k = rng.choice(list(range(npw)) + [-1, npw])
            # the application's newClientHook may have marked the connection view-only BEFORE it authenticates:
            # view-only = application choice OR password position
            steps += handshake(rng, c, scr, minor=rng.choice([3, 7, 8]), pw=k, vo=rng.randrange(2))
            for st in msgs_for(rng, c, rng.randint(2, 5), others=False):
                steps += [st, dict(k="p", n=1)]
    elif how == "hook":
        scr = rnd_screen(rng)
        steps = [scr]
        for c in range(rng.randint(1, 3)):
            steps += handshake(rng, c, scr, vo=rng.randrange(2))
            for st in msgs_for(rng, c, rng.randint(2, 5), others=False):
                steps += [st, dict(k="p", n=1)]
    else:
        scr = rnd_screen(rng)
        steps = [scr] + handshake(rng, 0, scr)
        for _ in range(rng.randint(2, 5)):
            steps.append(dict(k="vo", c=0, v=rng.randrange(2)))
            for st in msgs_for(rng, 0, rng.randint(1, 4), others=False):
                steps += [st, dict(k="p", n=1)]
    return Case("viewonly", steps)


def case_vo_matrix(rng, npw, firstvo, k, appvo, minor):
    """password list with the first view-only index at every position x application view-only choice x right/wrong
    password: one connection, then one message of every input kind (real rfbCheckPasswordByList, real DES)"""
    scr = screen_step(npw=npw, firstvo=firstvo)
    steps = [scr] + handshake(rng, 0, scr, minor=minor, pw=k, vo=appvo)
    for st in (dict(k="msg", c=0, data=m_key(1, 0x61).hex(), sem=["key", 1, 0x61]),
               dict(k="msg", c=0, data=m_ptr(1, 3, 4).hex(), sem=["ptr", 1, 3, 4]),
               dict(k="msg", c=0, data=m_cut(b"abc").hex(), sem=["cut", b"abc".hex()]),
               dict(k="msg", c=0, data=m_ptr(0, 5, 6).hex(), sem=["ptr", 0, 5, 6])):
        with_frags(rng, st)
        steps += [st, dict(k="p", n=1)]
    return Case("vomatrix", steps)


def case_pointer(rng):
    """several clients compete for the pointer (lock-step: one message pending at a time)"""
    scr = rnd_screen(rng)
    n = rng.randint(2, 4)
    steps = [scr]
    for c in range(n):
        steps += handshake(rng, c, scr, vo=1 if rng.random() < 0.25 else 0, frag=False)
    alive = list(range(n))
    for _ in range(rng.randint(8, 30)):
        c = rng.choice(alive)
        r = rng.random()
        if r < 0.75:
            mask = rng.choice([0, 0, 0, 1, 1, 2, 4, 255])
            x, y = rng.randrange(65536), rng.randrange(65536)
            st = dict(k="msg", c=c, data=m_ptr(mask, x, y).hex(), sem=["ptr", mask, x, y])
        elif r < 0.85:
            key = rng.randrange(1 << 32)
            st = dict(k="msg", c=c, data=m_key(1, key).hex(), sem=["key", 1, key])
        elif r < 0.9:
            steps.append(dict(k="vo", c=c, v=rng.randrange(2)))
            continue
        elif r < 0.95 and len(alive) > 1:
            steps += [dict(k="eof", c=c), dict(k="p", n=1)]
            alive.remove(c)
            continue
        elif len(alive) > 1:
            st = gen_bad_msg(rng); st["c"] = c
            alive.remove(c)
        else:
            continue
        with_frags(rng, st)
        steps += [st, dict(k="p", n=1)]
    return Case("pointer", steps)


def case_scale(rng):
    w, h = rng.choice([(100, 80), (200, 100), (640, 480), (255, 255), (97, 89), (1000, 600)])
    scr = screen_step(w=w, h=h)
    steps = [scr] + handshake(rng, 0, scr, frag=False)
    for _ in range(rng.randint(1, 3)):
        n = rng.choice([1, 2, 2, 3, 4, 5, 7, 10, min(w, h, 255)])
        if n > min(w, h):
            n = 1
        st = dict(k="msg", c=0, data=m_scale(n, rng.random() < 0.3).hex(), sem=["scale", n])
        with_frags(rng, st)
        steps += [st, dict(k="p", n=1)]
        fw, fh = w // n, h // n
        for _ in range(rng.randint(3, 10)):
            x = rng.choice([0, 1, fw - 1, fw, 29, 57, rng.randrange(max(fw, 1)), rng.randrange(65536)])
            y = rng.choice([0, 1, fh - 1, fh, 29, rng.randrange(max(fh, 1)), rng.randrange(65536)])
            mask = rng.choice([0, 1])
            st = dict(k="msg", c=0, data=m_ptr(mask, x, y).hex(), sem=["ptr", mask, x, y])
            with_frags(rng, st, None, (1, 2, 4))
            steps += [st, dict(k="p", n=1)]
    return Case("scale", steps)


def case_cutlimit(rng, ln):
    scr = screen_step()
    steps = [scr] + handshake(rng, 0, scr, frag=False) + handshake(rng, 1, scr, frag=False)
    key = dict(k="msg", c=0, data=m_key(1, 0x41).hex(), sem=["key", 1, 0x41])
    steps += [key, dict(k="p", n=1)]
    if ln <= LIMIT:
        seedb = rng.randrange(256)
        text = bytes(((i * 131) ^ (i >> 8) ^ seedb) & 255 for i in range(ln))
        st = dict(k="msg", c=0, data=m_cut(text).hex(), sem=["cut", text.hex()])
        data = bytes.fromhex(st["data"])
        mode = rng.choice(["whole", "hdr", "rand"])
        if mode == "whole":
            fr = [data]
        elif mode == "hdr":
            fr = [data[:8], data[8:]] if ln else [data]
        else:
            fr = cut_at(data, [1, 7, 8, 9, rng.randrange(8, 8 + max(ln, 1)), 8 + ln - 1])
        st["fr"] = [f.hex() for f in fr]
    else:
        st = dict(k="msg", c=0, data=(m_cut_hdr(ln) + bytes(64)).hex(), sem=["close", "cut text length %d" % ln])
        with_frags(rng, st, rng.choice(["whole", "type", "rand"]))
    steps += [st, dict(k="p", n=1)]
    # the connection must still work (or be gone) afterwards; the other one is never affected
    k0 = dict(k="msg", c=0, data=m_key(0, 0x42).hex(), sem=["key", 0, 0x42])
    k1 = dict(k="msg", c=1, data=m_key(1, 0x43).hex(), sem=["key", 1, 0x43])
    steps += [k0, dict(k="p", n=1), k1, dict(k="p", n=1)]
    return Case("cutlimit", steps)


def case_malformed(rng):
    scr = rnd_screen(rng)
    steps = [scr] + handshake(rng, 0, scr, frag=False) + handshake(rng, 1, scr, frag=False)
    for st in msgs_for(rng, 0, rng.randint(0, 3)):
        steps += [st, dict(k="p", n=1)]
    r = rng.random()
    if r < 0.45:
        st = gen_bad_msg(rng); st["c"] = 0
        with_frags(rng, st)
        steps += [st, dict(k="p", n=1)]
    elif r < 0.8:
        # an incomplete message and then nothing: rfbReadExact times out
        m, _ = gen_input_msg(rng)
        data = bytes.fromhex(m["data"])
        cutpos = rng.randrange(1, len(data)) if len(data) > 1 else 1
        part = data[:cutpos] if len(data) > 1 else data
        if len(data) <= 1:
            return case_malformed(rng)
        st = dict(k="msg", c=0, data=part.hex(), sem=["stall"])
        with_frags(rng, st)
        steps += [st, dict(k="p", n=1)]
    else:
        m, _ = gen_input_msg(rng)
        data = bytes.fromhex(m["data"])
        if len(data) <= 1:
            return case_malformed(rng)
        part = data[:rng.randrange(1, len(data))]
        st = dict(k="msg", c=0, data=part.hex(), sem=["stall"])     # partial message then EOF: closed as well
        with_frags(rng, st)
        steps += [st, dict(k="eof", c=0), dict(k="p", n=1)]
    # afterwards: bytes for the dead connection are ignored, the other connection works
    k0 = dict(k="msg", c=0, data=m_key(1, 0x44).hex(), sem=["key", 1, 0x44])
    steps += [k0, dict(k="p", n=1)]
    for st in msgs_for(rng, 1, rng.randint(1, 4), others=False):
        steps += [st, dict(k="p", n=1)]
    return Case("malformed", steps)


def case_handshake_gate(rng):
    """input messages sent too early are handshake bytes, never events"""
    npw = rng.choice([0, 0, 2])
    scr = rnd_screen(rng, npw=npw, firstvo=rng.randint(0, 2))
    steps = [scr, dict(k="connect", c=0, vo=0)]
    junk = b"".join(rng.choice([m_key(1, rng.randrange(1 << 32)), m_ptr(1, 5, 5), m_cut(b"hello")]) for _ in range(rng.randint(1, 4)))
    hs = handshake(rng, 1, scr, pw=0 if npw else None)
    stage = rng.randrange(4)
    pre = [("RFB 003.008\n".encode(), "ver"), (bytes([2 if npw else 1]), "sec")]
    for d, w in pre[:min(stage, 2)]:
        steps += [dict(k="hs", c=0, what=w, data=d.hex()), dict(k="p", n=1)]
    st = dict(k="raw", c=0, data=junk.hex())
    with_frags(rng, st)
    steps += [st, dict(k="p", n=rng.randint(1, 4))]
    steps += hs
    for m in msgs_for(rng, 1, 3, others=False):
        steps += [m, dict(k="p", n=1)]
    return Case("hsgate", steps, sequential=False)


def case_concurrent(rng):
    """several connections have bytes pending at once; one rfbProcessEvents serves each once"""
    scr = rnd_screen(rng, never=1 if rng.random() < 0.1 else 0, dontdisc=rng.randrange(2) if rng.random() < 0.2 else 0)
    n = rng.randint(2, 5)
    steps = [scr]
    for c in range(n):
        steps += handshake(rng, c, scr, vo=1 if rng.random() < 0.2 else 0, frag=False,
                           shared=0 if rng.random() < 0.15 else 1, minor=rng.choice([3, 7, 8]))
    for _ in range(rng.randint(2, 8)):
        for c in rng.sample(range(n), rng.randint(1, n)):
            for _ in range(rng.randint(1, 3)):
                if rng.random() < 0.06:
                    st = gen_bad_msg(rng)
                elif rng.random() < 0.6:
                    mask = rng.choice([0, 0, 1, 2])
                    x, y = rng.randrange(200), rng.randrange(200)
                    st = dict(k="msg", data=m_ptr(mask, x, y).hex(), sem=["ptr", mask, x, y])
                else:
                    st, _ = gen_input_msg(rng)
                st["c"] = c
                with_frags(rng, st)
                steps.append(st)
        if rng.random() < 0.1:
            steps.append(dict(k="eof", c=rng.randrange(n)))
        steps.append(dict(k="p", n=rng.randint(1, 3)))
    steps.append(dict(k="p", n=4))
    return Case("concurrent", steps, sequential=False)


def case_defer(rng):
    """pointer coalescing on (deferPtrUpdateTime > 0): one client, pointer messages, virtual time"""
    d = rng.choice([1, 5, 10, 50, 999, 1000, 1500])
    scr = screen_step(deferptr=d)
    steps = [scr] + handshake(rng, 0, scr, frag=False)
    mask = 0
    def scale_step():
        n = rng.choice([1, 2, 2, 3, 4, 5, 10])
        st = dict(k="msg", c=0, data=m_scale(n, rng.random() < 0.5).hex(), sem=["scale", n])   # SetScale or PalmVNCSetScaleFactor
        with_frags(rng, st)
        return [st, dict(k="p", n=1)]
    if rng.random() < 0.6:
        steps += scale_step()            # a scaled client with coalescing on: remembered positions are unscaled ones
    for _ in range(rng.randint(2, 14)):
        r = rng.random()
        if r < 0.06:
            steps += scale_step()
            continue
        if r < 0.65:
            if rng.random() < 0.3:
                mask = rng.choice([0, 1, 2, 4, 1])
            x, y = rng.randrange(100), rng.randrange(80)
            st = dict(k="msg", c=0, data=m_ptr(mask, x, y).hex(), sem=["ptr", mask, x, y])
            with_frags(rng, st)
            steps += [st, dict(k="p", n=1)]
        elif r < 0.85:
            steps.append(dict(k="tick", ms=rng.choice([0, 1, d - 1, d, d + 1, 2 * d, 999, 1000, 1001])))
            steps.append(dict(k="p", n=1))
        else:
            steps.append(dict(k="p", n=rng.randint(1, 2)))
    # let every interval expire
    steps += [dict(k="tick", ms=3 * d + 2000), dict(k="p", n=1), dict(k="tick", ms=3 * d + 2000), dict(k="p", n=1),
              dict(k="tick", ms=3 * d + 2000), dict(k="p", n=1)]
    return Case("defer", steps, sequential=False)


def judge_defer(case, impl_lines):
    """coalescing on: once every interval has expired, the last position (and mask) sent must be the last one delivered"""
    last = None
    W = H = fw = fh = None
    mapped = []          # every pointer message as the application must see it: (mask, unscaled x, unscaled y)
    for s in case.steps:
        if s["k"] == "screen":
            W, H = s["w"], s["h"]
            fw, fh = W, H
        elif s["k"] == "msg" and s["sem"][0] == "scale":
            n = s["sem"][1]
            if n == 0 or W // n == 0 or H // n == 0:
                return None, {}
            fw, fh = W // n, H // n
        elif s["k"] == "msg" and s["sem"][0] == "ptr":
            m, x, y = s["sem"][1], s["sem"][2], s["sem"][3]
            if (fw, fh) != (W, H):
                x, y = exact_unscale(x, fw, W), exact_unscale(y, fh, H)
            last = ["ptr", m, x, y]
            mapped.append((m, x, y))
    evs = [e for e in events_of(impl_lines) if e.startswith("P:")]
    fin = parse_line(impl_lines[-1]) if impl_lines else None
    if last is None or fin is None or not any(c[0] == "0" and c[1] == "4" and c[2] == "0" for c in fin[2]):
        return None, {}
    want = "P:0:%d:%d:%d" % (last[1], last[2], last[3])
    if not evs or evs[-1] != want:
        # the defect on record: the newest message WAS delivered, and afterwards an older remembered position
        # comes out with the newest mask.  Anything else (e.g. the last position never arrives) is something new.
        older = set((mx, my) for (_, mx, my) in mapped)
        stale = False
        if evs and want in evs:
            f = evs[-1].split(":")
            stale = int(f[2]) == last[1] and (int(f[3]), int(f[4])) in older
        if stale:
            return ("pointer coalescing on: the last pointer message sent is %s but the last callback is %s - a stale position "
                    "was delivered after a newer one" % (want, evs[-1])), {"kind": "defer_stale", "msg": "PointerEvent"}
        return ("pointer coalescing on: the last pointer message sent is %s, every interval has expired, but the last callback is "
                "%s - the last position never reached the application" % (want, evs[-1] if evs else "<nothing>")), \
               {"kind": "defer_lost", "msg": "PointerEvent"}
    return None, {}


def gen_datagram(rng):
    """a datagram for the UDP input channel: well-formed key / pointer events (boundary values), and everything the
    channel must drop: wrong length for the type, other types, empty"""
    r = rng.random()
    if r < 0.35:
        return m_key(rng.choice([0, 1, 1, 2, 255]), rng.choice(KEY_BOUND + [rng.getrandbits(32)]))
    if r < 0.7:
        return m_ptr(rng.choice([0, 1, 2, 4, 255, rng.randrange(256)]), rng.choice(COORD_BOUND + [rng.randrange(65536)]),
                     rng.choice(COORD_BOUND + [rng.randrange(65536)]))
    if r < 0.8:
        return bytes([4]) + bytes(rng.randrange(256) for _ in range(rng.choice([0, 1, 4, 5, 6, 8, 9, 15])))    # key, wrong length
    if r < 0.9:
        return bytes([5]) + bytes(rng.randrange(256) for _ in range(rng.choice([0, 1, 4, 6, 7, 8, 15])))       # pointer, wrong length
    if r < 0.97:
        return bytes([rng.choice([0, 1, 2, 3, 6, 7, 8, 11, 15, 250, 255])]) + bytes(rng.randrange(256) for _ in range(rng.choice([0, 5, 7, 15])))
    return b""


def case_udp(rng):
    """the third input source: datagrams on screen->udpSock.  Port open / never opened / UDP client on hold; screens
    with and without password; TCP connections in every relation to the gates (view-only, holding the pointer,
    still in the handshake) present at the same time - none of which applies to the UDP channel"""
    npw = rng.choice([0, 0, 0, 1, 2])
    scr = rnd_screen(rng, npw=npw, firstvo=rng.randint(0, npw) if npw else 0)
    steps = [scr]
    opened = False
    if rng.random() < 0.8:
        steps.append(dict(k="udpon", hold=1 if rng.random() < 0.2 else 0)); opened = True
    ncl = rng.choice([0, 1, 1, 2])
    for c in range(ncl):
        vo = 1 if rng.random() < 0.4 else 0
        steps += handshake(rng, c, scr, minor=rng.choice([3, 7, 8]), pw=0 if npw else None, vo=vo)
    for _ in range(rng.randint(2, 8)):
        r = rng.random()
        if r < 0.6 or ncl == 0:
            steps.append(dict(k="udp", data=gen_datagram(rng).hex()))
        elif r < 0.85:
            c = rng.randrange(ncl)
            for st in msgs_for(rng, c, 1):
                steps += [st, dict(k="p", n=1)]
        elif not opened and r < 0.95:
            steps.append(dict(k="udpon", hold=0)); opened = True
        else:
            # a message queued without a pass: it is handled by the pass the next datagram triggers
            c = rng.randrange(ncl)
            for st in msgs_for(rng, c, 1):
                steps += [st]
            steps.append(dict(k="udp", data=gen_datagram(rng).hex()))
    steps.append(dict(k="p", n=2))
    return Case("udp", steps)


def case_hold(rng):
    """a connection the application puts on hold (newClientHook -> RFB_CLIENT_ON_HOLD): nothing its peer sends is
    processed - not even the handshake - until rfbStartOnHoldClient; then everything arrives, in order.  Another
    connection works normally meanwhile."""
    scr = rnd_screen(rng)
    steps = [scr]
    other = rng.random() < 0.7
    if other:
        steps += handshake(rng, 1, scr, minor=rng.choice([3, 7, 8]))
    minor = rng.choice([3, 7, 8])
    hs = handshake(rng, 0, scr, minor=minor, vo=1 if rng.random() < 0.2 else 0)
    hs[0]["hold"] = 1
    early = rng.random() < 0.5
    hsmsgs = [st for st in hs if st["k"] == "hs"]
    steps.append(hs[0])
    sent = len(hsmsgs) if early else 1
    steps += hsmsgs[:sent]
    if early:
        for st in msgs_for(rng, 0, rng.randint(0, 3)):
            steps.append(st)
    steps.append(dict(k="p", n=rng.randint(1, 3)))
    if other:
        for st in msgs_for(rng, 1, rng.randint(1, 3)):
            steps += [st, dict(k="p", n=1)]
    steps.append(dict(k="release", c=0))
    steps.append(dict(k="p", n=8))
    for st in hsmsgs[sent:]:
        steps += [st, dict(k="p", n=1)]
    for st in msgs_for(rng, 0, rng.randint(1, 4)):
        steps += [st, dict(k="p", n=1)]
    return Case("hold", steps)


def case_reverse(rng):
    """connections made by rfbReverseConnection next to ordinary ones: the outgoing connection is not asked for the
    password and its ClientInit never triggers the sharing test (it neither closes the others nor is refused),
    whatever neverShared / alwaysShared / dontDisconnect and its shared flag say; an ordinary connection arriving
    afterwards still closes it / is refused because of it.  Input of all of them is delivered as usual."""
    npw = rng.choice([0, 0, 1, 2])
    scr = rnd_screen(rng, npw=npw, firstvo=rng.randint(0, npw) if npw else 0, never=rng.choice([0, 0, 1]),
                     always=rng.choice([0, 0, 1]), dontdisc=rng.choice([0, 1]))
    steps = [scr]
    order = [0, 1, 2] if rng.random() < 0.6 else [0, 1]
    revs = set(c for c in order if rng.random() < 0.5) or {order[-1]}
    for c in order:
        steps += handshake(rng, c, scr, minor=rng.choice([3, 7, 8]), pw=0 if npw else None, shared=rng.choice([0, 0, 1]),
                           rev=(c in revs))
        for st in msgs_for(rng, c, rng.randint(0, 2)):
            steps += [st, dict(k="p", n=1)]
    for _ in range(rng.randint(1, 5)):
        c = rng.choice(order)
        for st in msgs_for(rng, c, 1):
            steps += [st, dict(k="p", n=1)]
    return Case("reverse", steps)


def case_sx(rng, exhaustive_slice=None):
    steps = [screen_step()]
    for _ in range(60):
        tw = rng.choice([100, 200, 640, 800, 1024, 1280, 1920, 255, 97, 4096, 65535, rng.randint(1, 65535)])
        n = rng.choice([1, 2, 3, 4, 5, 7, 10, rng.randint(1, 255)])
        fw = max(1, tw // n)
        x = rng.choice([0, 1, 29, 57, fw - 1, fw, rng.randrange(fw), rng.randrange(65536)])
        steps.append(dict(k="sx", fw=fw, tw=tw, x=x))
    return Case("sx", steps)


def regrag(rng, case, mode):
    """the same session, every send cut differently"""
    steps = []
    for s in case.steps:
        t = dict(s)
        if t["k"] in ("hs", "msg", "raw") and "data" in t and not t.get("silent"):
            data = bytes.fromhex(t["data"]) if t.get("fr") is None else b"".join(bytes.fromhex(f) for f in t["fr"])
            t["fr"] = [f.hex() for f in fragment(rng, data, mode)]
        steps.append(t)
    c = Case(case.kind + "-recut", steps, case.sequential)
    return c


def case_lines(case, idx):
    c2 = Case(case.kind, [s for s in case.steps if not s.get("silent")], case.sequential)
    return c2.lines(idx)


def gen_cases(ctx):
    rng = ctx.rng
    quick = ctx.quick()
    cases = []
    def add(c, recut=True):
        cases.append(c)
        if recut:
            for mode in (["bytes"] if quick else ["bytes", "whole", "rand"]):
                d = regrag(rng, c, mode)
                d.pair_base = c
                cases.append(d)
    mult = 12 if quick else 100
    for _ in range(60 * mult):
        add(case_single(rng))
    for _ in range(30 * mult):
        add(case_burst(rng))
    for _ in range(40 * mult):
        add(case_viewonly(rng))
    for _ in range(50 * mult):
        add(case_pointer(rng))
    # view-only = application choice OR password position: the whole matrix, real password-list authentication
    for npw in (1, 2, 3):
        for firstvo in range(npw + 1):
            for k in range(-1, npw + 1):
                for appvo in (0, 1):
                    add(case_vo_matrix(rng, npw, firstvo, k, appvo, rng.choice([3, 7, 8])), recut=False)
    for _ in range(40 * mult):
        add(case_scale(rng))
    for _ in range(40 * mult):
        add(case_malformed(rng))
    for _ in range(25 * mult):
        add(case_handshake_gate(rng))
    for _ in range(50 * mult):
        add(case_concurrent(rng))
    for _ in range(30 * mult):
        add(case_defer(rng))
    for _ in range(40 * mult):
        add(case_udp(rng))
    for _ in range(25 * mult):
        add(case_hold(rng))
    for _ in range(30 * mult):
        add(case_reverse(rng))
    for ln in [0, 1, LIMIT - 1, LIMIT, LIMIT + 1, 0x80000000, 0xFFFFFFFF] + ([LIMIT, LIMIT, LIMIT + 1, 65536, 65537] if not quick else []):
        add(case_cutlimit(rng, ln), recut=(ln <= 65536 or not quick))
    for _ in range(10 * mult):
        add(case_sx(rng), recut=False)
    # ScaleX/ScaleY sweep: every client pixel of small scaled views (all of them in the thorough tier)
    sweep = []
    for fw in (range(1, 257) if not quick else rng.sample(range(1, 257), 24)):
        for n in range(2, 11):
            for x in range(fw):
                sweep.append(dict(k="sx", fw=fw, tw=fw * n, x=x))
    for i in range(0, len(sweep), 2000):
        add(Case("sx-sweep", [screen_step()] + sweep[i:i + 2000]), recut=False)
    if not quick:
        for _ in range(6):
            add(case_single(rng, big=True))
    return cases


# ------------------------------------------------------------------ running and judging
PROBE = """case 0 probe
screen 100 80 0 0 0 0 0 999 0
connect 0 0
send 0 524642203030332e3030330a
p
send 0 01
p
send 0 0501,0054004d
p
send 0 05,01,00,48,00,4a
p
send 0 050000,1f0003
p
tick 5000
p
tick 5000
p
sx 100 200 29
"""


def detect_variant(cexe):
    """The model's baseline (variant 0) is the code with the repairs 4105625 (bit 0: stale coalesced position) and
    c7c2b1b (bit 1: ScaleX rounding).  Run the two witnesses on the library: a set bit means the former defect is
    back; the mirror model is then run in that legacy variant so that the correspondence stays meaningful, while the
    independent oracle reports the defect itself (the findings are 'fixed', nothing suppresses them any more)."""
    rc, out, err = vlib.run_driver(cexe, PROBE, timeout=120)
    v = 0
    if "P:0:0:72:74" in out:
        v |= 1
    if "sx 57" in out:
        v |= 2
    return v


def build(ctx):
    os.makedirs(os.path.join(vlib.BUILD, "ocaml", PID), exist_ok=True)
    cexe = vlib.build_harness("vdrv_input", ["vdrv_input.c"], wraps=("select", "gettimeofday"))
    proof_ok = vlib.prove(ctx, PROP_FILE, [EXTRACT])
    # extraction always writes to /verif/build/ocaml/<ID> (path relative to coq/); a scratch VERIF_BUILD gets a copy
    src = os.path.join(vlib.VERIF, "build", "ocaml", PID)
    dst = os.path.join(vlib.BUILD, "ocaml", PID)
    if os.path.abspath(src) != os.path.abspath(dst):
        for fn in ("model.ml", "model.mli"):
            if os.path.exists(os.path.join(src, fn)):
                shutil.copy(os.path.join(src, fn), os.path.join(dst, fn))
    mexe = vlib.build_ocaml(PID, "driver_C06.ml", EXTRACT)
    return cexe, mexe, proof_ok


def run_both(cexe, mexe, text):
    r1 = vlib.run_driver(cexe, text, timeout=1500)
    r2 = vlib.run_driver(mexe, text, timeout=1500, unlimited_stack=True)
    return r1, r2


def parse_line(l):
    """'p ev=[..] cl=[..] own=x' -> (tag, [events], [(id,state,vo,...)], own)"""
    try:
        tag, rest = l.split(" ev=[", 1)
        evs, rest = rest.split("] cl=[", 1)
        cls, own = rest.split("] own=", 1)
    except ValueError:
        return None
    ev = [e for e in evs.split(";") if e]
    cl = []
    for c in cls.split(";"):
        if c:
            f = c.split(":")
            cl.append(f)
    return tag, ev, cl, own.strip()


def trace_gating(lines):
    """every callback must come from a connection that was RFB_NORMAL(4) and not view-only on the previous line"""
    prev = {}
    udp_open = False
    for l in lines:
        p = parse_line(l)
        if p is None:
            continue
        tag, ev, cl, own = p
        if tag == "udpon":
            udp_open = True
        for e in ev:
            f = e.split(":")
            if f[1] == str(UDP_ID):
                # the UDP channel: only by a datagram (line "udp"), only after the application opened the port,
                # only key / pointer events
                if tag != "udp" or not udp_open or f[0] not in ("K", "P"):
                    return "callback %s attributed to the UDP client outside a datagram on an open UDP port" % e
                continue
            st = prev.get(f[1])
            if st is None:
                return "callback %s from a connection that did not exist before this step" % e
            if st[1] != "4":
                return "callback %s from a connection in handshake state %s" % (e, st[1])
            if st[2] != "0":
                return "callback %s from a view-only connection" % e
        prev = {c[0]: c for c in cl}
    return None


def events_of(lines):
    out = []
    for l in lines:
        p = parse_line(l)
        if p:
            out += p[1]
    return out


def spec_steps(case):
    """steps as the specification machine sees them: a burst is its messages one by one"""
    return case.steps


def judge_case(case, impl_lines):
    """property predicates on the implementation's own output.  -> (error string | None, features)"""
    if case.kind.startswith("sx"):
        for s, l in zip([x for x in case.steps if x["k"] == "sx"], [x for x in impl_lines if x.startswith("sx ")]):
            want = exact_unscale(s["x"], s["fw"], s["tw"])
            got = l.split()
            if s["fw"] == s["tw"]:
                continue      # an unscaled client never goes through the arithmetic (from == to)
            if got[0] == "sx" and int(got[1]) != want and int(got[1]) != int((s["x"] / s["fw"]) * s["tw"]):
                return ("ScaleX maps %d (a %d-wide view of a %d-wide screen) to %s; neither the unscaled position %d nor what "
                        "the formula in scale.c yields" % (s["x"], s["fw"], s["tw"], got[1], want)), {"kind": "scale_wrong"}
            if got[0] != "sx" or int(got[1]) != want:
                return ("pointer position %d on a %d-wide client view of a %d-wide screen is mapped to %s, the unscaled "
                        "position is %d" % (s["x"], s["fw"], s["tw"], got[1], want)), {"kind": "scale_rounding", "msg": "PointerEvent"}
        return None, {}
    e = trace_gating(impl_lines)
    if e:
        return e, {"kind": "gating"}
    if any(l.startswith("??") for l in impl_lines):
        return None, {}
    if case.kind.startswith("defer"):
        return judge_defer(case, impl_lines)
    if case.sequential:
        sp = Spec()
        exp = sp.run(spec_steps(case))
        if exp is not None:
            got = events_of(impl_lines)
            if got != exp:
                i = 0
                while i < len(got) and i < len(exp) and got[i] == exp[i]:
                    i += 1
                g = got[i] if i < len(got) else "<nothing>"
                w = exp[i] if i < len(exp) else "<nothing>"
                feat = {"kind": "events"}
                if sp.alt.get(i) == g:
                    # exactly what (int)(((double)x/from)*to) gives: the rounding defect on record, nothing else
                    feat = {"kind": "scale_rounding", "msg": "PointerEvent"}
                return ("callback #%d: the application got %s, the messages sent require %s (%d callbacks delivered, %d required)"
                        % (i, g, w, len(got), len(exp))), feat
    return None, {}


def check(ctx):
    global VARIANT
    cexe, mexe, proof_ok = build(ctx)
    VARIANT = detect_variant(cexe)
    ctx.coverage["library_variant"] = {"legacy_stale_coalesced_position": bool(VARIANT & 1), "legacy_scale_rounding": bool(VARIANT & 2)}
    cases = gen_cases(ctx)
    # corpus first
    corpus = []
    cdir = os.path.join(vlib.VERIF, "corpus", PID)
    if os.path.isdir(cdir):
        for fn in sorted(os.listdir(cdir)):
            if fn.endswith(".script"):
                corpus.append([l for l in open(os.path.join(cdir, fn)).read().split("\n") if l.strip()])
    chunks = []
    for i, lines in enumerate(corpus):
        if not lines[0].startswith("case "):
            lines = ["case %d corpus" % i] + lines
        else:
            lines = ["case %d corpus" % i] + lines[1:]
        lines = [(l + " %d" % VARIANT) if (l.startswith("screen ") and len(l.split()) == 10) else l for l in lines]
        chunks.append(lines)
    base = len(chunks)
    for j, c in enumerate(cases):
        chunks.append(case_lines(c, base + j))
    text = "\n".join("\n".join(ch) for ch in chunks) + "\n"
    (rc1, cout, cerr), (rc2, mout, merr) = run_both(cexe, mexe, text)
    cc, mc = vlib.split_cases(cout), vlib.split_cases(mout)
    nops = sum(len(ch) - 1 for ch in chunks)
    hist, distinct, samples = {}, set(), []
    mismatches, oracle_fail = [], []
    index_of = {id(c): j for j, c in enumerate(cases)}
    for idx, ch in enumerate(chunks):
        il = cc[idx][1] if idx < len(cc) else []
        ml = mc[idx][1] if idx < len(mc) else []
        d = vlib.first_diff(il, ml)
        if d is not None:
            mismatches.append((idx, d))
        kind = ch[0].split()[2] if len(ch[0].split()) > 2 else "?"
        hist[kind] = hist.get(kind, 0) + 1
        for l in il:
            p = parse_line(l)
            if p and p[1]:
                for e in p[1]:
                    f = e.split(":")
                    sig = (kind.split("-")[0], f[0], "big" if "#" in e else "", len(p[1]) > 1, p[3] != "-")
                    distinct.add((sig, e if len(distinct) < 200000 else ""))
        if idx >= base:
            case = cases[idx - base]
            e, feat = judge_case(case, il)
            if e:
                oracle_fail.append((idx, e, feat))
            # the same session cut differently: identical observable behaviour of the implementation
            b = getattr(case, "pair_base", None)
            if b is not None:
                bidx = base + index_of[id(b)]
                bl = cc[bidx][1] if bidx < len(cc) else []
                if bl != il:
                    dd = vlib.first_diff(bl, il)
                    oracle_fail.append((idx, "the same byte streams cut into different fragments change what the application "
                                        "sees: line %d is '%s' for one cut and '%s' for the other" % (dd[0], dd[1][:200], dd[2][:200]),
                                        {"kind": "segmentation"}))
    if rc1 != 0 and not oracle_fail:
        oracle_fail.append((len(cc) - 1 if cc else 0, "implementation driver exited with %d: %s" % (rc1, cerr[-800:]),
                            {"kind": "crash"}))
    for i in (base, base + len(cases) // 2, len(chunks) - 1):
        if 0 <= i < len(chunks):
            samples.append([l[:300] for l in chunks[i][:40]])
    ctx.coverage.update(
        evaluations=nops, distinct_nontrivial=len(distinct),
        rule="session scripts (connect/send fragments/eof/auth/view-only toggle/rfbProcessEvents) run on the extracted "
             "Coq model and on libvncserver; after every line callbacks, connection states, view-only flags, scaled "
             "sizes, pointer bookkeeping and pointer owner compared. distinct_nontrivial = distinct (case class, "
             "callback with its arguments, delivered together with others?, pointer held?) among lines that "
             "delivered at least one callback",
        samples=samples, input_distribution=hist, cases=len(chunks), corpus_cases=base,
        correspondence_mismatches=len(mismatches), oracle_failures=len(oracle_fail))
    ctx.assumptions += [
        "peers deliver their bytes in order; a wait with nothing in flight is a stall of maxClientWait (closes the connection)",
        "DES / password-list comparison is an oracle (which password index the response matches)",
        "ProtocolVersion strings are canonical 'RFB ddd.ddd\\n' or clearly malformed (sscanf's laxer spellings not generated)",
        "scaled screens have non-zero width and height (zero-sized ones are C04/C17's finding F2)",
        "message types FileTransfer(7) and extension messages are not generated (outside the model)"]

    def rerun(lines):
        (r1, co, ce), (r2, mo, me) = run_both(cexe, mexe, "\n".join(lines) + "\n")
        a, b = vlib.split_cases(co), vlib.split_cases(mo)
        return (a[0][1] if a else []), (b[0][1] if b else []), co, mo, ce

    seen_feat = set()
    for idx, e, feat in oracle_fail:
        key = json.dumps(feat, sort_keys=True)
        if key in seen_feat:
            continue
        seen_feat.add(key)
        lines = chunks[idx]
        case = cases[idx - base] if idx >= base else None
        small_steps = None
        if case is not None and feat.get("kind") in ("events", "gating", "scale_rounding", "defer_stale", "defer_lost") and not case.kind.startswith("sx"):
            def pred(steps):
                c2 = Case(case.kind, [steps_fixed for steps_fixed in steps], case.sequential)
                il, ml, co, mo, ce = rerun(case_lines(c2, 0))
                e2, f2 = judge_case(c2, il)
                return e2 is not None and f2.get("kind") == feat.get("kind")
            # keep the handshakes (and, for coalescing cases, the final expiry of every interval): shrink the traffic
            last_hs = max([i for i, st in enumerate(case.steps) if st["k"] in ("hs", "connect", "screen")] + [0])
            cut = min(len(case.steps), last_hs + 2)
            ntail = 6 if case.kind.startswith("defer") else 0
            head = case.steps[:cut]
            tail = case.steps[len(case.steps) - ntail:] if ntail and len(case.steps) - ntail >= cut else []
            body = case.steps[cut:len(case.steps) - len(tail)]
            try:
                body = vlib.ddmin(body, lambda sub: pred(head + sub + tail), max_tests=120)
            except Exception:
                pass
            body = body + tail
            small = Case(case.kind, head + body, case.sequential)
            lines = case_lines(small, 0)
            small_steps = small.steps
            il, ml, co, mo, ce = rerun(lines)
            e2, f2 = judge_case(small, il)
            if e2:
                e, feat = e2, f2
        else:
            il, ml, co, mo, ce = rerun(lines)
        ctx.violation("input delivery violated on the implementation: " + e, feat,
                      "script:\n" + "\n".join(l[:4000] for l in lines) + "\n\nsteps: " +
                      (json.dumps(small_steps) if small_steps and len(json.dumps(small_steps)) < 200000 else "null") +
                      "\n\nimplementation output:\n" + co[:20000] + ce[-1500:] + "\nmodel output:\n" + mo[:20000])
        if len(ctx.violations) >= 6:
            break
    if mismatches and not ctx.violations:
        idx, d = mismatches[0]
        lines = chunks[idx]
        def pred2(ls):
            il, ml, co, mo, ce = rerun([lines[0]] + ls)
            return il != ml
        try:
            body = vlib.ddmin(lines[1:], pred2, max_tests=150)
        except Exception:
            body = lines[1:]
        small = [lines[0]] + body
        il, ml, co, mo, ce = rerun(small)
        # known findings may explain a model/implementation difference only through the oracle; a bare mismatch is a broken tie
        ctx.violation("correspondence Session/InputDefs.v <-> rfbserver.c/sockets.c/main.c no longer holds (%d cases differ, first "
                      "at line %d: implementation '%s' / model '%s'); the input-delivery predicates held on every "
                      "implementation output explored" % (len(mismatches), d[0], d[1][:160], d[2][:160]),
                      {"kind": "correspondence"},
                      "correspondence: Session/InputDefs.v (process/handle/parse_normal/apply_normal...) vs libvncserver\n"
                      "script:\n" + "\n".join(l[:4000] for l in small) + "\n\nimplementation output:\n" + co[:20000] + ce[-1500:] +
                      "\nmodel output:\n" + mo[:20000], no_input=True)
    if not ctx.violations:
        ws_differential(ctx, cexe, cases, chunks, cc, base)
    if not ctx.violations:
        ext_viewonly_part(ctx)
    if not proof_ok and not ctx.violations:
        vlib.report_proof_failure(ctx, "Correspondence and the input-delivery oracles were run on %d script lines "
                                  "without exhibiting a failing input." % nops)


WS_KINDS = ("single", "burst", "scale", "pointer", "viewonly", "cutlimit", "defer")


def ws_differential(ctx, cexe, cases, chunks, cc, base):
    """Differential with C09's transport: the same sessions with every connection speaking RFB inside WebSocket binary
    frames (one masked frame per fragment) must produce the same callback log and end in the same state as over plain
    TCP.  Implementation against implementation (the WebSocket event loop serves several buffered messages per pass, so
    the per-line placement legitimately differs and the mirror model is not involved).  Lock-step classes without
    password authentication only."""
    picked = []
    for j, c in enumerate(cases):
        k = c.kind.split("-")[0]
        if k not in WS_KINDS or any(s["k"] == "screen" and s["npw"] > 0 for s in c.steps):
            continue
        if any(s["k"] == "eof" for s in c.steps) or any(len(s.get("data", "")) > 400000 for s in c.steps):
            continue
        picked.append(j)
    if ctx.quick():
        picked = picked[::4]
    # framings of the same byte stream: 1 = one unfragmented binary message per fragment, 2 = every fragment a
    # fragmented message (binary FIN=0, continuation ..., continuation FIN=1), 3 = as 2 with ping/pong control frames
    # between the fragments and between the messages (RFC 6455 5.4/5.5)
    jobs = []
    for n, j in enumerate(picked):
        k = cases[j].kind.split("-")[0]
        modes = (1, 2, 3) if k in ("single", "burst", "scale", "cutlimit") else (1,)
        if ctx.quick() and len(modes) == 3:
            modes = (1, (2, 3)[n % 2])
        for m in modes:
            jobs.append((j, m))
    wl = []
    for n, (j, m) in enumerate(jobs):
        lines = chunks[base + j]
        out_lines = ["case %d ws%d-%s" % (n, m, cases[j].kind)]
        for l in lines[1:]:
            if l.startswith("connect "):
                out_lines.append("ws" + l + " %d" % m)
            else:
                out_lines.append(l)
                if m > 1 and l.startswith("send "):
                    out_lines += ["p", "p"]          # control frames may use up passes: serve everything that was sent
        wl.append(out_lines)
    if not wl:
        return
    rc, out, err = vlib.run_driver(cexe, "\n".join("\n".join(x) for x in wl) + "\n", timeout=1500)
    wc = vlib.split_cases(out)
    ndiff = 0
    for n, (j, m) in enumerate(jobs):
        tl = cc[base + j][1] if base + j < len(cc) else []
        wlns = wc[n][1] if n < len(wc) else []
        te, we = events_of(tl), events_of(wlns)
        tfin = parse_line(tl[-1]) if tl else None
        wfin = parse_line(wlns[-1]) if wlns else None
        same_end = (tfin is not None and wfin is not None and tfin[2] == wfin[2] and tfin[3] == wfin[3])
        if te != we or not same_end:
            ndiff += 1
            if ndiff == 1:
                i = 0
                while i < len(te) and i < len(we) and te[i] == we[i]:
                    i += 1
                how = {1: "unfragmented binary messages", 2: "fragmented messages", 3: "fragmented messages with ping/pong frames in between"}[m]
                ctx.violation("input delivery depends on the transport: over WebSocket (%s) the application gets %s as callback #%d "
                              "(%d callbacks, final state %s), over plain TCP %s (%d callbacks, final state %s) for the same client bytes"
                              % (how, we[i] if i < len(we) else "<nothing>", i, len(we), wlns[-1].split(" cl=")[-1][:80] if wlns else "?",
                                 te[i] if i < len(te) else "<nothing>", len(te), tl[-1].split(" cl=")[-1][:80] if tl else "?"),
                              {"kind": "ws_differential", "framing": m},
                              "script:\n" + "\n".join(l[:4000] for l in wl[n]) + "\n\nimplementation output (WebSocket):\n" +
                              "\n".join(wlns)[:12000] + "\n\nimplementation output (TCP):\n" + "\n".join(tl)[:12000])
    picked = jobs
    ctx.coverage["ws_differential_cases"] = len(picked)
    ctx.coverage["ws_differential_differences"] = ndiff
    ctx.coverage.setdefault("input_distribution", {})["ws-differential(impl vs impl)"] = len(picked)


def ext_viewonly_part(ctx):
    """C06 also covers clipboard messages of view-only clients in their extended (zlib) form: sessions with view-only
    reference peers sending ExtendedClipboard Provides, on the C18 model/harness (same session machinery + zlib oracle)."""
    import C18
    os.makedirs(os.path.join(vlib.VERIF, "build", "ocaml", "C18"), exist_ok=True)
    os.makedirs(os.path.join(vlib.BUILD, "ocaml", "C18"), exist_ok=True)
    cexe = vlib.build_harness("vdrv_clip", ["vdrv_clip.c"], wraps=C18.WRAPS, client=True, extra_cflags=C18.clip_cflags())
    ok, out = vlib.coq_make(["Extract/Extract_C18.vo"])
    src = os.path.join(vlib.VERIF, "build", "ocaml", "C18")
    dst = os.path.join(vlib.BUILD, "ocaml", "C18")
    if os.path.abspath(src) != os.path.abspath(dst):
        for fn in ("model.ml", "model.mli"):
            if os.path.exists(os.path.join(src, fn)):
                shutil.copy(os.path.join(src, fn), os.path.join(dst, fn))
    mexe = vlib.build_ocaml("C18", "driver_C18.ml", "Extract/Extract_C18.vo")
    C18.VARIANT = C18.detect_variant(cexe)
    n = 60 if ctx.quick() else 1500
    cases = [C18.case_ext_viewonly(ctx.rng) for _ in range(n)]
    chunks = [["case %d %s" % (j, b.kind)] + b.lines for j, b in enumerate(cases)]
    text = "\n".join("\n".join(ch) for ch in chunks) + "\n"
    (rc1, cout, cerr), (rc2, mout, merr) = C18.run_both(cexe, mexe, text)
    cc, mc = vlib.split_cases(cout), vlib.split_cases(mout)
    nlines, nmis = 0, 0
    for idx, b in enumerate(cases):
        il = cc[idx][1] if idx < len(cc) else []
        ml = mc[idx][1] if idx < len(mc) else []
        nlines += len(b.lines)
        e, feat = C18.judge(b, il)
        if e:
            feat = dict(feat)
            feat["kind"] = "gating_ext" if feat.get("kind") == "text" else feat.get("kind")
            ctx.violation("input delivery violated on the implementation (extended clipboard): " + e, feat,
                          "driver: C18 (harness/vdrv_clip.c, ocaml/driver_C18.ml)\nscript:\n" + "\n".join(l[:3000] for l in chunks[idx]) +
                          "\n\nexpect: " + json.dumps(dict(exp=b.exp, known_bad=b.known_bad)) +
                          "\n\nimplementation output:\n" + "\n".join(il)[:20000] + "\nmodel output:\n" + "\n".join(ml)[:20000])
            break
        if il != ml:
            nmis += 1
    if nmis and not ctx.violations:
        ctx.violation("correspondence Session/ClipboardDefs.v <-> libvncserver differs on %d extended-clipboard/view-only sessions; "
                      "the gating predicate held on every implementation output" % nmis, {"kind": "correspondence"},
                      "correspondence: ext_cut_real on view-only connections (run through the C18 drivers)", no_input=True)
    ctx.coverage["ext_viewonly_cases"] = len(cases)
    ctx.coverage["ext_viewonly_lines"] = nlines
    ctx.coverage["evaluations"] = ctx.coverage.get("evaluations", 0) + nlines
    ctx.coverage.setdefault("input_distribution", {})["extviewonly(C18 drivers)"] = len(cases)


def replay(ctx, path):
    txt = open(path).read()
    if "script:\n" not in txt:
        print("replay names a theorem/correspondence, re-running the full check")
        return check(ctx)
    if "driver: C18" in txt:
        import C18
        vlib.prove(ctx, PROP_FILE, [EXTRACT, "Extract/Extract_C18.vo"])
        return C18.replay_script(ctx, txt)
    body = txt.split("script:\n", 1)[1].split("\n\n", 1)[0]
    lines = [l for l in body.split("\n") if l.strip()]
    steps = None
    if "\nsteps: " in txt:
        try:
            steps = json.loads(txt.split("\nsteps: ", 1)[1].split("\n", 1)[0])
        except Exception:
            steps = None
    global VARIANT
    cexe, mexe, proof_ok = build(ctx)
    VARIANT = detect_variant(cexe)
    lines = [(" ".join(l.split()[:10]) + " %d" % VARIANT) if l.startswith("screen ") else l for l in lines]
    (r1, co, ce), (r2, mo, me) = run_both(cexe, mexe, "\n".join(lines) + "\n")
    a, b = vlib.split_cases(co), vlib.split_cases(mo)
    il = a[0][1] if a else []
    ml = b[0][1] if b else []
    print("implementation:\n" + co[:6000] + "model:\n" + mo[:6000])
    ctx.coverage.update(evaluations=len(lines) - 1, distinct_nontrivial=0, rule="replay", samples=[[l[:300] for l in lines[:40]]])
    kind = lines[0].split()[2] if len(lines[0].split()) > 2 else "?"
    if steps is not None:
        case = Case(kind, steps, sequential=not kind.startswith(("concurrent", "hsgate")))
    elif kind.startswith("sx"):
        case = Case(kind, [dict(k="sx", fw=int(l.split()[1]), tw=int(l.split()[2]), x=int(l.split()[3])) for l in lines[1:]])
    else:
        case = Case(kind, [], sequential=False)
    e, feat = judge_case(case, il)
    if e:
        ctx.violation("input delivery violated on the implementation: " + e, feat,
                      "script:\n" + "\n".join(lines) + "\n\nsteps: " + (json.dumps(steps) if steps else "null") +
                      "\n\nimplementation output:\n" + co[:20000])
    elif il != ml:
        ctx.violation("correspondence differs on the replayed script", {"kind": "correspondence"},
                      "script:\n" + "\n".join(lines) + "\n\n" + co[:20000] + "\n" + mo[:20000], no_input=True)
