"""C11 - Region algebra behaves as set algebra on pixels.

Proof: coq/Props/Properties_C11.v (theorems over the mirror model Region/RegionDefs.v, for all
well-formed regions, unbounded coordinates).  Tie: (a) sraClipRect/sraClipRect2 are
re-translated from /repo on every run (Gen/Funs_C11.v) and the theorems re-proved about them;
(b) correspondence: the extracted model and the real sra* API run the same region scripts and
every observable (emptiness, count, boolean results, all four iteration orders) is compared
after every operation.  Independently of the mirror model the property predicate itself
(set algebra on a compressed grid) is evaluated on the implementation's own output.
"""
import itertools, os, random, sys
import vlib

PROP_FILE = "Props/Properties_C11.v"
OPS3 = ["or", "and", "sub"]


# ---------------------------------------------------------------- generators
def grid_rects(n):
    return [(x1, y1, x2, y2) for x1 in range(n) for x2 in range(x1 + 1, n + 1)
            for y1 in range(n) for y2 in range(y1 + 1, n + 1)]


def set_rects(bits, W, H):
    """the pixel set given as a bit mask over a W x H grid, as the list of its maximal row runs"""
    out = []
    for y in range(H):
        x = 0
        while x < W:
            if bits >> (y * W + x) & 1:
                x0 = x
                while x < W and bits >> (y * W + x) & 1:
                    x += 1
                out.append((x0, y, x, y + 1))
            else:
                x += 1
    return out


def pair_case(k, ra, rb, how_a, how_b):
    """regions A (reg 0) and B (reg 1) built from rect lists, then all ops on copies"""
    L = ["case %d pair" % k]
    for reg, rects, how in ((0, ra, how_a), (1, rb, how_b)):
        L.append("new %d" % reg)
        for i, r in enumerate(rects):
            L.append("rect 8 %d %d %d %d" % r)
            L.append("%s %d 8" % (how[i % len(how)] if i else "or", reg))
    L += ["dup 3 0", "or 3 1", "dup 4 0", "and 4 1", "dup 5 0", "sub 5 1", "dup 6 1", "sub 6 0",
          "bbox 7 3", "dup 2 3", "pop 2 0", "pop 2 3", "dup 2 5", "pop 2 1", "pop 2 2"]
    return L


def rand_coord(rng, mode):
    if mode == 0:
        return rng.randint(0, 6)
    if mode == 1:
        return rng.randint(-20, 20)
    anchors = [-(1 << 29), -65536, -1, 0, 1, 255, 256, 65535, 65536, (1 << 29)]
    return rng.choice(anchors) + rng.randint(-3, 3)


def rand_rect(rng, mode, degenerate=False):
    a, b = rand_coord(rng, mode), rand_coord(rng, mode)
    c, d = rand_coord(rng, mode), rand_coord(rng, mode)
    x1, x2 = min(a, b), max(a, b)
    y1, y2 = min(c, d), max(c, d)
    if not degenerate:
        if x1 == x2:
            x2 += 1 + rng.randint(0, 2)
        if y1 == y2:
            y2 += 1 + rng.randint(0, 2)
    else:
        k = rng.randint(0, 3)
        if k == 0:
            x2 = x1
        elif k == 1:
            y2 = y1
        elif k == 2:
            x1, x2 = x2 + 1, x1
        else:
            y1, y2 = y2 + 1, y1
    return (x1, y1, x2, y2)


def seq_case(rng, k, nops, degenerate=False):
    mode = rng.choice([0, 0, 1, 1, 2])
    L = ["case %d seq%s" % (k, " degenerate" if degenerate else "")]
    nreg = 6
    for _ in range(nops):
        r = rng.random()
        i, j = rng.randrange(nreg), rng.randrange(nreg)
        if r < 0.30:
            L.append("rect %d %d %d %d %d" % ((i,) + rand_rect(rng, mode, degenerate and rng.random() < 0.3)))
        elif r < 0.50:
            L.append("or %d %d" % (i, j))
        elif r < 0.63:
            L.append("and %d %d" % (i, j))
        elif r < 0.78:
            L.append("sub %d %d" % (i, j))
        elif r < 0.83:
            L.append("offset %d %d %d" % (i, rng.randint(-9, 9), rng.randint(-9, 9)))
        elif r < 0.88:
            L.append("dup %d %d" % (i, j))
        elif r < 0.92:
            L.append("bbox %d %d" % (i, j))
        elif r < 0.96:
            L.append("pop %d %d" % (i, rng.randint(0, 3)))
        elif r < 0.98:
            L.append("new %d" % i)
        else:
            v = [rand_coord(rng, mode) for _ in range(8)]
            L.append(("clip " if rng.random() < 0.5 else "clip2 ") + " ".join(map(str, v)))
    return L


def gen_cases(ctx):
    rng = ctx.rng
    cases = []
    k = 0
    # corpus first
    cdir = os.path.join(vlib.VERIF, "corpus", "C11")
    if os.path.isdir(cdir):
        for fn in sorted(os.listdir(cdir)):
            lines = [l for l in open(os.path.join(cdir, fn)).read().split("\n") if l.strip()]
            if lines and not lines[0].startswith("case "):
                lines = ["case %d corpus:%s" % (k, fn)] + lines
            cases.append(lines)
            k += 1
    rects = grid_rects(5)
    npairs = 2500 if ctx.quick() else 60000
    hows = [["or"], ["or", "sub"], ["or", "or", "sub"], ["or", "and"]]
    for _ in range(npairs):
        na, nb = rng.randint(0, 3), rng.randint(0, 3)
        ra = [rng.choice(rects) for _ in range(na)]
        rb = [rng.choice(rects) for _ in range(nb)]
        cases.append(pair_case(k, ra, rb, rng.choice(hows), rng.choice(hows)))
        k += 1
    # exhaustive over pixel sets: every ordered pair of subsets of a small grid (each built as the union
    # of its row runs): 3x2 grid (64 x 64 pairs) in the quick tier, 3x3 grid (512 x 512) in the thorough one
    GW, GH = (3, 2) if ctx.quick() else (3, 3)
    sets = [set_rects(b, GW, GH) for b in range(1 << (GW * GH))]
    for ra in sets:
        for rb in sets:
            cases.append(pair_case(k, ra, rb, ["or"], ["or"]))
            k += 1
    ctx.coverage["exhaustive_pixel_sets"] = "all %d x %d ordered pairs of pixel sets on a %dx%d grid" % (
        len(sets), len(sets), GW, GH)
    if not ctx.quick():
        # exhaustive: all ordered pairs of regions that are unions of <= 2 rectangles on a 3x3 grid
        small = grid_rects(3)
        regs = [[]] + [[r] for r in small] + [[a, b] for a in small for b in small if a < b]
        for ra in regs:
            for rb in regs:
                cases.append(pair_case(k, ra, rb, ["or"], ["or"]))
                k += 1
    nseq = 400 if ctx.quick() else 8000
    for _ in range(nseq):
        cases.append(seq_case(rng, k, rng.choice([8, 20, 40, 200 if not ctx.quick() else 60])))
        k += 1
    for _ in range(nseq // 8):
        cases.append(seq_case(rng, k, 12, degenerate=True))
        k += 1
    return cases


# ---------------------------------------------------------------- spec oracle (python, grid-compressed sets)
def parse_obs(line):
    """'or e=0 n=2 f=[..] x=[..] y=[..] xy=[..]' -> dict"""
    d = {"raw": line}
    parts = line.split(" ")
    d["op"] = parts[0]
    for p in parts[1:]:
        if "=" in p:
            k, v = p.split("=", 1)
            if v.startswith("["):
                v = v[1:-1]
                d[k] = [tuple(int(t) for t in r.split(",")) for r in v.split(";")] if v else []
            elif k == "r":
                d[k] = tuple(int(t) for t in v.split(","))
            else:
                d[k] = int(v)
    return d


def cells(rects, xs, ys):
    s = set()
    for (x1, y1, x2, y2) in rects:
        for i in range(len(xs) - 1):
            if x1 <= xs[i] and xs[i + 1] <= x2:
                for j in range(len(ys) - 1):
                    if y1 <= ys[j] and ys[j + 1] <= y2:
                        s.add((i, j))
    return s


def grid_of(*rectlists):
    xs, ys = set(), set()
    for rl in rectlists:
        for (x1, y1, x2, y2) in rl:
            xs.update((x1, x2))
            ys.update((y1, y2))
    return sorted(xs), sorted(ys)


def check_partition(o):
    """iteration yields pairwise disjoint non-empty rectangles, 4 orders are the same set, count
    agrees, orders are monotone in the requested direction.  Returns error string or None."""
    f = o["f"]
    if o["n"] != len(f):
        return "count %d != rectangles iterated %d" % (o["n"], len(f))
    if (o["e"] == 1) != (len(f) == 0):
        return "emptiness test disagrees with iteration"
    for key in ("x", "y", "xy"):
        if sorted(o[key]) != sorted(f):
            return "iteration order %s yields a different rectangle set" % key
    for r in f:
        if not (r[0] < r[2] and r[1] < r[3]):
            return "empty rectangle %s iterated" % (r,)
    xs, ys = grid_of(f)
    tot = 0
    for r in f:
        tot += len(cells([r], xs, ys))
    if tot != len(cells(f, xs, ys)):
        return "iterated rectangles overlap"
    for key, rx, ry in (("f", 0, 0), ("x", 1, 0), ("y", 0, 1), ("xy", 1, 1)):
        seq = o[key]
        for a, b in zip(seq, seq[1:]):
            if a[1] == b[1] and a[3] == b[3]:      # same band: x monotone
                if (not rx and not a[2] <= b[0]) or (rx and not b[2] <= a[0]):
                    return "order %s not monotone in x: %s then %s" % (key, a, b)
            else:
                if (not ry and not a[3] <= b[1]) or (ry and not b[3] <= a[1]):
                    return "order %s not monotone in y: %s then %s" % (key, a, b)
    return None


def oracle_case(script_lines, impl_lines):
    """evaluate the property predicate on the implementation's observations of one case.
    Only for cases without degenerate rectangles.  Returns error string or None."""
    regs = {}
    it = iter(impl_lines)
    for op in script_lines[1:]:
        p = op.split()
        try:
            line = next(it)
        except StopIteration:
            return "implementation produced no observation for '%s' (crash?)" % op
        if line.startswith("HANG"):
            return "'%s' does not return (implementation stopped by the harness watchdog)" % op
        if p[0] in ("clip", "clip2"):
            v = list(map(int, p[1:]))
            q = line.split()
            b = int(q[1].split("=")[1])
            out = list(map(int, q[2:]))
            if p[0] == "clip":
                x1, y1 = max(v[0], v[4]), max(v[1], v[5])
                x2, y2 = min(v[0] + v[2], v[4] + v[6]), min(v[1] + v[3], v[5] + v[7])
                ne = x1 < x2 and y1 < y2
                if b != (1 if ne else 0):
                    return "sraClipRect boolean wrong for %s" % op
                if ne and out != [x1, y1, x2 - x1, y2 - y1]:
                    return "sraClipRect result is not the intersection for %s" % op
            else:
                x1, y1 = max(v[0], v[4]), max(v[1], v[5])
                x2, y2 = min(v[2], v[6]), min(v[3], v[7])
                ne = x1 < x2 and y1 < y2
                if ne and (b != 1 or out != [x1, y1, x2, y2]):
                    return "sraClipRect2 result is not the intersection for %s" % op
                if v[4] < v[6] and v[5] < v[7] and v[0] < v[2] and v[1] < v[3] and not ne and b == 1:
                    # empty intersection but "true": the documented behaviour is to return a
                    # clamped non-empty rectangle; nothing to check (C15 uses it that way)
                    pass
            continue
        if line.startswith("HANG"):
            return "'%s' does not return (implementation stopped by the harness watchdog)" % op
        try:
            o = parse_obs(line)
            for key in ("f", "x", "y", "xy", "e", "n"):
                o[key]
        except (ValueError, IndexError, KeyError):
            return "unparsable or truncated observation after '%s': %s" % (op, line[:120])
        e = check_partition(o)
        if e:
            return "%s after '%s'" % (e, op)
        new = o["f"]
        i = int(p[1])
        old_i = regs.get(i, [])
        if p[0] in ("or", "and", "sub"):
            a, b = old_i, regs.get(int(p[2]), [])
            xs, ys = grid_of(a, b, new)
            ca, cb, cn = cells(a, xs, ys), cells(b, xs, ys), cells(new, xs, ys)
            want = {"or": ca | cb, "and": ca & cb, "sub": ca - cb}[p[0]]
            if cn != want:
                return "'%s' is not the set %s of its operands" % (op, p[0])
            if p[0] != "or" and o.get("b") != (1 if want else 0):
                return "'%s' returned %s but the result is %s" % (op, o.get("b"), "non-empty" if want else "empty")
        elif p[0] == "rect":
            v = tuple(map(int, p[2:6]))
            if new != [v]:
                return "'%s' does not describe that rectangle" % op
        elif p[0] == "new":
            if new:
                return "'new' not empty"
        elif p[0] == "dup":
            src = regs.get(int(p[2]), [])
            if new != src:
                return "'%s' is not an identical copy" % op
        elif p[0] == "offset":
            dx, dy = int(p[2]), int(p[3])
            if sorted(new) != sorted((a + dx, b + dy, c + dx, d + dy) for (a, b, c, d) in old_i):
                return "'%s' did not translate the region" % op
        elif p[0] == "bbox":
            src = regs.get(int(p[2]), [])
            if not src:
                if new:
                    return "bbox of empty region not empty"
            else:
                bb = (min(r[0] for r in src), min(r[1] for r in src), max(r[2] for r in src), max(r[3] for r in src))
                if new != [bb]:
                    return "'%s' is not the smallest enclosing rectangle" % op
        elif p[0] == "pop":
            if o.get("b") == 0:
                if old_i:
                    return "pop returned false on a non-empty region"
            else:
                r = o["r"]
                xs, ys = grid_of(old_i, new, [r])
                if cells(new, xs, ys) | cells([r], xs, ys) != cells(old_i, xs, ys) or \
                   cells(new, xs, ys) & cells([r], xs, ys):
                    return "pop does not split the region into rectangle + rest"
        regs[i] = new
    return None


# ---------------------------------------------------------------- the check
def run_pair(ctx, cases, cexe, mexe):
    script = "\n".join("\n".join(c) for c in cases) + "\n"
    rc1, cout, cerr = vlib.run_driver(cexe, script, timeout=900 if ctx.quick() else 6000)
    rc2, mout, merr = vlib.run_driver(mexe, script, timeout=900 if ctx.quick() else 6000, unlimited_stack=True)
    return (rc1, cout, cerr), (rc2, mout, merr)


def features_of(case_lines, msg):
    ops = sorted(set(l.split()[0] for l in case_lines[1:]))
    return {"ops": ",".join(ops), "degenerate": "degenerate" in case_lines[0], "what": msg.split(" after ")[0][:60]}


def check(ctx):
    cexe = vlib.build_harness("vdrv_region", ["vdrv_region.c"])
    proof_ok = vlib.prove(ctx, PROP_FILE, ["Extract/Extract_C11.vo"])
    mexe = vlib.build_ocaml("C11", "driver_C11.ml", "Extract/Extract_C11.vo")
    cases = gen_cases(ctx)
    (rc1, cout, cerr), (rc2, mout, merr) = run_pair(ctx, cases, cexe, mexe)
    cc, mc = vlib.split_cases(cout), vlib.split_cases(mout)
    nops = sum(len(c) - 1 for c in cases)
    distinct = set()
    hist = {}
    mismatches = []
    oracle_fail = []
    oracle_budget = 12000 if ctx.quick() else 60000
    stride = max(1, -(-len(cases) // oracle_budget))   # sample evenly over all case kinds
    for idx, c in enumerate(cases):
        il = cc[idx][1] if idx < len(cc) else []
        ml = mc[idx][1] if idx < len(mc) else []
        d = vlib.first_diff(il, ml)
        if d is not None:
            mismatches.append((idx, d))
        kind = c[0].split()[2] if len(c[0].split()) > 2 else "?"
        hist[kind] = hist.get(kind, 0) + 1
        for l in il:
            if " n=" in l:
                try:
                    n = int(l.split(" n=")[1].split()[0])
                except ValueError:
                    n = 0
                if n >= 2:
                    distinct.add(l.split(" ", 1)[1] if not l.startswith(("and", "sub", "pop")) else l)
        if "degenerate" not in c[0] and (idx % stride == 0 or d is not None):
            e = oracle_case(c, il)
            if e:
                oracle_fail.append((idx, e))
    if rc1 != 0 and not oracle_fail:
        oracle_fail.append((len(cc) - 1 if cc else 0, "implementation driver exited with %d: %s" % (rc1, cerr[-600:])))
    ctx.coverage.update(
        evaluations=nops, distinct_nontrivial=len(distinct),
        rule="region scripts (register file of 16 regions; ops rect/or/and/sub/offset/dup/bbox/pop/clip) run on "
             "the extracted Coq model and on the sra* API; every op's observation (empty, count, bool, four "
             "iteration orders) compared. distinct_nontrivial = distinct observed regions with >= 2 rectangles",
        samples=[cases[i] for i in (0, len(cases) // 2, len(cases) - 1)],
        input_distribution=hist, cases=len(cases), correspondence_mismatches=len(mismatches),
        oracle_checked_cases=len(range(0, len(cases), stride)),
        exhaustive=False)
    ctx.assumptions += ["coordinates stay within 32-bit int (no overflow in the C code)",
                        "theorems are about well-formed regions (as produced by the API from non-degenerate rectangles)"]

    def shrink(idx, pred):
        c = cases[idx]
        body = vlib.ddmin(c[1:], lambda sub: pred([c[0]] + sub))
        return [c[0]] + body

    reported = 0
    for idx, e in oracle_fail[:3]:
        def pred(lines):
            (r1, co, _), _ = run_pair(ctx, [lines], cexe, mexe)
            cs = vlib.split_cases(co)
            return bool(cs) and oracle_case(lines, cs[0][1]) is not None
        small = shrink(idx, pred)
        (r1, co, ce), (r2, mo, me) = run_pair(ctx, [small], cexe, mexe)
        cs = vlib.split_cases(co)
        msg = oracle_case(small, cs[0][1] if cs else []) or e
        ctx.violation("region algebra violated on the implementation: " + msg, features_of(small, msg),
                      "script:\n" + "\n".join(small) + "\n\nimplementation output:\n" + co + ce[-1500:] +
                      "\nmodel output:\n" + mo)
        reported += 1
    if mismatches and not oracle_fail:
        idx, d = mismatches[0]
        def pred2(lines):
            (r1, co, _), (r2, mo, _) = run_pair(ctx, [lines], cexe, mexe)
            return co != mo
        small = shrink(idx, pred2)
        (r1, co, ce), (r2, mo, me) = run_pair(ctx, [small], cexe, mexe)
        ctx.violation("correspondence RegionDefs.v <-> rfbregion.c no longer holds (%d cases differ); the set-algebra "
                      "predicate held on every implementation output explored" % len(mismatches),
                      {"kind": "correspondence"},
                      "correspondence: Region/RegionDefs.v (rgn_or/rgn_and/rgn_sub/rgn_iter...) vs sra* API\n"
                      "script:\n" + "\n".join(small) + "\n\nimplementation output:\n" + co + ce[-1500:] +
                      "\nmodel output:\n" + mo + me[-500:], no_input=True)
    if not proof_ok:
        if not oracle_fail:
            vlib.report_proof_failure(ctx, "Correspondence and the set-algebra oracle were run on %d operations "
                                      "without exhibiting a failing input." % nops)
    return


def replay(ctx, path):
    txt = open(path).read()
    if "script:\n" not in txt:
        print("replay names a theorem/correspondence, re-running the full check")
        return check(ctx)
    body = txt.split("script:\n", 1)[1].split("\n\n", 1)[0]
    lines = [l for l in body.split("\n") if l.strip()]
    cexe = vlib.build_harness("vdrv_region", ["vdrv_region.c"])
    vlib.prove(ctx, PROP_FILE, ["Extract/Extract_C11.vo"])
    mexe = vlib.build_ocaml("C11", "driver_C11.ml", "Extract/Extract_C11.vo")
    (r1, co, ce), (r2, mo, me) = run_pair(ctx, [lines], cexe, mexe)
    cs = vlib.split_cases(co)
    e = oracle_case(lines, cs[0][1] if cs else []) if "degenerate" not in lines[0] else None
    print("implementation:\n" + co + "model:\n" + mo)
    ctx.coverage.update(evaluations=len(lines) - 1, distinct_nontrivial=0, rule="replay", samples=[lines])
    if e:
        ctx.violation("region algebra violated on the implementation: " + e, features_of(lines, e),
                      "script:\n" + "\n".join(lines) + "\n\nimplementation output:\n" + co)
    elif co != mo:
        ctx.violation("correspondence differs on the replayed script", {"kind": "correspondence"},
                      "script:\n" + "\n".join(lines) + "\n\n" + co + "\n" + mo, no_input=True)
