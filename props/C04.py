"""C04 - No client input can corrupt memory, crash, exhaust or wedge the server.

Proof: coq/Props/Properties_C04.v - theorems over the mirror model coq/Wire/C2S.v (the handlers of
rfbProcessClientMessage written as programs over read/write/emit, interpreted against a peer given
as a list of segments, pauses, eof, reset, stall), for all byte streams and segmentations.
Tie: (a) every size, limit, message/encoding number used by the model is regenerated from /repo
(tools/consts.d/C04.json -> Gen/Consts_C04.v) and the theorems are re-proved about them; (b)
correspondence: the extracted model and the real server (ASan + UBSan(div-by-zero, bounds) build,
socketpair peers, link-time wraps of select/read/write for deterministic segmentation and virtual
time, of malloc/calloc/realloc for the allocation log, of the filesystem calls for confinement)
run the same scripts; connection fate, protocol state, callback log, allocations above 4 KiB,
virtual wait (total, count, longest) per rfbProcessEvents and the announced rectangle count of a
forced update are compared line by line.  Independently of the mirror model the property itself is
evaluated on the implementation's output: no sanitizer report / signal / watchdog timeout / busy
loop, largest allocation within the bound, waits within the configured client-wait time, the
witness client still gets a correct full update.
"""
import os, random, re, struct, sys, zlib
import vlib

PROP_FILE = "Props/Properties_C04.v"
LEVEL = "proof"
WRAPS = ("select", "read", "recv", "write", "malloc", "calloc", "realloc", "open", "creat", "fopen", "opendir",
         "mkdir", "rmdir", "unlink", "rename", "stat", "fstat", "utime", "pthread_create", "pthread_join")
DEFAULT_WAIT = 20000
SLICE = 5000
PEEK_WAIT = 100


# ------------------------------------------------------------------------------------------------
# which variant of the two repaired functions does the source carry?  (the model mirrors both)
def detect_variant():
    v = {"fixscale": 0, "fixpeek": 0, "fixfur": 0}
    try:
        s = open(os.path.join(vlib.REPO, "src/libvncserver/scale.c")).read()
        m = re.search(r"rfbScaledScreenAllocate\(.*?\n\}", s, flags=re.S)
        body = m.group(0) if m else ""
        if re.search(r"\bwidth\s*(==|<=|<)\s*[01]\b", body) or re.search(r"!\s*width\b", body):
            v["fixscale"] = 1
        s = open(os.path.join(vlib.REPO, "src/libvncserver/sockets.c")).read()
        m = re.search(r"rfbPeekExactTimeout\(.*?\n\}", s, flags=re.S)
        body = m.group(0) if m else ""
        if re.search(r"else\s+if\s*\(\s*n\s*>\s*0\s*\)", body):
            v["fixpeek"] = 1
        s = open(os.path.join(vlib.REPO, "src/libvncserver/rfbserver.c")).read()
        m = re.search(r"case rfbFramebufferUpdateRequest:.*?case rfbKeyEvent:", s, flags=re.S)
        body = m.group(0) if m else ""
        if re.search(r"msg\.fur\.w\s*==\s*0\s*\|\|\s*msg\.fur\.h\s*==\s*0", body) or \
           re.search(r"!\s*msg\.fur\.w\s*\|\|\s*!\s*msg\.fur\.h", body):
            v["fixfur"] = 1
    except OSError:
        pass
    return v


# ------------------------------------------------------------------------------------------------
# client messages
def be16(v): return struct.pack(">H", v & 0xFFFF)
def be32(v): return struct.pack(">I", v & 0xFFFFFFFF)

def m_version(major=3, minor=8): return b"RFB %03d.%03d\n" % (major, minor)
def m_pixfmt(bpp=32, depth=24, be=0, tc=1, rmax=255, gmax=255, bmax=255, rs=16, gs=8, bs=0):
    return bytes([0, 0, 0, 0, bpp & 255, depth & 255, be & 255, tc & 255]) + be16(rmax) + be16(gmax) + be16(bmax) + \
        bytes([rs & 255, gs & 255, bs & 255, 0, 0, 0])
def m_encodings(encs, count=None):
    return bytes([2, 0]) + be16(len(encs) if count is None else count) + b"".join(be32(e) for e in encs)
def m_fur(inc, x, y, w, h): return bytes([3, inc & 255]) + be16(x) + be16(y) + be16(w) + be16(h)
def m_key(down, key): return bytes([4, down & 255, 0, 0]) + be32(key)
def m_ptr(mask, x, y): return bytes([5, mask & 255]) + be16(x) + be16(y)
def m_cut(length, data): return bytes([6, 0, 0, 0]) + be32(length) + data
def m_ft(ctype, cparam, size, length, data=b""): return bytes([7, ctype & 255, cparam & 255, 0]) + be32(size) + be32(length) + data
def m_scale(f, palm=False): return bytes([15 if palm else 8, f & 255, 0, 0])
def m_input(st): return bytes([9, st & 255, 0, 0])
def m_sw(x, y, st=0): return bytes([10, st & 255]) + be16(x) + be16(y)
def m_chat(length, data=b""): return bytes([11, 0, 0, 0]) + be32(length) + data
def m_xvp(ver, code): return bytes([250, 0, ver & 255, code & 255])
def m_dsz(w, h, screens, n=None):
    body = b"".join(be32(i) + be16(x) + be16(y) + be16(sw) + be16(sh) + be32(fl) for (i, x, y, sw, sh, fl) in screens)
    return bytes([251, 0]) + be16(w) + be16(h) + bytes([(len(screens) if n is None else n) & 255, 0]) + body
def m_fixcmap(): return bytes([1, 0, 0, 0, 0, 0])

ENC = dict(raw=0, copyrect=1, rre=2, corre=4, hextile=5, zlib=6, tight=7, ultra=9, zrle=16, zywrle=17,
           tightpng=0xFFFFFEFC, xcursor=0xFFFFFF10, rich=0xFFFFFF11, ptrpos=0xFFFFFF18, lastrect=0xFFFFFF20,
           newfb=0xFFFFFF21, extds=0xFFFFFECC, led=0xFFFE0000, supmsg=0xFFFE0001, supenc=0xFFFE0002,
           srvid=0xFFFE0003, xvp=0xFFFFFECB, extclip=0xC0A1E5CE)
PIX_ENCS = ["raw", "rre", "corre", "hextile", "zlib", "tight", "ultra", "zrle", "zywrle", "tightpng"]
MODEL_ENCS = ["raw", "rre", "corre", "hextile", "zlib", "ultra", "zrle", "zywrle"]


def bsum(data):
    a = 0
    for b in data:
        a = (a * 31 + b) % 1000003
    return a


class Case:
    """a script under construction: events of the fuzzed connection A + the inflate hints"""
    def __init__(self, k, kind, cfg):
        self.k, self.kind, self.cfg = k, kind, dict(cfg)
        self.lines = []          # ops after cfg/open
        self.hints = []
        self.feat = {}
        self.extra_cfg = ""

    def cfg_line(self):
        c = self.cfg
        return "cfg " + " ".join("%s=%d" % (k, c[k]) for k in ("w", "h", "bpp", "pw", "ft", "xvp", "utf8", "wait", "view",
                                                               "dsz", "fixscale", "fixpeek", "fixfur")) + \
            (" ext=%d" % c["ext"] if c.get("ext") else "") + self.extra_cfg

    def data(self, b):
        if b:
            self.lines.append("ev A data " + b.hex())
    def pause(self, ms): self.lines.append("ev A pause %d" % max(1, ms))
    def op(self, s): self.lines.append(s)

    def render(self):
        head = "case %d %s" % (self.k, self.kind)
        return [head, self.cfg_line()] + self.hints + ["open A"] + self.lines


def timeout_of(cfg):
    return cfg["wait"] if cfg["wait"] else DEFAULT_WAIT


def rand_cfg(rng, variant, modelled=True):
    w, h = rng.choice([(4, 8), (8, 4), (16, 16), (1, 1), (3, 40), (40, 3), (20, 10), (2, 2), (64, 48)])
    return dict(w=w, h=h, bpp=rng.choice([32, 32, 32, 8]) if modelled else 16, pw=int(rng.random() < 0.25),
                ft=int(rng.random() < 0.2), xvp=int(rng.random() < 0.5), utf8=int(rng.random() < 0.6),
                wait=rng.choice([0, 0, 3000, 7000, 12000]), view=int(rng.random() < 0.15),
                dsz=int(rng.random() < 0.5), fixscale=variant["fixscale"], fixpeek=variant["fixpeek"], fixfur=variant["fixfur"],
                # configuration axis: TightVNC file-transfer extension registered (1), registered but file transfer
                # disabled (2).  Such sessions are run under the sanitizers and the oracle only (the extension's
                # security type and messages are not in the mirror model).
                ext=rng.choice([1, 1, 2]) if rng.random() < 0.15 else 0)


def handshake_msgs(rng, cfg, minor=None):
    """list of items: bytes or ('auth', ok) - a handshake that reaches RFB_NORMAL"""
    if minor is None:
        minor = rng.choice([8, 8, 8, 7, 3, 889])
    out = [m_version(3, minor)]
    if cfg.get("ext") and minor in (7, 8) and rng.random() < 0.6:
        # security type 16 (Tight): tunnel caps (none) / auth caps; with a password the client names VNC auth
        out.append(bytes([16]))
        if cfg["pw"]:
            out.append(be32(2))
            out.append(("auth", True))
        out.append(bytes([rng.choice([0, 1])]))
        return out
    if cfg["pw"]:
        if minor >= 7:
            out.append(bytes([2]))
        out.append(("auth", True))
        out.append(bytes([rng.choice([0, 1])]))
    else:
        if minor >= 7:
            out.append(bytes([1]))
        if minor != 889:
            out.append(bytes([rng.choice([0, 1])]))
    return out


def coord(rng, lim):
    r = rng.random()
    if r < 0.45:
        return rng.randint(0, max(0, lim))
    if r < 0.75:
        return rng.choice([0, 1, max(0, lim - 1), lim, lim + 1, 2 * lim, 255, 256, 32767, 32768, 65535 - lim, 65534, 65535])
    return rng.randint(0, 65535)


def zpayload(rng, fmts_sizes, good=True):
    """extended clipboard 'provide' payload for the given per-format sizes"""
    raw = b""
    for sz, dat in fmts_sizes:
        raw += be32(sz) + dat
    raw += b"\x00\x00\x00"           # so that the stream never ends exactly at a boundary
    return zlib.compress(raw, rng.choice([1, 6, 9]))


def gen_cut(rng, case, extclip_on):
    """ClientCutText in all its flavours; returns bytes"""
    cfg = case.cfg
    r = rng.random()
    if extclip_on and r < 0.55:
        kind = rng.choice(["caps", "caps_bad", "request", "peek", "notify", "provide", "provide", "provide_bad", "short",
                           "provide_zero", "provide_big"])
        if kind == "caps":
            fl = (1 << 24) | rng.choice([1, 1 | 2, 1 | 2 | 4, 2, 0, 0xFFFF, 1 | 16])
            n = bin(fl & 0xFFFF).count("1")
            body = be32(fl) + b"".join(be32(rng.choice([0, 1 << 20, 0xFFFFFFFF])) for _ in range(n))
        elif kind == "caps_bad":
            fl = (1 << 24) | 3
            body = be32(fl) + be32(5) * rng.choice([0, 1, 3])
        elif kind in ("request", "peek", "notify"):
            fl = {"request": 1 << 25, "peek": 1 << 26, "notify": 1 << 27}[kind] | rng.choice([0, 1])
            body = be32(fl)
        elif kind == "short":
            body = bytes(rng.randrange(256) for _ in range(rng.randint(0, 3)))
        else:
            bits = rng.choice([1, 1, 1 | 2, 2, 1 | 4, 0])
            fl = (1 << 28) | bits
            nf = bin(bits).count("1")
            if kind == "provide":
                fm = []
                for _ in range(nf):
                    sz = rng.choice([1, 5, 100, 4097, 5000]) if rng.random() < 0.95 else rng.choice([70000, 1 << 20])
                    fm.append((sz, bytes(rng.randrange(32, 127) for _ in range(sz))))
                pay = zpayload(rng, fm)
                steps = ",".join("%d/1" % sz for sz, _ in fm)
                res = "steps:" + steps
            elif kind == "provide_zero":
                fm = [(0, b"")] * max(1, nf)
                pay = zpayload(rng, fm)
                res = "steps:0/0" if nf else "steps:"
            elif kind == "provide_big":
                sz = rng.choice([(1 << 20) + 1, 0x7FFFFFFF, 0xFFFFFFFF])
                pay = zlib.compress(be32(sz) + b"xyz" * 10)
                res = ("steps:%d/0" % sz) if nf else "steps:"
            else:
                pay = bytes([0, 0, 0, 0]) + bytes(rng.randrange(256) for _ in range(rng.randint(0, 20)))
                res = "bad" if nf else "steps:"
            body = be32(fl) + pay
            case.hints.append("zhint %d %d %d %s" % (fl, len(pay), bsum(pay), res))
        return m_cut((-len(body)) & 0xFFFFFFFF, body)
    r = rng.random()
    if r < 0.5:
        n = rng.choice([0, 1, 5, 100, 100, 4095, 4096, 4097, 5000]) if rng.random() < 0.97 else 70000
        return m_cut(n, bytes(rng.randrange(256) for _ in range(n)))
    if r < 0.52:
        n = rng.choice([(1 << 20) - 1, 1 << 20])
        return m_cut(n, bytes([rng.randrange(256)]) * n)
    ln = rng.choice([(1 << 20) + 1, 0x7FFFFFFF, 0x80000000, 0xFFFFFFFF, 0xFFFFFFFB, 0x80000001])
    return m_cut(ln, bytes(rng.randrange(256) for _ in range(rng.randint(0, 8))))


def gen_normal_msg(rng, case, st):
    """one client message for RFB_NORMAL, mostly valid; st: generator-side knowledge (dict)"""
    cfg = case.cfg
    W, H = cfg["w"], cfg["h"]
    kinds = ["pixfmt", "encodings", "fur", "fur", "key", "ptr", "cut", "cut", "chat", "scale", "scale", "palm", "xvp", "dsz",
             "sw", "input", "ft", "fixcmap", "unknown"]
    k = rng.choice(kinds)
    if st.get("extclip") and rng.random() < 0.35:
        k = "cut"                      # stay on the extended clipboard while it is enabled
    if k == "encodings" and cfg["utf8"] and rng.random() < 0.35:
        st["extclip"] = True
        return m_encodings([ENC[rng.choice(MODEL_ENCS)], ENC["extclip"]])
    if k == "pixfmt":
        r = rng.random()
        if r < 0.5:
            bpp = rng.choice([8, 16, 32])
            return m_pixfmt(bpp, rng.choice([8, 15, 16, 24, 32, 1, 0, 255]), rng.choice([0, 1]), 1,
                            rng.choice([0, 1, 7, 31, 255, 65535, 32768]), rng.choice([0, 3, 7, 63, 255, 65535]),
                            rng.choice([0, 3, 31, 255, 65535]), rng.randrange(256) if rng.random() < 0.3 else rng.choice([0, 5, 8, 10, 11, 16, 24, 31]),
                            rng.choice([0, 3, 5, 8, 16, 32, 63, 255]), rng.choice([0, 6, 8, 16, 24, 31, 200]))
        if r < 0.65:
            return m_pixfmt(8, 8, 0, 0)          # colour map client
        if r < 0.8:
            return m_pixfmt(rng.choice([16, 32]), 8, 0, 0)   # colour map with wrong depth -> rejected
        return m_pixfmt(rng.choice([0, 1, 4, 24, 33, 64, 255, 7, 9]), 24, 0, rng.choice([0, 1]))
    if k == "encodings":
        n = rng.choice([0, 1, 2, 3, 5, 8, 20])
        pool = list(ENC.values()) + [0xFFFFFF00 + i for i in range(10)] + [0xFFFFFFE0 + i for i in range(10)] + \
            [0xFFFFFE00 + rng.randrange(0, 101), 0xFFFFFD00 + rng.randrange(0, 6), 0xFFFFFFEA, 0xFFFFFFEF, 0xFFFFFFFF,
             0x80000000, 0x7FFFFFFF, 8, 15, rng.randrange(1 << 32)]
        encs = [rng.choice(pool) for _ in range(n)]
        if rng.random() < 0.7:
            encs.insert(0, ENC[rng.choice(PIX_ENCS if rng.random() < 0.3 else MODEL_ENCS)])
        st["extclip"] = bool(ENC["extclip"] in encs and cfg["utf8"])     # every SetEncodings resets the capability
        return m_encodings(encs)
    if k == "fur":
        r = rng.random()
        if r < 0.4:
            return m_fur(rng.choice([0, 1, 255]), 0, 0, W, H)
        return m_fur(rng.choice([0, 1]), coord(rng, W), coord(rng, H), coord(rng, W), coord(rng, H))
    if k == "key":
        return m_key(rng.choice([0, 1, 2, 255]), rng.choice([0x41, 0xFFE1, 0, 0xFFFFFFFF, rng.randrange(1 << 32)]))
    if k == "ptr":
        return m_ptr(rng.choice([0, 1, 255, rng.randrange(256)]), coord(rng, W), coord(rng, H))
    if k == "cut":
        return gen_cut(rng, case, st.get("extclip", False))
    if k == "chat":
        r = rng.random()
        if r < 0.3:
            return m_chat(rng.choice([0xFFFFFFFF, 0xFFFFFFFE, 0xFFFFFFFD]))
        if r < 0.75:
            n = rng.choice([1, 2, 10, 100, 4094, 4095])
            return m_chat(n, bytes(rng.randrange(256) for _ in range(n)))
        return m_chat(rng.choice([0, 4096, 4097, 65536, 0x7FFFFFFF, 0x80000000, 0xFFFFFFFC]),
                      bytes(rng.randrange(256) for _ in range(rng.randint(0, 6))))
    if k in ("scale", "palm"):
        f = rng.choice([0, 1, 1, 2, 2, 3, W - 1, W, W + 1, H - 1, H, H + 1, 2 * W, 255, rng.randrange(256)])
        f = max(0, min(255, f))
        return m_scale(f, palm=(k == "palm"))
    if k == "xvp":
        return m_xvp(rng.choice([1, 1, 1, 0, 2, 255]), rng.choice([2, 3, 4, 0, 1, 255]))
    if k == "dsz":
        n = rng.choice([0, 1, 1, 2, 3, 16, 255])
        scr = [(rng.randrange(1 << 32), rng.randrange(65536), rng.randrange(65536), rng.randrange(65536), rng.randrange(65536),
                rng.randrange(1 << 32)) for _ in range(n)]
        return m_dsz(rng.choice([W, W + 1, 0, 65535, 800, 801]), rng.choice([H, 0, 65535, 600]), scr)
    if k == "sw":
        return m_sw(rng.randrange(65536), rng.randrange(65536), rng.randrange(256))
    if k == "input":
        return m_input(rng.randrange(256))
    if k == "ft":
        return gen_ft(rng, case)
    if k == "fixcmap":
        return m_fixcmap()
    return bytes([rng.choice([12, 13, 14, 16, 100, 200, 249, 252, 253, 254, 255, 129, 130, 131, 132, 133, 134, 135, 136, 137])]) + bytes(rng.randrange(256) for _ in range(rng.randint(0, 12)))


def gen_ft(rng, case):
    """UltraVNC file transfer.  Paths stay inside the sandbox (relative to cwd/HOME = sandbox); escaping ones
    are refused by the harness' filesystem wraps."""
    names = [b"C:f1.txt", b"C:dir1", b"f2.bin", b"C:dir1\\f3", b"C:../x", b"C:/etc/passwd", b"..\\..\\y", b"C:", b"",
             b"C:" + b"a" * 300, b"C:f1.txt,01/02/2020 10:00", b"C:a*C:b", b"C:f1.txt*C:f9.txt"]
    ctype = rng.choice([1, 1, 2, 3, 3, 4, 5, 5, 6, 7, 7, 8, 8, 9, 10, 10, 11, 12, 14, 0, 13, 255])
    cparam = rng.choice([0, 1, 2, 4, 5, 255])
    r = rng.random()
    name = rng.choice(names)
    size = rng.choice([0, 1, 0xFFFFFFFF, len(name), rng.randrange(1 << 32)])
    if r < 0.75:
        data = name if ctype != 5 else (bytes(rng.randrange(256) for _ in range(rng.choice([1, 10, 300]))) if rng.random() < 0.6
                                        else zlib.compress(b"hello world" * rng.choice([1, 100, 2000])))
        extra = be32(rng.randrange(1 << 32)) if ctype == 8 else b""
        return m_ft(ctype, cparam, size, len(data), data + extra)
    ln = rng.choice([0, 0x7FFFFFFF, 0x80000000, 0xFFFFFFFF, 0x7FFFFFF0])
    return m_ft(ctype, cparam, size, ln, bytes(rng.randrange(256) for _ in range(rng.randint(0, 16))))


def emit_stream(rng, case, items, mode):
    """turn a list of messages into segments according to the segmentation mode"""
    tmo = timeout_of(case.cfg)
    if mode == "permsg":
        for it in items:
            if isinstance(it, tuple):
                case.op("ev A auth %s" % ("ok" if it[1] else "bad"))
            else:
                case.data(it)
        return
    # concatenate runs of plain bytes, auth items stay separate events
    runs, cur = [], b""
    for it in items:
        if isinstance(it, tuple):
            if cur:
                runs.append(cur); cur = b""
            runs.append(it)
        else:
            cur += it
    if cur:
        runs.append(cur)
    for rn in runs:
        if isinstance(rn, tuple):
            case.op("ev A auth %s" % ("ok" if rn[1] else "bad"))
            continue
        if mode == "one" or len(rn) > 300000:
            case.data(rn)
        elif mode == "bytes":
            for i in range(len(rn)):
                case.data(rn[i:i + 1])
                if rng.random() < 0.2:
                    case.pause(rng.choice([1, 10, 500, tmo - 1]))
        else:  # random split, pauses in between
            i = 0
            while i < len(rn):
                n = rng.choice([1, 1, 2, 3, 4, 7, 8, 12, 20, 100, 5000])
                case.data(rn[i:i + n]); i += n
                if i < len(rn) and rng.random() < 0.3:
                    case.pause(rng.choice([1, 50, 99, 100, 101, 4999, 5000, tmo - 1, tmo // 2]))


def case_session(rng, k, variant, thorough):
    """mostly valid session: handshake, a number of messages, updates in between, witness"""
    cfg = rand_cfg(rng, variant)
    c = Case(k, "session", cfg)
    st = {}
    mode = rng.choice(["permsg", "permsg", "one", "split", "split", "bytes"])
    items = handshake_msgs(rng, cfg)
    pre = rng.random() < 0.5
    emit_stream(rng, c, items, mode if mode != "bytes" else "permsg")
    c.op("connect A" + (" pre" if pre else ""))
    c.op("run A")
    nphase = rng.choice([1, 2, 3])
    for ph in range(nphase):
        msgs = [gen_normal_msg(rng, c, st) for _ in range(rng.choice([1, 2, 4, 8, 14]))]
        if mode == "bytes" and sum(len(m) for m in msgs) > 400:
            emit_stream(rng, c, msgs, "split")
        else:
            emit_stream(rng, c, msgs, mode)
        c.op("run A")
        if rng.random() < 0.7:
            c.op("update A")
    if not c.lines or c.lines[-1] != "update A":
        c.op("update A")
    c.op("witness")
    return c


def case_truncated(rng, k, variant):
    """a valid prefix cut at a random byte, followed by eof / reset / silence / a long pause"""
    cfg = rand_cfg(rng, variant)
    c = Case(k, "truncated", cfg)
    st = {}
    items = handshake_msgs(rng, cfg)
    if rng.random() < 0.8:
        items += [gen_normal_msg(rng, c, st) for _ in range(rng.choice([1, 2, 3]))]
    # flatten, cut
    flat, auth_at = b"", None
    out = []
    for it in items:
        out.append(it)
    total = sum(len(x) for x in out if not isinstance(x, tuple))
    cut = rng.randint(0, max(0, total))
    acc, kept = 0, []
    for it in out:
        if isinstance(it, tuple):
            if acc < cut:
                kept.append(it)
            continue
        if acc + len(it) <= cut:
            kept.append(it); acc += len(it)
        else:
            if cut - acc > 0:
                kept.append(it[:cut - acc])
            acc = cut
            break
    emit_stream(rng, c, kept, rng.choice(["permsg", "one", "split"]))
    end = rng.choice(["eof", "reset", "silence", "pause", "eof", "reset"])
    if end in ("eof", "reset"):
        c.op("ev A " + end)
    elif end == "pause":
        c.pause(timeout_of(cfg) + rng.choice([0, 1, 1000]))
        c.data(bytes(rng.randrange(256) for _ in range(4)))
    c.op("connect A" + (" pre" if rng.random() < 0.4 else ""))
    c.op("run A")
    if not c.lines or c.lines[-1] != "update A":
        c.op("update A")
    c.op("witness")
    return c


def case_handshake(rng, k, variant):
    """malformed / unusual handshakes (version strings, security types, auth)"""
    cfg = rand_cfg(rng, variant)
    c = Case(k, "handshake", cfg)
    vers = [b"RFB 003.008\n", b"RFB 003.003\n", b"RFB 003.007\n", b"RFB 003.889\n", b"RFB 004.000\n", b"RFB 003.006\n",
            b"RFB 3.8\n\0\0\0\0\0", b"RFB 03.-01\n\0\0", b"RFB  +3.  8\n", b"RFB 003,008\n", b"RFB 003.\n\0\0\0\0", b"rfb 003.008\n",
            b"RFB\t3.999\n\0\0", b"RFB 0003.008", b"RFB 003.0089", b"RFB -03.008\n", b"RFB 003.+7 \n", b"RFB 3.7\0 3.8\n",
            b"GET / HTTP/1", b"\x16\x03\x01\x00\xa5\x01\x00\x00\xa1\x03\x03\x00", b"\x80abcdefghijk", b"RFC 003.008\n",
            bytes(rng.randrange(256) for _ in range(12))]
    v = rng.choice(vers)
    items = [v]
    r = rng.random()
    if r < 0.6:
        items.append(bytes([rng.choice([0, 1, 2, 2, 1, 5, 16, 19, 255])]))
        if cfg["pw"]:
            items.append(("auth", rng.random() < 0.5) if rng.random() < 0.8 else bytes(rng.randrange(256) for _ in range(16)))
        items.append(bytes([rng.randrange(256)]))
        items.append(m_fur(0, 0, 0, cfg["w"], cfg["h"]))
        items.append(m_key(1, 0x41))
    else:
        items.append(bytes(rng.randrange(256) for _ in range(rng.randint(0, 40))))
    emit_stream(rng, c, items, rng.choice(["permsg", "one", "split"]))
    c.op("connect A" + (" pre" if rng.random() < 0.5 else ""))
    c.op("run A")
    if rng.random() < 0.5:
        c.op("update A")
    if not c.lines or c.lines[-1] != "update A":
        c.op("update A")
    c.op("witness")
    return c


def case_peek(rng, k, variant):
    """the first bytes of a connection arriving in pieces (webSocketsCheck's 4-byte peek)"""
    cfg = rand_cfg(rng, variant)
    c = Case(k, "peek", cfg)
    v = rng.choice([b"RFB 003.008\n", b"GET ", b"RFB ", b"RF", b"R", b"\x16", b"xyz", b"RFB 003.003\n"])
    cutp = rng.choice([1, 2, 3, 4])
    first, rest = v[:cutp], v[cutp:]
    if rng.random() < 0.3:
        c.pause(rng.choice([1, 50, 99, 100, 150]))
    c.data(first)
    end = rng.choice(["more", "more", "pause_more", "silence", "eof", "reset", "longpause"])
    if end == "more":
        c.data(rest + (bytes([1, 1]) if not cfg["pw"] else b""))
    elif end == "pause_more":
        c.pause(rng.choice([1, 20, 99, 100, 500, 30000]))
        c.data(rest + bytes([1, 1]))
    elif end == "longpause":
        c.pause(rng.choice([100, 101, 60000]))
        c.data(rest)
    elif end in ("eof", "reset"):
        c.op("ev A " + end)
    c.op("connect A" + (" pre" if rng.random() < 0.5 else ""))
    c.op("run A")
    if not c.lines or c.lines[-1] != "update A":
        c.op("update A")
    c.op("witness")
    return c


def case_slow(rng, k, variant):
    """a peer that drips one message byte by byte, each byte just inside the per-select timeout"""
    cfg = rand_cfg(rng, variant)
    c = Case(k, "slowdrip", cfg)
    st = {}
    emit_stream(rng, c, handshake_msgs(rng, cfg, minor=8), "permsg")
    c.op("connect A pre")
    c.op("run A")
    tmo = timeout_of(cfg)
    msg = rng.choice([m_key(1, 0x42), m_fur(0, 0, 0, 1, 1), m_pixfmt(), m_cut(6, b"slowly"), m_encodings([0, 1, 2, 5])])
    gap = rng.choice([tmo - 1, tmo - 1, tmo // 2, tmo // 4 + 1])
    for i in range(len(msg)):
        c.data(msg[i:i + 1])
        if i + 1 < len(msg):
            c.pause(gap)
    c.op("run A")
    if not c.lines or c.lines[-1] != "update A":
        c.op("update A")
    c.op("witness")
    return c


def case_stall(rng, k, variant):
    """a peer that stops reading: replies and updates cannot be written"""
    cfg = rand_cfg(rng, variant)
    cfg["ft"] = 0
    c = Case(k, "stall", cfg)
    st = {}
    if rng.random() < 0.35:
        cfg["pw"] = c.cfg["pw"] = 1    # a failed authentication writes twice (result word, reason string)
    items = handshake_msgs(rng, cfg)
    if cfg["pw"] and rng.random() < 0.6:
        items = [("auth", False) if isinstance(it, tuple) else it for it in items]
    at = rng.randint(0, len(items))
    emit_stream(rng, c, items[:at], "permsg")
    c.op("ev A stall")
    emit_stream(rng, c, items[at:], "permsg")
    c.op("connect A" + (" pre" if rng.random() < 0.3 and at > 0 else ""))
    c.op("run A")
    msgs = [rng.choice([m_scale(2), m_xvp(2, 0), m_xvp(1, 2), m_pixfmt(8, 8, 0, 0), m_encodings([ENC["xvp"], ENC["extclip"], 0]),
                        m_fur(0, 0, 0, cfg["w"], cfg["h"]), m_key(1, 65), m_encodings([ENC["zlib"]]), m_scale(1, palm=True)])
            for _ in range(rng.choice([1, 2, 4]))]
    emit_stream(rng, c, msgs, "permsg")
    c.op("run A")
    c.op("update A")
    if not c.lines or c.lines[-1] != "update A":
        c.op("update A")
    c.op("witness")
    return c


def case_scale_update(rng, k, variant):
    """SetScale boundary factors followed by an update in every encoding (F2 lives here)"""
    cfg = rand_cfg(rng, variant)
    cfg["pw"] = 0
    W, H = cfg["w"], cfg["h"]
    c = Case(k, "scaleupd", cfg)
    emit_stream(rng, c, handshake_msgs(rng, cfg, minor=8), "one")
    c.op("connect A pre")
    c.op("run A")
    enc = rng.choice(MODEL_ENCS + ["zlib", "ultra", "corre"])
    f = rng.choice([1, 2, 3, W - 1, W, W + 1, H - 1, H, H + 1, W + 2, 255])
    f = max(1, min(255, f))
    msgs = [m_encodings([ENC[enc]] + ([ENC["newfb"]] if rng.random() < 0.2 else []))]
    order = rng.random()
    fur = m_fur(0, 0, 0, W, H) if rng.random() < 0.7 else m_fur(rng.choice([0, 1]), coord(rng, W), coord(rng, H), coord(rng, W), coord(rng, H))
    sc = m_scale(f, palm=rng.random() < 0.3)
    msgs += [fur, sc] if order < 0.6 else [sc, fur]
    emit_stream(rng, c, msgs, rng.choice(["permsg", "one"]))
    c.op("run A")
    c.op("update A")
    if rng.random() < 0.5:
        emit_stream(rng, c, [m_fur(1, 0, 0, W, H), m_ptr(1, coord(rng, W), coord(rng, H))], "permsg")
        c.op("run A")
        c.op("update A")
    c.op("witness")
    c.feat = {"enc": enc, "factor": f, "w": W, "h": H}
    return c


def case_clip(rng, k, variant, exhaustive_w=None):
    """FramebufferUpdateRequests at the boundaries of the uint16 clipping, unscaled and scaled"""
    cfg = rand_cfg(rng, variant)
    cfg["pw"] = 0
    W, H = cfg["w"], cfg["h"]
    c = Case(k, "clip", cfg)
    items = handshake_msgs(rng, cfg, minor=8)
    if rng.random() < 0.4:
        items.append(m_scale(rng.choice([2, 3, max(1, min(W, H))])))
    n = rng.choice([4, 10, 25])
    for _ in range(n):
        items.append(m_fur(rng.choice([0, 1]), coord(rng, W), coord(rng, H), coord(rng, W), coord(rng, H)))
    emit_stream(rng, c, items, "one")
    c.op("connect A pre")
    c.op("run A")
    if not c.lines or c.lines[-1] != "update A":
        c.op("update A")
    c.op("witness")
    return c


def case_clip_sweep(rng, k, variant, vals, W, H):
    """every combination of boundary coordinates as an update request on a tiny screen (ties the
    hand-written mirror of rectSwapIfLEAndClip to the code exhaustively over the boundary grid)"""
    cfg = rand_cfg(rng, variant)
    cfg.update(w=W, h=H, pw=0, view=0)
    c = Case(k, "clipsweep", cfg)
    items = handshake_msgs(rng, cfg, minor=8)
    blob = b"".join(m_fur(1, x, y, w, h) for x in vals for y in vals for w in vals for h in vals)
    emit_stream(rng, c, items + [blob], "one")
    c.op("connect A pre")
    c.op("run A")
    c.op("witness")
    return c


def case_garbage(rng, k, variant):
    """random bytes after a valid handshake (and sometimes instead of it)"""
    cfg = rand_cfg(rng, variant)
    c = Case(k, "garbage", cfg)
    items = handshake_msgs(rng, cfg) if rng.random() < 0.8 else []
    n = rng.choice([1, 5, 30, 200])
    blob = bytes(rng.choice([rng.randrange(256), rng.randrange(16), 0, 255]) for _ in range(n))
    emit_stream(rng, c, items + [blob], rng.choice(["one", "split"]))
    if rng.random() < 0.5:
        c.op("ev A " + rng.choice(["eof", "reset"]))
    c.op("connect A" + (" pre" if rng.random() < 0.5 else ""))
    c.op("run A")
    c.op("update A")
    if not c.lines or c.lines[-1] != "update A":
        c.op("update A")
    c.op("witness")
    return c


def case_unmodelled(rng, k, variant):
    """16-bpp server (translation tables not in the model): sanitizer/oracle only"""
    cfg = rand_cfg(rng, variant, modelled=False)
    c = Case(k, "nomodel16", cfg)
    st = {}
    emit_stream(rng, c, handshake_msgs(rng, cfg), "permsg")
    c.op("connect A pre")
    c.op("run A")
    for _ in range(2):
        emit_stream(rng, c, [gen_normal_msg(rng, c, st) for _ in range(6)], "permsg")
        c.op("run A")
        c.op("update A")
    if not c.lines or c.lines[-1] != "update A":
        c.op("update A")
    c.op("witness")
    return c


def case_ws(rng, k, variant):
    """connections that start like a WebSocket upgrade: handshake lines (valid and damaged), then frames.
    The WebSocket layer itself is C09's model; here only the sanitizers and the oracle look at it."""
    import base64, hashlib
    cfg = rand_cfg(rng, variant)
    c = Case(k, "websocket", cfg)
    key = base64.b64encode(bytes(rng.randrange(256) for _ in range(16)))
    good = [b"GET /websockify HTTP/1.1", b"Host: localhost:5900", b"Upgrade: websocket", b"Connection: Upgrade",
            b"Sec-WebSocket-Key: " + key, b"Sec-WebSocket-Protocol: binary", b"Sec-WebSocket-Version: 13", b"Origin: http://x"]
    lines = list(good)
    r = rng.random()
    if r < 0.5:
        for _ in range(rng.choice([1, 2, 4])):
            op = rng.choice(["drop", "dup", "long", "junk", "nocolon", "key"])
            i = rng.randrange(len(lines))
            if op == "drop" and len(lines) > 1:
                del lines[i]
            elif op == "dup":
                lines.insert(i, lines[i])
            elif op == "long":
                lines[i] = lines[i] + b"A" * rng.choice([100, 1000, 4000, 5000])
            elif op == "junk":
                lines.insert(i, bytes(rng.randrange(1, 256) for _ in range(rng.randint(1, 60))))
            elif op == "nocolon":
                lines[i] = lines[i].replace(b":", b"")
            else:
                lines.append(b"Sec-WebSocket-Key1: 4 @1  46546xW%0l 1 5")
    hs = b"\r\n".join(lines) + (b"\r\n\r\n" if rng.random() < 0.9 else b"\r\n")
    b64 = rng.random() < 0.3
    if b64:
        lines = [l.replace(b"Sec-WebSocket-Protocol: binary", b"Sec-WebSocket-Protocol: base64") for l in lines]
        hs = b"\r\n".join(lines) + (b"\r\n\r\n" if rng.random() < 0.9 else b"\r\n")
    def frame(payload, opcode=None, masked=True, fin=True, lenmode=None, declared=None):
        """one frame; declared: the length written into the header (the payload delivered may be shorter)"""
        if opcode is None:
            opcode = 1 if b64 else 2
        if b64 and opcode == 1:
            payload = base64.b64encode(payload)
        b0 = (0x80 if fin else 0) | (opcode & 0x0F)
        n = len(payload) if declared is None else declared
        mk = bytes(rng.randrange(256) for _ in range(4))
        if lenmode == "16" or (lenmode is None and 126 <= n < 65536):
            hdr = bytes([b0, (0x80 if masked else 0) | 126]) + be16(n)
        elif lenmode == "64" or (lenmode is None and n >= 65536):
            hdr = bytes([b0, (0x80 if masked else 0) | 127]) + struct.pack(">Q", n & 0xFFFFFFFFFFFFFFFF)
        else:
            hdr = bytes([b0, (0x80 if masked else 0) | (n & 0x7F)])
        body = bytes(p ^ mk[i % 4] for i, p in enumerate(payload)) if masked else payload
        return hdr + (mk if masked else b"") + body
    frames = []
    session = b"RFB 003.008\n" + bytes([1, 1]) + m_encodings([rng.choice([0, 5, 16])]) + m_fur(0, 0, 0, cfg["w"], cfg["h"]) + \
        m_key(1, 65) + m_ptr(1, 1, 1) + m_cut(3, b"abc")
    inner = session
    style = rng.choice(["session", "session", "mixed", "mixed", "huge"])
    if style == "session":
        # the whole RFB session carried in frames whose sizes sit on the length-form boundaries
        pad = m_cut(70000, b"z" * 70000) if rng.random() < 0.3 else b""
        inner = session + pad
        while inner:
            n = rng.choice([1, 2, 12, 125, 126, 127, 65535, 65536]) if len(inner) > 200 else rng.randint(1, len(inner))
            frames.append(frame(inner[:n])); inner = inner[n:]
            if rng.random() < 0.15:
                frames.append(frame(b"ping", opcode=rng.choice([9, 10])))
    elif style == "huge":
        # a frame that declares far more than it delivers (legal: the rest may still be on its way)
        frames.append(frame(session[:rng.choice([0, 1, 12, 14])]))
        decl = rng.choice([125, 126, 65535, 65536, (1 << 31) - 1, 1 << 31, (1 << 31) + 5, 1 << 32, (1 << 32) + 1, 1 << 62, (1 << 63) - 1,
                           1 << 63, (1 << 64) - 1])
        got = rng.choice([0, 1, 1, 5, 200, 3000])
        frames.append(frame(bytes(rng.randrange(256) for _ in range(got)), lenmode="64" if (decl >= 65536 or rng.random() < 0.3) else None,
                            declared=decl, opcode=rng.choice([2, 2, 1, 0])))
    else:
        for _ in range(rng.choice([1, 3, 6])):
            kind = rng.choice(["rfb", "rfb", "ctl", "big", "hdronly", "text", "unmasked", "len16small", "len64", "decl"])
            if kind == "rfb":
                n = rng.randint(1, max(1, len(inner)))
                frames.append(frame(inner[:n])); inner = inner[n:] or m_key(1, 66)
            elif kind == "ctl":
                frames.append(frame(bytes(rng.randrange(256) for _ in range(rng.choice([0, 2, 125, 126]))), opcode=rng.choice([8, 9, 10, 11, 15])))
            elif kind == "big":
                frames.append(frame(bytes(rng.choice([2040, 2048, 2049, 4096, 70000])), opcode=2))
            elif kind == "hdronly":
                frames.append(frame(b"abcdef")[:rng.randint(1, 7)])
            elif kind == "text":
                frames.append(frame(base64.b64encode(inner[:9]), opcode=1))
            elif kind == "unmasked":
                frames.append(frame(b"\x03\x00" * 5, masked=False))
            elif kind == "len16small":
                frames.append(frame(b"xyz", lenmode="16"))
            elif kind == "len64":
                frames.append(frame(b"xyz", lenmode="64"))
            else:
                frames.append(frame(b"xy", declared=rng.choice([126, 65536, 1 << 31, 1 << 32, 1 << 63]), lenmode="64"))
    blob = hs + b"".join(frames)
    emit_stream(rng, c, [blob], rng.choice(["one", "split", "split"]))
    if rng.random() < 0.4:
        c.op("ev A " + rng.choice(["eof", "reset"]))
    c.op("connect A" + (" pre" if rng.random() < 0.5 else ""))
    c.op("run A")
    c.op("update A")
    c.op("witness")
    return c


SANDBOX_LEN = 40
def case_tightft(rng, k, variant):
    """TightVNC file-transfer extension registered (security type 16): list / download / upload / create-dir
    requests with names at the PATH_MAX boundaries (with and without the length of the ftproot), dot-dot
    components, truncated and oversized fields.  Owned by C19 as far as the filesystem semantics go; here the
    sanitizers, the watchdog and the witness look at it (no model comparison)."""
    cfg = rand_cfg(rng, variant)
    cfg.update(pw=int(rng.random() < 0.2), ft=0, view=int(rng.random() < 0.3), bpp=32,
               ext=2 if rng.random() < 0.25 else 1)
    c = Case(k, "tightft", cfg)
    L = SANDBOX_LEN
    pm = 4096
    items = [m_version(3, rng.choice([8, 8, 7])), bytes([16])]
    if cfg["pw"]:
        items += [be32(2), ("auth", rng.random() < 0.9)]
    if rng.random() < 0.9:
        items.append(bytes([1]))                                  # ClientInit
    def name_of(n):
        base = rng.choice([b"/", b"/f1.txt", b"/dir1", b"/dir1/f3", b"/nonexistent", b"/../x", b"/a/../../b", b"relative", b""])
        if n is None:
            return base
        body = (b"/" + b"a" * max(0, n - 1)) if rng.random() < 0.8 else (b"/dir1/" + b"b" * max(0, n - 6))
        return body[:n]
    lens = [None, None, None, 1, 255, 256, pm - 2 - L, pm - 1 - L, pm - L, pm - L + 1, pm - 2, pm - 1, pm, pm + 1, 65535]
    msgs = []
    for _ in range(rng.choice([1, 2, 4, 7])):
        t = rng.choice([130, 130, 131, 131, 132, 132, 133, 134, 135, 136, 136, 137, 129])
        nm = name_of(rng.choice(lens))
        n = len(nm) if rng.random() < 0.85 else rng.choice([0, 1, len(nm) + 1, 65535])
        if t in (130, 136):
            msgs.append(bytes([t, rng.choice([0, 1, 255])]) + be16(n) + nm)
        elif t in (131, 132):
            msgs.append(bytes([t, rng.choice([0, 1, 9, 255])]) + be16(n) + be32(rng.choice([0, 1, 0xFFFFFFFF])) + nm)
        elif t == 133:
            data = bytes(rng.randrange(256) for _ in range(rng.choice([0, 1, 100, 5000])))
            rs = len(data) if rng.random() < 0.7 else rng.choice([0, 1, 65535])
            msgs.append(bytes([133, rng.choice([0, 1])]) + be16(rs) + be16(len(data) if rng.random() < 0.8 else rng.choice([0, 65535])) +
                        (data if (rs or data) else be32(rng.randrange(1 << 32))))
        elif t in (134, 135):
            rsn = bytes(rng.randrange(32, 127) for _ in range(rng.choice([0, 5, 300])))
            msgs.append(bytes([t, 0]) + be16(len(rsn) if rng.random() < 0.8 else 65535) + rsn)
        else:
            msgs.append(bytes([t]) + bytes(rng.randrange(256) for _ in range(rng.randint(0, 12))))
    emit_stream(rng, c, items, "permsg")
    c.op("connect A pre")
    c.op("run A")
    emit_stream(rng, c, msgs, rng.choice(["permsg", "one", "split"]))
    if rng.random() < 0.3:
        c.op("ev A " + rng.choice(["eof", "reset"]))
    c.op("run A")
    c.op("update A")
    c.op("witness")
    return c


_extclip_n = [0]


def case_extclip(rng, k, variant):
    """the extended clipboard (negative-length ClientCutText): capability exchange with arbitrary limits, then
    provide messages whose inflated size field sits on and beyond the 1 MiB limit (incl. zlib bombs that really
    carry the announced bytes), request / peek / notify, interleaved with plain cut text and SetEncodings that
    withdraw the capability"""
    cfg = rand_cfg(rng, variant)
    cfg.update(utf8=1, pw=0, ft=0, view=int(rng.random() < 0.1))
    c = Case(k, "extclip", cfg)
    emit_stream(rng, c, handshake_msgs(rng, cfg, minor=8), "one")
    c.op("connect A pre")
    c.op("run A")
    def ext(body):
        return m_cut((-len(body)) & 0xFFFFFFFF, body)
    def provide(fl_bits, recs, trailer=b"\x00\x00\x00", level=6):
        """recs: list of (announced size, bytes actually in the stream)"""
        raw = b"".join(be32(sz) + dat for sz, dat in recs) + trailer
        pay = zlib.compress(raw, level)
        fl = (1 << 28) | fl_bits
        steps = []
        for sz, dat in recs:
            if sz > gen_const("c04_ext_clip_limit", SPEC_REC_LIMIT):      # record refused before its body is inflated
                steps.append("%d/0" % sz); break
            if sz == 0 or len(dat) != sz:
                steps.append("%d/0" % sz); break
            steps.append("%d/1" % sz)
        nbits = bin(fl_bits & 0xFFFF).count("1")
        c.hints.append("zhint %d %d %d steps:%s" % (fl, len(pay), bsum(pay), ",".join(steps[:nbits])))
        return ext(be32(fl) + pay)
    msgs = [m_encodings([ENC[rng.choice(MODEL_ENCS)], ENC["extclip"]])]
    # messages of 1 MiB are expensive for the extracted model (about 2 s each): the limits of the message length are
    # visited once each in the first cases of every run and rarely afterwards
    nth = _extclip_n[0]
    _extclip_n[0] += 1
    forced = {0: ("msgedge", 0), 1: ("msgedge", 1), 2: ("msgedge", -1023), 3: ("incompr", 0)}.get(nth)
    for j in range(rng.choice([2, 4, 7])):
        kind = rng.choice(["caps", "caps", "good", "good", "edge", "big", "bomb", "req", "plain", "withdraw", "multi", "short"])
        if rng.random() < 0.03:
            kind = rng.choice(["msgedge", "incompr"])
        if forced and j == 0:
            kind = forced[0]
        if kind == "caps":
            fl = (1 << 24) | rng.choice([1, 1, 1 | 2, 1 | 2 | 4 | 8 | 16, 2, 0])
            n = bin(fl & 0xFFFF).count("1")
            sizes = [rng.choice([0, 1, 1 << 20, (1 << 20) + 1, 20 << 20, 0x7FFFFFFF, 0xFFFFFFFF]) for _ in range(n)]
            body = be32(fl) + b"".join(be32(v) for v in sizes)
            if rng.random() < 0.15:
                body += be32(7)                       # wrong length -> closed
            msgs.append(ext(body))
        elif kind == "good":
            sz = rng.choice([1, 5, 100, 4097, 70000])
            msgs.append(provide(1, [(sz, bytes(rng.randrange(32, 127) for _ in range(sz)))], level=rng.choice([1, 6, 9])))
        elif kind == "msgedge":
            # the length check of the (compressed) extended message itself: 1 MiB + 1 KiB since 59a8ab5; a Request
            # ignores what follows its flags, so its length can be chosen freely
            M = gen_const("c04_ext_cut_msg_limit", SPEC_MSG_LIMIT)
            L = rng.choice([(1 << 20) + 1, (1 << 20) + 2, (1 << 20) + rng.randint(3, 1023), M - 1, M, M, M + 1, M + 1])
            if forced and j == 0:
                L = M + forced[1]                        # M (largest accepted), M + 1 (refused), 2^20 + 1 (just above the classic limit)
            if L <= M:
                msgs.append(ext(be32((1 << 25) | rng.choice([0, 1])) + bytes([rng.randrange(256)]) * (L - 4)))
            else:                                        # refused before anything is read
                msgs.append(m_cut((-L) & 0xFFFFFFFF, bytes(rng.randrange(256) for _ in range(rng.randint(0, 8)))))
        elif kind == "incompr":
            # a text of (nearly) 1 MiB that zlib cannot shrink: the message is larger than the text
            sz = rng.choice([(1 << 20) - 1, 1 << 20])
            msgs.append(provide(1, [(sz, rng.randbytes(sz))], level=rng.choice([1, 6])))
        elif kind == "edge":
            L = gen_const("c04_ext_clip_limit", SPEC_REC_LIMIT)
            sz = rng.choice([(1 << 20) - 1, 1 << 20, L - 1, L])
            msgs.append(provide(1, [(sz, b"E" * sz)]))
        elif kind == "big":
            sz = rng.choice([(1 << 20) + 1, (20 << 20), (20 << 20) + 1, 0x7FFFFFFF, 0x80000000, 0xFFFFFFFF])
            msgs.append(provide(rng.choice([1, 2, 1 | 2]), [(sz, b"xyz" * 10)]))
        elif kind == "bomb":
            sz = rng.choice([(1 << 20) + 1, gen_const("c04_ext_clip_limit", SPEC_REC_LIMIT) + 1, 4 << 20, 16 << 20])
            msgs.append(provide(1, [(sz, b"A" * sz)], level=9))
        elif kind == "multi":
            recs = [(rng.choice([1, 50, 3000]), None) for _ in range(2)]
            recs = [(sz, bytes(rng.randrange(32, 127) for _ in range(sz))) for sz, _ in recs]
            msgs.append(provide(1 | 2, recs))
        elif kind == "req":
            msgs.append(ext(be32(rng.choice([1 << 25, 1 << 26, 1 << 27]) | rng.choice([0, 1]))))
        elif kind == "plain":
            n = rng.choice([0, 3, 100])
            msgs.append(m_cut(n, bytes(rng.randrange(256) for _ in range(n))))
        elif kind == "short":
            msgs.append(ext(bytes(rng.randrange(256) for _ in range(rng.randint(1, 3)))))
        else:
            msgs.append(m_encodings([ENC[rng.choice(MODEL_ENCS)]] + ([ENC["extclip"]] if rng.random() < 0.5 else [])))
    emit_stream(rng, c, msgs, rng.choice(["permsg", "permsg", "one"]))
    c.op("run A")
    c.op("update A")
    c.op("witness")
    return c


_ENC_POOL = None
def enc_pool():
    """every encoding / pseudo-encoding number defined in rfbproto.h, every value of the level and
    subsampling ranges, and the off-by-one neighbours of each range"""
    global _ENC_POOL
    if _ENC_POOL is None:
        vals = set()
        try:
            txt = open(os.path.join(vlib.REPO, "include/rfb/rfbproto.h")).read()
            for m in re.finditer(r"#define\s+rfbEncoding\w+\s+(0x[0-9A-Fa-f]+|\d+)", txt):
                vals.add(int(m.group(1), 0) & 0xFFFFFFFF)
        except OSError:
            pass
        vals.update(ENC.values())
        ranges = [(0xFFFFFD00, 0xFFFFFD0F), (0xFFFFFE00, 0xFFFFFE64), (0xFFFFFF00, 0xFFFFFF0F), (0xFFFFFFE0, 0xFFFFFFEF),
                  (0xFFFF0000, 0xFFFF0009), (0xFFFE0000, 0xFFFE0003), (0xFFFFFF10, 0xFFFFFF21), (0, 17)]
        for lo, hi in ranges:
            vals.update(range(lo, hi + 1))
            vals.update([(lo - 1) & 0xFFFFFFFF, (hi + 1) & 0xFFFFFFFF])
        for v in list(vals):
            vals.update([(v - 1) & 0xFFFFFFFF, (v + 1) & 0xFFFFFFFF])
        _ENC_POOL = sorted(vals)
    return _ENC_POOL


def rand_pixfmt(rng):
    """client pixel formats the server accepts"""
    return rng.choice([
        None, None,
        m_pixfmt(32, 24, 0, 1, 255, 255, 255, 16, 8, 0), m_pixfmt(32, 24, 1, 1, 255, 255, 255, 0, 8, 16),
        m_pixfmt(32, 24, 0, 1, 255, 255, 255, 0, 8, 16), m_pixfmt(32, 30, 0, 1, 1023, 1023, 1023, 20, 10, 0),
        m_pixfmt(16, 16, 0, 1, 31, 63, 31, 11, 5, 0), m_pixfmt(16, 15, 1, 1, 31, 31, 31, 10, 5, 0),
        m_pixfmt(8, 8, 0, 1, 7, 7, 3, 0, 3, 6), m_pixfmt(8, 8, 0, 0), m_pixfmt(24, 24, 0, 1, 255, 255, 255, 16, 8, 0),
        m_pixfmt(32, 24, 0, 1, rng.choice([1, 7, 255, 65535]), rng.choice([3, 255, 65535]), rng.choice([1, 255]),
                 rng.choice([0, 8, 16, 24]), rng.choice([0, 8, 12]), rng.choice([0, 4, 16]))])


def case_encupd(rng, k, variant):
    """every preferred encoding x pseudo-encoding ranges x client pixel format x framebuffer content,
    followed by real updates (full, then partial after a modification)"""
    cfg = rand_cfg(rng, variant)
    w, h = rng.choice([(64, 64), (80, 70), (128, 36), (33, 130), (48, 48), (17, 9)])
    cfg.update(w=w, h=h, bpp=rng.choice([32, 32, 32, 8]), pw=0, ft=0, view=0)
    c = Case(k, "encupd", cfg)
    c.extra_cfg = " content=%d" % rng.choice([1, 2, 3, 3, 4, 4, 0])
    emit_stream(rng, c, handshake_msgs(rng, cfg, minor=8), "one")
    c.op("connect A pre")
    c.op("run A")
    pool = enc_pool()
    for rnd in range(rng.choice([1, 2])):
        msgs = []
        pf = rand_pixfmt(rng)
        if pf is not None:
            msgs.append(pf)
        pref = ENC[rng.choice(PIX_ENCS)]
        extras = [rng.choice(pool) for _ in range(rng.choice([0, 2, 4, 8]))]
        if rng.random() < 0.6:          # a JPEG quality / fine quality / subsampling / compression level mix
            extras += [0xFFFFFFE0 + rng.randrange(0, 11), 0xFFFFFD00 + rng.randrange(0, 8), 0xFFFFFF00 + rng.randrange(0, 11)]
            if rng.random() < 0.5:
                extras.append(0xFFFFFE00 + rng.randrange(0, 102))
        rng.shuffle(extras)
        encs = ([pref] + extras) if rng.random() < 0.8 else (extras + [pref])
        msgs.append(m_encodings(encs))
        msgs.append(m_fur(0, 0, 0, w, h))
        emit_stream(rng, c, msgs, rng.choice(["permsg", "one"]))
        c.op("run A")
        c.op("update A")
        x, y = rng.randrange(w), rng.randrange(h)
        emit_stream(rng, c, [m_fur(1, x, y, rng.randint(1, w - x), rng.randint(1, h - y))], "permsg")
        c.op("run A")
        c.op("update A")
    c.op("witness")
    return c


def corpus_cases(k0, variant):
    cases = []
    cdir = os.path.join(vlib.VERIF, "corpus", "C04")
    if os.path.isdir(cdir):
        for fn in sorted(os.listdir(cdir)):
            lines = [l for l in open(os.path.join(cdir, fn)).read().split("\n") if l.strip()]
            if not lines:
                continue
            if not lines[0].startswith("case "):
                lines = ["case 0 corpus"] + lines
            p = lines[0].split()
            lines[0] = "case %d corpus:%s" % (k0 + len(cases), fn)
            # corpus files carry no fix flags: add the current ones
            lines = [l + " fixscale=%d fixpeek=%d fixfur=%d" % (variant["fixscale"], variant["fixpeek"], variant["fixfur"]) if l.startswith("cfg ") and "fixscale=" not in l else l
                     for l in lines]
            cases.append(lines)
    return cases


def gen_cases(ctx, variant):
    global SANDBOX_LEN
    SANDBOX_LEN = len(os.path.realpath(sandbox(ctx)))
    rng = ctx.rng
    quick = ctx.quick()
    _extclip_n[0] = 0
    cases = corpus_cases(0, variant)
    k = len(cases)
    plan = [(case_session, 500 if quick else 6000), (case_truncated, 220 if quick else 3000),
            (case_handshake, 160 if quick else 2000), (case_peek, 100 if quick else 1000),
            (case_slow, 30 if quick else 300), (case_stall, 80 if quick else 1000),
            (case_scale_update, 160 if quick else 2500), (case_clip, 80 if quick else 1200),
            (case_garbage, 100 if quick else 1500), (case_unmodelled, 40 if quick else 600),
            (case_ws, 90 if quick else 1200), (case_encupd, 160 if quick else 2500),
            (case_extclip, 90 if quick else 1000), (case_tightft, 70 if quick else 900)]
    sweep_vals = [0, 1, 2, 3, 65534, 65535] if quick else [0, 1, 2, 3, 4, 255, 32768, 65533, 65534, 65535]
    for (W, H) in ([(3, 2)] if quick else [(3, 2), (2, 3), (4, 4)]):
        cases.append(case_clip_sweep(rng, k, variant, sweep_vals, W, H).render())
        k += 1
    for fn, n in plan:
        for _ in range(n):
            if fn is case_session:
                c = fn(rng, k, variant, not quick)
            else:
                c = fn(rng, k, variant)
            cases.append(c.render())
            k += 1
    return cases


# ------------------------------------------------------------------------------------------------
# running
def build(ctx):
    cexe = vlib.build_harness("vdrv_fuzz", ["vdrv_fuzz.c"], variant="ubsan", wraps=WRAPS)
    proof_ok = vlib.prove(ctx, PROP_FILE, ["Extract/Extract_C04.vo"])
    # the extraction writes next to the shared build tree; a scratch VERIF_BUILD needs a copy
    src = os.path.join(vlib.VERIF, "build", "ocaml", "C04")
    dst = os.path.join(vlib.BUILD, "ocaml", "C04")
    if os.path.abspath(src) != os.path.abspath(dst):
        os.makedirs(dst, exist_ok=True)
        for f in ("model.ml", "model.mli"):
            if os.path.exists(os.path.join(src, f)):
                open(os.path.join(dst, f), "w").write(open(os.path.join(src, f)).read())
    mexe = vlib.build_ocaml("C04", "driver_C04.ml", "Extract/Extract_C04.vo")
    return cexe, mexe, proof_ok


def sandbox(ctx):
    import shutil
    sb = os.path.join(ctx.scratch, "sb")
    shutil.rmtree(sb, ignore_errors=True)      # file-transfer cases of an earlier pass may have rearranged it
    os.makedirs(sb, exist_ok=True)
    for name, data in (("f1.txt", b"hello file transfer\n" * 50), ("f2.bin", bytes(range(256)) * 40)):
        with open(os.path.join(sb, name), "wb") as f:
            f.write(data)
    os.makedirs(os.path.join(sb, "dir1"), exist_ok=True)
    with open(os.path.join(sb, "dir1", "f3"), "wb") as f:
        f.write(b"x" * 10)
    for d, _, fs in os.walk(sb):                   # fixed time stamps: directory listings are sent to the peer
        for n in fs + ["."]:
            os.utime(os.path.join(d, n), (1600000000, 1600000000))
    return sb


def run_pair(ctx, cases, cexe, mexe, model=True):
    script = "\n".join("\n".join(c) for c in cases) + "\n"
    env = {"VDRV_SANDBOX": sandbox(ctx), "UBSAN_OPTIONS": "print_stacktrace=1", "HOME": sandbox(ctx)}
    rc1, cout, cerr = vlib.run_driver(cexe, script, timeout=3000, env=env)
    if model:
        rc2, mout, merr = vlib.run_driver(mexe, script, timeout=3000, unlimited_stack=True)
    else:
        rc2, mout, merr = 0, "", ""
    return (rc1, cout, cerr), (rc2, mout, merr)


def uninit_probe(ctx, cases, cexe):
    """the bytes the server sends must not depend on uninitialised memory: run the same cases in two
    processes that differ only in the garbage on the stack (VDRV_FILL), in fresh heap blocks (ASan
    malloc_fill_byte) and in the address-space layout, and compare everything the fuzzed peer received.
    Cases with a password are left out (the challenge is random by design).  -> list of (idx, what, feat)"""
    sel = [i for i, c in enumerate(cases) if cfg_of(c).get("pw", 0) == 0 and
           (len(cases) == 1 or c[0].split()[2].split(":")[0] in ("tightft", "corpus", "handshake", "extclip") or i % 6 == 0)]
    if not sel:
        return [], 0
    script = "\n".join("\n".join(cases[i]) for i in sel) + "\n"
    outs = []
    for fill in (170, 85):
        sb = sandbox(ctx)
        env = {"VDRV_SANDBOX": sb, "HOME": sb, "VDRV_FILL": str(fill), "VDRV_DUMP": "1",
               "ASAN_OPTIONS": "detect_leaks=0:abort_on_error=0:allocator_may_return_null=1:malloc_fill_byte=%d:"
                               "max_malloc_fill_size=4194304" % fill}
        rc, co, ce = vlib.run_driver(cexe, script, timeout=3000, env=env)
        outs.append(vlib.split_cases(co))
    res = []
    for n, i in enumerate(sel):
        a = [l for l in (outs[0][n][1] if n < len(outs[0]) else []) if l.startswith("~out ")]
        b = [l for l in (outs[1][n][1] if n < len(outs[1]) else []) if l.startswith("~out ")]
        if a != b and a and b and len(a) == len(b):
            for la, lb in zip(a, b):
                if la != lb:
                    ha, hb = la.split(" ")[3] if len(la.split(" ")) > 3 else "", lb.split(" ")[3] if len(lb.split(" ")) > 3 else ""
                    off = next((k // 2 for k in range(0, min(len(ha), len(hb)), 2) if ha[k:k + 2] != hb[k:k + 2]), min(len(ha), len(hb)) // 2)
                    ext = cfg_of(cases[i]).get("ext", 0)
                    res.append((i, "the server sent bytes that depend on uninitialised memory or addresses: output of connection %s differs "
                                   "between two runs of the same script from offset %d (%s... vs %s...)" %
                                   (la.split(" ")[1], off, ha[2 * off:2 * off + 32], hb[2 * off:2 * off + 32]),
                                {"kind": "uninit-output", "ext": ext, "view": cfg_of(cases[i]).get("view", 0),
                                 "tight_sectype": any(l.startswith("pe t=16 ") for l in outs[0][n][1]),
                                 # facts of the script itself: depth of the server's frame buffer; does the client ask
                                 # for grey-scale JPEG (subsampling pseudo-encoding 0xFFFFFD03 + a quality level)
                                 "srv_bpp": cfg_of(cases[i]).get("bpp", 32),
                                 "gray_jpeg": any(l.startswith("ev ") and "fffffd03" in l for l in cases[i])}))
                    break
    return res, len(sel)


SPEC_MSG_LIMIT = (1 << 20) + 1024  # the documented limit: 1 MiB of text (+ NUL of an inflated record); the compressed message of the
                                   # extended clipboard format may exceed the text by up to 1 KiB (59a8ab5)
SPEC_REC_LIMIT = (1 << 20) + 1     # an inflated extended-clipboard record: 1 MiB of text and its NUL
_gen_consts = {}


def gen_const(name, default):
    """value of a regenerated constant (coq/Gen/Consts_C04.v, written by tools/gen_consts.py from the source at
    the start of every run) - the same value the model uses"""
    if not _gen_consts:
        _gen_consts["_"] = 0
        try:
            txt = open(os.path.join(vlib.VERIF, "coq", "Gen", "Consts_C04.v")).read()
            for m in re.finditer(r"Definition\s+(c04_\w+)\s*(?::\s*Z\s*)?:=\s*\(?\s*(-?\d+)\s*\)?\s*\.", txt):
                _gen_consts[m.group(1)] = int(m.group(2))
        except OSError:
            pass
    return _gen_consts.get(name, default)


def msg_limit():
    """what one message may make the server allocate (no file transfer): the limits the source has - the
    regenerated constants c04_cut_text_limit / c04_ext_clip_limit / c04_ext_cut_msg_limit, the same the model
    uses - but never more than the documented fixed bound (theorem C04_alloc_bound_fixed is the proof-side
    guard of the same fact)"""
    return min(max(gen_const("c04_cut_text_limit", 1 << 20), gen_const("c04_ext_clip_limit", SPEC_REC_LIMIT),
                   gen_const("c04_ext_cut_msg_limit", SPEC_MSG_LIMIT)), SPEC_MSG_LIMIT)


def strip_impl(line):
    return " ".join(t for t in line.split(" ") if not t.startswith("~")).rstrip()


def field(line, key, default=None):
    m = re.search(r"(?:^| )" + re.escape(key) + r"=(\S+)", line)
    return m.group(1) if m else default


def cfg_of(case):
    for l in case:
        if l.startswith("cfg "):
            return {k: int(v) for k, v in (t.split("=") for t in l.split()[1:])}
    return {}


def case_feats(case):
    return cfg_of(case), False


def oracle_case(case, impl_lines):
    """the property itself on the implementation's own output.  -> list of (what, features)"""
    cfg, zero_w = case_feats(case)
    tmo = cfg.get("wait") or DEFAULT_WAIT
    wtmo = ((tmo + SLICE - 1) // SLICE) * SLICE          # rfbWriteExact gives up after whole 5 s slices
    kind = case[0].split()[2] if len(case[0].split()) > 2 else "?"
    fails = []
    # facts read off the implementation's own output: a scaled screen of width 0, an accepted request of width 0
    zero_w = any(re.search(r"~sc=0x", l) for l in impl_lines)
    fur0 = False
    for l in impl_lines:
        for m in re.finditer(r"fur:A:\d+:(\d+):(\d+):(\d+):(\d+)", l):
            if int(m.group(3)) == 0 and int(m.group(4)) > 0:
                fur0 = True
    # the property's bound: 1 MiB (+ NUL) of message payload (2 GiB with file transfer permitted) or one frame buffer
    fb = ((cfg.get("w", 0) * (cfg.get("bpp", 32) // 8) + 3) // 4 * 4) * cfg.get("h", 0)
    bound = max((1 << 31) if cfg.get("ft") else msg_limit(), fb)
    for l in impl_lines:
        if l.startswith("crash "):
            san = field(l, "san", "none")
            what = "timeout" if " timeout" in l else ("sanitizer" if san != "none" else "signal")
            m = re.match(r"(\w+):([^@]*)@?([^:]*)", san)
            f = {"kind": "crash", "how": what, "san": (m.group(1) + ":" + m.group(2)) if m else san,
                 "file": m.group(3) if m else "", "scale_zero_width": zero_w, "fur_zero_width": fur0}
            fails.append(("the server process died: " + l.strip(), f))
            continue
        if "res=wedge" in l:
            fails.append(("the server spins forever (busy loop, never returns to the event loop): " + l.strip(),
                          {"kind": "wedge", "where": "connect" if l.startswith("connect") else "message",
                           "what": field(l, "what", ""),
                           "transport": "ws" if any(x.startswith("connect ") and " res=ws" in x for x in impl_lines) else "tcp"}))
            continue
        if l.startswith("pe ") or l.startswith("connect "):
            mx = field(l, "~mx")
            if mx is not None and int(mx) > bound:
                fails.append(("one message made the server allocate %s bytes (bound %d): %s" % (mx, bound, l.strip()),
                              {"kind": "alloc", "ft": cfg.get("ft", 0)}))
            w, mw, nw = int(field(l, "w", "0")), int(field(l, "mw", "0")), int(field(l, "nw", "0"))
            single = max(tmo, SLICE) if l.startswith("pe ") else max(PEEK_WAIT, SLICE)
            if mw > single:
                fails.append(("a single blocking wait of %d ms exceeds the client-wait time %d: %s" % (mw, single, l.strip()),
                              {"kind": "wait-single", "where": "connect" if l.startswith("connect") else "message"}))
            total = wtmo if l.startswith("pe ") else PEEK_WAIT + wtmo
            if w > total and mw <= single:
                fails.append(("one rfbProcessEvents call blocked for %d ms of peer-controlled waiting (client-wait time %d ms, "
                              "%d waits): %s" % (w, tmo, nw, l.strip()),
                              {"kind": "wait-total", "waits_each_within_timeout": True,
                               "stalled": any(x.startswith("ev A stall") for x in case)}))
        for m in re.finditer(r"fur:A:\d+:(\d+):(\d+):(\d+):(\d+)", l):
            x, y, w, h = (int(m.group(i)) for i in (1, 2, 3, 4))
            if x + w > cfg.get("w", 0) or y + h > cfg.get("h", 0):
                fails.append(("an update request was accepted for a rectangle outside the %dx%d screen: %s" %
                              (cfg.get("w", 0), cfg.get("h", 0), m.group(0)), {"kind": "clip"}))
        if l.startswith("witness ") and field(l, "ok") != "1":
            fails.append(("the well-behaved second client is no longer served correctly: " + l.strip(),
                          {"kind": "witness", "why": field(l, "~why", "")}))
    return fails


def compare(case, impl_lines, model_lines):
    """exact comparison of the observable lines; stops where the model declares itself out of scope.
    -> None or (index, impl, model)"""
    il = [strip_impl(l) for l in impl_lines if not l.startswith("~") and l.strip()]
    ml = [l.rstrip() for l in model_lines if l.strip()]
    n = max(len(il), len(ml))
    for i in range(n):
        a = il[i] if i < len(il) else "<missing>"
        b = ml[i] if i < len(ml) else "<missing>"
        if b == "opaque" or b.endswith(" n=?") or b.endswith("res=ws") or " res=ws " in b:
            return None
        if a.startswith("crash ") and ((b.endswith(" dies=div0") and "division-by-zero" in a) or
                                       (b.endswith(" dies=index") and "heap-buffer-overflow" in a)):
            return None                          # the model predicted exactly this death
        if b.endswith(" dies=index") and a.startswith("update "):
            # reading pixel 0 of a zero-sized rectangle buffer: with 1-byte pixels the read stays inside
            # the 1-byte block ASan hands out for malloc(0) and goes unnoticed; nothing to compare further
            return None
        if a != b:
            return (i, a, b)
    return None


def ev_positions(case):
    return [i for i, l in enumerate(case) if l.startswith("ev A ")]


def shrink_case(case, pred):
    """delta-debug the event lines of one case"""
    idx = ev_positions(case)
    if len(idx) < 2:
        return case
    def build(keep):
        ks = set(keep)
        return [l for i, l in enumerate(case) if i not in idx or i in ks]
    best = vlib.ddmin(idx, lambda sub: pred(build(sub)), max_tests=60)
    return build(best)


def nontrivial_key(line):
    """distinct AND non-trivial: a message that reached a handler (any state) characterised by
    (message type byte, state after, closed, callback kinds, any big allocation, waited, timed out)"""
    if not line.startswith("pe "):
        return None
    cbs = field(line, "cb", "[]")[1:-1]
    kinds = ",".join(sorted(set(x.split(":")[0] for x in cbs.split(",") if x)))
    return (field(line, "t"), field(line, "st"), field(line, "closed"), kinds, field(line, "big", "[]") != "[]",
            int(field(line, "nw", "0")) > 0, min(int(field(line, "nw", "0")), 3))


def check(ctx):
    variant = detect_variant()
    cexe, mexe, proof_ok = build(ctx)
    cases = gen_cases(ctx, variant)
    (rc1, cout, cerr), (rc2, mout, merr) = run_pair(ctx, cases, cexe, mexe)
    cc, mc = vlib.split_cases(cout), vlib.split_cases(mout)
    hist, distinct = {}, set()
    nev = 0
    oracle_fail, mismatches = [], []
    for idx, c in enumerate(cases):
        il = cc[idx][1] if idx < len(cc) else ["crash harness-missing-output"]
        ml = mc[idx][1] if idx < len(mc) else []
        kind = c[0].split()[2].split(":")[0] if len(c[0].split()) > 2 else "?"
        hist[kind] = hist.get(kind, 0) + 1
        for l in il:
            if l.startswith(("pe ", "connect ", "update ")):
                nev += 1
            kx = nontrivial_key(l)
            if kx:
                distinct.add(kx)
        fails = oracle_case(c, il)
        for f in fails:
            oracle_fail.append((idx, f))
        if kind not in ("nomodel16", "websocket", "tightft") and " ext=" not in c[1]:
            d = compare(c, il, ml)
            if d is not None:
                mismatches.append((idx, d))
    probe, nprobe = uninit_probe(ctx, cases, cexe) if cases else ([], 0)
    for (i, what, feat) in probe:
        oracle_fail.append((i, (what, feat)))
    if rc1 != 0 and not oracle_fail:
        oracle_fail.append((0, ("implementation driver exited with %d: %s" % (rc1, cerr[-400:]), {"kind": "driver"})))
    if rc2 != 0:
        mismatches.append((0, (0, "<model driver failed rc=%d>" % rc2, merr[-300:])))
    ctx.coverage.update(
        evaluations=nev, distinct_nontrivial=len(distinct),
        rule="client byte streams (grammar-aware, segmented, timed) run on the extracted Coq model and on the real server "
             "(ASan+UBSan build, socketpair, wrapped select/read/write/malloc); per rfbProcessEvents call the line "
             "(first byte, state, closed, callbacks, allocations > 4 KiB, wait total/count/max) is compared exactly. "
             "distinct_nontrivial = distinct (type byte, state, closed, callback kinds, big allocation, waited, #waits<=3) "
             "tuples of processed messages",
        samples=[cases[i][:14] for i in (0, len(cases) // 2, len(cases) - 1)],
        input_distribution=hist, cases=len(cases), correspondence_mismatches=len(mismatches),
        oracle_failures_incl_known=len(oracle_fail), source_variant=variant, exhaustive=False,
        uninitialised_output_probe_cases=nprobe)
    ctx.assumptions += [
        "memory safety of the C text itself is sampled (ASan/UBSan on the generated inputs), not proved",
        "floating-point scaling (rfbScaledCorrection, ScaleX/Y), zlib inflate and the password check are parameters of the model "
        "(Section variables); the theorems hold for every behaviour of them",
        "TLS, WebSocket framing, HTTP and the TightVNC file-transfer extension are outside this model (C09/C20/C19)",
        "16-bpp server formats, WebSocket connections and everything after the reads of an UltraVNC file-transfer message are run "
        "under the sanitizers and the oracle only (no model comparison)",
        "C04_no_div_zero_partial assumes fpu_ok: the doubles of rfbScaledCorrection map a rectangle inside the source screen to a "
        "corner inside the target screen and non-negative extents (C17 studies that arithmetic)",
        "updates are compared only when exactly one non-empty (or zero-width) rectangle is requested; other request sets are left "
        "to the region/update models (C11, C02); C04_no_div_zero itself covers every requested rectangle (update_all)",
        "fpu_ok is proved for the exact-arithmetic correction (fpu_ok_corr_q); for the doubles the driver asserts it on every "
        "call (FPU-ASSERT line = correspondence mismatch)",
        "NOT PROVED, TESTED ONLY (sanitizers + oracle on generated inputs): memory safety / use-after-free of the C text; the "
        "shift and maxima arithmetic of SetPixelFormat and the translation tables; bounds on time spent in writes beyond the "
        "per-write slice (F8b); isolation between clients / several fuzzed clients at once (only the witness client); WebSocket "
        "framing and HTTP; registered protocol extensions (TightVNC file transfer: cfg ext=1/2); 16-bpp server formats; the fd "
        "quota of the listener; UltraVNC file transfer after its reads (filesystem, replies); zlib internals (inflate is an "
        "oracle); the encoders while an update is sent (the model stops at the per-rectangle count/size arithmetic; Tight count "
        "not modelled); uninitialised bytes in replies (two-run probe)"]

    def run_one(lines, model=True):
        (r1, co, ce), (r2, mo, me) = run_pair(ctx, [lines], cexe, mexe, model)
        cs, ms = vlib.split_cases(co), vlib.split_cases(mo)
        return (cs[0][1] if cs else ["crash harness-missing-output"]), (ms[0][1] if ms else []), co, ce, mo

    # one report per distinct (kind, san/where) of oracle failure
    seen = set()
    reported = 0
    for idx, (what, feat) in oracle_fail:
        key = (feat.get("kind"), feat.get("san"), feat.get("where"), feat.get("why"), feat.get("scale_zero_width"),
               feat.get("fur_zero_width"), feat.get("file"), feat.get("what"), feat.get("transport"), feat.get("stalled"),
               feat.get("ext"), feat.get("view"))
        if key in seen:
            continue
        seen.add(key)
        if vlib.match_finding(ctx.pid, feat) is not None:
            ctx.violation(what, feat, "")          # recorded as KNOWN-FINDING
            continue
        if reported >= 5:
            continue
        reported += 1
        if feat.get("kind") == "uninit-output":
            ctx.violation(what, feat, "script:\n" + "\n".join(cases[idx]) + "\n\n(two-run comparison: VDRV_FILL=170 / 85, "
                          "ASan malloc_fill_byte likewise, VDRV_DUMP=1; compare the '~out' lines)")
            continue
        def pred(lines, feat=feat):
            il, _, _, _, _ = run_one(lines, model=False)
            return any(f[1].get("kind") == feat.get("kind") and f[1].get("san") == feat.get("san") and
                       f[1].get("what") == feat.get("what") for f in oracle_case(lines, il))
        small = shrink_case(cases[idx], pred)
        il, ml, co, ce, mo = run_one(small)
        fs = [f for f in oracle_case(small, il) if f[1].get("kind") == feat.get("kind") and f[1].get("what") == feat.get("what")]
        w2, f2 = fs[0] if fs else (what, feat)
        ctx.violation(w2, f2, "script:\n" + "\n".join(small) + "\n\nimplementation output:\n" + co + "\n" + ce[-3000:] +
                      "\nmodel output:\n" + mo)
    if mismatches:
        bad_idx = set(i for i, _ in oracle_fail)
        pure = [(i, d) for (i, d) in mismatches if i not in bad_idx] or mismatches
        idx, d = pure[0]
        def pred2(lines):
            il, ml, _, _, _ = run_one(lines)
            return compare(lines, il, ml) is not None
        small = shrink_case(cases[idx], pred2)
        il, ml, co, ce, mo = run_one(small)
        d2 = compare(small, il, ml) or d
        ctx.violation("correspondence Wire/C2S.v <-> rfbserver.c/sockets.c/auth.c/scale.c no longer holds (%d of %d cases differ); "
                      "first difference: implementation '%s' vs model '%s'" % (len(mismatches), len(cases), d2[1], d2[2]),
                      {"kind": "correspondence"},
                      "correspondence: Wire/C2S.v (process_message / connect / update) vs the real server\n"
                      "script:\n" + "\n".join(small) + "\n\nimplementation output:\n" + co + ce[-1500:] +
                      "\nmodel output:\n" + mo, no_input=True)
    if not proof_ok and not [v for v in ctx.violations if not v["no_input"]]:
        vlib.report_proof_failure(ctx, "Correspondence and the oracle were run on %d cases (%d events)." % (len(cases), nev))


def replay(ctx, path):
    txt = open(path).read()
    if "script:\n" not in txt:
        print("replay names a theorem/correspondence, re-running the full check")
        return check(ctx)
    body = txt.split("script:\n", 1)[1].split("\n\n", 1)[0]
    lines = [l for l in body.split("\n") if l.strip()]
    cexe, mexe, _ = build(ctx)
    (r1, co, ce), (r2, mo, me) = run_pair(ctx, [lines], cexe, mexe)
    cs, ms = vlib.split_cases(co), vlib.split_cases(mo)
    il = cs[0][1] if cs else ["crash harness-missing-output"]
    ml = ms[0][1] if ms else []
    print("implementation:\n" + co + ce[-2000:] + "\nmodel:\n" + mo)
    ctx.coverage.update(evaluations=len(il), distinct_nontrivial=0, rule="replay", samples=[lines[:20]])
    fails = oracle_case(lines, il)
    fails += [(w, f) for (_, w, f) in uninit_probe(ctx, [lines], cexe)[0]] if cfg_of(lines).get("pw", 0) == 0 else []
    for what, feat in fails:
        ctx.violation(what, feat, "script:\n" + "\n".join(lines) + "\n\nimplementation output:\n" + co + ce[-3000:])
    if not fails:
        d = compare(lines, il, ml)
        if d is not None and "nomodel16" not in lines[0] and not any(l.startswith("cfg ") and " ext=" in l for l in lines):
            ctx.violation("correspondence differs on the replayed script: implementation '%s' vs model '%s'" % (d[1], d[2]),
                          {"kind": "correspondence"}, "script:\n" + "\n".join(lines) + "\n\n" + co + "\n" + mo, no_input=True)
