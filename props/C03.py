"""C03 - Server output is a well-formed RFB stream within negotiated capabilities.

Proof: coq/Props/Properties_C03.v - theorems over Wire/CountsModel.v (announced rectangle count =
number of headers emitted by the CoRRE / Zlib / Ultra / Tight / generic splitting loops for all
w,h >= 1, against the regenerated constants and the re-translated rfbNumCodedRectsTight),
Wire/CapsModel.v (SetEncodings state machine), Wire/S2CModel.v (strict parser / printer).

Tie: (a) translator: Gen/Consts_C03.v, Gen/Funs_C03.v regenerated from /repo on every run;
(b) correspondence: generated sessions are run against the real library (harness/vdrv_wire.c,
socketpair clients).  The harness reports every byte the server wrote and, for every call of
rfbSendFramebufferUpdate, the client's regions at entry.  The extracted model then
  * tracks the capability state from the client's messages and is compared with cl->... flags,
  * predicts announced count + every rectangle header of every update, compared with the bytes,
  * parses EVERY byte with the extracted strict parser parse_stream.
Independently of the Coq model, a Python RFB parser (the spec oracle) evaluates the property
predicate itself on the implementation's bytes (counts, lengths, containment, capabilities,
ServerInit, handshake shape).
"""
import os, re, struct, sys
import vlib

PROP_FILE = "Props/Properties_C03.v"
PID = "C03"

# ------------------------------------------------------------------ protocol numbers (spec level)
E = dict(Raw=0, CopyRect=1, RRE=2, CoRRE=4, Hextile=5, Zlib=6, Tight=7, Ultra=9, ZRLE=16, ZYWRLE=17,
         TightPng=-260, XCursor=-240, RichCursor=-239, PointerPos=-232, LastRect=-224, NewFBSize=-223,
         ExtDesktopSize=-308, KeyboardLedState=-131072, SupportedMessages=-131071,
         SupportedEncodings=-131070, ServerIdentity=-131069, Xvp=-309, ExtendedClipboard=-1063131698)
ENAME = {v: k for k, v in E.items()}
PIXEL_ENCS = [E[k] for k in ("Raw", "RRE", "CoRRE", "Hextile", "Zlib", "Tight", "Ultra", "ZRLE", "ZYWRLE", "TightPng")]
PSEUDO = [E[k] for k in ("XCursor", "RichCursor", "PointerPos", "LastRect", "NewFBSize", "ExtDesktopSize",
                         "KeyboardLedState", "SupportedMessages", "SupportedEncodings", "ServerIdentity",
                         "Xvp", "ExtendedClipboard")]
REASON_LEN = len("password check failed!")


def s32(v):
    v &= 0xFFFFFFFF
    return v - (1 << 32) if v >= (1 << 31) else v


# ------------------------------------------------------------------ spec oracle: strict RFB parser
class Bad(Exception):
    def __init__(self, kind, msg, **feat):
        Exception.__init__(self, msg)
        self.kind, self.feat = kind, feat


class NeedMore(Exception):
    pass


class Oracle:
    """RFB server-to-client grammar as in the RFB specification + the extensions this server
    speaks.  State: client pixel format, announced framebuffer size, latest / all SetEncodings."""

    def __init__(self, scr):
        self.bpp, self.depth, self.tc = scr["bpp"], scr["depth"], bool(scr["tc"])
        self.rmax, self.gmax, self.bmax = scr["rmax"], scr["gmax"], scr["bmax"]
        self.fbw, self.fbh = scr["w"], scr["h"]
        self.latest, self.named = [], set()
        self.scale_requested = False
        # a client that cannot be told a new size (no NewFBSize/ExtDesktopSize) but, after the screen was resized,
        # itself ASKS for area beyond the size it was told has thereby extended what it accepts (None: not the case)
        self.askw = self.askh = None
        self.buf = b""
        self.pos = 0

    # -- readers
    def need(self, n):
        if n < 0:
            raise Bad("length", "negative length")
        if self.pos + n > len(self.buf):
            raise NeedMore()

    def take(self, n):
        self.need(n)
        r = self.buf[self.pos:self.pos + n]
        self.pos += n
        return r

    def u8(self):
        return self.take(1)[0]

    def u16(self):
        return struct.unpack(">H", self.take(2))[0]

    def u32(self):
        return struct.unpack(">I", self.take(4))[0]

    def tpix(self):
        if self.bpp == 32 and self.depth == 24 and self.rmax == 255 and self.gmax == 255 and self.bmax == 255:
            return 3
        return self.bpp // 8

    def compact(self):
        b0 = self.u8()
        n = b0 & 0x7f
        if b0 & 0x80:
            b1 = self.u8()
            n |= (b1 & 0x7f) << 7
            if b1 & 0x80:
                n |= self.u8() << 14
        return n

    def rect(self, in_lastrect_mode):
        x, y, w, h = self.u16(), self.u16(), self.u16(), self.u16()
        e = s32(self.u32())
        bp = self.bpp // 8
        hd = (x, y, w, h, e)
        if e in PIXEL_ENCS or e == E["CopyRect"]:
            # 8/16/32 for every encoding; this build also accepts a 24-bit client format
            # (LIBVNCSERVER_ALLOW24BPP), which only verbatim-pixel encodings can serve
            if not (self.bpp in (8, 16, 32) or (self.bpp == 24 and e in (E["Raw"], E["CopyRect"], E["Zlib"], E["Ultra"]))):
                raise Bad("bpp", "%s rectangle for a client with %d bits per pixel" % (ENAME.get(e, e), self.bpp))
            if e != E["Raw"] and e not in self.named:
                raise Bad("caps", "encoding %s used but never advertised by the client" % ENAME.get(e, e),
                          enc=ENAME.get(e, str(e)))
            if e == E["CopyRect"] and e not in self.latest:
                raise Bad("caps", "CopyRect used although the latest SetEncodings does not name it (withdrawn)",
                          enc="CopyRect", named_earlier=True)
            if x + w > max(self.fbw, self.askw or 0) or y + h > max(self.fbh, self.askh or 0):
                raise Bad("outside", "rectangle %s outside the announced framebuffer %dx%d" % (hd, self.fbw, self.fbh))
            if e == E["Raw"]:
                self.take(w * h * bp)
            elif e == E["CopyRect"]:
                sx, sy = self.u16(), self.u16()
                if sx + w > self.fbw or sy + h > self.fbh:
                    raise Bad("outside", "CopyRect source outside the framebuffer")
            elif e == E["RRE"]:
                n = self.u32()
                self.take(bp + n * (bp + 8))
            elif e == E["CoRRE"]:
                n = self.u32()
                self.take(bp + n * (bp + 4))
            elif e == E["Hextile"]:
                for ty in range(0, h, 16):
                    for tx in range(0, w, 16):
                        tw, th = min(16, w - tx), min(16, h - ty)
                        sub = self.u8()
                        if sub >= 32:
                            raise Bad("hextile", "hextile subencoding byte %d" % sub)
                        if sub & 1:
                            self.take(tw * th * bp)
                            continue
                        if sub & 2:
                            self.take(bp)
                        if sub & 4:
                            self.take(bp)
                        if sub & 8:
                            n = self.u8()
                            self.take(n * ((bp + 2) if sub & 16 else 2))
            elif e in (E["Tight"], E["TightPng"]):
                ctl = self.u8()
                comp = ctl >> 4
                tp = self.tpix()
                nozlib = False
                if comp == 8:
                    self.take(tp)
                    return hd, "pixel"
                if comp == 9 or (comp == 10 and e == E["TightPng"]):
                    self.take(self.compact())
                    return hd, "pixel"
                if e == E["Tight"] and comp in (0x0A, 0x0E):
                    # TurboVNC "no zlib" (compression level 0): data follows uncompressed
                    nozlib = True
                    comp &= ~0x0A
                elif comp >= 8:
                    raise Bad("tight", "tight control byte 0x%02x" % ctl)
                datalen = w * h * tp
                if comp & 4:
                    f = self.u8()
                    if f == 1:
                        nc = self.u8() + 1
                        self.take(nc * tp)
                        datalen = ((w + 7) // 8) * h if nc <= 2 else w * h
                    elif f not in (0, 2):
                        raise Bad("tight", "tight filter %d" % f)
                if datalen < 12:
                    self.take(datalen)
                else:
                    n = self.compact()
                    if nozlib and n != datalen:
                        raise Bad("length", "uncompressed tight data: length field %d but %d bytes of pixels" % (n, datalen))
                    self.take(n)
            else:   # Zlib, ZRLE, ZYWRLE, Ultra
                self.take(self.u32())
            return hd, "pixel"
        if e == E["LastRect"]:
            if e not in self.latest:
                raise Bad("caps", "LastRect marker but the client did not enable LastRect", enc="LastRect")
            if not in_lastrect_mode:
                raise Bad("count", "LastRect marker inside a counted update")
            return hd, "last"
        if e in PSEUDO:
            ok = e in self.latest or (e == E["NewFBSize"] and E["ExtDesktopSize"] in self.latest)
            if not ok:
                raise Bad("caps", "pseudo-encoding %s used but not enabled by the latest SetEncodings" % ENAME[e], enc=ENAME[e])
            mask = ((w + 7) // 8) * h
            if e == E["XCursor"]:
                if w and h:
                    self.take(6 + 2 * mask)
            elif e == E["RichCursor"]:
                if w and h:
                    self.take(w * h * bp + mask)
            elif e in (E["NewFBSize"],):
                self.fbw, self.fbh = w, h
            elif e == E["ExtDesktopSize"]:
                n = self.u8()
                self.take(3 + 16 * n)
                self.fbw, self.fbh = w, h
            elif e == E["SupportedMessages"]:
                self.take(w)
            elif e == E["SupportedEncodings"]:
                if w != 4 * h:
                    raise Bad("length", "SupportedEncodings w=%d h=%d" % (w, h))
                self.take(w)
            elif e == E["ServerIdentity"]:
                self.take(w)
            elif e in (E["PointerPos"], E["KeyboardLedState"]):
                pass
            else:
                raise Bad("enc", "encoding %s in a rectangle header" % ENAME[e])
            return hd, "pseudo"
        raise Bad("enc", "unknown encoding %d in a rectangle header" % e)

    def message(self):
        t = self.u8()
        if t == 0:
            self.u8()
            n = self.u16()
            rects = []
            if n == 0xFFFF:
                if E["LastRect"] not in self.latest:
                    raise Bad("caps", "update announces 65535 rectangles (LastRect mode) but the client did not "
                              "enable LastRect", enc="LastRect", announced=65535)
                while True:
                    hd, k = self.rect(True)
                    if k == "last":
                        break
                    rects.append(hd)
                return "msg fbu n=%d last=1 rects=[%s]" % (n, ";".join(",".join(map(str, r)) for r in rects))
            for _ in range(n):
                hd, k = self.rect(False)
                rects.append(hd)
            return "msg fbu n=%d last=0 rects=[%s]" % (n, ";".join(",".join(map(str, r)) for r in rects))
        if t == 1:
            self.u8()
            first, n = self.u16(), self.u16()
            if self.tc:
                raise Bad("caps", "SetColourMapEntries sent to a true-colour client")
            self.take(6 * n)
            return "msg cmap first=%d n=%d" % (first, n)
        if t == 2:
            return "msg bell"
        if t == 3:
            self.take(3)
            ln = self.u32()
            if ln < (1 << 31):
                self.take(ln)
                return "msg cuttext len=%d ext=0" % ln
            n = (1 << 32) - ln
            if E["ExtendedClipboard"] not in self.latest:
                raise Bad("caps", "extended clipboard message but the latest SetEncodings did not enable it",
                          enc="ExtendedClipboard", named_earlier=E["ExtendedClipboard"] in self.named)
            if n < 4:
                raise Bad("length", "extended clipboard message shorter than its flags word")
            self.take(n)
            return "msg cuttext len=%d ext=1" % n
        if t == 4:
            self.u8()
            w, h = self.u16(), self.u16()
            if not self.scale_requested:
                raise Bad("caps", "ResizeFrameBuffer without a SetScale request")
            self.fbw, self.fbh = w, h
            return "msg resize w=%d h=%d" % (w, h)
        if t == 15:
            self.u8()
            self.u16(); self.u16()
            w, h = self.u16(), self.u16()
            self.take(2)
            if not self.scale_requested:
                raise Bad("caps", "PalmVNC resize without a scale request")
            self.fbw, self.fbh = w, h
            return "msg palmresize w=%d h=%d" % (w, h)
        if t == 250:
            self.u8()
            v, c = self.u8(), self.u8()
            if E["Xvp"] not in self.named:
                raise Bad("caps", "xvp message but the client never named the xvp pseudo-encoding", enc="Xvp")
            return "msg xvp ver=%d code=%d" % (v, c)
        raise Bad("type", "unknown server-to-client message type %d" % t)

    def feed(self, data):
        """-> (list of message lines, error or None).  Incomplete tail stays buffered."""
        self.buf = self.buf[self.pos:] + data
        self.pos = 0
        out = []
        while self.pos < len(self.buf):
            start = self.pos
            try:
                out.append(self.message())
            except NeedMore:
                self.pos = start
                break
            except Bad as b:
                b.offset = start
                return out, b
        return out, None

    def leftover(self):
        return len(self.buf) - self.pos


def oracle_handshake(scr, minor, choice, good, data):
    """RFB 3.3 / 3.7 / 3.8 handshake + ServerInit, per the specification.  Returns error string or None."""
    pos = 0

    def take(n):
        nonlocal pos
        if pos + n > len(data):
            raise Bad("handshake", "handshake output truncated (have %d bytes)" % len(data))
        r = data[pos:pos + n]
        pos += n
        return r
    try:
        if take(12) != b"RFB 003.008\n":
            return "server version string is not 'RFB 003.008\\n'"
        want = 2 if scr["pw"] else 1
        closed = False
        auth = False
        if minor < 7:
            if struct.unpack(">I", take(4))[0] != want:
                return "3.3 security word is not %d" % want
            auth = bool(scr["pw"])
        else:
            if take(2) != bytes([1, want]):
                return "security type list is not [%d]" % want
            if choice != want:
                closed = True
            else:
                auth = bool(scr["pw"])
                if not auth and minor > 7 and minor != 889:
                    if struct.unpack(">I", take(4))[0] != 0:
                        return "SecurityResult for None is not OK"
        if auth and not closed:
            take(16)
            res = struct.unpack(">I", take(4))[0]
            if good and res != 0:
                return "correct response rejected (result %d)" % res
            if not good:
                if res == 0:
                    return "wrong response accepted"
                closed = True
                if minor > 7:
                    ln = struct.unpack(">I", take(4))[0]
                    take(ln)
        if not closed:
            w, h = struct.unpack(">HH", take(4))
            pf = take(16)
            nl = struct.unpack(">I", take(4))[0]
            name = take(nl)
            if (w, h) != (scr["w"], scr["h"]):
                return "ServerInit size %dx%d is not the screen's %dx%d" % (w, h, scr["w"], scr["h"])
            got = struct.unpack(">BBBBHHHBBB", pf[:13])
            got = got[:2] + (int(bool(got[2])), int(bool(got[3]))) + got[4:]      # flags: non-zero = true
            exp = (scr["bpp"], scr["depth"], int(bool(scr["be"])), int(bool(scr["tc"])), scr["rmax"], scr["gmax"],
                   scr["bmax"], scr["rs"], scr["gs"], scr["bs"])
            if got != exp:
                return "ServerInit pixel format %s differs from the screen's %s" % (got, exp)
            expname = bytes((97 + i % 26) for i in range(scr["namelen"]))[:127]
            if name != expname:
                return "ServerInit name (%d bytes) is not the desktop name truncated to 127 bytes" % nl
        if pos != len(data):
            return "%d unexpected bytes after the handshake" % (len(data) - pos)
    except Bad as b:
        return str(b)
    return None


# ------------------------------------------------------------------ generators
def enc_u(v):
    return v & 0xFFFFFFFF


SIZES = [(1, 1), (20, 10), (47, 5), (48, 48), (49, 49), (97, 50), (255, 3), (256, 2), (64, 64), (63, 65), (100, 41),
         (2047, 2), (2048, 3), (2049, 2), (300, 110), (33, 1000), (129, 256)]
SIZES_BIG = [(2048, 33), (2049, 33), (16385, 3), (700, 95), (4100, 17), (1024, 65)]


def rand_encs(rng, must=None):
    n = rng.choice([0, 1, 1, 2, 3, 5, 8])
    pool = PIXEL_ENCS + [E["CopyRect"]] * 3 + PSEUDO + [-256 + rng.randint(0, 9), -32 + rng.randint(0, 9), -512 + rng.randint(1, 100),
                                                       -768 + rng.randint(0, 3), 8, 15, 0x48323634, rng.randint(-400, 400)]
    l = [rng.choice(pool) for _ in range(n)]
    if must is not None:
        l.insert(rng.randint(0, len(l)), must)
    if rng.random() < 0.15 and l:
        l.append(l[0])
    return l


def pixfmt_line(rng, sbpp):
    k = rng.choice(["32", "32", "16", "8", "24in32", "8cmap", "be32", "15"])
    if k == "32":
        return "pixfmt 32 24 0 1 255 255 255 16 8 0"
    if k == "24in32":
        return "pixfmt 32 24 0 1 255 255 255 0 8 16"
    if k == "be32":
        return "pixfmt 32 32 1 1 255 255 255 8 16 24"
    if k == "16":
        return "pixfmt 16 16 0 1 31 63 31 11 5 0"
    if k == "15":
        return "pixfmt 16 15 1 1 31 31 31 10 5 0"
    if k == "8":
        return "pixfmt 8 8 0 1 7 7 3 0 3 6"
    return "pixfmt 8 8 0 0 0 0 0 0 0 0"


def rand_rect(rng, W, H):
    if rng.random() < 0.2:
        return (0, 0, W, H)
    x = rng.randint(0, W - 1)
    y = rng.randint(0, H - 1)
    w = rng.choice([1, 1, 2, 16, 17, 47, 48, 49, W]) if rng.random() < 0.5 else rng.randint(1, W)
    h = rng.choice([1, 1, 2, 16, 17, 47, 48, 49, H]) if rng.random() < 0.5 else rng.randint(1, H)
    return (x, y, min(w, W - x), min(h, H - y))


def session(rng, k, kind, W, H, bypp, pref=None, nops=10):
    opts = dict(pw=int(rng.random() < 0.15), maxrects=rng.choice([-1, -1, -1, 0, 1, 3, 50]),
                namelen=rng.choice([0, 5, 5, 126, 127, 128, 200]), dontconv=int(rng.random() < 0.2),
                xvp=int(rng.random() < 0.4), utf8=int(rng.random() < 0.5), ledhook=int(rng.random() < 0.5))
    L = ["case %d %s" % (k, kind),
         "screen %d %d %d " % (W, H, bypp) + " ".join("%s=%d" % kv for kv in opts.items())]
    minor = rng.choice([8, 8, 8, 7, 3, 889])
    L.append("connect %d %d 1 good=1" % (minor, 2 if opts["pw"] else 1))
    if minor == 889 and opts["pw"]:
        pass
    helper = rng.random() < 0.4
    if helper:
        L.append("helper")
    if rng.random() < 0.8:
        L.append("setenc " + " ".join(map(str, rand_encs(rng, pref))))
    if rng.random() < 0.5:
        L.append(pixfmt_line(rng, bypp * 8))
    L.append("fur 0 0 0 %d %d" % (W, H))
    mW, mH = W, H      # a conforming client never requests beyond the size announced to it
    for _ in range(nops):
        r = rng.random()
        if r < 0.22:
            L.append("fill %d %d %d %d %d %d" % (rand_rect(rng, W, H) + (rng.randint(0, 255), rng.randint(0, 5))))
        elif r < 0.30:
            L.append("mark %d %d %d %d" % rand_rect(rng, W, H))
        elif r < 0.50:
            x, y, w, h = rand_rect(rng, mW, mH)
            L.append("fur %d %d %d %d %d" % (rng.choice([0, 1, 1]), x, y, w, h))
        elif r < 0.58:
            x, y, w, h = rand_rect(rng, W, H)
            L.append("copy %d %d %d %d %d %d" % (x, y, w, h, rng.randint(-5, 5), rng.randint(-5, 5)))
        elif r < 0.68:
            L.append("setenc " + " ".join(map(str, rand_encs(rng, pref if rng.random() < 0.5 else None))))
        elif r < 0.72:
            L.append(pixfmt_line(rng, bypp * 8))
        elif r < 0.77 and helper:
            L.append("ptr %d %d" % (rng.randint(0, W - 1), rng.randint(0, H - 1)))
        elif r < 0.81:
            L.append("setcursor %d" % rng.randint(1, 7))      # 4..7: cursors with width or height 0
        elif r < 0.85:
            L.append("led %d" % rng.randint(0, 7))
        elif r < 0.88:
            L.append("bell")
        elif r < 0.91:
            L.append("cuttext %d" % rng.choice([0, 1, 50, 2000]))
        elif r < 0.94:
            L.append("cuttextutf8 %d" % rng.choice([0, 1, 50, 2000]))
        elif r < 0.96 and W * H <= 40000:
            W, H = max(4, (W + rng.randint(-8, 8)) & ~3), max(1, H + rng.randint(-3, 3))
            L.append("newfb %d %d" % (W, H))
            mW, mH = min(mW, W), min(mH, H)
        else:
            L.append("fur 0 0 0 %d %d" % (mW, mH))
    L.append("fur 1 0 0 %d %d" % (mW, mH))
    return L


def handshake_case(rng, k, minor, pw, choice, good):
    W, H = rng.choice([(4, 3), (20, 10), (800, 600), (65535, 1)][:3])
    namelen = rng.choice([0, 1, 5, 126, 127, 128, 255, 299])
    L = ["case %d handshake" % k, "screen %d %d %d pw=%d namelen=%d" % (W, H, rng.choice([1, 2, 4]), pw, namelen),
         "connect %d %d %d good=%d" % (minor, choice, rng.randint(0, 1), good)]
    if rng.random() < 0.5:
        L.append("fur 0 0 0 %d %d" % (W, H))
    return L


def scaled_case(rng, k):
    W, H = rng.choice([(40, 30), (97, 50), (64, 64), (200, 100)])
    L = ["case %d scaled" % k, "screen %d %d %d" % (W, H, rng.choice([1, 2, 4])), "connect 8 1 1 good=1",
         "setenc " + " ".join(map(str, rand_encs(rng, rng.choice(PIXEL_ENCS)))),
         "fur 0 0 0 %d %d" % (W, H), "setscale %d" % rng.choice([2, 2, 3, 4])]
    for _ in range(6):
        if rng.random() < 0.5:
            L.append("fill %d %d %d %d %d %d" % (rand_rect(rng, W, H) + (rng.randint(0, 255), rng.randint(0, 5))))
        else:
            x, y, w, h = rand_rect(rng, max(1, W // 2), max(1, H // 2))
            L.append("fur %d %d %d %d %d" % (rng.randint(0, 1), x, y, w, h))
    if rng.random() < 0.3:
        L.append("setscale 1")
        L.append("fur 0 0 0 %d %d" % (W, H))
    return L


def degenerate_case(rng, k, enc, first, zero):
    """FramebufferUpdateRequest with w=0 or h=0 (F4); `first`: before any complete update"""
    W, H = 20, 10
    L = ["case %d degenerate" % k, "screen %d %d 4" % (W, H), "connect 8 1 1 good=1", "setenc %d" % enc]
    fur = "fur 0 3 3 %d %d" % ((0, 4) if zero == "w" else (4, 0))
    if not first:
        L += ["fur 0 0 0 %d %d" % (W, H)]
    L += [fur, "fill 1 1 8 8 9 3", "fur 0 0 0 %d %d" % (W, H), "fur 1 0 0 %d %d" % (W, H)]
    return L


def cursorcopy_case(rng, k, kind, shape, pending, W=12, H=8):
    """F26 dimension: cursor size (incl. 1x0, 0x1, 0x0, 3x0, 1x1 transparent) x soft cursor / cursor-shape client x
    application copy over the cursor position x an update request pending or not while the copy is scheduled"""
    encs = [0, 1] + ([E["XCursor"]] if shape else [])
    cx, cy = rng.randint(2, W - 4), rng.randint(2, H - 3)
    dx, dy = rng.choice([(1, 0), (-1, 0), (0, 1), (0, -1), (2, 1)])
    L = ["case %d cursorcopy" % k, "screen %d %d 4" % (W, H), "connect 8 1 1 good=1", "helper", "setcursor %d" % kind,
         "setenc " + " ".join(map(str, encs)), "ptr %d %d" % (cx, cy), "fur 1 0 0 %d %d" % (W, H)]
    if pending:
        L.append("fur 1 0 0 %d %d" % (W, H))
    L.append("copy 1 1 %d %d %d %d" % (W - 3, H - 3, dx, dy))
    L += ["fur 1 0 0 %d %d" % (W, H), "ptr %d %d" % (cx + 1, cy), "fill 0 0 3 3 7 0", "fur 1 0 0 %d %d" % (W, H)]
    return L


def copywrap_case(k, nx, ny):
    """F24: an application copy of a fragmented region: more CopyRect rectangles than the count field holds"""
    W, H = 2 * nx, 2 * ny
    return ["case %d copywrap" % k, "screen %d %d 1" % (W, H), "connect 8 1 1 good=1", "setenc 0 1",
            "fur 0 0 0 %d %d" % (W, H), "fur 1 0 0 %d %d" % (W, H), "copygrid %d %d 2 0" % (nx, ny)]


def wrap_case(k, nx, ny, drop, enc, maxrects, lastrect=False):
    """F5: NX*NY-drop one-pixel modified rectangles, all requested"""
    W, H = 2 * nx, 2 * ny
    encs = [enc] + ([E["LastRect"]] if lastrect else [])
    return ["case %d wrap" % k, "screen %d %d 1 maxrects=%d" % (W, H, maxrects), "connect 8 1 1 good=1",
            "setenc " + " ".join(map(str, encs)), "fur 0 0 0 %d %d" % (W, H), "modgrid %d %d %d" % (nx, ny, drop),
            "fur 1 0 0 %d %d" % (W, H)]


def copyflood_case(k, W, H, dx):
    """F6: a checkerboard requestedRegion accumulated while idle, then an ordinary application copy"""
    return ["case %d copyflood" % k, "screen %d %d 1" % (W, H), "connect 8 1 1 good=1", "setenc 0 1",
            "fur 0 0 0 %d %d" % (W, H), "reqgrid %d %d 2" % (W, H), "copyall %d 0" % dx, "fur 1 0 0 %d %d" % (W, H)]


def stickyclip_case(k):
    return ["case %d stickyclip" % k, "screen 20 10 4 utf8=1", "connect 8 1 1 good=1",
            "setenc 0 %d" % E["ExtendedClipboard"], "cuttextutf8 5", "setenc 0", "cuttextutf8 5", "cuttext 3"]


BOUNDARY = {
    "CoRRE": [(47, 5), (48, 48), (49, 49), (96, 48), (97, 50), (144, 1)],
    "Zlib": [(1024, 32), (1024, 33), (16384, 3), (16385, 3), (100, 328), (100, 329)],
    "Ultra": [(1024, 32), (1024, 33), (16384, 3), (16385, 3), (100, 328), (100, 329)],
    "Tight": [(2048, 32), (2048, 33), (2049, 31), (2049, 33), (4097, 17), (64, 64), (63, 65), (1, 65537 // 16)],
    "TightPng": [(2048, 33), (2049, 33), (64, 64), (63, 65)],
    "Raw": [(1, 1), (2048, 17)], "Hextile": [(16, 16), (17, 33)], "RRE": [(20, 10)], "ZRLE": [(64, 64), (65, 65)],
    "ZYWRLE": [(64, 64)],
}


def boundary_case(k, enc, W, H, lastrect, bypp=1, content=(3, 0)):
    """full updates of a W x H screen: the case-split boundaries of the counting theorems.
    `content`: fill modes of the two updates (the Tight splitter is data dependent)"""
    encs = [E[enc]] + ([E["LastRect"]] if lastrect else [])
    return ["case %d boundary" % k, "screen %d %d %d" % (W, H, bypp), "connect 8 1 1 good=1",
            "setenc " + " ".join(map(str, encs)), "fill 0 0 %d %d 3 %d" % (W, H, content[0]),
            "fur 0 0 0 %d %d" % (W, H), "fill 0 0 %d %d 77 %d" % (W, H, content[1]), "fur 1 0 0 %d %d" % (W, H)]


def capdrop_case(rng, k, X, event_first):
    """capability X is enabled by one SetEncodings and dropped by the next one.  The events that
    would use X happen after the drop -- or (event_first) while X is still enabled but no request
    is outstanding, so that the server only remembers them (pending flags) across the drop"""
    W, H = 80, 70
    base = [E["Tight"]]
    need = {"PointerPos": [E["RichCursor"]], "XCursor": [], "RichCursor": []}.get(X, [])
    events = ["fill 0 0 %d %d 5 3" % (W, H), "setcursor 3", "ptr 7 9", "led 5", "copy 5 5 20 20 1 1", "cuttextutf8 4",
              "newfb 84 70"]
    L = ["case %d capdrop-%s%s" % (k, X, "-pending" if event_first else ""), "screen %d %d 4 ledhook=1 xvp=1 utf8=1" % (W, H),
         "connect 8 1 1 good=1", "helper", "setenc " + " ".join(map(str, base + need + [E[X]])), "fur 0 0 0 %d %d" % (W, H)]
    if event_first:
        L += events
    L += ["setenc " + " ".join(map(str, base + need))]
    if not event_first:
        L += events
    L += ["fur 1 0 0 %d %d" % (W, H), "fur 0 0 0 %d %d" % (W, H)]
    return L


SIZE_ENCS = [[], [E["NewFBSize"]], [E["ExtDesktopSize"]], [E["NewFBSize"], E["ExtDesktopSize"]]]


def multiclient_case(rng, k, a_size=None, b_size=None):
    """two clients on one screen with independent SetEncodings lists; things one client does change what
    the server owes the other one: SetDesktopSize (accepted -> the application installs the new framebuffer,
    or refused), pointer movement, SetEncodings of the other client, application resizes"""
    W, H = rng.choice([(40, 30), (64, 64), (80, 70)])
    a_size = rng.choice(SIZE_ENCS) if a_size is None else a_size
    b_size = rng.choice(SIZE_ENCS) if b_size is None else b_size
    extra = [E["RichCursor"], E["PointerPos"], E["LastRect"], E["KeyboardLedState"], E["CopyRect"]]
    a_encs = [rng.choice(PIXEL_ENCS)] + a_size + rng.sample(extra, rng.randint(0, 3))
    b_encs = [rng.choice(PIXEL_ENCS)] + b_size + rng.sample(extra, rng.randint(0, 3))
    rng.shuffle(a_encs)
    L = ["case %d multiclient" % k, "screen %d %d %d ledhook=1" % (W, H, rng.choice([1, 2, 4])), "connect 8 1 1 good=1", "helper",
         "setenc " + " ".join(map(str, a_encs)), "helperenc " + " ".join(map(str, b_encs)), "fur 0 0 0 %d %d" % (W, H)]
    mW, mH = W, H
    for _ in range(rng.choice([4, 8, 12])):
        r = rng.random()
        if r < 0.35:
            who = rng.choice([0, 1, 1])
            nw, nh = max(4, (W + rng.randint(-12, 12)) & ~3), max(2, H + rng.randint(-6, 6))
            ok = rng.choice([1, 1, 0])
            L.append("sds %d %d %d %d" % (who, nw, nh, ok))
            if ok:
                W, H = nw, nh
                mW, mH = min(mW, W), min(mH, H)
        elif r < 0.5:
            x, y, w, h = rand_rect(rng, mW, mH)
            L.append("fur %d %d %d %d %d" % (rng.choice([0, 1]), x, y, w, h))
        elif r < 0.6:
            L.append("ptr %d %d" % (rng.randint(0, mW - 1), rng.randint(0, mH - 1)))
        elif r < 0.7:
            L.append("fill %d %d %d %d %d %d" % (rand_rect(rng, mW, mH) + (rng.randint(0, 255), rng.randint(0, 5))))
        elif r < 0.78:
            L.append("helperenc " + " ".join(map(str, [rng.choice(PIXEL_ENCS)] + rng.choice(SIZE_ENCS))))
        elif r < 0.86:
            L.append("setenc " + " ".join(map(str, [rng.choice(PIXEL_ENCS)] + rng.choice(SIZE_ENCS) + rng.sample(extra, 1))))
        elif r < 0.93:
            W, H = max(4, (W + rng.randint(-8, 8)) & ~3), max(2, H + rng.randint(-3, 3))
            L.append("newfb %d %d" % (W, H))
            mW, mH = min(mW, W), min(mH, H)
        else:
            L.append("fur 0 0 0 %d %d" % (mW, mH))
        if rng.random() < 0.5:
            L.append("fur 1 0 0 %d %d" % (mW, mH))
    L.append("fur 0 0 0 %d %d" % (mW, mH))
    return L


def malformed_case(rng, k):
    """mostly-valid session with one malformed / out-of-range client message; whatever the server
    does (ignore, close), everything it writes must still be well-formed"""
    W, H = rng.choice([(20, 10), (64, 64), (97, 50)])
    bad = rng.choice(["raw c8", "raw 0900000000", "pixfmt 24 24 0 1 255 255 255 16 8 0", "fur 0 30000 3 5 5",
                      "fur 0 3 30000 5 5", "fur 1 %d %d 100 100" % (W - 1, H - 1), "fur 0 %d 0 5 5" % W,
                      "setscale 0", "raw 0200000500000000", "raw 03", "raw 0600000000000010", "raw 0400",
                      "setenc " + " ".join(str(rng.randint(-2 ** 31, 2 ** 31 - 1)) for _ in range(40))])
    L = ["case %d malformed" % k, "screen %d %d %d" % (W, H, rng.choice([1, 2, 4])), "connect 8 1 1 good=1",
         "setenc " + " ".join(map(str, rand_encs(rng, rng.choice(PIXEL_ENCS)))), "fur 0 0 0 %d %d" % (W, H),
         "fill 1 1 9 9 5 3", bad, "fill 0 0 %d %d 9 2" % (W, H), "fur 1 0 0 %d %d" % (W, H), "bell",
         "fur 0 0 0 %d %d" % (W, H)]
    return L


def corpus_cases(k0):
    cases = []
    cdir = os.path.join(vlib.VERIF, "corpus", PID)
    if os.path.isdir(cdir):
        for fn in sorted(os.listdir(cdir)):
            lines = [l for l in open(os.path.join(cdir, fn)).read().split("\n") if l.strip() and not l.startswith("#")]
            if not lines:
                continue
            if lines[0].startswith("case "):
                p = lines[0].split()
                lines[0] = "case %d %s" % (k0 + len(cases), " ".join(p[2:]) or "corpus")
            else:
                lines = ["case %d corpus" % (k0 + len(cases))] + lines
            cases.append(lines)
    return cases


def gen_cases(ctx):
    rng = ctx.rng
    cases = corpus_cases(0)
    k = len(cases)

    def add(c):
        nonlocal k
        cases.append(c)
        k += 1
    # handshake matrix
    for minor in (3, 5, 7, 8, 889, 9):
        for pw in (0, 1):
            for choice, good in ((1, 1), (2, 1), (2, 0), (rng.choice([0, 3, 16, 255]), 1)):
                if minor < 7 and choice not in (1, 2):
                    continue
                add(handshake_case(rng, k, minor, pw, choice, good))
    # the case-split boundaries of the counting theorems, always all of them
    for enc, sizes in BOUNDARY.items():
        for (W, H) in sizes:
            add(boundary_case(k, enc, W, H, False))
            if enc.startswith("Tight"):
                # the splitter of the LastRect path depends on the pixels: uniform, busy and mixed content
                for content in ((1, 0), (4, 5), (3, 4)):
                    add(boundary_case(k, enc, W, H, True, content=content))
    for X in ("LastRect", "CopyRect", "XCursor", "RichCursor", "PointerPos", "KeyboardLedState", "NewFBSize",
              "ExtDesktopSize", "SupportedMessages", "SupportedEncodings", "ServerIdentity", "Xvp"):
        add(capdrop_case(rng, k, X, False))
        add(capdrop_case(rng, k, X, True))
    # boundary geometries x every pixel encoding
    nrep = 1 if ctx.quick() else 6
    for _ in range(nrep):
        for enc in PIXEL_ENCS:
            for (W, H) in rng.sample(SIZES, 5 if ctx.quick() else len(SIZES)):
                bypp = rng.choice([1, 1, 2, 4]) if W * H < 40000 else 1
                add(session(rng, k, "enc", W, H, bypp, pref=enc, nops=rng.choice([4, 8, 12])))
    for (W, H) in (SIZES_BIG[:2] if ctx.quick() else SIZES_BIG):
        for enc in rng.sample(PIXEL_ENCS, 3 if ctx.quick() else len(PIXEL_ENCS)):
            add(session(rng, k, "big", W, H, 1, pref=enc, nops=3))
    # free sessions (no forced encoding)
    for _ in range(60 if ctx.quick() else 1500):
        W, H = rng.choice(SIZES[:12])
        add(session(rng, k, "free", W, H, rng.choice([1, 2, 4]), nops=rng.choice([6, 12, 20])))
    for _ in range(12 if ctx.quick() else 200):
        add(scaled_case(rng, k))
    for _ in range(24 if ctx.quick() else 300):
        add(malformed_case(rng, k))
    # two clients with every combination of size-change capabilities, then random ones
    for a_size in SIZE_ENCS:
        for b_size in SIZE_ENCS:
            add(multiclient_case(rng, k, a_size, b_size))
    for _ in range(16 if ctx.quick() else 300):
        add(multiclient_case(rng, k))
    # suspected defects (DESIGN.md section 7): F4 family, F5, extended clipboard stickiness
    for enc in PIXEL_ENCS:
        for first in (True, False):
            for zero in ("w", "h"):
                add(degenerate_case(rng, k, enc, first, zero))
    add(stickyclip_case(k))
    # cursor sizes (degenerate ones included) x soft cursor / shape updates x copy x pending request (F26)
    for kind in (1, 2, 3, 4, 5, 6, 7):
        for shape in (False, True):
            for pending in (True, False):
                add(cursorcopy_case(rng, k, kind, shape, pending))
    add(wrap_case(k, 16, 16, 0, 0, 0))                  # 256 rectangles: fine
    add(wrap_case(k, 16, 16, 0, 0, 50))                 # coalesced to the bounding box
    add(wrap_case(k, 16, 16, 0, E["Zlib"], 50))         # exempt from coalescing
    return cases


def heavy_cases(ctx, k0):
    """cases that are run one per process (crash candidates / very large outputs); the minimal
    witnesses of F5/F6 are in corpus/C03 (also run one per process)"""
    out = [copyflood_case(k0 + 3, 126, 64, 2),               # 2016 copy rectangles: still fits
           copyflood_case(k0 + 2, 128, 66, -2)]              # 2079 > 2047
    out += [copywrap_case(k0 + 8, 64, 64)]            # 4032 copy rectangles: fine
    if not ctx.quick():
        out += [copywrap_case(k0 + 9, 264, 250)]
        out += [wrap_case(k0 + 4, 256, 256, 0, E["Zlib"], 50), wrap_case(k0 + 5, 256, 256, 1, E["Hextile"], 0, lastrect=True),
                wrap_case(k0 + 6, 256, 256, 2, 0, 0), copyflood_case(k0 + 7, 200, 80, -2)]
    return out


# ------------------------------------------------------------------ running
def parse_kv(line):
    d = {}
    for t in line.split()[1:]:
        if "=" in t:
            a, b = t.split("=", 1)
            try:
                d[a] = int(b)
            except ValueError:
                d[a] = b
    return d


def split_ops(case_lines, impl_lines):
    """align implementation output with the script: -> list of (op line, [impl lines])"""
    res = []
    it = iter(impl_lines)
    cur = None
    terminators = {"screen": "screen", "connect": "hs", "helper": "hsB"}
    buf = list(impl_lines)
    i = 0
    for op in case_lines[1:]:
        name = op.split()[0]
        term = terminators.get(name, "out")
        got = []
        while i < len(buf):
            l = buf[i]
            i += 1
            got.append(l)
            if l.split(" ", 1)[0] == term:
                # an optional outB line follows an out line
                if term == "out" and i < len(buf) and buf[i].startswith("outB "):
                    got.append(buf[i])
                    i += 1
                break
        res.append((op, got))
    return res


_RESET_EXTCLIP = None


def source_resets_extclip():
    """does the SetEncodings handler reset enableExtendedClipboard together with the other flags
    (repair of F21)?  Decided from the source text on every run."""
    global _RESET_EXTCLIP
    if _RESET_EXTCLIP is None:
        try:
            txt = open(os.path.join(vlib.REPO, "src", "libvncserver", "rfbserver.c"), errors="replace").read()
        except OSError:
            txt = ""
        m = re.search(r"Reset all flags to defaults.*?for \(i = 0; i < msg\.se\.nEncodings", txt, flags=re.S)
        _RESET_EXTCLIP = bool(m and re.search(r"enableExtendedClipboard\s*=\s*FALSE", m.group(0)))
    return _RESET_EXTCLIP


_SRC = {}


def source_has(key):
    """which proposed repairs are present in the source text (decided on every run)"""
    if not _SRC:
        try:
            txt = open(os.path.join(vlib.REPO, "src", "libvncserver", "rfbserver.c"), errors="replace").read()
        except OSError:
            txt = ""
        m = re.search(r"\nrfbSendFramebufferUpdate\(.*?\n\}\n", txt, flags=re.S)
        body = m.group(0) if m else ""
        _SRC["raw24"] = bool(re.search(r"format\.bitsPerPixel\s*==\s*24.*?cl->preferredEncoding\s*=\s*rfbEncodingRaw\s*;", body, flags=re.S))
        _SRC["wrapfix"] = bool(re.search(r"goto\s+countRects\s*;", body)) and "lastRectMode" in body
        # second stage: the copy rectangles are merged into the update region when they alone reach the field size
        _SRC["wrapcopy"] = _SRC["wrapfix"] and bool(re.search(r"sraRgnOr\(\s*updateRegion\s*,\s*updateCopyRegion\s*\)", body))
        # F22 repair (notes/fix_C03_8.diff): the cursor redraw area is intersected with the saved requestedRegion
        # a3e0ace: Raw sends a line longer than the update buffer in pieces instead of closing the client mid-update
        _SRC["rawpieces"] = "send buffer too small" not in txt
        _SRC["clipcursor"] = bool(re.search(r"sraRgnAnd\(\s*updateRegion\s*,\s*requested\s*\)", body))
    return _SRC[key]


def scaled_request_accepted(W, H, sw, sh, x, y, w, h):
    """rectSwapIfLEAndClip for a scaled client: rfbScaledCorrection(scaledScreen -> screen) in IEEE
    doubles, the uint16 clipping, and the empty-request test"""
    def ceil_(v):
        return float(int(v)) if float(int(v)) == v else float(int(v) + 1)
    scw, sch = float(W) / float(sw), float(H) / float(sh)
    x1, y1, w1, h1 = x * scw, y * sch, w * scw, h * sch
    x2, y2 = float(int(x1)), float(int(y1))
    X, Y, Wd, Ht = int(x2), int(y2), int(ceil_(w1 + (x1 - x2))), int(ceil_(h1 + (y1 - y2)))
    if Wd == 0:
        Wd += 1
    if Ht == 0:
        Ht += 1
    if X + Wd > W:
        Wd = W - X
    if Y + Ht > H:
        Ht = H - Y
    X, Y, Wd, Ht = X & 0xFFFF, Y & 0xFFFF, Wd & 0xFFFF, Ht & 0xFFFF
    if Wd > W - X:
        Wd = (W - X) & 0xFFFF
    if Wd > W - X:
        return False
    if Ht > H - Y:
        Ht = (H - Y) & 0xFFFF
    if Ht > H - Y:
        return False
    return Wd != 0 and Ht != 0


def model_script(case_lines, ops):
    """merge the script with the implementation's observations -> lines for the model driver"""
    M = [case_lines[0]]
    scr = None
    scale = None        # (scaled width, scaled height) after a SetScale with factor > 1
    for op, got in ops:
        p = op.split()
        name = p[0]
        if name == "screen":
            for l in got:
                if l.startswith("screen "):
                    scr = parse_kv(l)
            if scr is None:
                break
            o = parse_kv(op)
            scr.update(pw=o.get("pw", 0), namelen=o.get("namelen", 5))
            M.append("screen " + " ".join("%s=%s" % kv for kv in scr.items()) +
                     " dontconv=%d xvp=%d utf8=%d ledhook=%d resetextclip=%d raw24=%d wrapfix=%d wrapcopy=%d clipcursor=%d" % (
                         o.get("dontconv", 0), o.get("xvp", 0), o.get("utf8", 0), o.get("ledhook", 0),
                         int(source_resets_extclip()), int(source_has("raw24")), int(source_has("wrapfix")),
                         int(source_has("wrapcopy")), int(source_has("clipcursor"))))
            continue
        if name == "connect":
            hexs = [l.split(" ", 1)[1] for l in got if l.startswith("hs ")]
            o = parse_kv(op)
            M.append("hs %s %s %d %d %s" % (p[1], p[2], o.get("good", 1), REASON_LEN, hexs[0] if hexs else "-"))
            continue
        if name == "helper":
            continue
        pre = []
        if name == "setenc":
            pre.append(op)
        elif name == "fur" and scale is not None and scr is not None:
            # rectSwapIfLEAndClip on a scaled client: the request is mapped by rfbScaledCorrection
            # (doubles, outside the Coq model), clipped, and dropped when empty (d5a464d)
            pre.append(op + " acc=%d" % int(scaled_request_accepted(scr["w"], scr["h"], scale[0], scale[1],
                                                                    int(p[2]), int(p[3]), int(p[4]), int(p[5]))))
        elif name in ("pixfmt", "fur"):
            pre.append(op)
        elif name == "reqgrid":
            W, H, st = int(p[1]), int(p[2]), int(p[3])
            pre.append("fur 1 0 0 1 1")
        elif name == "setcursor":
            pre.append("ev setcursor")
        elif name == "newfb":
            pre.append("ev newfb %s %s" % (p[1], p[2]))
            if scr is not None:
                scr["w"], scr["h"] = int(p[1]), int(p[2])
        elif name == "sds":
            # SetDesktopSize from A (who=0) or from the helper B (who=1).  Accepted: the application installs
            # the new framebuffer (rfbNewFramebuffer); refused: only the requesting client is told
            called = any(l == "sdscalled 1" for l in got)
            if called and p[4] == "1":
                # the framebuffer is installed after the event-loop rounds that delivered the message:
                # the event is inserted where the harness reports "sdscalled" (see below)
                if scr is not None:
                    scr["w"], scr["h"] = int(p[2]), int(p[3])
            elif called and p[1] == "0":
                pre.append("ev sdsfail")
        elif name == "setscale":
            pre.append("ev setscale")
            f = int(p[1])
            if scr is not None and f > 0:
                sw, sh = scr["w"] // f, scr["h"] // f
                scale = None if ((sw, sh) == (scr["w"], scr["h"]) or sw == 0 or sh == 0) else (sw, sh)
        elif name == "ptr":
            if any(l == "ptrmoved 1" for l in got):
                pre.append("ev ptrmoved")
        M += pre
        for l in got:
            if l == "sdscalled 1" and name == "sds" and p[4] == "1":
                M.append("ev newfb %s %s" % (p[2], p[3]))
            if l.startswith("snap "):
                M.append(l)
            elif l.startswith("out "):
                M.append(l)
    M.append("endcase")
    return M, scr


def run_impl(cexe, cases, timeout=1500):
    script = "\n".join("\n".join(c) for c in cases) + "\n"
    return vlib.run_driver(cexe, script, timeout=timeout)


def run_model(mexe, model_cases, timeout=3000):
    script = "\n".join("\n".join(c) for c in model_cases) + "\n"
    return vlib.run_driver(mexe, script, timeout=timeout, unlimited_stack=True)


def features_of(case_lines, kind, extra=None):
    ops = [l.split()[0] for l in case_lines[1:]]
    f = {"kind": kind, "case": case_lines[0].split()[2] if len(case_lines[0].split()) > 2 else "?"}
    degenerate = False
    for l in case_lines[1:]:
        p = l.split()
        if p[0] == "fur" and (int(p[4]) == 0 or int(p[5]) == 0):
            degenerate = True
    f["degenerate_request"] = degenerate
    if extra:
        f.update(extra)
    return f


def analyse_case(case_lines, impl_lines, model_lines, crashed, stderr_tail):
    """-> dict(oracle=[(msg, features)], corr=[msg], stats)"""
    res = dict(oracle=[], corr=[], updates=0, msgs=0, classes=set(), spin=False, bytes=0)
    ops = split_ops(case_lines, impl_lines)
    scr = None
    orc = None
    latest_named_ops = []
    snaps_deg = False
    resized_blind = False      # rfbNewFramebuffer while the client cannot be told (no NewFBSize)
    impl_msgs = []
    maxcopy = 0
    total_rects_max = 0
    for op, got in ops:
        p = op.split()
        name = p[0]
        if name == "screen":
            for l in got:
                if l.startswith("screen "):
                    scr = parse_kv(l)
            if scr:
                o = parse_kv(op)
                scr.update(pw=o.get("pw", 0), namelen=o.get("namelen", 5))
                orc = Oracle(scr)
            continue
        if scr is None:
            break
        if name == "connect":
            hexs = [l.split(" ", 1)[1] for l in got if l.startswith("hs ")]
            o = parse_kv(op)
            data = bytes.fromhex(hexs[0]) if hexs and hexs[0] != "-" else b""
            res["bytes"] += len(data)
            e = oracle_handshake(scr, int(p[1]), int(p[2]), o.get("good", 1), data)
            if e:
                res["oracle"].append(("handshake: " + e, features_of(case_lines, "handshake", {"minor": int(p[1]), "pw": scr["pw"]})))
            res["classes"].add(("hs", int(p[1]), scr["pw"], int(p[2]), o.get("good", 1)))
            continue
        if name == "helper":
            continue
        # client messages change the oracle's view BEFORE the server answers
        if name == "setenc":
            l = [s32(int(x)) for x in p[1:]]
            orc.latest = l
            orc.named |= set(l)
        elif name == "pixfmt":
            orc.bpp, orc.depth, orc.tc = int(p[1]), int(p[2]), p[4] != "0"
            orc.rmax, orc.gmax, orc.bmax = int(p[5]), int(p[6]), int(p[7])
        elif name == "setscale":
            orc.scale_requested = True
        elif name == "newfb" or (name == "sds" and p[4] == "1" and any(l == "sdscalled 1" for l in got)):
            if E["NewFBSize"] not in orc.latest and E["ExtDesktopSize"] not in orc.latest:
                resized_blind = True
                if orc.askw is None and not orc.scale_requested:
                    orc.askw = orc.askh = 0
        elif name == "fur" and orc.askw is not None and len(p) >= 6:
            orc.askw = max(orc.askw, min(int(p[2]) + int(p[4]), 65535))
            orc.askh = max(orc.askh, min(int(p[3]) + int(p[5]), 65535))
        for l in got:
            if l.startswith("spin"):
                res["spin"] = True
            if l.startswith("snap "):
                for key in ("mod", "req", "copy"):
                    m = re.search(r" %s=\[([^\]]*)\]" % key, l)
                    if m and m.group(1):
                        rl = [tuple(map(int, r.split(","))) for r in m.group(1).split(";")]
                        if any(r[0] == r[2] or r[1] == r[3] for r in rl):
                            snaps_deg = True
                        if key == "copy":
                            pass
                        total_rects_max = max(total_rects_max, len(rl))
            if l.startswith("out "):
                hx = l.split(" ", 1)[1]
                data = bytes.fromhex(hx) if hx != "-" else b""
                res["bytes"] += len(data)
                msgs, err = orc.feed(data)
                impl_msgs += msgs
                for m in msgs:
                    res["msgs"] += 1
                    if m.startswith("msg fbu"):
                        res["updates"] += 1
                        rects = m.split("rects=[")[1][:-1]
                        rl = [tuple(map(int, r.split(","))) for r in rects.split(";")] if rects else []
                        encs = sorted(set(ENAME.get(r[4], str(r[4])) for r in rl))
                        res["classes"].add(("fbu", tuple(encs), orc.bpp, min(len(rl), 3), "last=1" in m))
                        total_rects_max = max(total_rects_max, len(rl))
                        maxcopy = max(maxcopy, sum(1 for r in rl if r[4] == 1))
                    else:
                        res["classes"].add((m.split()[1],))
                if err is not None:
                    f = features_of(case_lines, err.kind, dict(err.feat))
                    f["degenerate_region"] = snaps_deg
                    f["rects_ge_65535"] = total_rects_max >= 65535
                    f["resized_without_newfbsize"] = resized_blind
                    f["client_bpp"] = orc.bpp
                    res["oracle"].append(("%s (byte %d of the chunk after '%s')" % (err, getattr(err, "offset", 0), op), f))
                    orc.buf, orc.pos = b"", 0
    gone = any(l == "caps gone" for l in impl_lines)
    res["closed_midmessage"] = bool(orc is not None and orc.leftover() and gone)
    # a message cut short is accepted only when the server itself closed the connection right there
    # (e.g. rfbSendRectEncodingRaw: "send buffer too small for %d bytes per line" -> rfbCloseClient)
    # since a3e0ace that abort is gone: a server-side close in the middle of a message, in a session in which the
    # client neither closed nor sent garbage, is a truncated update again
    client_misbehaves = any(o.split()[0] in ("close", "raw") for o, _ in ops if o.split())
    if (orc is not None and orc.leftover() and not res["oracle"] and gone and source_has("rawpieces")
            and not client_misbehaves and not crashed):
        f = features_of(case_lines, "truncated", {"degenerate_region": snaps_deg, "rects_ge_65535": total_rects_max >= 65535,
                                                  "client_bpp": orc.bpp, "closed_by_server": True})
        res["oracle"].append(("the server closed the connection inside a message: %d bytes do not form a complete message"
                              % orc.leftover(), f))
    if orc is not None and orc.leftover() and not res["oracle"] and not gone:
        f = features_of(case_lines, "truncated", {"degenerate_region": snaps_deg, "rects_ge_65535": total_rects_max >= 65535,
                                                  "client_bpp": orc.bpp})
        res["oracle"].append(("stream ends inside a message: %d bytes do not form a complete message "
                              "(an announced rectangle was never sent, or a length field is wrong)" % orc.leftover(), f))
    if crashed:
        why = "FPE" if "FPE" in stderr_tail else ("SEGV/overflow" if ("SEGV" in stderr_tail or "overflow" in stderr_tail) else "abort")
        loc = re.search(r"SUMMARY: AddressSanitizer: (\S+) (\S+) in (\S+)", stderr_tail)
        ncopy = 0
        for l in impl_lines:
            if l.startswith("snap "):
                m = re.search(r" req=\[([^\]]*)\]", l)
                if m and m.group(1):
                    ncopy = max(ncopy, m.group(1).count(";") + 1)
        f = features_of(case_lines, "crash", {"signal": why, "where": loc.group(3) if loc else "?",
                                              "degenerate_region": snaps_deg or features_of(case_lines, "x")["degenerate_request"],
                                              "requested_rects": ncopy})
        res["oracle"].append(("server process crashed (%s) %s" % (why, loc.group(0) if loc else stderr_tail[-200:]), f))
    # ---- hypothesis of theorem C03_caps, checked on the real server: copyRegion is empty whenever useCopyRect is off
    last_snap = None
    for l in impl_lines:
        if l.startswith("snap "):
            last_snap = l
        elif l.startswith("scaps ") and last_snap is not None:
            if " copy=0 " in l and " copy=[] " not in last_snap and not res["oracle"]:
                f = features_of(case_lines, "caps", {"enc": "CopyRect", "named_earlier": True, "invariant": "copyregion"})
                res["oracle"].append(("a copy is pending (copyRegion not empty) although the client's useCopyRect is off: "
                                      "the next update sends CopyRect rectangles the client no longer accepts", f))
            last_snap = None
    # ---- correspondence: model output vs implementation
    mi = [l for l in model_lines]
    # (1) capability flags: C "scaps"/"caps" vs model "mcaps"/"caps"
    c_scaps = [l[6:] for l in impl_lines if l.startswith("scaps ")]
    m_scaps = [l[6:] for l in mi if l.startswith("mcaps ")]
    for i, (a, b) in enumerate(zip(c_scaps, m_scaps)):
        if a != b:
            res["corr"].append("capability state at update #%d differs: impl [%s] model [%s]" % (i, a, b))
            break
    if len(c_scaps) != len(m_scaps) and not crashed:
        res["corr"].append("number of updates seen: impl %d model %d" % (len(c_scaps), len(m_scaps)))
    # (2) parsed messages: oracle vs Coq parser
    m_msgs = [l for l in mi if l.startswith("msg ")]
    if not res["oracle"]:
        d = vlib.first_diff(impl_msgs, m_msgs)
        if d is not None:
            res["corr"].append("parse_s2c (Coq) and the spec parser disagree at message %d: spec [%s] coq [%s]" % (d[0], d[1][:200], d[2][:200]))
    # (3) predictions
    for l in mi:
        if l.startswith("cmp FAIL"):
            res["corr"].append("update prediction: " + l)
            break
    for l in mi:
        if l.startswith("end bad") and not res["oracle"]:
            res["corr"].append("Coq parser rejects the stream (%s) but the spec oracle accepts it" % l)
            break
        if l.startswith("hs ok=0") and not res["oracle"]:
            res["corr"].append("Coq handshake shape check fails but the spec oracle accepts the handshake")
            break
        if l.startswith("??"):
            res["corr"].append("model driver did not understand: " + l)
            break
    for l in mi:
        if l.startswith("endcase") and "unmatched_predictions=0" not in l and not res["oracle"] and not crashed and not gone:
            res["corr"].append("model predicted updates that never appeared: " + l)
    res["model_trap"] = any(l.startswith("pred trap") for l in mi)
    res["model_overflow"] = any(l.startswith("pred ") and " ovf=1" in l for l in mi)
    # what the (defect-preserving) mirror model says about this session: the root cause
    cause = "none"
    for l in mi:
        m = re.match(r"pred n=(\d+) last=(\d) ovf=(\d) known=(-?\d+)", l)
        if not m:
            continue
        n, last, ovf, known = map(int, m.groups())
        headers = known - last if known >= 0 else -1          # the LastRect marker is not counted
        if known >= 0 and headers >= 65535:
            cause = "count_wrap"
        elif known >= 0 and last == 0 and n != headers and cause == "none":
            cause = "zero_dim" if snaps_deg else "count_mismatch"
    if res["model_overflow"]:
        cause = "copy_overflow"
    if res["model_trap"]:
        cause = "trap_div0"
    res["model_cause"] = cause
    # a cursor with width or height 0 was installed at some point of the session (F26)
    cursor_deg = False
    for l in impl_lines:
        if l.startswith("snap "):
            m = re.search(r" cur=(-?\d+),(-?\d+),(-?\d+),(-?\d+),", l)
            if m and (int(m.group(3)) <= 0 or int(m.group(4)) <= 0):
                cursor_deg = True
    for (_, f) in res["oracle"]:
        f["model_cause"] = cause
        f["degenerate_cursor"] = cursor_deg
    return res


def run_batch(ctx, cexe, mexe, cases, stats, per_process=False):
    """-> list of (case, impl_lines, model_lines, analysis)"""
    out = []
    groups = [[c] for c in cases] if per_process else [cases]
    for g in groups:
        rc, cout, cerr = run_impl(cexe, g)
        cc = vlib.split_cases(cout)
        mcases = []
        for idx, c in enumerate(g):
            il = cc[idx][1] if idx < len(cc) else []
            M, scr = model_script(c, split_ops(c, il))
            mcases.append(M)
        rc2, mout, merr = run_model(mexe, mcases)
        mc = vlib.split_cases(mout)
        for idx, c in enumerate(g):
            il = cc[idx][1] if idx < len(cc) else []
            ml = mc[idx][1] if idx < len(mc) else []
            crashed = rc != 0 and idx == len(cc) - 1
            not_run = rc != 0 and idx > len(cc) - 1
            if not_run:
                out.append((c, None, None, None))
                continue
            a = analyse_case(c, il, ml, crashed, cerr[-3000:] if crashed else "")
            if rc2 != 0 and idx >= len(mc) - 1:
                a["corr"].append("model driver failed: rc=%d %s" % (rc2, merr[-300:]))
            out.append((c, il, ml, a))
    return out


def run_all(ctx, cexe, mexe, cases, stats):
    """run a big batch; cases after a crash are re-run in fresh processes"""
    results = run_batch(ctx, cexe, mexe, cases, stats)
    todo = [c for (c, il, ml, a) in results if a is None]
    results = [r for r in results if r[3] is not None]
    guard = 0
    while todo and guard < 50:
        guard += 1
        more = run_batch(ctx, cexe, mexe, todo, stats)
        todo = [c for (c, il, ml, a) in more if a is None]
        results += [r for r in more if r[3] is not None]
    return results


def replay_text(case, il, ml, a):
    def clip(lines):
        return "\n".join(l if len(l) < 600 else l[:600] + "...[%d chars]" % len(l) for l in (lines or []))
    return ("script:\n" + "\n".join(case) + "\n\nimplementation output (long lines clipped):\n" + clip(il) +
            "\n\nmodel output:\n" + clip(ml) + "\n\noracle: %s\ncorrespondence: %s\n" % (a["oracle"], a["corr"]))


def shrink_case(ctx, cexe, mexe, case, pred):
    head = case[:3]
    body = vlib.ddmin(case[3:], lambda sub: pred(head + sub), max_tests=60)
    return head + body


def build_model():
    """the Extraction command writes to /verif/build/ocaml/C03 (path fixed in Extract_C03.v); with a
    scratch VERIF_BUILD the files are copied over (framework limitation, worked around locally)"""
    import shutil
    src = os.path.join(vlib.VERIF, "build", "ocaml", PID)
    dst = os.path.join(vlib.BUILD, "ocaml", PID)
    if os.path.abspath(src) != os.path.abspath(dst):
        os.makedirs(dst, exist_ok=True)
        for fn in ("model.ml", "model.mli"):
            if os.path.exists(os.path.join(src, fn)):
                shutil.copy(os.path.join(src, fn), os.path.join(dst, fn))
    return vlib.build_ocaml(PID, "driver_C03.ml", "Extract/Extract_C03.vo")


def check(ctx):
    cexe = vlib.build_harness("vdrv_wire", ["vdrv_wire.c"])
    proof_ok = vlib.prove(ctx, PROP_FILE, ["Extract/Extract_C03.vo"])
    mexe = build_model()
    cases = gen_cases(ctx)
    stats = {}
    heavy = [c for c in cases if " heavy" in c[0]] + heavy_cases(ctx, len(cases))
    cases = [c for c in cases if " heavy" not in c[0]]
    results = run_batch(ctx, cexe, mexe, heavy, stats, per_process=True)       # corpus witnesses first
    results += run_all(ctx, cexe, mexe, cases, stats)
    report(ctx, cexe, mexe, results, proof_ok)


def report(ctx, cexe, mexe, results, proof_ok, shrink=True):
    hist, classes = {}, set()
    nmsgs = nupd = nbytes = 0
    oracle_fail, corr_fail = [], []
    spins = closed_mid = 0
    for (c, il, ml, a) in results:
        kind = c[0].split()[2] if len(c[0].split()) > 2 else "?"
        hist[kind] = hist.get(kind, 0) + 1
        classes |= a["classes"]
        nmsgs += a["msgs"]
        nupd += a["updates"]
        nbytes += a["bytes"]
        spins += 1 if a["spin"] else 0
        closed_mid += 1 if a.get("closed_midmessage") else 0
        if a["oracle"]:
            oracle_fail.append((c, il, ml, a))
        elif a["corr"]:
            corr_fail.append((c, il, ml, a))
    nontrivial = set(k for k in classes if k[0] == "fbu" and k[3] >= 1)
    ctx.coverage.update(
        evaluations=nmsgs, distinct_nontrivial=len(nontrivial),
        rule="sessions against the real server over socketpairs; every server byte parsed by the extracted Coq parser "
             "and by the Python spec oracle; every update's announced count and rectangle headers compared with the "
             "model's prediction; capability flags compared at every update. evaluations = server messages parsed; "
             "distinct_nontrivial = distinct (set of encodings in the update, client bpp, min(#rects,3), LastRect mode) "
             "among updates with >= 1 rectangle",
        samples=[results[i][0] for i in (0, len(results) // 2, len(results) - 1)] if results else [],
        input_distribution=hist, cases=len(results), updates=nupd, server_bytes_parsed=nbytes,
        oracle_failures=len(oracle_fail), correspondence_mismatches=len(corr_fail), spinning_sessions=spins, sessions_closed_by_server_mid_message=closed_mid,
        exhaustive=False)
    ctx.assumptions += ["C int arithmetic does not overflow (w*h < 2^31) in the counting code",
                        "payload interiors of zlib/LZO/JPEG/PNG streams are only length-checked (C01 looks inside)",
                        "scaled clients: parsed and checked by the oracle, headers not predicted by the model"]
    seen = set()
    for (c, il, ml, a) in oracle_fail:
        msg, feat = a["oracle"][0]
        key = (feat.get("kind"), feat.get("case"), feat.get("enc"), feat.get("degenerate_region"), feat.get("signal"))
        if key in seen:
            continue
        seen.add(key)
        feat["model_predicts_it"] = a.get("model_cause", "none") != "none"
        ctx.violation("server output violates C03: " + msg, feat, replay_text(c, il, ml, a))
    if corr_fail and not ctx.violations:
        c, il, ml, a = corr_fail[0]
        if shrink:
            def pred(lines):
                r = run_batch(ctx, cexe, mexe, [lines], {})
                return bool(r and r[0][3] and (r[0][3]["corr"] and not r[0][3]["oracle"]))
            try:
                small = shrink_case(ctx, cexe, mexe, c, pred)
                r = run_batch(ctx, cexe, mexe, [small], {})
                if r and r[0][3] and r[0][3]["corr"]:
                    c, il, ml, a = r[0]
            except Exception:
                pass
        ctx.violation("correspondence Wire/*.v <-> rfbserver.c no longer holds (%d sessions differ): %s; the C03 "
                      "predicate held on every byte the server wrote" % (len(corr_fail), a["corr"][0][:300]),
                      {"kind": "correspondence"}, replay_text(c, il, ml, a), no_input=True)
    if not proof_ok and not ctx.violations:
        vlib.report_proof_failure(ctx, "Correspondence and the spec oracle were run on %d server messages "
                                  "(%d updates) without exhibiting a failing input." % (nmsgs, nupd))


def replay(ctx, path):
    txt = open(path).read()
    if "script:\n" not in txt:
        print("replay names a theorem/correspondence, re-running the full check")
        return check(ctx)
    body = txt.split("script:\n", 1)[1].split("\n\n", 1)[0]
    lines = [l for l in body.split("\n") if l.strip()]
    cexe = vlib.build_harness("vdrv_wire", ["vdrv_wire.c"])
    proof_ok = vlib.prove(ctx, PROP_FILE, ["Extract/Extract_C03.vo"])
    mexe = build_model()
    results = run_batch(ctx, cexe, mexe, [lines], {}, per_process=True)
    for (c, il, ml, a) in results:
        print(replay_text(c, il, ml, a)[:6000])
    report(ctx, cexe, mexe, results, True, shrink=False)
    ctx.coverage["rule"] = "replay"
