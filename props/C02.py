"""C02 - Clients converge to the framebuffer: no lost, stale or spurious updates.

Proof: coq/Props/Properties_C02.v - theorems over the mirror model coq/Update/UpdateDefs.v (built
on the region mirror Region/RegionDefs.v), for every operation list, any number of clients, any
screen size, any offsets.
Tie: (a) constants (default cursor box, default maxRectsPerUpdate / progressiveSliceHeight,
encoding numbers) are re-read from /repo on every run (Gen/Consts_C02.v); (b) correspondence:
the extracted model and the real library (one rfbScreenInfo, 1-3 socketpair clients) run the same
scripts; after every operation the exact M / C / (dx,dy) / R rectangles of every client, all
flags, the exact rectangle headers + CopyRect sources on the wire, a hash of every peer's decoded
picture and of the framebuffer are compared.
Independently of the mirror model the property predicates are evaluated on the implementation's
own output (spec oracle): the convergence invariant (computed inside the harness from the real
regions, the real framebuffer and the peer's decoded picture), CopyRect order safety,
non-incremental completeness, silence when idle, delivery of the requested area.
"""
import os, re, subprocess, sys, time
from concurrent.futures import ThreadPoolExecutor
import vlib

PID = "C02"
PROP_FILE = "Props/Properties_C02.v"
EXTRACT = "Extract/Extract_C02.vo"
DRIVER = "driver_C02.ml"
OCAML_ID = "C02"
HARNESS_WRAPS = ("gettimeofday",)      # virtual clock for the update deferral timer


# ---------------------------------------------------------------- generators
SIZES = [(1, 1), (2, 1), (1, 3), (2, 2), (4, 3), (8, 6), (8, 6), (9, 7), (12, 8), (16, 12), (16, 12), (20, 10),
         (33, 5), (5, 30), (40, 30)]


def rnd_size(rng, quick):
    r = rng.random()
    if r < 0.80:
        return rng.choice(SIZES[:-1])
    if r < 0.92:
        return (rng.randint(1, 24), rng.randint(1, 16))
    return rng.choice([(40, 30), (rng.randint(25, 40), rng.randint(17, 30))])


def rnd_rect_in(rng, W, H):
    """non-empty rectangle inside the screen"""
    x1 = rng.randint(0, W - 1); x2 = rng.randint(x1 + 1, W)
    y1 = rng.randint(0, H - 1); y2 = rng.randint(y1 + 1, H)
    return (x1, y1, x2, y2)


def mark_clips_to_inverted(W, H, a):
    x1, y1, x2, y2 = a
    if x1 > x2: x1, x2 = x2, x1
    x1 = max(x1, 0); x2 = min(x2, W)
    if x1 == x2: return False
    if y1 > y2: y1, y2 = y2, y1
    y1 = max(y1, 0); y2 = min(y2, H)
    if y1 == y2: return False
    return x1 > x2 or y1 > y2


def rnd_mark_args(rng, W, H, allow_outside=True):
    """draw/mark arguments incl. inverted, partly and wholly out-of-range rectangles (the latter were
    F21 before fix d179288: inverted rectangles in every modifiedRegion; now they must be ignored)"""
    for _ in range(20):
        a = rnd_mark_args0(rng, W, H)
        if allow_outside or not mark_clips_to_inverted(W, H, a):
            return a
    return (0, 0, W, H)


def rnd_mark_args0(rng, W, H):
    r = rng.random()
    if r < 0.70:
        return rnd_rect_in(rng, W, H)
    if r < 0.80:                       # inverted
        x1, y1, x2, y2 = rnd_rect_in(rng, W, H)
        return rng.choice([(x2, y1, x1, y2), (x1, y2, x2, y1), (x2, y2, x1, y1)])
    if r < 0.93:                       # partly / wholly out of range, boundary values
        c = lambda m: rng.choice([-5, -1, 0, 1, m - 1, m, m + 1, m + 7, rng.randint(-3, m + 3)])
        return (c(W), c(H), c(W), c(H))
    return (0, 0, W, H)


def rnd_copy(rng, W, H, nrect):
    """rectangles and an offset such that destination and source stay inside the screen;
    offsets in all 8 directions, overlapping and not"""
    for _ in range(50):
        rects = [rnd_rect_in(rng, W, H) for _ in range(nrect)]
        bx1 = min(r[0] for r in rects); by1 = min(r[1] for r in rects)
        bx2 = max(r[2] for r in rects); by2 = max(r[3] for r in rects)
        lo_dx, hi_dx = bx2 - W, bx1          # 0 <= x1-dx, x2-dx <= W
        lo_dy, hi_dy = by2 - H, by1
        dx = rng.randint(lo_dx, hi_dx) if lo_dx <= hi_dx else None
        dy = rng.randint(lo_dy, hi_dy) if lo_dy <= hi_dy else None
        if dx is None or dy is None:
            continue
        if rng.random() < 0.3:
            dx = max(lo_dx, min(hi_dx, rng.choice([-2, -1, 0, 1, 2])))
        if rng.random() < 0.3:
            dy = max(lo_dy, min(hi_dy, rng.choice([-2, -1, 0, 1, 2])))
        if dx == 0 and dy == 0 and rng.random() < 0.8:
            continue
        return rects, dx, dy
    return [(0, 0, 1, 1)], 0, 0


def rnd_bands(rng, W, H):
    """multi-band region (the F9 shape): 2-3 bands with different x extents"""
    if H < 3 or W < 2:
        return None
    n = 2 if H < 6 else rng.choice([2, 2, 3])
    ys = sorted(rng.sample(range(0, H + 1), min(n + 1, H + 1)))
    rects = []
    for i in range(len(ys) - 1):
        x1 = rng.randint(0, W - 1); x2 = rng.randint(x1 + 1, W)
        rects.append((x1, ys[i], x2, ys[i + 1]))
    return rects


def fmt_rects(rects):
    return "%d %s" % (len(rects), " ".join("%d %d %d %d" % r for r in rects))


def rnd_req(rng, W, H, c, malformed):
    incr = 1 if rng.random() < 0.7 else 0
    r = rng.random()
    if r < 0.45:
        return "req %d %d 0 0 %d %d" % (c, incr, W, H)
    if r < 0.85:
        x1, y1, x2, y2 = rnd_rect_in(rng, W, H)
        return "req %d %d %d %d %d %d" % (c, incr, x1, y1, x2 - x1, y2 - y1)
    if r < 0.95 or not malformed:      # extends beyond the screen: clipped by the server
        x = rng.randint(0, W - 1); y = rng.randint(0, H - 1)
        return "req %d %d %d %d %d %d" % (c, incr, x, y, rng.choice([W, W + 1, 65535, W - x + 1]),
                                          rng.choice([H, H + 9, 65535, H - y + 1]))
    # malformed stream: empty or wholly outside
    return "req %d %d %d %d %d %d" % (c, incr, rng.choice([0, W, W + 1, 65535]), rng.choice([0, H, H + 1]),
                                      rng.choice([0, 1, W]), rng.choice([0, 1, H]))


KINDS = [("shape", 0.50), ("nullcur", 0.14), ("softcur", 0.10), ("f9", 0.05), ("f18", 0.02), ("malformed", 0.07),
         ("enc", 0.12)]

# pixel encodings a LibVNCClient peer asks for in the "enc" cases (0 = Raw); lossless ones only.
# LibVNCClient inflates Zlib (6) and ZRLE (16) rectangles with ONE shared stream (client->decompStream), so a
# viewer that switches between them mid-session cannot decode any more (a limitation of the client library,
# not of the server: noted in notes/C02.md).  Each generated client therefore sticks to one of 6 / 8 / 16 and
# switches freely between that one and the other encodings.
ZFAMILY = [16, 16, 16, 6, 8]
ENCODINGS = [5, 2, 4, 7, 7, 9, 15, 0]


def enc_pool(rng, bpp):
    """a small colour pool for few-colour pictures (palette encoders).  Pairs that differ only in bits
    12..16 have the same low 12 bits and the same bits above 16, i.e. they collide in every hash that
    folds a pixel to 12 bits (ZRLE's palette helper: (pix ^ pix >> 17) & 4095)."""
    if bpp == 1:
        return [rng.randrange(256) for _ in range(6)]
    top = 24 if bpp == 4 else 16
    pool = []
    for _ in range(3):
        c = rng.randrange(1 << top)
        if bpp == 4:
            d = c ^ (1 << rng.choice([12, 12, 13, 14, 15, 16]))
        else:
            d = c ^ (rng.choice([1, 2, 3, 5, 8, 15]) << 12)
        pool += [c, d]
    if bpp == 4 and rng.random() < 0.3:
        pool[0:2] = [0x336699, 0x337699]
    return pool + [rng.randrange(1 << top) for _ in range(2)]


def rnd_drawpal(rng, W, H, pool):
    """few colours of the pool, in a random order, a colliding pair kept adjacent most of the time"""
    k = rng.choice([1, 2, 2, 3, 3, 4, 5])
    if len(pool) >= 6 and rng.random() < 0.7:
        i = 2 * rng.randrange(3)
        pair = [pool[i], pool[i + 1]]
        if rng.random() < 0.3:
            pair.reverse()
        rest = [c for c in pool if c not in pair]
        rng.shuffle(rest)
        pos = rng.randint(0, max(0, k - 2))
        cols = rest[:pos] + pair + rest[pos:max(pos, k - 2)]
    else:
        cols = list(pool); rng.shuffle(cols); cols = cols[:k]
    rc = (0, 0, W, H) if rng.random() < 0.45 else rnd_rect_in(rng, W, H)
    return "drawpal %d %d %d %d %d %d %s" % (rc + (rng.randint(0, 40), len(cols), " ".join(str(c) for c in cols)))


def gen_enc_case(rng, k, quick, newfb=False, kind="enc"):
    """clients that decode with the real client library and ask for a non-Raw pixel encoding; few-colour
    pictures repainted many times on one connection (per-connection encoder state: zlib streams, palette
    hash tables), random pictures, copies, encoding switches.  newfb: also framebuffer replacements
    (other size / depth / bits per sample) in between (C16)."""
    r = rng.random()
    W, H = rnd_size(rng, quick) if r < 0.7 else rng.choice([(70, 9), (17, 66), (40, 30), (64, 16), (65, 17)])
    bpp = rng.choice([1, 2, 4, 4, 4])
    bits = {1: 8, 2: 5, 4: 8}[bpp]
    ncl = rng.choice([1, 1, 2])
    L = ["case %d %d %d %d %s" % (k, W, H, bpp, kind)]
    nullcur = rng.random() < 0.5
    if nullcur:
        L.append("setcursor 0")
    pool = enc_pool(rng, bpp)
    mode = {}
    zenc = {}

    def setenc(c, first):
        copy = 0 if nullcur else (1 if rng.random() < 0.5 else 0)
        if first:
            mode[c] = rng.choice(["newfb", "newfb", "ext", "none"]) if newfb else "none"
            zenc[c] = rng.choice(ZFAMILY)
        enc = zenc[c] if rng.random() < 0.45 else rng.choice(ENCODINGS)
        return "setenc %d %d %d %d %d %d" % (c, copy, 0 if nullcur else 1, 1 if mode[c] == "newfb" else 0,
                                             1 if mode[c] == "ext" else 0, enc)
    for c in range(ncl):
        L.append("addclient")
        L.append(setenc(c, True))
        L.append("req %d 0 0 0 %d %d" % (c, W, H))
        L.append("tick %d" % c)
    for _ in range(rng.choice([8, 14, 20, 30])):
        r = rng.random(); c = rng.randrange(ncl)
        if r < 0.40:
            L.append(rnd_drawpal(rng, W, H, pool))
            if rng.random() < 0.7:
                for q in range(ncl):
                    L.append("req %d %d 0 0 %d %d" % (q, rng.choice([0, 1, 1]), W, H))
                    L.append("tick %d" % q)
        elif r < 0.48:
            L.append("draw %d %d %d %d %d" % (rnd_mark_args(rng, W, H) + (rng.randint(0, 999),)))
        elif r < 0.52:
            L.append("mark %d %d %d %d" % rnd_mark_args(rng, W, H))
        elif r < 0.58:
            (rc,), dx, dy = rnd_copy(rng, W, H, 1)
            L.append("docopyrect %d %d %d %d %d %d" % (rc + (dx, dy)))
        elif r < 0.72:
            L.append(rnd_req(rng, W, H, c, False))
        elif r < 0.90:
            L.append("tick %d" % c)
        elif r < 0.94:
            L.append(setenc(c, False))
        elif r < 0.96:
            L.append("knobs %d %d" % (rng.choice([0, 1, 2, 50]), rng.choice([0, 0, 0, 3, 8])))
        elif newfb or r < 0.97:
            if newfb:
                nw, nh = rng.choice([(W, H), (W, H), rnd_size(rng, quick), (max(1, W - 3), max(1, H - 2))])
                nb, nbits = rnd_format(rng, bpp, bits)
                L.append(newfb_op(nw, nh, nb, rng.randint(0, 999), nbits))
                if (nb, nbits) != (bpp, bits):
                    pool = enc_pool(rng, nb)
                W, H, bpp, bits = nw, nh, nb, nbits
            else:
                L.append("tick %d" % c)
        else:
            L.append("tick %d" % c)
    L.append("knobs 50 0")
    for c in range(ncl):
        for _ in range(3 if newfb else 2):
            L.append("req %d 1 0 0 %d %d" % (c, W, H))
            L.append("tick %d" % c)
    return L


STD_BITS = {1: 8, 2: 5, 4: 8}


def rnd_format(rng, bpp, bits):
    """the format of a replacement framebuffer: the same, another depth, or the SAME depth with other bits per
    sample (16 bpp 5 <-> 4 bits, 32 bpp 8 <-> 10 bits ...: other maxima and shifts, same pixel size)"""
    r = rng.random()
    if r < 0.45:
        return bpp, bits
    if r < 0.70 and bpp != 1:
        alt = [b for b in ([3, 4, 4, 5, 5] if bpp == 2 else [5, 8, 8, 10, 10, 6]) if b != bits]
        return bpp, rng.choice(alt)
    nb = rng.choice([1, 2, 4])
    nbits = STD_BITS[nb]
    if nb != 1 and rng.random() < 0.25:
        nbits = rng.choice([4, 5] if nb == 2 else [8, 10, 5])
    return nb, nbits


def newfb_op(w, h, bpp, seed, bits):
    if bits == STD_BITS[bpp]:
        return "newfb %d %d %d %d" % (w, h, bpp, seed)
    return "newfb %d %d %d %d %d" % (w, h, bpp, seed, bits)


def pick_kind(rng):
    r = rng.random(); acc = 0
    for k, p in KINDS:
        acc += p
        if r < acc:
            return k
    return "shape"


def gen_case(rng, k, quick, kind=None, nops=None):
    kind = kind or pick_kind(rng)
    if kind == "enc":
        return gen_enc_case(rng, k, quick)
    W, H = rnd_size(rng, quick)
    if kind == "f9" and (H < 3 or W < 2):
        W, H = 8, 6
    bpp = rng.choice([1, 2, 4, 4])
    ncl = rng.choice([1, 1, 2, 2, 3])
    L = ["case %d %d %d %d %s" % (k, W, H, bpp, kind)]
    shape_of = {}
    if kind in ("nullcur", "f18"):
        L.append("setcursor 0")
    for c in range(ncl):
        L.append("addclient")
    late_client = ncl < 3 and rng.random() < 0.15

    def setenc(c):
        copy = 1 if rng.random() < 0.75 else 0
        if kind in ("shape", "f9", "malformed"):
            shape = 1
        elif kind == "nullcur":
            shape = rng.choice([0, 1]); copy = copy if shape else 0    # F18 needs copyrect without shape
        elif kind == "f18":
            shape = 0; copy = 1
        else:
            shape = rng.choice([0, 0, 1])
        shape_of[c] = shape
        return "setenc %d %d %d 0 0" % (c, copy, shape)

    for c in range(ncl):
        if rng.random() < 0.95 or kind in ("shape", "f9", "malformed", "f18"):
            L.append(setenc(c))
        if rng.random() < 0.8:
            L.append("req %d 0 0 0 %d %d" % (c, W, H))
            L.append("tick %d" % c)
    n = nops if nops is not None else rng.choice([6, 12, 20, 30, 40])
    # a third of the cases play with the deferral timer (virtual clock) and SetPixelFormat
    timed = kind in ("shape", "nullcur") and rng.random() < 0.35
    now = [1000, 0]
    if timed:
        L.append("defer %d" % rng.choice([1, 5, 40, 40, 1000]))
    for _ in range(n):
        r = rng.random()
        c = rng.randrange(ncl)
        if timed and rng.random() < 0.25:
            q = rng.random()
            if q < 0.75:        # time passes: boundary values around deferUpdateTime
                ms = rng.choice([0, 1, 4, 5, 6, 39, 40, 41, 999, 1000, 1001, 2500])
                us = now[0] * 1000000 + now[1] + ms * 1000 + rng.choice([0, 0, 1, 999])
                now = [us // 1000000, us % 1000000]
            elif q < 0.85:      # the clock jumps back ("at midnight")
                now = [max(0, now[0] - rng.choice([1, 2, 500])), rng.choice([0, 1, 500000])]
            elif q < 0.93:
                now = [now[0] + 1, 0]
            else:
                L.append("defer %d" % rng.choice([0, 0, 5, 40]))
            L.append("time %d %d" % tuple(now))
        if r < 0.24:
            L.append("draw %d %d %d %d %d" % (rnd_mark_args(rng, W, H) + (rng.randint(0, 999),)))
        elif r < 0.28:
            L.append("mark %d %d %d %d" % rnd_mark_args(rng, W, H))
        elif r < 0.36:
            (rc,), dx, dy = rnd_copy(rng, W, H, 1)
            L.append("docopyrect %d %d %d %d %d %d" % (rc + (dx, dy)))
        elif r < 0.43:
            rects, dx, dy = rnd_copy(rng, W, H, rng.choice([1, 1, 2, 3]))
            L.append("schedcopy %d %d %s" % (dx, dy, fmt_rects(rects)))
        elif r < 0.48:
            if kind == "f9":
                rects = rnd_bands(rng, W, H) if rng.random() < 0.7 else None
                if rects is None:
                    rects, dx, dy = rnd_copy(rng, W, H, rng.choice([2, 3]))
                else:
                    bx1 = min(q[0] for q in rects); bx2 = max(q[2] for q in rects)
                    by1 = min(q[1] for q in rects); by2 = max(q[3] for q in rects)
                    dx = rng.randint(bx2 - W, bx1); dy = rng.randint(by2 - H, by1)
            else:
                rects, dx, dy = rnd_copy(rng, W, H, 1)
            L.append("docopyrgn %d %d %s" % (dx, dy, fmt_rects(rects)))
        elif r < 0.68:
            L.append(rnd_req(rng, W, H, c, kind == "malformed"))
        elif r < 0.88:
            L.append("tick %d" % c)
        elif r < 0.90:
            L.append("send %d" % c)
        elif r < 0.93:
            L.append(setenc(c))
        elif r < 0.95:
            L.append("knobs %d %d" % (rng.choice([0, 1, 2, 3, 50]), rng.choice([0, 0, 1, 2, 3, 8])))
        elif r < 0.96 and timed:
            L.append("setpf %d %d" % (c, rng.choice([1, 2, 4])))
        elif r < 0.98 and kind in ("softcur", "nullcur"):
            if kind == "softcur":
                L.append("setcursor 1 %d %d %d %d" % (rng.randint(0, 3), rng.randint(0, 3), rng.randint(1, 9), rng.randint(1, 9)))
            else:
                L.append("setcursor 0")
        elif late_client and ncl < 3:
            L.append("addclient")
            L.append(setenc(ncl))
            ncl += 1
        else:
            L.append("tick %d" % c)
    # let every client catch up, so that the idle comparison is reached
    if timed:
        L.append("defer 0")
    for c in range(ncl):
        L.append("req %d 1 0 0 %d %d" % (c, W, H))
        L.append("tick %d" % c)
        L.append("req %d 1 0 0 %d %d" % (c, W, H))
        L.append("tick %d" % c)
    return L


def boundary_cases(k0):
    """hand-written catalogue aimed at the case splits of the proofs"""
    C = []
    def add(name, W, H, bpp, body):
        C.append(["case %d %d %d %d %s" % (k0 + len(C), W, H, bpp, name)] + body)
    pre = ["addclient", "setenc 0 1 1 0 0", "req 0 0 0 0 12 8", "tick 0"]
    # pending copy, second copy with the same offset / another offset, modification in the source
    add("shape", 12, 8, 4, pre + ["draw 0 0 12 8 3", "req 0 1 0 0 12 8", "tick 0",
        "docopyrect 4 2 8 5 2 1", "docopyrect 5 3 9 6 2 1", "req 0 1 0 0 12 8", "tick 0", "tick 0"])
    add("shape", 12, 8, 4, pre + ["draw 0 0 12 8 4", "req 0 1 0 0 12 8", "tick 0",
        "docopyrect 4 2 8 5 2 1", "docopyrect 5 3 9 6 -3 0", "req 0 1 0 0 12 8", "tick 0", "tick 0"])
    add("shape", 12, 8, 2, pre + ["draw 0 0 12 8 5", "req 0 1 0 0 12 8", "tick 0",
        "docopyrect 6 2 10 6 4 0", "draw 2 2 5 5 9", "req 0 1 0 0 12 8", "tick 0", "tick 0"])
    # copy whose source is outside the requested area
    add("shape", 12, 8, 1, pre + ["draw 0 0 12 8 6", "req 0 1 0 0 12 8", "tick 0",
        "docopyrect 6 0 12 8 6 0", "req 0 1 6 0 6 8", "tick 0", "req 0 1 0 0 12 8", "tick 0"])
    # all 8 directions, overlapping
    for (dx, dy) in [(1, 0), (-1, 0), (0, 1), (0, -1), (1, 1), (-1, -1), (1, -1), (-1, 1)]:
        add("shape", 12, 8, 4, pre + ["draw 0 0 12 8 7", "req 0 1 0 0 12 8", "tick 0",
            "docopyrect 3 2 9 6 %d %d" % (dx, dy), "req 0 1 0 0 12 8", "tick 0"])
        add("shape", 12, 8, 4, pre + ["draw 0 0 12 8 8", "req 0 1 0 0 12 8", "tick 0",
            "schedcopy %d %d 2 2 1 6 4 5 3 10 7" % (dx, dy), "req 0 1 0 0 12 8", "tick 0"])
    # coalescing and slicing
    add("shape", 12, 8, 4, pre + ["knobs 1 0", "draw 0 0 2 2 1", "draw 5 5 7 7 2", "draw 10 0 12 1 3",
        "req 0 1 0 0 12 8", "tick 0", "tick 0"])
    add("shape", 12, 8, 4, pre + ["knobs 50 3", "draw 0 0 12 8 1", "req 0 1 0 0 12 8", "tick 0",
        "req 0 1 0 0 12 8", "tick 0", "req 0 1 0 0 12 8", "tick 0", "req 0 1 0 0 12 8", "tick 0"])
    # SetEncodings drops CopyRect while a copy is pending
    add("shape", 12, 8, 4, pre + ["docopyrect 4 2 8 5 2 1", "setenc 0 0 1 0 0", "req 0 1 0 0 12 8", "tick 0"])
    # two clients, one without CopyRect
    add("shape", 12, 8, 4, ["addclient", "addclient", "setenc 0 1 1 0 0", "setenc 1 0 1 0 0",
        "req 0 0 0 0 12 8", "req 1 0 0 0 12 8", "tick 0", "tick 1", "draw 1 1 6 6 2", "docopyrect 4 2 8 5 2 1",
        "req 0 1 0 0 12 8", "req 1 1 0 0 12 8", "tick 1", "tick 0"])
    # idle incremental request
    add("shape", 12, 8, 4, pre + ["req 0 1 0 0 12 8", "tick 0", "send 0", "tick 0"])
    # deferral timer: first tick starts it, not yet / just / well expired, clock running backwards
    add("shape", 12, 8, 4, pre + ["defer 40", "draw 1 1 5 5 3", "req 0 1 0 0 12 8", "tick 0", "time 1000 30000", "tick 0",
        "time 1000 40001", "tick 0", "time 1000 41001", "tick 0", "draw 1 1 5 5 4", "req 0 1 0 0 12 8", "tick 0",
        "time 999 0", "tick 0", "draw 2 2 3 3 5", "req 0 1 0 0 12 8", "tick 0", "time 1005 0", "send 0",
        "draw 2 2 3 3 6", "req 0 1 0 0 12 8", "tick 0", "tick 0", "defer 0", "tick 0"])
    add("shape", 12, 8, 4, pre + ["defer 5", "time 2000 0", "draw 1 1 5 5 3", "req 0 1 0 0 12 8", "tick 0",
        "time 2000 5999", "tick 0", "time 2000 6000", "tick 0", "time 2000 6001", "tick 0", "time 2000 7000", "tick 0"])
    # SetPixelFormat mid-session, all depth pairs
    for (sb, cb) in [(4, 2), (4, 1), (2, 4), (2, 1), (1, 4), (1, 2), (4, 4)]:
        add("shape", 12, 8, sb, pre + ["draw 0 0 12 8 3", "req 0 1 0 0 12 8", "tick 0", "setpf 0 %d" % cb, "tick 0",
            "draw 2 2 9 7 4", "docopyrect 4 2 8 5 2 1", "req 0 1 0 0 12 8", "tick 0", "setpf 0 %d" % sb, "tick 0", "tick 0"])
    # F9 (fixed 737e111): two-band region moved down
    add("f9", 12, 12, 4, ["addclient", "setenc 0 1 1 0 0", "req 0 0 0 0 12 12", "tick 0", "draw 0 0 12 12 1",
        "req 0 1 0 0 12 12", "tick 0", "docopyrgn 0 5 2 0 5 6 8 2 8 10 12", "req 0 1 0 0 12 12", "tick 0"])
    # F21 (fixed d179288): mark wholly outside the screen
    add("malformed", 12, 8, 4, pre + ["mark 15 1 20 5", "req 0 1 0 0 12 8", "tick 0", "mark -9 1 -3 5", "tick 0"])
    # peers decoding ZRLE / Tight / Hextile with the client library: two colours that collide in a 12-bit hash
    # (0x336699 / 0x337699), repainted with the palette position of the second one changing between updates
    for enc in (16, 7, 5, 15, 6):
        for (bpp, A, B, X) in ((4, 0x336699, 0x337699, 0x10ff20), (2, 0x0699, 0x7699, 0x1234)):
            add("enc", 20, 12, bpp, ["setcursor 0", "addclient", "setenc 0 0 0 0 0 %d" % enc,
                "drawpal 0 0 20 12 0 2 %d %d" % (A, B), "req 0 0 0 0 20 12", "tick 0",
                "drawpal 0 0 20 12 0 3 %d %d %d" % (X, A, B), "req 0 1 0 0 20 12", "tick 0",
                "drawpal 3 2 17 9 1 4 %d %d %d %d" % (A, X, 7, B), "req 0 1 0 0 20 12", "tick 0",
                "drawpal 0 0 20 12 2 2 %d %d" % (B, A), "req 0 0 0 0 20 12", "tick 0",
                "drawpal 0 0 20 12 0 3 %d %d %d" % (A, B, X), "req 0 1 0 0 20 12", "tick 0", "tick 0"])
    # F18 (fixed 812461a): NULL cursor, client without cursor-shape support, copy
    add("f18", 8, 6, 4, ["setcursor 0", "addclient", "setenc 0 1 0 0 0", "docopyrect 4 2 7 4 3 1"])
    return C


def load_corpus(pid, k0):
    cases = []
    cdir = os.path.join(vlib.VERIF, "corpus", pid)
    if os.path.isdir(cdir):
        for fn in sorted(os.listdir(cdir)):
            lines = [l for l in open(os.path.join(cdir, fn)).read().split("\n") if l.strip() and not l.startswith("#")]
            if not lines:
                continue
            if lines[0].startswith("case "):
                p = lines[0].split()
                p[1] = str(k0 + len(cases))
                lines[0] = " ".join(p)
                cases.append(lines)
    return cases


def gen_cases(ctx):
    rng = ctx.rng
    cases = load_corpus(PID, 0)
    cases += boundary_cases(len(cases))
    n = 3000 if ctx.quick() else 60000
    for _ in range(n):
        cases.append(gen_case(rng, len(cases), ctx.quick()))
    return cases


# ---------------------------------------------------------------- running the two drivers
def case_kind(c):
    p = c[0].split()
    return p[5] if len(p) > 5 else "?"


def run_impl_chunk(cexe, cases, timeout=1500):
    """run the implementation driver on a list of cases; a crash ends one case only (the remaining
    cases are re-run).  returns list of (lines, crash_text or None) per case"""
    res = [None] * len(cases)
    start = 0
    while start < len(cases):
        script = "\n".join("\n".join(c) for c in cases[start:]) + "\n"
        rc, out, err = vlib.run_driver(cexe, script, timeout=timeout)
        got = vlib.split_cases(out)
        for i, (hdr, lines) in enumerate(got):
            res[start + i] = (lines, None)
        if rc == 0 and len(got) == len(cases) - start:
            break
        # abnormal end: the last case seen is the one that crashed
        bad = start + max(len(got) - 1, 0)
        lines = got[-1][1] if got else []
        tail = err[-3000:]
        m = re.search(r"(ERROR: AddressSanitizer[^\n]*)", err)
        summary = m.group(1) if m else ("exit code %d" % rc)
        # the access stack = the frames up to the first 'main'
        fr = re.findall(r"#\d+ 0x[0-9a-f]+ in (\S+) (\S+)", err)
        stack = []
        for f, w in fr:
            stack.append((f, w))
            if f == "main":
                break
        where = next((f for f, w in stack if "/src/" in w), "?")
        res[bad] = (lines, "%s where=%s frames=%s\n%s" % (summary, where, ",".join(f for f, _ in stack), tail))
        start = bad + 1
    for i in range(len(cases)):
        if res[i] is None:
            res[i] = ([], "not run")
    return res


def run_impl(cexe, cases, timeout=1500, chunk=300, par=6):
    """chunks of cases in parallel harness processes (a crash only restarts its own chunk)"""
    if len(cases) <= chunk:
        return run_impl_chunk(cexe, cases, timeout)
    parts = [cases[i:i + chunk] for i in range(0, len(cases), chunk)]
    out = []
    with ThreadPoolExecutor(max_workers=par) as ex:
        for r in ex.map(lambda p: run_impl_chunk(cexe, p, timeout), parts):
            out += r
    return out


def run_model(mexe, cases, par=8, timeout=3000):
    """the extracted model on the same scripts (in parallel chunks). returns list of line lists"""
    if not cases:
        return []
    par = max(1, min(par, len(cases) // 8 or 1))
    # balance chunks by cost (pixels x ops)
    cost = [(int(c[0].split()[2]) * int(c[0].split()[3]) + 30) * len(c) for c in cases]
    order = sorted(range(len(cases)), key=lambda i: -cost[i])
    chunks = [[] for _ in range(par)]
    load = [0] * par
    for i in order:
        j = load.index(min(load))
        chunks[j].append(i); load[j] += cost[i]
    def work(idx):
        idx = sorted(idx)
        script = "\n".join("\n".join(cases[i]) for i in idx) + "\n"
        rc, out, err = vlib.run_driver(mexe, script, timeout=timeout, unlimited_stack=True)
        got = vlib.split_cases(out)
        return idx, got, rc, err
    res = [[] for _ in cases]
    with ThreadPoolExecutor(max_workers=par) as ex:
        for idx, got, rc, err in ex.map(work, chunks):
            for j, i in enumerate(idx):
                res[i] = got[j][1] if j < len(got) else ["<model driver produced nothing: rc=%d %s>" % (rc, err[-200:])]
    return res


# ---------------------------------------------------------------- observation parsing
def parse_rects(s):
    return [tuple(int(t) for t in r.split(",")) for r in s.split(";")] if s else []


def segments(line):
    """'o op |<wires> | c0 .. | c1 .. | F=..' -> (op, wires text, [client texts], tail) or None for error lines"""
    if "|" not in line:
        return None
    i = line.index("|")
    head = line[:i].split()
    seg = line[i + 1:].split(" | ")
    if len(seg) < 2 or not seg[-1].startswith("F="):
        return None
    return (head[1] if len(head) > 1 else "?", seg[0], seg[1:-1], seg[-1])


def parse_obs(line):
    d = {"raw": line, "op": None, "wire": {}, "clients": [], "err": None}
    sg = segments(line)
    if sg is None:
        head = line.split()
        d["op"] = head[1] if len(head) > 1 else "?"
        d["err"] = line.split("|", 1)[1].strip() if "|" in line else "?"
        return d
    d["op"], wires, cls, tail = sg
    for w in wires.split():
        m = re.match(r"w(\d+):n=(\d+):\[(.*)\]$", w)
        if m:
            rects = []
            for r in m.group(3).split(";") if m.group(3) else []:
                bad = "!OUTSIDE" in r
                f = [x.replace("!OUTSIDE", "") for x in r.split(",")]
                ki = next((i for i, x in enumerate(f) if not re.match(r"^-?\d+$", x)), None)
                if ki is None:
                    rects.append(("?", [], True))
                    continue
                rects.append((f[ki][0], [int(x) for x in f[:ki]] + [int(x) for x in f[ki + 1:] if x], bad))
            d["wire"].setdefault(int(m.group(1)), []).append((int(m.group(2)), rects))
        elif re.match(r"w(\d+):resize=(\d+)x(\d+)$", w):
            m = re.match(r"w(\d+):resize=(\d+)x(\d+)$", w)
            d.setdefault("resize", {})[int(m.group(1))] = (int(m.group(2)), int(m.group(3)))
        else:
            d["bogus_wire"] = w
    for p in cls:
        p = " " + p
        c = {"closed": ("CLOSED" in p) or ("GONE" in p)}
        for key in ("M", "C", "R"):
            m = re.search(r" %s=\[([^\]]*)\]" % key, p)
            c[key] = parse_rects(m.group(1)) if m else []
        m = re.search(r" d=(-?\d+),(-?\d+)", p); c["d"] = (int(m.group(1)), int(m.group(2))) if m else (0, 0)
        m = re.search(r" f=(\d+)", p); c["f"] = m.group(1) if m else "0000000"
        m = re.search(r" I=(\d)", p); c["I"] = int(m.group(1)) if m else 1
        m = re.search(r" P=(\d+)", p); c["P"] = int(m.group(1)) if m else 0
        m = re.search(r" sz=(\d+)x(\d+)", p); c["sz"] = (int(m.group(1)), int(m.group(2))) if m else (0, 0)
        m = re.search(r" q=(-?\d+),(-?\d+)", p); c["q"] = (int(m.group(1)), int(m.group(2))) if m else (0, 0)
        m = re.search(r" sc=(\S+)", p); c["sc"] = None if (not m or m.group(1) == "-") else tuple(int(t) for t in m.group(1).split("x"))
        m = re.search(r" df=(-?\d+),(-?\d+)", p); c["df"] = (int(m.group(1)), int(m.group(2))) if m else (0, 0)
        d["clients"].append(c)
    m = re.search(r"F=(\d+) S=(\d+)x(\d+)x(\d+)", tail)
    if m:
        d["F"] = int(m.group(1)); d["S"] = (int(m.group(2)), int(m.group(3)), int(m.group(4)))
    m = re.search(r" T=(-?\d+) X=\[([^\]]*)\]", tail)
    if m:
        d["T"] = int(m.group(1))
        d["X"] = [tuple(int(t) for t in q.split("x")) for q in m.group(2).split(";")] if m.group(2) else []
    return d


def pixels(rects, W=None, H=None):
    s = set()
    for r in rects:
        x1, y1, x2, y2 = r[:4]
        for y in range(max(y1, 0), y2 if H is None else min(y2, H)):
            for x in range(max(x1, 0), x2 if W is None else min(x2, W)):
                s.add((x, y))
    return s


MASKC = re.compile(r" P=\d+ I=\d")


def taint_timeline(case, impl_lines):
    """clients whose picture may contain a painted soft cursor (C15's subject, not modelled): a client
    is tainted from the first update carrying pixel data that it receives while it has no
    cursor-shape support and the screen has a cursor.  -> list (per op) of sets of client indices"""
    out, tainted = [], set()
    nullcur = False
    shape = {}
    for i, opline in enumerate(case[1:]):
        p = opline.split()
        if p[0] == "setcursor":
            nullcur = (p[1] == "0")
        if i < len(impl_lines):
            l = impl_lines[i]
            for m in re.finditer(r"w(\d+):n=\d+:\[([^\]]*)\]", l):
                ci = int(m.group(1))
                if ",R" in m.group(2) and not nullcur and shape.get(ci, "0") == "0":
                    tainted.add(ci)
            for m in re.finditer(r"\| c(\d+) [^|]* f=(\d)(\d)", l):
                shape[int(m.group(1))] = m.group(3)
            # scaled clients: only the size bookkeeping is modelled, their pictures are not
            for m in re.finditer(r"\| c(\d+) [^|]* sc=(\d+x\d+)", l):
                tainted.add(int(m.group(1)))
        out.append(set(tainted))
    return out


SCALED_EXTRA = re.compile(r" scaled=\S+ uniform=\d value=\d+")


WIRE_TOK = re.compile(r" w\d+:(?:n=|resize=)\S+")


def canon(line, tainted, enc=False):
    """picture fields of tainted clients are masked; the harness-only fields of scaled clients dropped.
    enc cases (peers decode another pixel encoding with the client library): the rectangle lists on the wire
    and the exact picture depend on the encoder (rectangle splitting, no coalescing for some encodings, the
    unused byte of 32-bit pixels) - the regions, flags, sizes and the convergence verdict I are compared."""
    line = SCALED_EXTRA.sub("", line)
    if enc:
        line = WIRE_TOK.sub("", line)
        line = re.sub(r" P=\d+", " P=-", line)
    for ci in tainted:
        line = re.sub(r"(\| c%d [^|]*?) sz=\S+ P=\S+ I=\S+" % ci, r"\1 sz=- P=- I=-", line)
    return line


# ---------------------------------------------------------------- spec oracle on the implementation's output
def req_clip(W, H, x, y, w, h):
    """RFB: the requested area is the part of the rectangle inside the framebuffer"""
    x2, y2 = min(x + w, W), min(y + h, H)
    return (x, y, x2, y2) if x < x2 and y < y2 else None


def oracle_case(case, impl_lines, crash):
    """evaluate the C02 predicates on the implementation's observations of one case.
    returns None or (message, features)"""
    kind = case_kind(case)
    W, H = int(case[0].split()[2]), int(case[0].split()[3])
    prev = None
    slice_h = 0
    full = {}          # client -> set of pixels requested non-incrementally, not yet delivered
    calm = {}          # client -> it was up to date and nothing but incremental requests happened since
    ops = case[1:]
    nullcur = False
    tl = taint_timeline(case, impl_lines)
    for i, opline in enumerate(ops):
        tainted = tl[i] if i < len(tl) else set()
        p = opline.split()
        if i >= len(impl_lines):
            feats = {"what": "crash", "op": p[0]}
            if prev is not None:
                feats["nonshape_copyrect"] = any(c["f"][0] == "1" and c["f"][1] == "0" for c in prev["clients"])
            feats["null_cursor"] = nullcur
            txt = (crash or "no output")
            m = re.search(r"where=(\S+)", txt)
            feats["where"] = m.group(1) if m else "?"
            m = re.search(r"frames=(\S*)", txt)
            frames = m.group(1).split(",") if m else []
            feats["cursor_path"] = any(f in ("rfbShowCursor", "rfbSendCursorShape", "rfbHideCursor") for f in frames)
            bpps = [case[0].split()[4]] + [q.split()[3] for q in ops[:i] if q.startswith("newfb ")]
            feats["depth_changed"] = len(set(bpps)) > 1
            # a scaled screen created before the last rfbNewFramebuffer is still around
            seen_scale = False; stale = False
            for q in ops[:i]:
                if q.startswith("setscale "):
                    seen_scale = True
                elif q.startswith("newfb") and seen_scale:
                    stale = True
            feats["stale_scaled"] = stale
            return ("implementation crashed / stopped at '%s': %s" % (opline, txt.split("\n")[0][:200]), feats)
        o = parse_obs(impl_lines[i])
        if p[0] == "setcursor":
            nullcur = (p[1] == "0")
        if o["err"] is not None:
            if o["err"].startswith("UNKNOWN"):
                return ("harness does not know op '%s'" % opline, {"what": "harness"})
            break      # explicit error (invalid script), nothing more to check
        if "S" in o:
            W, H = o["S"][0], o["S"][1]
        if "bogus_wire" in o:
            return ("unexpected server message after '%s': %s" % (opline, o["bogus_wire"]),
                    {"what": "unexpected-message", "op": p[0]})
        # 0. the regions themselves: every rectangle of M, C, R must be non-empty
        for ci, c in enumerate(o["clients"]):
            for key in ("M", "C", "R"):
                for r in c[key]:
                    if not (r[0] < r[2] and r[1] < r[3]):
                        return ("client %d's %s region contains the empty/inverted rectangle %s after '%s' "
                                "(a region that is non-empty as a list but covers no pixel)" % (ci, key, r, opline),
                                {"what": "degenerate-region", "op": p[0], "region": key})
        # 1. convergence invariant (harness-evaluated on real regions + real pictures)
        if True:
            for ci, c in enumerate(o["clients"]):
                if ci in tainted:
                    continue
                if c["I"] == 0 and not c["closed"]:
                    idle = not c["M"] and not c["C"]
                    feats = {"what": "inv", "op": p[0], "idle": idle}
                    if p[0] == "docopyrgn":
                        feats["multirect"] = int(p[3]) > 1
                    return ("client %d's picture disagrees with the framebuffer outside its modified/copy regions "
                            "after '%s'%s" % (ci, opline, " (nothing left to send: M = C = {})" if idle else ""), feats)
        # wire-level predicates
        for ci, msgs in o["wire"].items():
            for (n, rects) in msgs:
                if any(b for (_, _, b) in rects):
                    return ("rectangle outside the client's framebuffer sent after '%s'" % opline,
                            {"what": "outside", "op": p[0]})
                copies = [v for (k, v, _) in rects if k == "C"]
                raws = [v for (k, v, _) in rects if k == "R"]
                sizeonly = all(k in ("N", "E") for (k, _, _) in rects) and rects
                # 2. CopyRect order: no rectangle reads what an earlier one has written
                for a in range(len(copies)):
                    for b in range(a + 1, len(copies)):
                        ax, ay, aw, ah = copies[a][:4]
                        bx, by, bw, bh, bsx, bsy = copies[b]
                        if ax < bsx + bw and bsx < ax + aw and ay < bsy + bh and bsy < ay + ah:
                            return ("CopyRect #%d reads an area already overwritten by CopyRect #%d after '%s'"
                                    % (b, a, opline), {"what": "copy-order", "op": p[0]})
                # 3. up to date + incremental requests only -> silent
                if calm.get(ci) and p[0] in ("tick", "send") and int(p[1]) == ci and ci not in tainted:
                    if p[0] == "tick" or copies or raws:
                        return ("update with %d pixel/copy rectangles sent to a client that was up to date and has "
                                "only made incremental requests since, after '%s'" % (len(copies) + len(raws), opline),
                                {"what": "spurious", "op": p[0]})
                # 4. non-incremental request is answered completely
                if not sizeonly and ci in full and full[ci]:
                    if slice_h == 0:
                        got = pixels([(x, y, x + w, y + h) for (x, y, w, h) in raws])
                        missing = full[ci] - got
                        if missing:
                            return ("non-incremental request not answered completely after '%s': %d pixels missing, e.g. %s"
                                    % (opline, len(missing), sorted(missing)[0]),
                                    {"what": "nonincr-incomplete", "op": p[0]})
                        cd = pixels([(v[0], v[1], v[0] + v[2], v[1] + v[3]) for v in copies])
                        if cd & full[ci]:
                            return ("CopyRect into a non-incrementally requested area after '%s'" % opline,
                                    {"what": "nonincr-copy", "op": p[0]})
                    full[ci] = set()
                # 5. the requested part of what was pending is delivered (no slicing)
                if not sizeonly and prev is not None and ci < len(prev["clients"]) and slice_h == 0 and ci < len(o["clients"]):
                    rb = pixels(prev["clients"][ci]["R"], W, H)
                    left = pixels(o["clients"][ci]["M"], W, H) & rb
                    if left:
                        return ("pixels inside the requested region are still marked modified after the update sent for '%s' (no slicing)"
                                % opline, {"what": "undelivered", "op": p[0]})
        # bookkeeping for predicate 3
        if p[0] == "req" and int(p[2]) == 0:
            calm.pop(int(p[1]), None)
        elif p[0] not in ("req", "tick", "send", "knobs"):
            calm = {}
        for ci, c in enumerate(o["clients"]):
            if (not c["closed"] and not c["M"] and not c["C"] and not (c["f"][1] == "1" and c["f"][2] == "1")
                    and not (c["f"][4] == "1" and c["f"][6] == "1")):
                calm[ci] = True
        if p[0] == "req" and int(p[2]) == 0:
            r = req_clip(W, H, int(p[3]), int(p[4]), int(p[5]), int(p[6]))
            ci = int(p[1])
            if r and ci < len(o["clients"]):
                full.setdefault(ci, set()).update(pixels([r]))
        if p[0] == "knobs":
            slice_h = int(p[2])
        if p[0] == "newfb":
            full = {}
        prev = o
    if crash and crash != "not run":
        # every operation was answered, the crash came when the screen was torn down (rfbScreenCleanup)
        m = re.search(r"where=(\S+)", crash)
        return ("implementation crashed while the screen was cleaned up after the last operation: %s" % crash.split("\n")[0][:200],
                {"what": "crash", "op": "cleanup", "where": m.group(1) if m else "?"})
    return None


# ---------------------------------------------------------------- the check
def build(ctx):
    cexe = vlib.build_harness("vdrv_update", ["vdrv_update.c"], wraps=HARNESS_WRAPS, client=True)
    proof_ok = vlib.prove(ctx, PROP_FILE, [EXTRACT])
    mexe = vlib.build_ocaml(OCAML_ID, DRIVER, EXTRACT)
    return cexe, mexe, proof_ok


def run_one(cexe, mexe, case):
    (il, crash), = run_impl(cexe, [case], timeout=120)
    ml, = run_model(mexe, [case], par=1, timeout=300)
    return il, crash, ml


def diff_case(case, il, ml):
    tl = taint_timeline(case, il)
    t = lambda i: tl[i] if i < len(tl) else (tl[-1] if tl else set())
    enc = case_kind(case).startswith("enc")
    return vlib.first_diff([canon(l, t(i), enc) for i, l in enumerate(il)], [canon(l, t(i), enc) for i, l in enumerate(ml)])


def shrink_case(case, pred, max_tests=150):
    body = vlib.ddmin(case[1:], lambda sub: pred([case[0]] + sub), max_tests=max_tests)
    return [case[0]] + body


def replay_text(case, il, crash, ml):
    return ("script:\n" + "\n".join(case) + "\n\nimplementation output:\n" + "\n".join(il) +
            ("\n[crash] " + crash if crash else "") + "\n\nmodel output:\n" + "\n".join(ml) + "\n")


def evaluate(ctx, cases, cexe, mexe, proof_ok, pid, oracle, what_prefix, corr_name):
    t0 = time.time()
    impl = run_impl(cexe, cases)
    t1 = time.time()
    model = run_model(mexe, cases, par=10)
    t2 = time.time()
    hist, distinct = {}, set()
    mism, ofail = [], []
    nops = 0
    for idx, c in enumerate(cases):
        il, crash = impl[idx]
        ml = model[idx]
        nops += len(c) - 1
        kind = case_kind(c)
        hist[kind] = hist.get(kind, 0) + 1
        e = oracle(c, il, crash)
        if e:
            ofail.append((idx, e))
        d = diff_case(c, il, ml)
        if d is not None and not (crash and e):
            mism.append((idx, d))
        for l in il:
            # non-trivial: an update carrying at least one CopyRect or >= 2 pixel rectangles
            for m in re.finditer(r"w\d+:n=\d+:\[([^\]]*)\]", l):
                body = m.group(1)
                if ",C," in body or body.count(",R") >= 2 or ",N" in body or ",E" in body:
                    distinct.add(body)
    ctx.coverage.update(
        evaluations=nops, distinct_nontrivial=len(distinct),
        rule="histories of application/client operations run on the extracted Coq model and on the real library; "
             "every operation's observation (M, C, offset, R rectangles, flags, wire rectangles, picture hashes) "
             "compared. distinct_nontrivial = distinct update messages (rectangle lists) that contain a CopyRect, "
             "a size pseudo-rectangle or at least two pixel rectangles",
        samples=[cases[i] for i in (0, len(cases) // 2, len(cases) - 1)] if cases else [],
        input_distribution=hist, cases=len(cases), correspondence_mismatches=len(mism),
        oracle_failures=len(ofail), impl_s=round(t1 - t0, 1), model_s=round(t2 - t1, 1), exhaustive=False)

    # oracle failures: concrete inputs on which the property fails on the implementation
    seen = set()
    reported = 0
    for idx, (msg, feats) in ofail:
        key = tuple(sorted((k, str(v)) for k, v in feats.items()))
        if key in seen or reported >= 6:
            continue
        seen.add(key)
        c = cases[idx]
        def pred(lines, want=(feats.get("what"), feats.get("op"))):
            il, crash, ml = run_one(cexe, mexe, lines)
            r = oracle(lines, il, crash)
            return r is not None and (r[1].get("what"), r[1].get("op")) == want
        small = shrink_case(c, pred)
        il, crash, ml = run_one(cexe, mexe, small)
        r = oracle(small, il, crash) or (msg, feats)
        if ctx.violation(what_prefix + r[0], r[1], replay_text(small, il, crash, ml)):
            reported += 1
    if mism and not ctx.violations:
        # only the mirror and the code disagree
        bad = [m for m in mism if not any(m[0] == i for i, _ in ofail)]
        if bad:
            idx, d = bad[0]
            c = cases[idx]
            def pred2(lines):
                il, crash, ml = run_one(cexe, mexe, lines)
                return diff_case(lines, il, ml) is not None
            small = shrink_case(c, pred2)
            il, crash, ml = run_one(cexe, mexe, small)
            d2 = diff_case(small, il, ml)
            ctx.violation("correspondence %s no longer holds (%d of %d cases differ); the property predicates held "
                          "on every implementation output explored" % (corr_name, len(bad), len(cases)),
                          {"kind": "correspondence"},
                          "correspondence: " + corr_name + "\nfirst difference: %r\n" % (d2,) +
                          replay_text(small, il, crash, ml), no_input=True)
    if not proof_ok and not ctx.violations and not ctx.known:
        vlib.report_proof_failure(ctx, "Correspondence and the spec oracle were run on %d operations (%d cases) "
                                  "without exhibiting a failing input." % (nops, len(cases)))


CORR = "Update/UpdateDefs.v (step: mark/draw/copy/request/setencodings/send...) <-> main.c, rfbserver.c update bookkeeping"


def check(ctx):
    cexe, mexe, proof_ok = build(ctx)
    cases = gen_cases(ctx)
    evaluate(ctx, cases, cexe, mexe, proof_ok, PID, oracle_case, "", CORR)
    ctx.assumptions += [
        "the application changes pixels only through the modelled operations (draw+mark, copy) - 'reports every change'",
        "copy destinations and sources lie inside the framebuffer; coordinates fit 16 bits",
        "clients announce cursor-shape support or the screen has no cursor (the painted soft cursor is C15's subject; "
        "for soft-cursor clients only the bookkeeping is compared)",
        "deferUpdateTime = 0 (the deferral timer only delays the call of rfbSendFramebufferUpdate)",
        "region lemmas of Region/RegionProofs.v (C11) for well-formed regions"]


def replay_common(ctx, path, oracle, corr_name):
    txt = open(path).read()
    if "script:\n" not in txt:
        print("replay names a theorem/correspondence, re-running the full check")
        return None
    body = txt.split("script:\n", 1)[1].split("\n\n", 1)[0]
    lines = [l for l in body.split("\n") if l.strip()]
    cexe, mexe, proof_ok = build(ctx)
    il, crash, ml = run_one(cexe, mexe, lines)
    print("implementation:\n" + "\n".join(il) + ("\n[crash] " + crash.split("\n")[0] if crash else "") +
          "\nmodel:\n" + "\n".join(ml))
    ctx.coverage.update(evaluations=len(lines) - 1, distinct_nontrivial=0, rule="replay", samples=[lines])
    e = oracle(lines, il, crash)
    if e:
        ctx.violation(e[0], e[1], replay_text(lines, il, crash, ml))
    elif diff_case(lines, il, ml) is not None:
        ctx.violation("correspondence differs on the replayed script", {"kind": "correspondence"},
                      "correspondence: " + corr_name + "\n" + replay_text(lines, il, crash, ml), no_input=True)
    return True


def replay(ctx, path):
    if replay_common(ctx, path, oracle_case, CORR) is None:
        return check(ctx)
