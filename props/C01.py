"""C01 - Lossless encodings reproduce the server framebuffer pixel-exactly.

Proof: coq/Props/Properties_C01.v - for every tile/rectangle content and size, the RFB-spec
decoder (coq/Dec/Spec*.v, written from the protocol specification only) applied to the output of
the mirror encoder (coq/Enc/*.v, mirroring the C heuristics byte for byte) yields the pixels.
Tie: (a) protocol constants / tile sizes / flags are regenerated from /repo on every run
(Gen/Consts_C01.v) and the theorems are re-proved against them; (b) correspondence: the real
server (static ASan build) is driven through a socketpair; the harness peer strips the framing,
inflates with real zlib/LZO and prints header + pre-compression payload of every rectangle; the
extracted model prints its bytes for the same (translated) pixels -> exact diff.
Independently of the mirror model the property predicate itself is evaluated on the
implementation's own output: every rectangle is decoded by the extracted *spec* decoder and
compared with translate(framebuffer snapshot) computed here, and the rectangles must tile the
requested area.
Lossy variants (Tight+JPEG, ZYWRLE) and TightPng are sampled tests only (labelled `sampled`).
"""
import os, sys, json, time
import vlib

PROP_FILE = "Props/Properties_C01.v"
EXTRACT = "Extract/Extract_C01.vo"
ENC_NUM = {"raw": 0, "rre": 2, "corre": 4, "hextile": 5, "zlib": 6, "tight": 7, "ultra": 9, "zrle": 16,
           "zywrle": 17, "tightpng": -260}
# encodings whose byte stream the mirror model predicts (exact diff); everything is checked by the
# spec-decoder oracle as well.  Tight: the LastRect solid-area search is not modelled (oracle only)
MODELLED = {"raw", "rre", "corre", "hextile", "zlib", "ultra", "zrle", "tight", "default"}
# encodings the spec decoder handles
DECODABLE = {0, 2, 4, 5, 6, 7, 9, 16}


# ---------------------------------------------------------------- pixel formats
class Fmt:
    def __init__(self, bpp, depth, be, tc, rmax, gmax, bmax, rs, gs, bs):
        self.bpp, self.depth, self.be, self.tc = bpp, depth, be, tc
        self.rmax, self.gmax, self.bmax, self.rs, self.gs, self.bs = rmax, gmax, bmax, rs, gs, bs

    def tup(self):
        return (self.bpp, self.depth, self.be, self.tc, self.rmax, self.gmax, self.bmax, self.rs, self.gs, self.bs)

    def line(self):
        return "fmt %d %d %d %d %d %d %d %d %d %d" % self.tup()

    def mask(self):
        return (self.rmax << self.rs) | (self.gmax << self.gs) | (self.bmax << self.bs)


def server_fmt(bypp):
    """what rfbGetScreen(bitsPerSample as in vsess.h) sets up on this little-endian host"""
    # rfbGetScreen: depth = bitsPerPixel = 8 * bytesPerPixel
    if bypp == 1:
        return Fmt(8, 8, 0, 1, 7, 7, 3, 0, 3, 6)
    if bypp == 2:
        return Fmt(16, 16, 0, 1, 31, 31, 31, 0, 5, 10)
    return Fmt(32, 32, 0, 1, 255, 255, 255, 0, 8, 16)


BGR233 = Fmt(8, 8, 0, 1, 7, 7, 3, 0, 3, 6)


def translate_pixel(p, s, c):
    """RFB pixel translation rule (C10): each component scaled with rounding, placed at the
    client's shift; identity when the formats are equal"""
    r = (p >> s.rs) & s.rmax
    g = (p >> s.gs) & s.gmax
    b = (p >> s.bs) & s.bmax
    return (((r * c.rmax + s.rmax // 2) // s.rmax) << c.rs) | (((g * c.gmax + s.gmax // 2) // s.gmax) << c.gs) | \
           (((b * c.bmax + s.bmax // 2) // s.bmax) << c.bs)


def translate_screen(px, s, c):
    """px: list of server pixel values -> bytes in client wire order"""
    eff = c if c.tc else BGR233            # colour-map clients get the BGR233 map
    n = eff.bpp // 8
    order = "big" if (eff.be and n > 1) else "little"
    cache = {}
    out = bytearray()
    ident = (s.tup() == eff.tup())
    for p in px:
        v = cache.get(p)
        if v is None:
            q = p if ident else translate_pixel(p, s, eff)
            v = q.to_bytes(n, order)
            cache[p] = v
        out += v
    return bytes(out)


def source_variant():
    """which text the two ZRLE defects have in the tree under test (the mirror model has both
    variants; see notes/fix_C01_1.diff, notes/fix_C01_2.diff)"""
    import re
    try:
        t1 = open(os.path.join(vlib.REPO, "src/libvncserver/zrleencodetemplate.c")).read()
        t2 = open(os.path.join(vlib.REPO, "src/libvncserver/zrle.c")).read()
    except OSError:
        return (0, 0, 0, 0, 0)
    m = re.search(r"zrleOutStreamWriteBytes\(os,\s*\(zrle_U8\s*\*\)data,\s*w\*h\*\((\w+)/8\)\)", t1)
    f1 = 1 if (m and m.group(1) == "BPPOUT") else 0
    m = re.search(r"fitsInLS3Bytes\s*=\s*\(\((.*?)<<", t2, flags=re.S)
    f2 = 1 if (m and ("uint32_t" in m.group(1) or "unsigned" in m.group(1))) else 0
    try:
        t3 = open(os.path.join(vlib.REPO, "src/libvncserver/tight.c")).read()
        pos = t3.find("cl->tightUsePixelFormat24 = TRUE")
        cond = t3[t3.rfind("if", 0, pos):pos] if pos >= 0 else ""
        f7 = 1 if ("bitsPerPixel" in cond and "trueColour" in cond) else 0
    except OSError:
        f7 = 0
    return (f1, f2, f7, 1 if pack24_swaps() else 0, 1 if raw_splits() else 0)


def raw_splits():
    """notes/fix_C01_5.diff applied? (rfbSendRectEncodingRaw sends a line longer than the buffer in pieces)"""
    try:
        t = open(os.path.join(vlib.REPO, "src/libvncserver/rfbserver.c")).read()
    except OSError:
        return False
    pos = t.find("\nrfbSendRectEncodingRaw(")
    end = t.find("\n}\n", pos)
    return pos >= 0 and "send buffer too small" not in t[pos:end]


def pack24_swaps():
    """notes/fix_C01_4.diff applied? (Pack24 brings the pixel to host order instead of using 24 - shift)"""
    try:
        t = open(os.path.join(vlib.REPO, "src/libvncserver/tight.c")).read()
    except OSError:
        return False
    pos = t.find("static void Pack24(")
    return pos >= 0 and "Swap32" in t[pos:pos + 1200]


VARIANT = (0, 0, 0, 0, 0)


def sint32(v):
    return ((v + (1 << 31)) % (1 << 32)) - (1 << 31)


def fmt_class(enc, f):
    """classes of client formats in which the ZRLE encoder is known to misbehave (findings F1-F3)"""
    bpp, depth, be, tc, rmax, gmax, bmax, rs, gs, bs = f
    if enc == "tight" and depth == 24 and rmax == gmax == bmax == 255:
        if bpp != 32 and not VARIANT[2]:
            return "tight-narrow-depth24"          # finding F7
        if bpp == 32 and be and (rs % 8 or gs % 8 or bs % 8):
            return "tight-be-unaligned"            # finding F8
    if enc not in ("zrle", "zywrle"):
        return "-"
    if bpp == 16 and gmax <= 31 and not VARIANT[0]:
        return "bpp15"
    if bpp == 32:
        def mode(wrap):
            v = [rmax << rs, gmax << gs, bmax << bs]
            if wrap:
                v = [sint32(x) for x in v]
            ls = all(x < (1 << 24) for x in v)
            ms = rs > 7 and gs > 7 and bs > 7
            if (ls and not be) or (ms and be):
                return 1
            if (ls and be) or (ms and not be):
                return 2
            return 0
        if mode(True) != mode(False) and not VARIANT[1]:
            return "shift-overflow"
        if depth > 24 and mode(False) != 0:
            return "depth-gt-24"
    return "-"


def client_formats(rng, sbypp):
    """catalogue + random formats; None = keep the server format (no SetPixelFormat)"""
    cat = [None,
           Fmt(32, 24, 0, 1, 255, 255, 255, 16, 8, 0), Fmt(32, 24, 1, 1, 255, 255, 255, 16, 8, 0),
           Fmt(32, 24, 0, 1, 255, 255, 255, 24, 16, 8), Fmt(32, 24, 1, 1, 255, 255, 255, 24, 16, 8),
           Fmt(32, 24, 0, 1, 255, 255, 255, 0, 8, 16),
           Fmt(16, 16, 0, 1, 31, 63, 31, 11, 5, 0), Fmt(16, 16, 1, 1, 31, 63, 31, 11, 5, 0),
           Fmt(16, 15, 0, 1, 31, 31, 31, 10, 5, 0), Fmt(16, 15, 1, 1, 31, 31, 31, 0, 5, 10),
           Fmt(8, 8, 0, 1, 7, 7, 3, 0, 3, 6), Fmt(8, 8, 0, 1, 3, 7, 7, 6, 3, 0), Fmt(8, 6, 0, 1, 3, 3, 3, 4, 2, 0),
           Fmt(8, 8, 0, 0, 0, 0, 0, 0, 0, 0)]
    return cat


def random_format(rng):
    bpp = rng.choice([8, 16, 32])
    while True:
        bits = [rng.randint(1, 8 if bpp > 8 else 3) for _ in range(3)]
        if sum(bits) <= (bpp if bpp < 32 else rng.choice([24, 24, 32])):
            break
    # random non-overlapping placement
    total = sum(bits)
    slack = min(bpp, 24 if (bpp == 32 and rng.random() < 0.7) else bpp) - total
    order = [0, 1, 2]
    rng.shuffle(order)
    pos = rng.randint(0, max(0, slack)) if slack > 0 else 0
    if bpp == 32 and rng.random() < 0.3:
        pos += 8 if pos + total + 8 <= 32 else 0
    shifts = [0, 0, 0]
    for i in order:
        shifts[i] = pos
        pos += bits[i]
    if pos > bpp:
        return random_format(rng)
    mx = [(1 << b) - 1 for b in bits]
    depth = max(s + b for s, b in zip(shifts, bits))
    return Fmt(bpp, depth if rng.random() < 0.7 else min(bpp, depth + rng.randint(0, 8)), rng.randint(0, 1), 1,
               mx[0], mx[1], mx[2], shifts[0], shifts[1], shifts[2])


# ---------------------------------------------------------------- content generators
def valid_mask(sbypp):
    return {1: 0xff, 2: 0x7fff, 4: 0xffffff}[sbypp]


def palette(rng, sbypp, k):
    m = valid_mask(sbypp)
    cols = set()
    lim = m + 1
    k = min(k, lim)
    while len(cols) < k:
        cols.add(rng.randint(0, m))
    cols = list(cols)
    rng.shuffle(cols)
    return cols


def gen_content(rng, kind, w, h, sbypp):
    m = valid_mask(sbypp)
    n = w * h
    if kind == "flat":
        c = rng.randint(0, m)
        return [c] * n
    if kind == "noise":
        return [rng.randint(0, m) for _ in range(n)]
    if kind.startswith("pal"):
        k = int(kind[3:])
        cols = palette(rng, sbypp, k)
        px = [rng.choice(cols) for _ in range(n)]
        # make sure every colour occurs (when there is room): exact palette sizes matter
        for i, c in enumerate(cols[:n]):
            px[(i * 7919) % n] = c
        return px
    if kind.startswith("runs"):
        k = int(kind[4:])
        cols = palette(rng, sbypp, k)
        px = []
        maxrun = rng.choice([3, 20, 70, 300, 600])
        while len(px) < n:
            px += [rng.choice(cols)] * rng.randint(1, maxrun)
        return px[:n]
    if kind == "hgrad":
        fs = server_fmt(sbypp)
        row = []
        for x in range(w):
            r = x * fs.rmax // max(1, w - 1)
            g = (w - 1 - x) * fs.gmax // max(1, w - 1)
            row.append((r << fs.rs) | (g << fs.gs) | ((x & fs.bmax) << fs.bs))
        return row * h
    if kind == "grad2d":
        # smooth two-dimensional ramps with many distinct colours (photographic-like, 32 bpp only)
        a, b, c = rng.randint(2, 5), rng.randint(2, 6), rng.randint(1, 3)
        return [((x * a) % 256) | (((y * b) % 256) << 8) | ((((x + y) * c) % 256) << 16) for y in range(h) for x in range(w)]
    if kind == "vgrad":
        fs = server_fmt(sbypp)
        px = []
        for y in range(h):
            r = y * fs.rmax // max(1, h - 1)
            px += [(r << fs.rs) | (((y * 3) & fs.gmax) << fs.gs)] * w
        return px
    if kind.startswith("rects"):
        k = int(kind[5:])
        cols = palette(rng, sbypp, k)
        px = [cols[0]] * n
        for _ in range(rng.randint(1, 12)):
            c = rng.choice(cols)
            x0, y0 = rng.randrange(w), rng.randrange(h)
            x1, y1 = min(w, x0 + rng.randint(1, max(1, w // 2))), min(h, y0 + rng.randint(1, max(1, h // 2)))
            for y in range(y0, y1):
                px[y * w + x0:y * w + x1] = [c] * (x1 - x0)
        return px
    if kind == "checker":
        a, b = palette(rng, sbypp, 2)
        return [a if (x + y) & 1 else b for y in range(h) for x in range(w)]
    if kind == "stripes":
        cols = palette(rng, sbypp, rng.randint(2, 4))
        p = rng.randint(1, 5)
        if rng.random() < 0.5:
            return [cols[(x // p) % len(cols)] for y in range(h) for x in range(w)]
        return [cols[(y // p) % len(cols)] for y in range(h) for x in range(w)]
    if kind == "sparse":
        cols = palette(rng, sbypp, rng.choice([2, 3, 6]))
        px = [cols[0]] * n
        for _ in range(rng.randint(1, max(1, n // 20))):
            px[rng.randrange(n)] = rng.choice(cols[1:])
        return px
    if kind.startswith("rle"):
        # per ZRLE tile (64x64) a flat sequence of maximal runs whose lengths sit on the run-length
        # byte boundaries (len-1 = 255k-1, 255k, 255k+1) plus short fillers; runs span rows of the tile.
        # "rle<k>" uses k colours; with k >= 128 a block of k distinct single pixels forces plain RLE
        k = int(kind[3:])
        cols = palette(rng, sbypp, max(2, k))
        lens = [254, 255, 256, 257, 509, 510, 511, 512, 764, 765, 766, 767, 1019, 1020, 1021, 1022, 1276, 1531, 2041, 4081]
        px = [0] * n
        for ty in range(0, h, 64):
            for tx in range(0, w, 64):
                tw, th = min(64, w - tx), min(64, h - ty)
                m = tw * th
                seq, last = [], None
                while len(seq) < m:
                    L = rng.choice(lens) if rng.random() < 0.6 else rng.randint(1, 6)
                    c = rng.choice(cols)
                    while c == last and len(cols) > 1:
                        c = rng.choice(cols)
                    last = c
                    seq += [c] * L
                seq = seq[:m]
                if k >= 128 and m > 2 * len(cols):
                    seq[m - len(cols):] = cols
                for j in range(th):
                    px[(ty + j) * w + tx:(ty + j) * w + tx + tw] = seq[j * tw:(j + 1) * tw]
        return px
    if kind.startswith("tilemix"):
        # per-tile classes over a small shared palette: neighbouring tiles often share background /
        # foreground (hextile bg/fg carry-over, raw fall-back in between, zrle palette classes)
        ts = int(kind[7:])
        cols = palette(rng, sbypp, rng.choice([2, 3, 4, 6]))
        px = [0] * n
        for ty in range(0, h, ts):
            for tx in range(0, w, ts):
                cls = rng.choice(["flat", "flat", "mono", "mono", "noise", "multi", "sparse"])
                a, b = rng.choice(cols), rng.choice(cols)
                for y in range(ty, min(h, ty + ts)):
                    for x in range(tx, min(w, tx + ts)):
                        if cls == "flat":
                            v = a
                        elif cls == "mono":
                            v = a if ((x // 3 + y // 2) & 1) else b
                        elif cls == "noise":
                            v = rng.choice(cols)
                        elif cls == "sparse":
                            v = b if rng.random() < 0.1 else a
                        else:
                            v = cols[(x // 2 + y) % len(cols)]
                        px[y * w + x] = v
        return px
    raise ValueError(kind)


KINDS = ["flat", "noise", "pal2", "pal3", "pal4", "pal5", "pal16", "pal17", "pal127", "pal128", "pal129",
         "runs2", "runs3", "runs5", "runs16", "runs17", "runs127", "runs128", "runs200", "hgrad", "vgrad", "rects2", "rects3",
         "rects8", "checker", "stripes", "sparse", "tilemix16", "tilemix16", "tilemix64", "tilemix8", "rle2", "rle5", "rle140"]

SIZES_SMALL = [(1, 1), (1, 2), (2, 1), (3, 3), (1, 17), (17, 1), (15, 15), (16, 16), (17, 17), (16, 1), (31, 33), (32, 32),
               (33, 31), (47, 49), (48, 48), (49, 47), (63, 65), (64, 64), (65, 63), (100, 7), (7, 100), (128, 20),
               (129, 65), (20, 130)]
SIZES_BIG = [(255, 40), (256, 33), (257, 20), (300, 220), (2049, 3), (2100, 9), (1100, 61), (70, 950), (8, 2100)]
# lines around the UPDATE_BUF_SIZE boundary: (32768 - 12) / bpp and 32768 / bpp
SIZES_WIDE = [(8189, 2, 4), (8190, 2, 4), (8192, 3, 4), (8193, 2, 4), (16384, 2, 2), (16385, 2, 2), (32768, 2, 1), (32769, 2, 1),
              (32756, 3, 1), (32757, 2, 1)]


def pad_pixels(rng, px, sf, mode):
    """put non-zero bits OUTSIDE the colour masks of the server format into the framebuffer pixels
    (ones: all set; colour: one random padding per colour; pixel: random per pixel)"""
    spare = ((1 << sf.bpp) - 1) & ~sf.mask()
    if not spare:
        return px
    if mode == "ones":
        return [p | spare for p in px]
    if mode == "colour":
        m = {}
        return [p | m.setdefault(p, rng.getrandbits(sf.bpp) & spare) for p in px]
    return [p | (rng.getrandbits(sf.bpp) & spare) for p in px]


def mask_bytes(data, f):
    """keep the colour bits only (client format f as tuple), pixel by pixel"""
    bpp, depth, be, tc, rmax, gmax, bmax, rs, gs, bs = f
    n = bpp // 8
    mask = (rmax << rs) | (gmax << gs) | (bmax << bs)
    order = "big" if (be and n > 1) else "little"
    out = bytearray()
    for i in range(0, len(data) - len(data) % n, n):
        out += (int.from_bytes(data[i:i + n], order) & mask).to_bytes(n, order)
    return bytes(out)


def case_lines(k, label, w, h, sbypp, cfmt, enc, levels, updates, corre=None, sfmt=None, econ=0, pad=False):
    """updates: list of (pixels, (x,y,rw,rh)); sfmt: server pixel format chosen by the application (None =
    rfbGetScreen default), econ: rfbEconomicTranslate; returns (script lines, meta)"""
    sf = sfmt if sfmt is not None else server_fmt(sbypp)
    scr_line = "screen %d %d %d" % (w, h, sbypp)
    if sfmt is not None:
        scr_line += " %d %d %d %d %d %d %d %d %d" % (sf.depth, sf.be, sf.rmax, sf.gmax, sf.bmax, sf.rs, sf.gs, sf.bs, econ)
    L = ["case %d %s" % (k, label), "variant %d %d %d %d %d" % VARIANT, scr_line]
    if pad:
        L.append("pad 1")        # the framebuffer carries bits outside the colour masks (ignored by both drivers)
    if cfmt is not None:
        L.append(cfmt.line())
    effc0 = (sf if cfmt is None else cfmt)
    effc0 = effc0 if effc0.tc else BGR233
    L.append("c" + effc0.line())
    L.append("enc %s %s" % (enc, " ".join(levels)))
    if corre:
        L.append("corre %d %d" % corre)
    trs = []
    eff = sf if cfmt is None else cfmt
    encs_used = [enc]
    cur_spec = [enc] + list(levels)
    upd_spec = []
    for up in updates:
        px, rect = up[0], up[1]
        if len(up) > 2 and up[2]:
            sp = up[2].split()
            sp += ["-"] * max(0, 3 - len(sp))
            L.append("enc " + " ".join(sp))
            encs_used.append(sp[0])
            cur_spec = sp
        upd_spec.append(tuple(cur_spec))
        fbhex = b"".join(p.to_bytes(sbypp, "big" if (sf.be and sbypp > 1) else "little") for p in px).hex()
        tr = translate_screen(px, sf, eff)
        L.append("fb " + fbhex)
        L.append("tr %d %d %s" % (w, h, tr.hex()))
        L.append("upd %d %d %d %d" % rect)
        trs.append((tr, rect))
    effc = eff if eff.tc else BGR233
    meta = dict(w=w, h=h, sbypp=sbypp, cbypp=effc.bpp // 8, enc=enc, levels=levels, trs=trs, label=label,
                cfmt=effc.tup(), corre=corre, updates=updates, cfmt_obj=cfmt, encs=encs_used, upd_spec=upd_spec, sfmt_obj=sfmt, econ=econ, pad=pad)
    return L, meta


def pick_rect(rng, w, h):
    r = rng.random()
    if r < 0.55:
        return (0, 0, w, h)
    x = rng.randrange(w)
    y = rng.randrange(h)
    return (x, y, rng.randint(1, w - x), rng.randint(1, h - y))


def gen_cases(ctx, encs):
    rng = ctx.rng
    cases = []
    k = 0
    quick = ctx.quick()

    def add(label, w, h, sbypp, cfmt, enc, updates, levels=("-", "-"), corre=None, sfmt=None, econ=0):
        nonlocal k
        # generator dimension for every encoder and every case class: bits outside the colour masks of the
        # server format (pad byte of 32 bpp, bit 15 of 555, ...) set in the framebuffer, for about a third of the
        # cases, more often when the client keeps the server's format (no translation)
        sf = sfmt if sfmt is not None else server_fmt(sbypp)
        pad = False
        if (((1 << sf.bpp) - 1) & ~sf.mask()) and rng.random() < (0.45 if cfmt is None else 0.2):
            mode = rng.choice(["ones", "colour", "colour", "pixel"])
            updates = [(pad_pixels(rng, u[0], sf, mode),) + tuple(u[1:]) for u in updates]
            pad = True
            label += ":pad-" + mode
        cases.append(case_lines(k, label, w, h, sbypp, cfmt, enc, levels, updates, corre, sfmt, econ, pad))
        k += 1

    def levels_for(enc):
        if enc == "tight":
            return (rng.choice(["-", "1", "1", "2", "5", "9", "0"]), "-", rng.choice(["-", "lastrect"]))
        if enc in ("zlib", "zrle"):
            return (rng.choice(["-", "0", "1", "5", "9"]), "-")
        return ("-", "-")

    # 1. boundary catalogue: every encoding x content class once, then classes aimed at the
    #    encoder's case splits (bg/fg carry-over and raw fall-back between hextile tiles, palette
    #    sizes and run lengths for ZRLE, sub-rectangle shapes for RRE/CoRRE)
    TARGET = {"hextile": ["tilemix16"] * 5 + ["tilemix8", "rects3", "sparse", "pal2", "pal3"],
              "rre": ["rects2", "rects3", "rects8", "sparse", "tilemix8", "stripes", "pal2", "runs3"],
              "corre": ["rects2", "rects3", "rects8", "sparse", "tilemix8", "tilemix16", "stripes", "pal2", "runs3"],
              "zrle": ["tilemix64"] * 3 + ["rle2", "rle3", "rle5", "rle20", "rle140", "rle200"] * 2 + ["tilemix16", "pal2", "pal3", "pal5", "pal16", "pal17", "pal127", "pal128",
                                           "runs2", "runs16", "runs127", "runs200", "noise", "hgrad"],
              "tight": ["tilemix16", "tilemix64", "rects3", "pal2", "pal3", "pal16", "runs5", "hgrad", "noise", "flat", "sparse"]}
    MULTI = [(33, 31), (47, 49), (48, 48), (49, 47), (63, 65), (64, 64), (65, 63), (100, 7), (7, 100), (128, 20),
             (129, 65), (20, 130), (80, 80)]
    per_enc = 110 if quick else 5000
    for enc in encs:
        for i in range(per_enc):
            sbypp = rng.choice([1, 2, 4, 4])
            if i < len(KINDS):
                kind = KINDS[i]
                w, h = rng.choice(SIZES_SMALL)
            else:
                kind = rng.choice(TARGET.get(enc, KINDS))
                w, h = rng.choice(MULTI if rng.random() < 0.7 else SIZES_SMALL)
            if enc in ("rre", "corre") and w * h > 6000:
                w, h = rng.choice(SIZES_SMALL[:14])
            fm = rng.choice(client_formats(rng, sbypp)) if rng.random() < 0.6 else (random_format(rng) if rng.random() < 0.5 else None)
            px = gen_content(rng, kind, w, h, sbypp)
            corre = None
            if enc == "corre" and rng.random() < 0.5:
                corre = (rng.choice([1, 7, 16, 48, 255]), rng.choice([1, 9, 48, 255]))
            add("%s:%s" % (enc, kind), w, h, sbypp, fm, enc, [(px, pick_rect(rng, w, h))], levels_for(enc), corre)
    # 2. big geometries (> 2048 wide, > 65536 pixels, flush boundary crossings)
    nbig = 1 if quick else 10
    for enc in encs:
        for i in range(nbig):
            sbypp = rng.choice([1, 2, 4])
            w, h = rng.choice(SIZES_BIG)
            if enc in ("rre", "corre", "hextile") and quick:
                w, h = rng.choice(SIZES_BIG[:3])
            kind = rng.choice(["rects3", "runs5", "pal2", "stripes", "hgrad", "noise", "sparse", "flat"])
            px = gen_content(rng, kind, w, h, sbypp)
            fm = rng.choice(client_formats(rng, sbypp)) if rng.random() < 0.4 else None
            add("%s:big:%s" % (enc, kind), w, h, sbypp, fm, enc, [(px, (0, 0, w, h))], levels_for(enc))
    # 2b. lines at the update-buffer boundary (Raw and its users)
    for enc in [e for e in encs if e in ("raw", "rre", "zlib", "hextile", "zrle")]:
        for (w, h, sb) in (SIZES_WIDE if not quick else rng.sample(SIZES_WIDE, 3)):
            if enc in ("rre",) and quick:
                continue
            px = gen_content(rng, rng.choice(["noise", "runs5", "flat"]), w, h, sb)
            add("%s:wide" % enc, w, h, sb, None, enc, [(px, (0, 0, w, h))], levels_for(enc))
    # 2b'. Tight palette limits: numColors against maxColors = w*h/96 and against 256
    if "tight" in encs:
        for (w, h, ks) in [(40, 24, [9, 10, 11]), (32, 6, [2, 3]), (31, 1, [2]), (33, 1, [2]), (200, 130, [255, 256, 257]),
                           (160, 154, [255, 256, 257])]:
            for kk in (ks if not quick else [ks[len(ks) // 2]]):
                sbypp = rng.choice([2, 4])
                px = gen_content(rng, "pal%d" % kk, w, h, sbypp)
                add("tight:limit:pal%d" % kk, w, h, sbypp, None, "tight", [(px, (0, 0, w, h))], (rng.choice(["-", "1", "9"]), "-", "-"))
    # 2e. run lengths across every 255k+1 boundary, plain and palette RLE, all pixel sizes, runs spanning rows
    if "zrle" in encs:
        for i in range(24 if quick else 400):
            sbypp = rng.choice([1, 2, 4])
            w, h = rng.choice([(64, 64), (64, 20), (32, 64), (17, 64), (64, 128), (100, 70), (128, 64), (51, 33), (8, 64)])
            kk = rng.choice([2, 3, 5, 20, 100, 140, 200])
            fm = rng.choice([None, None, Fmt(32, 24, 0, 1, 255, 255, 255, 16, 8, 0), Fmt(16, 16, 0, 1, 31, 63, 31, 11, 5, 0),
                             Fmt(16, 16, 1, 1, 31, 63, 31, 11, 5, 0), Fmt(8, 8, 0, 1, 7, 7, 3, 0, 3, 6), Fmt(32, 32, 1, 1, 255, 255, 255, 0, 8, 16)])
            add("zrle:rle%d" % kk, w, h, sbypp, fm, "zrle", [(gen_content(rng, "rle%d" % kk, w, h, sbypp), (0, 0, w, h))])
    # 2f. sessions that change compression / quality levels (and encodings) between updates; the peer
    #     keeps ONE inflate state per stream (reset only by the reset bits), as a specification client does
    if "tight" in encs:
        for i in range(30 if quick else 500):
            sbypp = rng.choice([2, 4, 4])
            w, h = rng.choice([(40, 24), (64, 48), (100, 30), (33, 31), (80, 80), (128, 20)])
            fm = rng.choice([None, None, Fmt(32, 24, 0, 1, 255, 255, 255, 16, 8, 0), Fmt(16, 16, 0, 1, 31, 63, 31, 11, 5, 0)])
            with_q = rng.random() < 0.7

            def spec():
                e = "tight" if rng.random() < 0.8 else rng.choice(["zlib", "zrle", "hextile", "raw"])
                lv = rng.choice(["1", "2", "3", "5", "9", "-"])
                q = rng.choice(["1", "5", "9"]) if (with_q and e == "tight") else "-"
                return "%s %s %s" % (e, lv, q)
            first = spec().split()
            ups = []
            for j in range(rng.randint(3, 8)):
                kind = rng.choice(["pal2", "pal3", "pal5", "pal16", "flat", "rects3", "sparse", "stripes", "tilemix16", "noise", "hgrad"])
                ups.append((gen_content(rng, kind, w, h, sbypp), (0, 0, w, h) if rng.random() < 0.7 else pick_rect(rng, w, h),
                            spec() if j > 0 else None))
            add("tight:levels", w, h, sbypp, fm, first[0], ups, tuple(first[1:]))
    if "zlib" in encs:
        for i in range(6 if quick else 100):
            sbypp = rng.choice([1, 2, 4])
            w, h = rng.choice([(40, 24), (64, 48), (33, 31)])
            ups = []
            for j in range(rng.randint(3, 6)):
                ups.append((gen_content(rng, rng.choice(KINDS), w, h, sbypp), pick_rect(rng, w, h),
                            ("%s %s -" % (rng.choice(["zlib", "zlib", "zrle"]), rng.choice(["0", "1", "5", "9", "-"]))) if j > 0 else None))
            add("zlib:levels", w, h, sbypp, None, "zlib", ups, (rng.choice(["1", "9", "-"]), "-"))
    # 2g. Tight with LastRect on rectangles of >= 4096 pixels with large solid areas: the solid-area
    #     search (FindBestSolidArea / ExtendSolidArea / recursion / nMaxRows flush) is compared exactly
    if "tight" in encs:
        for i in range(12 if quick else 200):
            sbypp = rng.choice([1, 2, 4])
            w, h = rng.choice([(128, 96), (200, 130), (100, 70), (64, 64), (90, 800), (300, 220), (2100, 40)] if not quick or i % 4 == 0
                              else [(128, 96), (100, 70), (64, 64), (160, 50)])
            kind = rng.choice(["rects2", "rects3", "rects8", "tilemix64", "tilemix16", "flat", "sparse", "stripes", "hgrad"])
            fm = rng.choice([None, Fmt(32, 24, 0, 1, 255, 255, 255, 16, 8, 0), Fmt(16, 16, 0, 1, 31, 63, 31, 11, 5, 0)])
            add("tight:lastrect:%s" % kind, w, h, sbypp, fm, "tight", [(gen_content(rng, kind, w, h, sbypp), pick_rect(rng, w, h))],
                (rng.choice(["-", "1", "9"]), rng.choice(["-", "-", "5"]), "lastrect"))
    # 2h. server pixel formats chosen by the application (unequal component widths, RGB565/555/332,
    #     10-11-11, either byte order) x rfbEconomicTranslate x client formats: every translation routine
    #     (single table, three tables, none) feeds the encoders; translate() is recomputed in Python
    SERVER_FORMATS = [Fmt(16, 16, 0, 1, 31, 63, 31, 11, 5, 0), Fmt(16, 16, 0, 1, 31, 63, 31, 0, 5, 11),
                      Fmt(16, 15, 0, 1, 31, 31, 31, 10, 5, 0), Fmt(16, 12, 0, 1, 15, 15, 15, 8, 4, 0), Fmt(8, 8, 0, 1, 7, 7, 3, 5, 2, 0),
                      Fmt(8, 8, 0, 1, 3, 7, 7, 6, 3, 0), Fmt(32, 32, 0, 1, 1023, 2047, 2047, 22, 11, 0), Fmt(32, 24, 0, 1, 127, 255, 63, 16, 8, 0),
                      Fmt(32, 24, 0, 1, 255, 255, 255, 16, 8, 0), Fmt(32, 30, 0, 1, 1023, 1023, 1023, 20, 10, 0)]
    # (the library reads the framebuffer in host byte order: serverFormat.bigEndian must be the host's, so no
    #  big-endian server formats on this little-endian host)
    for i in range(40 if quick else 900):
        sfm = SERVER_FORMATS[i % len(SERVER_FORMATS)] if i < 2 * len(SERVER_FORMATS) else rng.choice(SERVER_FORMATS)
        sbypp = sfm.bpp // 8
        econ = (i // len(SERVER_FORMATS)) % 2 if i < 2 * len(SERVER_FORMATS) else rng.randint(0, 1)
        w, h = rng.choice([(16, 16), (33, 17), (20, 9), (64, 20), (7, 40)])
        enc = rng.choice(encs)
        r = rng.random()
        fm = None if r < 0.12 else (rng.choice(client_formats(rng, sbypp)[1:]) if r < 0.7 else random_format(rng))
        kind = rng.choice(["noise", "hgrad", "vgrad", "pal16", "pal5", "rects8", "tilemix16", "pal129"])
        dflt = server_fmt(sbypp)
        px = [translate_pixel(p, dflt, sfm) for p in gen_content(rng, kind, w, h, sbypp)]
        if kind == "noise":
            px = [rng.randint(0, (1 << sfm.bpp) - 1) & sfm.mask() for _ in range(w * h)]
        lv = ("-", "-") if enc != "tight" else (rng.choice(["-", "1", "9"]), "-", rng.choice(["-", "lastrect"]))
        add("sfmt:%d-%d-%d%s:e%d:%s" % (sfm.rmax, sfm.gmax, sfm.bmax, "be" if sfm.be else "", econ, enc), w, h, sbypp, fm, enc,
            [(px, pick_rect(rng, w, h))], lv, None, sfm, econ)
    # 2i. a client that never sends SetEncodings (preferredEncoding = -1: Raw), and client formats at the
    #     edge of what SetPixelFormat lets through: depth 24 / maxima 255 announced with 8 or 16 bits per pixel
    #     (depth > bits-per-pixel; the server does not validate), big-endian 8-8-8 with unaligned shifts
    for i in range(6 if quick else 60):
        sbypp = rng.choice([1, 2, 4])
        w, h = rng.choice(SIZES_SMALL)
        fm = rng.choice(client_formats(rng, sbypp)) if rng.random() < 0.6 else None
        add("default:%s" % "raw", w, h, sbypp, fm, "default", [(gen_content(rng, rng.choice(KINDS), w, h, sbypp), pick_rect(rng, w, h))])
    if "tight" in encs:
        EDGE = [Fmt(8, 24, 0, 1, 255, 255, 255, 0, 0, 0), Fmt(16, 24, 0, 1, 255, 255, 255, 0, 4, 8), Fmt(16, 24, 1, 1, 255, 255, 255, 8, 4, 0),
                Fmt(32, 24, 1, 1, 255, 255, 255, 4, 12, 20), Fmt(32, 24, 0, 1, 255, 255, 255, 4, 12, 20), Fmt(32, 24, 1, 1, 255, 255, 255, 24, 16, 8)]
        for i in range(12 if quick else 120):
            sbypp = rng.choice([1, 2, 4])
            w, h = rng.choice([(1, 1), (8, 4), (16, 16), (31, 9), (20, 20)])      # small: Pack24 over-reads 4 bytes per pixel
            fm = EDGE[i % len(EDGE)]
            kind = rng.choice(["flat", "pal2", "pal5", "noise", "hgrad"])
            add("tight:edgefmt:%d-%d%s" % (fm.bpp, fm.rs, "be" if fm.be else ""), w, h, sbypp, fm, "tight",
                [(gen_content(rng, kind, w, h, sbypp), (0, 0, w, h))], (rng.choice(["-", "1"]), "-", "-"))
    # 2c. TightPng (SAMPLED: PNG container decoded by libpng in the harness, exact comparison)
    for i in range(6 if quick else 60):
        w, h = rng.choice(SIZES_SMALL)
        kind = rng.choice(["pal2", "pal5", "hgrad", "noise", "rects3", "flat", "tilemix16"])
        fm = rng.choice([None, Fmt(32, 24, 0, 1, 255, 255, 255, 16, 8, 0), Fmt(32, 24, 1, 1, 255, 255, 255, 16, 8, 0)])
        add("tightpng:sampled:%s" % kind, w, h, 4, fm, "tightpng", [(gen_content(rng, kind, w, h, 4), (0, 0, w, h))],
            (rng.choice(["-", "1", "5", "9"]), "-", "-"))
    # 2d. encoding switches on one connection (persistent zlib streams resume, shared scratch buffers)
    nmix = 12 if quick else 300
    allowed = [e for e in encs if e != "tight"] + (["tight"] if "tight" in encs else [])
    for i in range(nmix):
        sbypp = rng.choice([1, 2, 4])
        w, h = rng.choice(SIZES_SMALL[5:])
        fm = rng.choice([None, Fmt(32, 24, 0, 1, 255, 255, 255, 16, 8, 0), Fmt(16, 16, 0, 1, 31, 63, 31, 11, 5, 0), Fmt(8, 8, 0, 1, 7, 7, 3, 0, 3, 6)])
        seq = [rng.choice(allowed) for _ in range(rng.randint(3, 7))]
        ups = []
        for j, e in enumerate(seq):
            ups.append((gen_content(rng, rng.choice(KINDS), w, h, sbypp), pick_rect(rng, w, h), e if j > 0 else None))
        add("mixed:" + "+".join(sorted(set(seq))), w, h, sbypp, fm, seq[0], ups)
    # 3. histories: several updates on one connection (persistent compression streams,
    #    hextile/zrle state must not leak between rectangles)
    nhist = 5 if quick else 80
    for enc in encs:
        for i in range(nhist):
            sbypp = rng.choice([1, 2, 4])
            w, h = rng.choice(SIZES_SMALL[5:])
            fm = rng.choice(client_formats(rng, sbypp)) if rng.random() < 0.5 else None
            ups = []
            for _ in range(rng.randint(2, 5)):
                ups.append((gen_content(rng, rng.choice(KINDS), w, h, sbypp), pick_rect(rng, w, h)))
            add("%s:history" % enc, w, h, sbypp, fm, enc, ups, levels_for(enc))
    return cases


# ---------------------------------------------------------------- observation handling
def parse_upd(line):
    """'upd n=2 <hex> <hex> [ERROR=..] [TRAILING=..] [closed]' -> dict"""
    d = {"raw": line, "rects": [], "flags": []}
    p = line.split(" ")
    if len(p) < 2 or p[0] != "upd" or not p[1].startswith("n="):
        d["flags"].append(" ".join(p[1:]) or "empty")
        return d
    for t in p[2:]:
        if t.startswith("ERROR=") or t.startswith("TRAILING=") or t == "closed":
            d["flags"].append(t)
        else:
            d["rects"].append(bytes.fromhex(t))
    return d


def norm_jpeg(line):
    """a Tight JPEG rectangle is lossy by request: only header + control byte take part in the exact
    comparison (the model emits exactly that)"""
    if not line.startswith("upd n="):
        return line
    out = []
    for t in line.split(" "):
        if len(t) >= 26 and t[16:24] == "00000007" and t[24] == "9":
            t = t[:26]
        out.append(t)
    return " ".join(out)


def rect_hdr(b):
    x, y, w, h = (int.from_bytes(b[i:i + 2], "big") for i in (0, 2, 4, 6))
    enc = int.from_bytes(b[8:12], "big", signed=True)
    return x, y, w, h, enc


def crop_bytes(tr, sw, bypp, x, y, w, h):
    out = bytearray()
    for j in range(y, y + h):
        o = (j * sw + x) * bypp
        out += tr[o:o + w * bypp]
    return bytes(out)


class Oracle:
    """property predicate on the implementation's own output, by the extracted RFB-spec decoder"""

    def __init__(self, mexe):
        self.mexe = mexe

    def decode_many(self, items):
        """items: list of (enc, bypp, w, h, payload bytes) -> list of bytes|None"""
        if not items:
            return []
        script = "case 0 dec\n" + "".join("dec %d %d %d %s %s\n" % (e, w, h, " ".join(map(str, f)), p.hex()) for (e, f, w, h, p) in items)
        rc, out, err = vlib.run_driver(self.mexe, script, timeout=3000, unlimited_stack=True)
        res = []
        for l in out.split("\n"):
            if l.startswith("dec ok"):
                res.append(bytes.fromhex(l[7:].strip()))
            elif l.startswith("dec err"):
                res.append(None)
        while len(res) < len(items):
            res.append(None)
        return res


def precheck_case(meta, obs_lines):
    """structure of the implementation's observations of one case: -> (error|None, feats, items, where)
    items = rectangles to decode (enc, bypp, w, h, payload), where = (update index, x, y, w, h, enc)"""
    ups = [l for l in obs_lines if l.startswith("upd")]
    feats = dict(enc=meta["enc"], sbpp=meta["sbypp"] * 8, cbpp=meta["cbypp"] * 8, w=meta["w"], h=meta["h"],
                 fmt_class=fmt_class("zrle" if "zrle" in meta.get("encs", [meta["enc"]]) else
                                     ("tight" if "tight" in meta.get("encs", [meta["enc"]]) else meta["enc"]), meta["cfmt"]),
                 line_exceeds_update_buf=(meta["w"] * meta["cbypp"] > 32768),
                 tight_level0=any(sp[0] == "tight" and len(sp) > 1 and sp[1] == "0" and (len(sp) < 3 or sp[2] == "-")
                                  for sp in meta.get("upd_spec", [(meta["enc"],) + tuple(meta["levels"])])))
    if len(ups) != len(meta["trs"]):
        feats["what"] = "crash"
        return "implementation produced %d update observations for %d requests (crash?)" % (len(ups), len(meta["trs"])), feats, [], []
    items, where = [], []
    for ui, (line, (tr, rect)) in enumerate(zip(ups, meta["trs"])):
        d = parse_upd(line)
        if d["flags"]:
            feats["what"] = d["flags"][0].split("=")[0].split(" ")[0]
            return "update %d: %s" % (ui, " ".join(d["flags"])), feats, [], []
        rx, ry, rw, rh = rect
        cover = [bytearray(rw) for _ in range(rh)]
        for b in d["rects"]:
            x, y, w, h, enc = rect_hdr(b)
            if not (rx <= x and ry <= y and x + w <= rx + rw and y + h <= ry + rh):
                feats["what"] = "outside"
                return "update %d: rectangle %s outside the requested area %s" % (ui, (x, y, w, h), rect), feats, [], []
            one = bytes([1]) * w
            for j in range(y - ry, y - ry + h):
                row = cover[j]
                seg = row[x - rx:x - rx + w]
                if any(seg):
                    feats["what"] = "cover"
                    return "update %d: rectangles overlap inside the requested area" % ui, feats, [], []
                row[x - rx:x - rx + w] = one
            spec_now = meta["upd_spec"][ui] if "upd_spec" in meta and ui < len(meta["upd_spec"]) else None
            has_quality = bool(spec_now and len(spec_now) > 2 and spec_now[2] != "-")
            if enc == 7 and len(b) > 12 and (b[12] >> 4) == 9:
                if has_quality:
                    meta["jpeg_rects"] = meta.get("jpeg_rects", 0) + 1     # lossy by request: sampled elsewhere
                    continue
                feats["what"] = "jpeg-unrequested"
                return "update %d: JPEG rectangle although the client set no quality level" % ui, feats, [], []
            if enc in DECODABLE:
                f = meta["cfmt"]
                if feats["fmt_class"] == "depth-gt-24" and enc == 16:
                    # finding F3 (CPIXEL chosen without looking at depth) is reported separately by
                    # check(); the pixels are still compared, decoding with depth := 24
                    f = (f[0], 24) + tuple(f[2:])
                items.append((enc, f, w, h, b[12:]))
                where.append((ui, x, y, w, h, enc))
            elif enc == -260:
                # TightPng (SAMPLED test, PNG container decoded by libpng in the harness)
                e = check_tightpng_rect(meta, tr, x, y, w, h, b[12:])
                if isinstance(e, tuple):
                    items.append(e)
                    where.append((ui, x, y, w, h, 7))
                elif e:
                    feats["what"] = "tightpng"
                    return "update %d: TightPng rectangle %s: %s" % (ui, (x, y, w, h), e), feats, [], []
            else:
                feats["what"] = "unknown-encoding"
                return "update %d: rectangle with encoding %d which no lossless decoder handles" % (ui, enc), feats, [], []
        if any(not all(r) for r in cover):
            feats["what"] = "cover"
            return "update %d: rectangles do not cover the requested area" % ui, feats, [], []
    return None, feats, items, where


def check_tightpng_rect(meta, tr, x, y, w, h, payload):
    """-> None (ok) | error string | item tuple to be decoded by the Tight spec decoder"""
    if not payload:
        return "empty payload"
    bpp, depth, be, tc, rmax, gmax, bmax, rs, gs, bs = meta["cfmt"]
    comp = payload[0] >> 4
    want = crop_bytes(tr, meta["w"], meta["cbypp"], x, y, w, h)
    if comp == 10:
        if not (bpp == 32 and rmax == gmax == bmax == 255):
            return None          # only compared for 8-8-8 client formats
        rgb = payload[1:]
        if len(rgb) != w * h * 3:
            return "decoded PNG has %d bytes for %dx%d" % (len(rgb), w, h)
        for i in range(w * h):
            v = int.from_bytes(want[4 * i:4 * i + 4], "big" if be else "little")
            if ((v >> rs) & 255, (v >> gs) & 255, (v >> bs) & 255) != tuple(rgb[3 * i:3 * i + 3]):
                return "PNG pixel %d differs from the framebuffer" % i
        return None
    if comp == 9:
        return None              # JPEG inside TightPng: lossy, not compared here
    return (7, meta["cfmt"], w, h, payload)


def compare_case(meta, feats, where, dec):
    for (ui, x, y, w, h, enc), got in zip(where, dec):
        tr = meta["trs"][ui][0]
        want = crop_bytes(tr, meta["w"], meta["cbypp"], x, y, w, h)
        if got is not None and meta.get("pad"):
            # padding bits are not part of the colour: an untranslated client receives them or not
            # (CPIXEL / TPIXEL drop a byte); the pixels are compared on the colour bits
            got, want = mask_bytes(got, meta["cfmt"]), mask_bytes(want, meta["cfmt"])
        if got is None:
            feats["what"] = "undecodable"
            feats["rect_enc"] = enc
            return "update %d: rectangle %s encoding %d is not decodable by the RFB-spec decoder" % (ui, (x, y, w, h), enc)
        if got != want:
            bad = next(i for i in range(min(len(got), len(want))) if got[i] != want[i]) if len(got) == len(want) else -1
            feats["what"] = "pixels"
            feats["rect_enc"] = enc
            return "update %d: rectangle %s encoding %d decodes to wrong pixels (first differing byte %d)" % (
                ui, (x, y, w, h), enc, bad)
    return None


def check_case(meta, obs_lines, oracle):
    """-> (error string or None, number of rectangles decoded, feature dict)"""
    e, feats, items, where = precheck_case(meta, obs_lines)
    if e:
        return e, 0, feats
    return compare_case(meta, feats, where, oracle.decode_many(items)), len(items), feats


# ---------------------------------------------------------------- running
def build_model():
    """Extract_C01.v always writes to /verif/build/ocaml/C01 (path relative to coq/); with a scratch
    VERIF_BUILD the files are copied over so that vlib.build_ocaml finds them."""
    src = os.path.join(vlib.VERIF, "build", "ocaml", "C01")
    dst = os.path.join(vlib.BUILD, "ocaml", "C01")
    if os.path.abspath(src) != os.path.abspath(dst):
        os.makedirs(dst, exist_ok=True)
        for f in ("model.ml", "model.mli"):
            if os.path.exists(os.path.join(src, f)):
                import shutil
                shutil.copy(os.path.join(src, f), os.path.join(dst, f))
    return vlib.build_ocaml("C01", "driver_C01.ml", EXTRACT)


def outputs_differ(co, mo):
    """exact comparison of two driver outputs modulo what the model does not predict: JPEG image bytes
    (only header + control byte are compared)"""
    a, b = vlib.split_cases(co), vlib.split_cases(mo)
    if len(a) != len(b):
        return True
    for (ha, la), (hb, lb) in zip(a, b):
        if vlib.first_diff([norm_jpeg(l) for l in la], [norm_jpeg(l) for l in lb]) is not None:
            return True
    return False


def run_both(cases, cexe, mexe):
    script = "\n".join("\n".join(c[0]) for c in cases) + "\n"
    r1 = vlib.run_driver(cexe, script, timeout=3000)
    r2 = vlib.run_driver(mexe, script, timeout=3000, unlimited_stack=True)
    return r1, r2


def run_impl(case, cexe):
    return vlib.run_driver(cexe, "\n".join(case[0]) + "\n", timeout=600)


def shrink_case(case, fails):
    """reduce a single-update case: crop the screen (top-left), keep class; fails(case)->bool"""
    L, meta = case
    if len(meta["updates"]) != 1:
        # first try each update alone
        for ui, up in enumerate(meta["updates"]):
            px, rect = up[0], up[1]
            sp = meta["upd_spec"][ui]
            c = case_lines(0, meta["label"], meta["w"], meta["h"], meta["sbypp"], meta["cfmt_obj"], sp[0],
                           tuple(sp[1:]), [(px, rect)], meta["corre"], meta.get("sfmt_obj"), meta.get("econ", 0), meta.get("pad", False))
            if fails(c):
                return shrink_case(c, fails)
        # the failure needs the history: drop earlier updates while it still fails
        ups = list(meta["updates"])
        specs = list(meta["upd_spec"])

        def build(us, sps):
            full = [(u[0], u[1], " ".join(sp)) for u, sp in zip(us, sps)]
            return case_lines(0, meta["label"], meta["w"], meta["h"], meta["sbypp"], meta["cfmt_obj"], sps[0][0],
                              tuple(sps[0][1:]), [(full[0][0], full[0][1])] + full[1:], meta["corre"], meta.get("sfmt_obj"), meta.get("econ", 0), meta.get("pad", False))
        changed = True
        while changed and len(ups) > 2:
            changed = False
            for drop in list(range(len(ups) - 1, -1, -1)):
                c = build(ups[:drop] + ups[drop + 1:], specs[:drop] + specs[drop + 1:])
                if fails(c):
                    ups, specs, changed = ups[:drop] + ups[drop + 1:], specs[:drop] + specs[drop + 1:], True
                    break
        return build(ups, specs) if len(ups) != len(meta["updates"]) else case
    px, rect = meta["updates"][0][0], meta["updates"][0][1]
    w, h = meta["w"], meta["h"]
    cur = case
    budget = 60
    changed = True
    while changed and budget > 0:
        changed = False
        for (nw, nh) in ((w // 2, h), (w, h // 2), (w - 1, h), (w, h - 1)):
            if nw < 1 or nh < 1 or (nw, nh) == (w, h):
                continue
            npx = [px[y * w + x] for y in range(nh) for x in range(nw)]
            c = case_lines(0, meta["label"], nw, nh, meta["sbypp"], meta["cfmt_obj"], meta["enc"], meta["levels"],
                           [(npx, (0, 0, nw, nh))], meta["corre"], meta.get("sfmt_obj"), meta.get("econ", 0), meta.get("pad", False))
            budget -= 1
            if fails(c):
                cur, px, w, h, changed = c, npx, nw, nh, True
                break
    return cur


def check(ctx):
    global VARIANT
    VARIANT = source_variant()
    cexe = vlib.build_harness("vdrv_enc", ["vdrv_enc.c"], extra_cflags=["-I", os.path.join(vlib.REPO, "src", "common")])
    proof_ok = vlib.prove(ctx, PROP_FILE, [EXTRACT])
    mexe = build_model()
    oracle = Oracle(mexe)
    encs = ["raw", "rre", "corre", "hextile", "zlib", "ultra", "zrle", "tight"]
    cases = corpus_cases() + gen_cases(ctx, encs)
    t_run = time.time()
    (rc1, cout, cerr), (rc2, mout, merr) = run_both(cases, cexe, mexe)
    vlib.log("C01: %d cases generated and run on both sides in %.1fs" % (len(cases), time.time() - t_run))
    cc, mc = vlib.split_cases(cout), vlib.split_cases(mout)
    hist, distinct, nrect, nupd = {}, set(), 0, 0
    mismatches, oracle_fail = [], []
    pre = []
    all_items = []
    for idx, (L, meta) in enumerate(cases):
        il = cc[idx][1] if idx < len(cc) else []
        ml = mc[idx][1] if idx < len(mc) else []
        kind = meta["label"]
        hist[kind] = hist.get(kind, 0) + 1
        nupd += len(meta["trs"])
        e, feats, items, where = precheck_case(meta, il)
        pre.append((e, feats, len(all_items), len(items), where))
        all_items += items
        if all(e in MODELLED for e in meta.get("encs", [meta["enc"]])):
            if "tight" in meta.get("encs", [meta["enc"]]):
                # a model that answers "upd model-error" (None / Err of the mirror functions: totality of zrle_tile and
                # tight_subrect is not proved) differs from the implementation's line and is reported
                d = vlib.first_diff([norm_jpeg(l) for l in il], [norm_jpeg(l) for l in ml])
            else:
                d = vlib.first_diff(il, ml)
            if d is not None and feats.get("fmt_class") == "tight-narrow-depth24" and not VARIANT[2]:
                # finding F7: Pack24 reads 4-byte pixels from a buffer of 1- or 2-byte pixels; the bytes sent for
                # fill / full-colour subrectangles are whatever follows in memory, not a function of the input
                # (mono / indexed subrectangles switch on bitsPerPixel and are right); nothing to mirror
                d = None
            if d is not None:
                mismatches.append((idx, d))
        for l in il:
            if l.startswith("upd n="):
                for t in l.split(" ")[2:]:
                    if len(t) > 24 and not t.startswith(("ERROR", "TRAIL", "closed")):
                        # distinct non-trivial = distinct (encoding, client bpp, payload) with a payload
                        distinct.add((t[16:24], meta["cbypp"], hash(t)))
    # F3 representatives: the same rectangles decoded with the announced depth (pure specification)
    f3 = []
    for idx, (L, meta) in enumerate(cases):
        if pre[idx][0] is None and pre[idx][1]["fmt_class"] == "depth-gt-24" and len(f3) < 3:
            off, cnt = pre[idx][2], pre[idx][3]
            for k in range(off, off + cnt):
                if all_items[k][0] == 16:
                    e16, _, w16, h16, pl = all_items[k]
                    f3.append((idx, k, (e16, meta["cfmt"], w16, h16, pl)))
                    break
    t_dec = time.time()
    all_dec = oracle.decode_many(all_items)
    for (idx, k, item), got in zip(f3, oracle.decode_many([t[2] for t in f3])):
        if got != all_dec[k]:
            fe = dict(pre[idx][1])
            fe.update(what="cpixel-depth", mirror_agrees=True)
            ctx.violation("ZRLE CPIXEL form chosen without regard to depth: the specification's decoder (depth %d) "
                          "does not obtain the pixels" % cases[idx][1]["cfmt"][1], fe,
                          "script:\n" + "\n".join(cases[idx][0]) + "\n")
            break
    vlib.log("C01: spec-decoded %d rectangles in %.1fs" % (len(all_items), time.time() - t_dec))
    for idx, (L, meta) in enumerate(cases):
        e, feats, off, cnt, where = pre[idx]
        if e is None:
            e = compare_case(meta, feats, where, all_dec[off:off + cnt])
            nrect += cnt
        if e:
            oracle_fail.append((idx, e, feats))
    lossy = run_lossy_sampled(ctx)
    if rc1 != 0 and not oracle_fail:
        oracle_fail.append((max(0, len(cc) - 1), "implementation driver exited with %d: %s" % (rc1, cerr[-800:]),
                            {"what": "crash"}))
    ctx.coverage.update(
        evaluations=nupd, distinct_nontrivial=len(distinct),
        rule="one evaluation = one framebuffer update request answered by the real server and by the model; "
             "distinct_nontrivial = distinct (encoding, client bytes/pixel, rectangle bytes) with a non-empty payload, "
             "each decoded by the spec decoder and compared with translate(snapshot)",
        samples=[[l[:200] for l in cases[i][0]] for i in (0, len(cases) // 2, len(cases) - 1)] if cases else [],
        input_distribution=hist, cases=len(cases), rectangles_decoded=nrect,
        correspondence_mismatches=len(mismatches), oracle_failures=len(oracle_fail),
        sampled_only=["tight+jpeg", "zywrle", "tightpng"], sampled_lossy=lossy, exhaustive=False)
    ctx.assumptions += ["zlib / LZO round trip (Section hypotheses of the stream theorems; exercised with the real libraries)",
                        "pixel translation itself is property C10; here translate() is recomputed independently in Python",
                        "host is little-endian (pixel value = little-endian reading of the wire bytes)"]

    # report one representative per (encoding, format class, kind of failure)
    seen_cls, todo = set(), []
    for idx, e, feats in oracle_fail:
        key = (feats.get("enc"), feats.get("fmt_class"), feats.get("what"))
        if key not in seen_cls:
            seen_cls.add(key)
            todo.append((idx, e, feats))
    for idx, e, feats in todo[:6]:
        def fails(c):
            r = run_impl(c, cexe)
            cs = vlib.split_cases(r[1])
            er, _, _ = check_case(c[1], cs[0][1] if cs else [], oracle)
            return er is not None
        small = shrink_case(cases[idx], fails) if feats.get("what") != "crash" else cases[idx]
        r = run_impl(small, cexe)
        cs = vlib.split_cases(r[1])
        e2, _, f2 = check_case(small[1], cs[0][1] if cs else [], oracle)
        if e2 is None:
            small, e2, f2 = cases[idx], e, feats
            r = run_impl(small, cexe)
        f2["w"], f2["h"] = small[1]["w"], small[1]["h"]
        m = vlib.run_driver(mexe, "\n".join(small[0]) + "\n", timeout=600, unlimited_stack=True)
        f2["mirror_agrees"] = (small[1]["enc"] in MODELLED and m[1] == r[1])
        ctx.violation("lossless encoding does not reproduce the framebuffer: " + e2, f2,
                      "script:\n" + "\n".join(small[0]) + "\n\nimplementation output:\n" + r[1][:20000] + r[2][-1500:] +
                      "\nmodel output:\n" + m[1][:20000])
    failing = set(i for i, _, _ in oracle_fail)
    mismatches = [m for m in mismatches if m[0] not in failing]
    if mismatches and not ctx.violations:
        idx, d = mismatches[0]
        def fails2(c):
            (r1, co, _), (r2, mo, _) = run_both([c], cexe, mexe)
            return outputs_differ(co, mo)
        small = shrink_case(cases[idx], fails2)
        (r1, co, ce), (r2, mo, me) = run_both([small], cexe, mexe)
        ctx.violation("correspondence Enc/*.v <-> server encoders no longer holds (%d cases differ, first: %s); every "
                      "rectangle explored still decodes to the framebuffer" % (len(mismatches), cases[idx][1]["label"]),
                      {"kind": "correspondence", "enc": cases[idx][1]["enc"]},
                      "correspondence: coq/Enc (mirror encoders) vs src/libvncserver encoders, exact byte stream\n"
                      "script:\n" + "\n".join(small[0]) + "\n\nimplementation output:\n" + co[:20000] + ce[-1500:] +
                      "\nmodel output:\n" + mo[:20000] + me[-500:], no_input=True)
    if not proof_ok and not ctx.violations:
        vlib.report_proof_failure(ctx, "Correspondence and the spec-decoder oracle were run on %d updates (%d rectangles) "
                                  "without exhibiting a failing input." % (nupd, nrect))


# ---------------------------------------------------------------- sampled tests of the lossy variants
def lossy_bound(enc, q):
    """mean absolute channel error allowed on smooth content (a test, not a theorem)"""
    if enc == "tight":
        return 16 if q <= 2 else 10 if q <= 5 else 6 if q <= 8 else 3
    return 40 if q <= 2 else 20 if q <= 5 else 10


def run_lossy_sampled(ctx):
    """Tight+JPEG and ZYWRLE through the real LibVNCClient of the same tree; returns summary dict"""
    rng = ctx.rng
    lexe = vlib.build_harness("vdrv_enc_lossy", ["vdrv_enc_lossy.c"], client=True)
    cases = []
    nper = 4 if ctx.quick() else 30
    for enc in ("tight", "zywrle"):
        qs = [0, 3, 6, 9] if ctx.quick() else list(range(10))
        for q in qs:
            for _ in range(1 if ctx.quick() else 3):
                w, h = rng.choice([(64, 48), (100, 70), (33, 17), (130, 66)])
                kinds = [rng.choice(["grad2d", "grad2d", "hgrad", "flat"]) for _ in range(2)]
                ups = [gen_content(rng, kd, w, h, 4) for kd in kinds]
                cases.append((enc, q, w, h, kinds, ups))
    script = ""
    for k, (enc, q, w, h, kinds, ups) in enumerate(cases):
        script += "case %d %s-q%d\nenc %s %s %d\nscreen %d %d\n" % (k, enc, q, enc, "5" if enc == "tight" else "-", q, w, h)
        for px in ups:
            script += "fb %s\nupd\n" % b"".join(p.to_bytes(4, "little") for p in px).hex()
    rc, out, err = vlib.run_driver(lexe, script, timeout=900)
    res = vlib.split_cases(out)
    summary = dict(cases=len(cases), updates=0, worst={})
    for k, (enc, q, w, h, kinds, ups) in enumerate(cases):
        lines = res[k][1] if k < len(res) else []
        feats = dict(enc=enc, quality=q, sampled=True, w=w, h=h)
        if len(lines) != len(ups):
            feats["what"] = "no-update"
            ctx.violation("SAMPLED lossy test: %s quality %d: %d updates observed for %d (crash?)" % (enc, q, len(lines), len(ups)),
                          feats, "lossy script (vdrv_enc_lossy):\n" + script_of(cases[k], k) + "\noutput:\n" + "\n".join(lines) + err[-800:])
            continue
        for l in lines:
            summary["updates"] += 1
            if not l.startswith("e2e max="):
                feats["what"] = "undecodable"
                ctx.violation("SAMPLED lossy test: %s quality %d: the client of this tree cannot decode the update (%s)" % (enc, q, l),
                              feats, "lossy script (vdrv_enc_lossy):\n" + script_of(cases[k], k) + "\noutput:\n" + "\n".join(lines))
                break
            mean = int(l.split("mean1000=")[1].split()[0]) / 1000.0
            key = "%s-q%d" % (enc, q)
            summary["worst"][key] = max(summary["worst"].get(key, 0), mean)
            if mean > lossy_bound(enc, q):
                feats["what"] = "error-bound"
                ctx.violation("SAMPLED lossy test: %s quality %d: mean channel error %.2f exceeds %d on smooth content" % (
                    enc, q, mean, lossy_bound(enc, q)), feats,
                    "lossy script (vdrv_enc_lossy):\n" + script_of(cases[k], k) + "\noutput:\n" + "\n".join(lines))
                break
    return summary


def script_of(case, k):
    enc, q, w, h, kinds, ups = case
    s = "case %d %s-q%d\nenc %s %s %d\nscreen %d %d\n" % (k, enc, q, enc, "5" if enc == "tight" else "-", q, w, h)
    for px in ups:
        s += "fb %s\nupd\n" % b"".join(p.to_bytes(4, "little") for p in px).hex()
    return s


def corpus_cases():
    out = []
    cdir = os.path.join(vlib.VERIF, "corpus", "C01")
    if not os.path.isdir(cdir):
        return out
    for fn in sorted(os.listdir(cdir)):
        if fn.endswith(".json"):
            j = json.load(open(os.path.join(cdir, fn)))
            out.append(case_from_json(j, "corpus:" + fn))
    return out


def case_from_json(j, label):
    fm = Fmt(*j["cfmt"]) if j.get("cfmt") else None
    ups = [(u["px"], tuple(u["rect"])) for u in j["updates"]]
    return case_lines(0, label, j["w"], j["h"], j["sbypp"], fm, j["enc"], tuple(j.get("levels", ("-", "-"))), ups,
                      tuple(j["corre"]) if j.get("corre") else None)


def replay(ctx, path):
    txt = open(path).read()
    if "script:\n" not in txt:
        print("replay names a theorem/correspondence, re-running the full check")
        return check(ctx)
    global VARIANT
    VARIANT = source_variant()
    body = txt.split("script:\n", 1)[1].split("\n\n", 1)[0]
    lines = [l for l in body.split("\n") if l.strip()]
    lines = [("variant %d %d %d %d %d" % VARIANT) if l.startswith("variant ") else l for l in lines]
    cexe = vlib.build_harness("vdrv_enc", ["vdrv_enc.c"], extra_cflags=["-I", os.path.join(vlib.REPO, "src", "common")])
    vlib.prove(ctx, PROP_FILE, [EXTRACT])
    mexe = build_model()
    meta = meta_from_lines(lines)
    r = vlib.run_driver(cexe, "\n".join(lines) + "\n", timeout=600)
    m = vlib.run_driver(mexe, "\n".join(lines) + "\n", timeout=600, unlimited_stack=True)
    cs = vlib.split_cases(r[1])
    e, nd, feats = check_case(meta, cs[0][1] if cs else [], Oracle(mexe))
    print("implementation:\n" + r[1][:3000] + "\nmodel:\n" + m[1][:3000])
    ctx.coverage.update(evaluations=len(meta["trs"]), distinct_nontrivial=0, rule="replay", samples=[[l[:200] for l in lines]])
    if e:
        feats["mirror_agrees"] = (meta["enc"] in MODELLED and m[1] == r[1])
        ctx.violation("lossless encoding does not reproduce the framebuffer: " + e, feats,
                      "script:\n" + "\n".join(lines) + "\n\nimplementation output:\n" + r[1][:20000])
    elif meta["enc"] in MODELLED and outputs_differ(r[1], m[1]):
        ctx.violation("correspondence differs on the replayed script", {"kind": "correspondence"},
                      "script:\n" + "\n".join(lines) + "\n\n" + r[1][:20000] + "\n" + m[1][:20000], no_input=True)


def meta_from_lines(lines):
    """rebuild the oracle's meta data from a script (replay)"""
    meta = dict(trs=[], label="replay", corre=None, levels=("-", "-"), updates=[], cfmt_obj=None, cfmt=None)
    tr = None
    for l in lines:
        p = l.split(" ")
        if p[0] == "pad":
            meta["pad"] = True
        if p[0] == "screen":
            meta["w"], meta["h"], meta["sbypp"] = int(p[1]), int(p[2]), int(p[3])
            meta["cbypp"] = meta["sbypp"]
            meta["cfmt"] = server_fmt(meta["sbypp"]).tup()
        elif p[0] == "cfmt":
            v = list(map(int, p[1:11]))
            meta["cbypp"] = v[0] // 8
            meta["cfmt"] = tuple(v)
        elif p[0] == "enc":
            meta.setdefault("encs", []).append(p[1])
            meta["_cur_spec"] = tuple(p[1:] + ["-"] * max(0, 4 - len(p)))
            if "enc" not in meta:
                meta["enc"] = p[1]
                meta["levels"] = tuple(p[2:]) if len(p) > 2 else ("-", "-")
        elif p[0] == "tr":
            tr = bytes.fromhex(p[3])
        elif p[0] == "upd":
            meta["trs"].append((tr, tuple(map(int, p[1:5]))))
            meta.setdefault("upd_spec", []).append(meta.get("_cur_spec", ("raw", "-", "-")))
    return meta
