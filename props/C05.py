"""C05 - Password-protected screens admit exactly the clients that prove the password.

Proof: coq/Props/Properties_C05.v - theorems over the process model Auth/AuthModel.v (global
security-handler list with C pointer semantics, several screens, several connections, executable
DES of FIPS 46 with the VNC key munging) for cfg_fixed = the code with notes/fix_C05_1.diff and
notes/fix_C05_2.diff; *_refuted theorems for cfg_legacy = the code before the fixes.
Tie: (a) constants regenerated from /repo on every run (Gen/Consts_C05.v: security types, states,
message sizes, fixedkey, version format); (b) correspondence: the extracted `step` and the real
library (harness/vdrv_auth.c: several screens in one process, socketpair connections, scripted
interleavings, random() interposed so the challenge is a script input) run the same scripts and
every observable is compared: state, viewOnly, application-handler invocations and the exact
bytes written to every client after every operation.
Independently of the mirror model the property predicate itself is evaluated on the
implementation's output by a spec-level oracle (own DES, own RFB handshake parser): soundness
(admitted => proved), completeness, offer/choice conformance, view-only, refusal shape.
"""
import os, re, sys
import vlib

PROP_FILE = "Props/Properties_C05.v"
EXTRACT = "Extract/Extract_C05.vo"

# ================================================================ reference DES (FIPS 46-3)
_IP = [58,50,42,34,26,18,10,2,60,52,44,36,28,20,12,4,62,54,46,38,30,22,14,6,64,56,48,40,32,24,16,8,57,49,41,33,25,17,9,1,59,51,43,35,27,19,11,3,61,53,45,37,29,21,13,5,63,55,47,39,31,23,15,7]
_FP = [40,8,48,16,56,24,64,32,39,7,47,15,55,23,63,31,38,6,46,14,54,22,62,30,37,5,45,13,53,21,61,29,36,4,44,12,52,20,60,28,35,3,43,11,51,19,59,27,34,2,42,10,50,18,58,26,33,1,41,9,49,17,57,25]
_E = [32,1,2,3,4,5,4,5,6,7,8,9,8,9,10,11,12,13,12,13,14,15,16,17,16,17,18,19,20,21,20,21,22,23,24,25,24,25,26,27,28,29,28,29,30,31,32,1]
_P = [16,7,20,21,29,12,28,17,1,15,23,26,5,18,31,10,2,8,24,14,32,27,3,9,19,13,30,6,22,11,4,25]
_PC1 = [57,49,41,33,25,17,9,1,58,50,42,34,26,18,10,2,59,51,43,35,27,19,11,3,60,52,44,36,63,55,47,39,31,23,15,7,62,54,46,38,30,22,14,6,61,53,45,37,29,21,13,5,28,20,12,4]
_PC2 = [14,17,11,24,1,5,3,28,15,6,21,10,23,19,12,4,26,8,16,7,27,20,13,2,41,52,31,37,47,55,30,40,51,45,33,48,44,49,39,56,34,53,46,42,50,36,29,32]
_SH = [1,1,2,2,2,2,2,2,1,2,2,2,2,2,2,1]
_S = [[14,4,13,1,2,15,11,8,3,10,6,12,5,9,0,7,0,15,7,4,14,2,13,1,10,6,12,11,9,5,3,8,4,1,14,8,13,6,2,11,15,12,9,7,3,10,5,0,15,12,8,2,4,9,1,7,5,11,3,14,10,0,6,13],
[15,1,8,14,6,11,3,4,9,7,2,13,12,0,5,10,3,13,4,7,15,2,8,14,12,0,1,10,6,9,11,5,0,14,7,11,10,4,13,1,5,8,12,6,9,3,2,15,13,8,10,1,3,15,4,2,11,6,7,12,0,5,14,9],
[10,0,9,14,6,3,15,5,1,13,12,7,11,4,2,8,13,7,0,9,3,4,6,10,2,8,5,14,12,11,15,1,13,6,4,9,8,15,3,0,11,1,2,12,5,10,14,7,1,10,13,0,6,9,8,7,4,15,14,3,11,5,2,12],
[7,13,14,3,0,6,9,10,1,2,8,5,11,12,4,15,13,8,11,5,6,15,0,3,4,7,2,12,1,10,14,9,10,6,9,0,12,11,7,13,15,1,3,14,5,2,8,4,3,15,0,6,10,1,13,8,9,4,5,11,12,7,2,14],
[2,12,4,1,7,10,11,6,8,5,3,15,13,0,14,9,14,11,2,12,4,7,13,1,5,0,15,10,3,9,8,6,4,2,1,11,10,13,7,8,15,9,12,5,6,3,0,14,11,8,12,7,1,14,2,13,6,15,0,9,10,4,5,3],
[12,1,10,15,9,2,6,8,0,13,3,4,14,7,5,11,10,15,4,2,7,12,9,5,6,1,13,14,0,11,3,8,9,14,15,5,2,8,12,3,7,0,4,10,1,13,11,6,4,3,2,12,9,5,15,10,11,14,1,7,6,0,8,13],
[4,11,2,14,15,0,8,13,3,12,9,7,5,10,6,1,13,0,11,7,4,9,1,10,14,3,5,12,2,15,8,6,1,4,11,13,12,3,7,14,10,15,6,8,0,5,9,2,6,11,13,8,1,4,10,7,9,5,0,15,14,2,3,12],
[13,2,8,4,6,15,11,1,10,9,3,14,5,0,12,7,1,15,13,8,10,3,7,4,12,5,6,11,0,14,9,2,7,11,4,1,9,12,14,2,0,6,10,13,15,3,5,8,2,1,14,7,4,10,8,13,15,12,9,0,3,5,6,11]]


def _perm(win, tbl, x):
    r = 0
    for i in tbl:
        r = (r << 1) | ((x >> (win - i)) & 1)
    return r


def _rol28(x, n):
    return ((x << n) | (x >> (28 - n))) & 0xfffffff


def des_subkeys(k):
    cd = _perm(64, _PC1, k)
    c, d = cd >> 28, cd & 0xfffffff
    ks = []
    for s in _SH:
        c, d = _rol28(c, s), _rol28(d, s)
        ks.append(_perm(56, _PC2, (c << 28) | d))
    return ks


def _f(r, k):
    x = _perm(32, _E, r) ^ k
    o = 0
    for i in range(8):
        b = (x >> (42 - 6 * i)) & 63
        o = (o << 4) | _S[i][(((b >> 5) << 1) | (b & 1)) * 16 + ((b >> 1) & 15)]
    return _perm(32, _P, o)


def des_block(k, x, dec=False):
    ks = des_subkeys(k)
    if dec:
        ks = ks[::-1]
    x = _perm(64, _IP, x)
    l, r = x >> 32, x & 0xffffffff
    for kk in ks:
        l, r = r, l ^ _f(r, kk)
    return _perm(64, _FP, (r << 32) | l)


def rev_byte(b):
    return int("{:08b}".format(b)[::-1], 2)


def vnc_key(pw):
    pw = pw.split(b"\0")[0]
    kb = (pw + b"\0" * 8)[:8]
    return int.from_bytes(bytes(rev_byte(b) for b in kb), "big")


_enc_cache = {}


def vnc_encrypt(pw, chal):
    """reference VNC authentication response (two ECB blocks)"""
    key = (pw, chal)
    if key not in _enc_cache:
        k = vnc_key(pw)
        _enc_cache[key] = b"".join(des_block(k, int.from_bytes(chal[i:i + 8], "big")).to_bytes(8, "big")
                                   for i in range(0, len(chal) - 7, 8))
    return _enc_cache[key]


FIXEDKEY = bytes([23, 82, 107, 6, 35, 78, 88, 7])


def passwd_file_content(pw):
    """what rfbEncryptAndStorePasswd writes"""
    blk = (pw + b"\0" * 8)[:8]
    return des_block(vnc_key(FIXEDKEY), int.from_bytes(blk, "big")).to_bytes(8, "big")


def passwd_from_file(content):
    if len(content) < 8:
        return None
    p = des_block(vnc_key(FIXEDKEY), int.from_bytes(content[:8], "big"), dec=True).to_bytes(8, "big")
    return p.split(b"\0")[0]


_WEAK_HALVES = {0, 0x3333333, 0x5555555, 0x6666666, 0x9999999, 0xaaaaaaa, 0xccccccc, 0xfffffff}


def is_weak_key(k):
    """the 64 weak / semi-weak / possibly-weak DES keys (the set libgcrypt refuses)"""
    cd = _perm(64, _PC1, k)
    return (cd >> 28) in _WEAK_HALVES and (cd & 0xfffffff) in _WEAK_HALVES


def weak_passwords():
    """all passwords (as C strings) whose VNC DES key is one of the 64 weak keys"""
    out = []
    inv = {}
    for j, i in enumerate(_PC1):
        inv[j] = i
    for c in sorted(_WEAK_HALVES):
        for d in sorted(_WEAK_HALVES):
            cd = (c << 28) | d
            k = 0
            for j in range(56):
                if (cd >> (55 - j)) & 1:
                    k |= 1 << (64 - inv[j])
            kb = k.to_bytes(8, "big")
            pw = bytes(rev_byte(b) for b in kb)          # parity bit (MSB of the password byte) = 0
            pw = pw.rstrip(b"\0")
            if b"\0" in pw:
                continue                                  # not a C string
            assert is_weak_key(vnc_key(pw))
            out.append(pw)
    return out


# ================================================================ script helpers
SERVER_VERSION = b"RFB 003.008\n"
SERVER_FORMAT = bytes([32, 32, 0, 255, 0, 255, 0, 255, 0, 255, 0, 8, 16, 0, 0, 0])
REASON = b"password check failed!"
DEFAULT_EXT_TYPES = {2: 16, 3: 30, 4: 2, 5: 1}
EXT_TYPES = DEFAULT_EXT_TYPES


def hx(b):
    return b.hex() if b else "-"


def unhx(s):
    return b"" if s == "-" else bytes.fromhex(s)


def server_init(scr):
    return (scr["w"].to_bytes(2, "big") + scr["h"].to_bytes(2, "big") + SERVER_FORMAT +
            len(scr["name"]).to_bytes(4, "big") + scr["name"])


def c_isspace(b):
    return b == 32 or 9 <= b <= 13


def sscanf_version(msg):
    """sscanf(pv, "RFB %03d.%03d\\n", &major, &minor) == 2 ? (major, minor) : None  (C semantics)"""
    s = msg.split(b"\0")[0]
    if s[:3] != b"RFB":
        return None
    pos = 3

    def scan_int(pos):
        while pos < len(s) and c_isspace(s[pos]):
            pos += 1
        w, neg = 3, False
        if pos < len(s) and s[pos] in b"+-":
            neg = s[pos] == 45
            pos += 1
            w = 2
        v, n = 0, 0
        while n < w and pos < len(s) and 48 <= s[pos] <= 57:
            v = v * 10 + s[pos] - 48
            pos += 1
            n += 1
        if n == 0:
            return None
        return (-v if neg else v), pos

    r = scan_int(pos)
    if r is None:
        return None
    major, pos = r
    if pos >= len(s) or s[pos] != 46:
        return None
    r = scan_int(pos + 1)
    if r is None:
        return None
    return major, r[0]


def parse_script(lines):
    """-> list of op dicts"""
    ops = []
    for l in lines[1:]:
        p = l.split()
        if not p:
            continue
        if p[0] == "screen":
            scr = dict(w=int(p[1]), h=int(p[2]), name=unhx(p[3]), mode=p[4])
            if p[4] == "list":
                scr["fvo"] = int(p[5])
                scr["pws"] = [unhx(x) for x in p[6:]]
            elif p[4] == "file":
                scr["content"] = unhx(p[5])
            ops.append(dict(op="screen", scr=scr))
        elif p[0] in ("reg", "unreg"):
            ops.append(dict(op=p[0], k=int(p[1])))
        elif p[0] == "rand":
            ops.append(dict(op="rand", b=unhx(p[1])))
        elif p[0] == "conn":
            ops.append(dict(op="conn", s=int(p[1]), rev=p[2] == "1", eof=p[3] == "1", b=unhx(p[4])))
        elif p[0] == "send":
            ops.append(dict(op="send", c=int(p[1]), eof=p[2] == "1", b=unhx(p[3])))
        elif p[0] == "des":
            ops.append(dict(op="des", pw=unhx(p[1]), blk=unhx(p[2])))
        elif p[0] == "encfail" and len(p) == 2:
            ops.append(dict(op="encfail", on=p[1] == "1"))
        elif p[0] == "setlist" and len(p) >= 3:
            ops.append(dict(op="setlist", s=int(p[1]), fvo=int(p[2]), pws=[unhx(x) for x in p[3:]]))
        elif p[0] == "udpon" and len(p) == 2:
            ops.append(dict(op="udpon", s=int(p[1])))
        elif p[0] == "udp" and len(p) == 3:
            ops.append(dict(op="udp", s=int(p[1]), b=unhx(p[2])))
        elif p[0] == "tight" and len(p) == 2:
            ops.append(dict(op="tight", on=p[1] == "1"))
        elif p[0] == "types" and len(p) == 5:
            ops.append(dict(op="types", tys=[int(x) for x in p[1:5]]))
        elif p[0] == "setfile" and len(p) == 3:
            ops.append(dict(op="setfile", s=int(p[1]), content=unhx(p[2])))
        else:
            ops.append(dict(op="??", raw=l))
    return ops


def script_ok(lines):
    """preconditions of the harness/model pair (documented in notes/C05.md): the first bytes of a
    connection are empty or start with 'RFB ' (anything else is taken for a WebSocket/TLS client
    by rfbNewClient), an empty first write is not combined with EOF."""
    for o in parse_script(lines):
        if o["op"] == "conn":
            if o["b"] and (len(o["b"]) < 4 or o["b"][:4] != b"RFB "):
                return False
            if not o["b"] and o["eof"]:
                return False
        if o["op"] == "??":
            return False
    return True


def screen_passwords(scr):
    if scr["mode"] == "list":
        return [p.split(b"\0")[0] for p in scr["pws"]]
    if scr["mode"] == "file":
        p = passwd_from_file(scr["content"])
        return [] if p is None else [p]
    return []


def parse_obs(line):
    """'o err=0 crash=0 unmod=0 | st,vo,ext,out | ...' -> (flags, [conn dict])"""
    parts = line.split(" | ")
    flags = dict(kv.split("=") for kv in parts[0].split()[1:])
    conns = []
    for c in parts[1:]:
        st, vo, ext, out = c.split(",")
        conns.append(dict(st=int(st), vo=int(vo), ext=[] if ext == "-" else [int(x) for x in ext.split(".")],
                          out=unhx(out)))
    return flags, conns


# ================================================================ spec-level oracle
class Finding:
    def __init__(self, symptom, conn, text, **feat):
        self.symptom, self.conn, self.text, self.feat = symptom, conn, text, feat

    def features(self):
        d = dict(symptom=self.symptom)
        d.update(self.feat)
        return d


def oracle_case(lines, impl_lines):
    """Evaluate the C05 predicates on the implementation's observations of one case.
    Returns a list of Finding (empty = property holds on this case)."""
    ops = parse_script(lines)
    findings = []
    screens, conns = [], []          # conns: dict(s, rev, sent=[(opidx, bytes)], obs=[(opidx, conn-obs)])
    ext_reg_times = {}               # k -> list of (opidx, registered?)
    EXT_TYPES = dict(DEFAULT_EXT_TYPES)   # security types of the application handler objects of this case
    n_in_prev, udp_on = 0, set()
    encfail_from = None              # op index from which the DES backend fails
    tight_mode = any(o["op"] == "tight" and o["on"] for o in ops)   # object 2 = the library's TightVNC handler
    it = iter(impl_lines)
    crashed_at = None
    for idx, o in enumerate(ops):
        try:
            line = next(it)
        except StopIteration:
            crashed_at = idx
            break
        if line.startswith("x crashed"):
            crashed_at = idx - 1 if idx else 0
            break
        if o["op"] == "des" and encfail_from is not None:
            continue
        if o["op"] == "des":
            got = unhx(line.split()[1]) if line.startswith("des ") else None
            want = vnc_encrypt(o["pw"].split(b"\0")[0], o["blk"]) if len(o["blk"]) == 16 else o["blk"]
            if got != want:
                weak = is_weak_key(vnc_key(o["pw"]))
                findings.append(Finding("des-unchanged" if got == o["blk"] else "des-wrong", None,
                                        "rfbEncryptBytes(%s, password %r) = %s, reference DES says %s" %
                                        (o["blk"].hex(), o["pw"], got.hex() if got is not None else line, want.hex()),
                                        kind="weak-des-key" if weak else "des", weak=weak))
            continue
        if not line.startswith("o "):
            findings.append(Finding("bad-observation", None, "unexpected harness output %r for %r" % (line, o)))
            continue
        flags, cobs = parse_obs(line)
        n_in = int(flags.get("in", 0))
        if n_in > n_in_prev:
            # an input event was handed to the application through the UDP channel: nobody can have
            # proved a password on it, so the screen must not require one
            if o["op"] == "udp" and o["s"] < len(screens) and screens[o["s"]]["mode"] != "none":
                findings.append(Finding("udp-input-without-password", None,
                                        "a %d-byte datagram (type %d) from an unauthenticated peer reached kbdAddEvent/ptrAddEvent "
                                        "of password-protected screen %d" % (len(o["b"]), o["b"][0] if o["b"] else -1, o["s"]),
                                        kind="udp-input", msgtype=o["b"][0] if o["b"] else -1))
            elif o["op"] != "udp":
                findings.append(Finding("input-from-nowhere", None, "input event count rose on op %r" % o["op"]))
        elif o["op"] == "udp" and o["s"] < len(screens) and screens[o["s"]]["mode"] == "none" and o["s"] in udp_on and \
                ((len(o["b"]) == 8 and o["b"][0] == 4) or (len(o["b"]) == 6 and o["b"][0] == 5)):
            findings.append(Finding("udp-input-lost", None, "well-formed datagram on an open screen was not delivered"))
        n_in_prev = n_in
        if o["op"] == "udpon":
            udp_on.add(o["s"])
        if o["op"] == "screen":
            o["scr"]["timeline"] = [(idx, o["scr"].get("content"))]
            o["scr"]["ltimeline"] = [(idx, o["scr"].get("pws", []), o["scr"].get("fvo", 0))]
            screens.append(o["scr"])
        elif o["op"] == "types":
            EXT_TYPES = dict(zip((2, 3, 4, 5), o["tys"]))
        elif o["op"] == "setfile":
            if o["s"] < len(screens) and screens[o["s"]]["mode"] == "file":
                screens[o["s"]]["timeline"].append((idx, o["content"]))
        elif o["op"] == "setlist":
            if o["s"] < len(screens) and screens[o["s"]]["mode"] == "list":
                screens[o["s"]]["ltimeline"].append((idx, o["pws"], o["fvo"]))
        elif o["op"] == "encfail":
            encfail_from = idx if o["on"] and encfail_from is None else encfail_from
        elif o["op"] in ("reg", "unreg"):
            ext_reg_times.setdefault(o["k"], []).append((idx, o["op"] == "reg"))
        elif o["op"] == "conn":
            conns.append(dict(s=o["s"], rev=o["rev"], sent=[(idx, o["b"])], obs=[], born=idx, eof=o["eof"]))
        elif o["op"] == "send" and o["c"] < len(conns):
            conns[o["c"]]["sent"].append((idx, o["b"]))
            conns[o["c"]]["eof"] = conns[o["c"]]["eof"] or o["eof"]
        for i, c in enumerate(cobs):
            if i < len(conns):
                conns[i]["obs"].append((idx, c))
    remaining = list(it)
    if crashed_at is None and any(l.startswith("x crashed") for l in remaining):
        crashed_at = len(ops) - 1

    def ext_type_registered_ever(t, before=None):
        """did the application register a handler of type t (before op index `before`)?"""
        return any(EXT_TYPES.get(k) == t and any(r and (before is None or i < before) for i, r in ev)
                   for k, ev in ext_reg_times.items())

    # per connection: walk the handshake by the RFB specification
    info = []
    for ci, c in enumerate(conns):
        if c["s"] >= len(screens):
            info.append(None)
            continue
        scr = screens[c["s"]]
        pws = screen_passwords(scr)
        has_pw = scr["mode"] != "none"

        def pws_at(opidx, scr=scr):
            """the passwords the screen accepts when op number opidx is processed"""
            if encfail_from is not None and opidx >= encfail_from and scr["mode"] in ("list", "file"):
                return []                 # failing DES backend: the built-in callbacks can accept nothing
            if scr["mode"] == "list":
                cur = scr["ltimeline"][0]
                for e3 in scr["ltimeline"]:
                    if e3[0] <= opidx:
                        cur = e3
                return [p0.split(b"\0")[0] for p0 in cur[1]]
            if scr["mode"] != "file":
                return screen_passwords(scr)
            content = None
            for (k, ct) in scr["timeline"]:
                if k <= opidx:
                    content = ct
            p0 = passwd_from_file(content or b"")
            return [] if p0 is None else [p0]
        protected = has_pw and not c["rev"]
        primary = 2 if protected else 1
        cs = b"".join(b for _, b in c["sent"])
        client_eof = c["eof"]
        final = c["obs"][-1][1] if c["obs"] else dict(st=-1, vo=0, ext=[], out=b"")
        ss = final["out"]
        states = [ob["st"] for _, ob in c["obs"]]
        sinit = server_init(scr)
        admitted = any(s in (3, 4) for s in states) or (sinit in ss)
        d = dict(ci=ci, protected=protected, primary=primary, admitted=admitted, proved=False, chal=None,
                 offer_op=None, choice_op=None, offered=None, chosen=None, minor=None, polluted=False)
        info.append(d)

        def sent_op(pos, c=c):
            acc = 0
            for (k, b) in c["sent"]:
                acc += len(b)
                if pos < acc:
                    return k
            return None

        def add(sym, text, ci=ci, c=c, **kw):
            findings.append(Finding(sym, ci, "connection %d (screen %d%s): %s" %
                                    (ci, c["s"], ", reverse" if c["rev"] else "", text), **kw))

        if primary == 1 and 2 in states:
            add("vncauth-for-none-client", "the built-in VNC authentication handler was started (state RFB_AUTHENTICATION) "
                "for a client whose own security type is None (%s)" %
                ("reverse connection" if has_pw else "the screen has NO password data: the check runs on NULL"))
        if ss[:12] != SERVER_VERSION:
            if ss or final["st"] != -1:
                add("bad-server-version", "server version line is %r" % ss[:12])
            continue
        sp, cp = 12, 12

        def refused():
            return final["st"] == -1 and len(ss) == sp

        if len(cs) < 12:
            continue
        ver = sscanf_version(cs[:12])
        if ver is None or ver[0] != 3:
            if not refused():
                add("invalid-version-not-refused", "version line %r not refused" % cs[:12])
            continue
        minor = ver[1]
        d["minor"] = minor
        d["offer_op"] = sent_op(11)
        if minor < 7:
            if ss[sp:sp + 4] != primary.to_bytes(4, "big"):
                add("bad-security-type-33", "3.3 security type is %s, the screen requires %d" % (ss[sp:sp + 4].hex(), primary))
                continue
            sp += 4
            d["offered"], d["chosen"] = [primary], primary
            t = primary
        else:
            if len(ss) <= sp:
                add("no-security-types", "no security-type list sent")
                continue
            n = ss[sp]
            offered = list(ss[sp + 1:sp + 1 + n])
            sp += 1 + n
            d["offered"] = offered
            if primary not in offered:
                add("primary-type-not-offered", "list %s lacks the required type %d" % (offered, primary))
            # application handlers: exactly those the application has registered (and not unregistered)
            # so far must be advertised (rfb.h: unregistered types "won't be available for any new client")
            app_now = sorted(EXT_TYPES[k] for k, ev in ext_reg_times.items()
                             if [r for i, r in ev if i < d["offer_op"]][-1:] == [True])
            rest = list(offered)
            if primary in rest:
                rest.remove(primary)
            rest = sorted(x for x in rest)
            if rest != app_now and (3 - primary) not in [x for x in rest if x not in app_now]:
                missing = [x for x in app_now if rest.count(x) < app_now.count(x)]
                extra = [x for x in rest if rest.count(x) > app_now.count(x)]
                add("app-handlers-advertised-wrong",
                    "the application has registered handlers of types %s, the list sent is %s (%s)" %
                    (app_now, offered, "; ".join(filter(None, ["registered but not advertised: %s" % sorted(set(missing)) if missing else "",
                                                                "advertised although unregistered: %s" % sorted(set(extra)) if extra else ""]))),
                    kind="handler-list", missing=bool(missing), extra=bool(extra))
            n_ext_foreign = sum(1 for k, ev in ext_reg_times.items() if EXT_TYPES.get(k) == 3 - primary and
                                any(r and i < d["offer_op"] for i, r in ev))
            if offered.count(3 - primary) > n_ext_foreign:
                d["polluted"] = True
                add("foreign-builtin-offered", "the list %s sent to this client contains the built-in type %d although "
                    "the client's own type is %d%s" % (offered, 3 - primary, primary,
                                                       " (None offered on a password-protected screen)" if protected else ""))
            if len(cs) <= cp:
                continue
            t = cs[cp]
            cp += 1
            d["chosen"] = t
            d["choice_op"] = sent_op(cp - 1)
            if final["ext"]:
                continue                      # an application handler took the client: outside the property
            ext_same = ext_type_registered_ever(t, d["choice_op"])
            tight_reg = tight_mode and [r for i, r in ext_reg_times.get(2, []) if i < d["choice_op"]][-1:] == [True]
            if t == 16 and tight_reg and t in offered:
                # the library's TightVNC security type: tunnelling caps (none), authentication caps
                # (VNC authentication iff this client must prove the password), 4-byte choice
                if ss[sp:sp + 4] != b"\0\0\0\0":
                    if not refused():
                        add("tight-bad-caps", "no empty tunnelling-capability list after type 16: %s" % ss[sp:sp + 4].hex(), kind="tight")
                    continue
                sp += 4
                want_n = 1 if protected else 0
                if ss[sp:sp + 4] != want_n.to_bytes(4, "big"):
                    add("tight-bad-caps", "authentication-capability count %s, the screen requires %d" % (ss[sp:sp + 4].hex(), want_n), kind="tight")
                    continue
                sp += 4
                if want_n:
                    if ss[sp:sp + 16] != (2).to_bytes(4, "big") + b"STDV" + b"VNCAUTH_":
                        add("tight-bad-caps", "authentication capability is %s" % ss[sp:sp + 16].hex(), kind="tight")
                        continue
                    sp += 16
                    # the server reads the choice (and then the response) with blocking reads inside the
                    # handler: they must arrive in the same write as the type byte
                    if len(cs) < cp + 4 or sent_op(cp + 3) != d["choice_op"]:
                        continue
                    auth = int.from_bytes(cs[cp:cp + 4], "big")
                    cp += 4
                    d["tight_auth"] = auth
                    if auth != 2:
                        if not refused():
                            add("tight-unoffered-authtype-accepted",
                                "TightVNC authentication type %d was not in the capability list [2] sent, and was not refused" % auth,
                                kind="tight", auth=auth)
                        continue
                    if len(cs) >= cp + 16 and sent_op(cp + 15) != d["choice_op"]:
                        continue          # response too late: the blocking read has timed out
                    t = 2
                else:
                    t = 1
            if t not in (1, 2):
                if not refused():
                    add("unknown-type-accepted", "chose type %d (no such handler) and was not refused" % t, chosen=t)
                continue
            if t not in offered:
                if not refused():
                    add("unoffered-type-accepted",
                        "chose type %d which was not in the list %s sent to it, and was not refused" % (t, offered), chosen=t)
                continue
            if t != primary:
                continue                      # only possible with an application handler of a built-in type
            if refused():
                if not client_eof:
                    add("offered-type-refused", "chose the offered type %d and was dropped" % t, chosen=t)
                continue
        if t == 2:
            if len(ss) < sp + 16:
                add("no-challenge", "no challenge after VNC authentication was selected")
                continue
            if d.get("tight_auth") == 2 and len(cs) < cp + 16:
                continue                  # TightVNC path: the blocking read of the response timed out
            chal = ss[sp:sp + 16]
            sp += 16
            d["chal"] = chal
            if len(cs) < cp + 16:
                continue
            resp = cs[cp:cp + 16]
            cp += 16
            pws = pws_at(sent_op(cp - 1) if sent_op(cp - 1) is not None else len(ops))
            valid_idx = [i for i, pw in enumerate(pws) if vnc_encrypt(pw, chal) == resp]
            if scr["mode"] == "custom":
                # application callback of the harness: response = challenge xor 0x5a
                valid_idx = [0] if resp == bytes(b0 ^ 0x5a for b0 in chal) else []
            fvo_now = scr.get("fvo", 0)
            if scr["mode"] == "list":
                for e3 in scr["ltimeline"]:
                    if e3[0] <= (sent_op(cp - 1) if sent_op(cp - 1) is not None else len(ops)):
                        fvo_now = e3[2]
            weak = any(is_weak_key(vnc_key(pw)) for pw in pws)
            result = ss[sp:sp + 4]
            if valid_idx:
                d["proved"] = True
                weak = scr["mode"] != "custom" and is_weak_key(vnc_key(pws[valid_idx[0]]))
                if result != b"\0\0\0\0":
                    add("correct-response-rejected",
                        "response = DES(password #%d, challenge) answered with %s" % (valid_idx[0], result.hex() or "close"),
                        kind="weak-des-key" if weak else "auth", weak=weak)
                    continue
                sp += 4
                if scr["mode"] == "list":
                    want_vo = 1 if valid_idx[0] >= fvo_now else 0
                    k0 = sent_op(cp - 1)
                    vo_seen = [ob["vo"] for k, ob in c["obs"] if k0 is not None and k >= k0]
                    if vo_seen and vo_seen[-1] != want_vo:
                        add("viewonly-wrong", "password #%d (first view-only index %d): viewOnly=%d" %
                            (valid_idx[0], fvo_now, vo_seen[-1]))
                elif any(ob["vo"] for _, ob in c["obs"]):
                    add("viewonly-wrong", "viewOnly set on a password-file screen")
            else:
                if result == b"\0\0\0\0" or (sinit in ss):
                    add("echo-accepted" if resp == chal else "wrong-response-accepted",
                        "response %s to challenge %s is not the DES encryption under any configured password, "
                        "yet SecurityResult is OK" % (resp.hex(), chal.hex()),
                        kind="weak-des-key" if weak else "auth", weak=weak)
                    continue
                want = b"\0\0\0\1" + ((len(REASON).to_bytes(4, "big") + REASON) if minor > 7 else b"")
                if ss[sp:] != want or final["st"] != -1:
                    add("bad-refusal", "refusal is %s (state %d), expected %s and a closed connection" %
                        (ss[sp:].hex(), final["st"], want.hex()))
                continue
        else:
            if minor > 7 and (minor != 889 or d["chosen"] == 16):
                if ss[sp:sp + 4] != b"\0\0\0\0":
                    add("bad-none-result", "no SecurityResult OK after type None for 3.%d: %s" % (minor, ss[sp:sp + 4].hex()))
                    continue
                sp += 4
        # initialisation: ClientInit (implicit for the 3.889 client after type None) => ServerInit
        implicit = (t == 1 and minor == 889 and d["chosen"] != 16)
        if len(cs) > cp or implicit:
            if ss[sp:sp + len(sinit)] != sinit:
                add("no-server-init", "ClientInit answered with %s instead of ServerInit" % (ss[sp:sp + 40].hex() or "nothing"))
            elif len(ss) != sp + len(sinit) and len(cs) <= cp + (0 if implicit else 1) and d["chosen"] != 16:
                add("trailing-output", "unexpected bytes after ServerInit: %s" % ss[sp + len(sinit):].hex())
    # global soundness net (independent of the walk above)
    for d in info:
        if d and d["protected"] and d["admitted"] and not d["proved"]:
            if not any(f.conn == d["ci"] and f.symptom in ("admitted-without-proof", "echo-accepted",
                                                            "wrong-response-accepted") for f in findings):
                findings.append(Finding("admitted-without-proof", d["ci"],
                                        "connection %d admitted without proof" % d["ci"], chosen=d["chosen"]))
    if crashed_at is not None:
        o = ops[min(crashed_at + 0, len(ops) - 1)]
        # the crashing op is the first one without an observation
        nobs = sum(1 for l in impl_lines if l.startswith(("o ", "des ")))
        o = ops[min(nobs, len(ops) - 1)]
        ci = o.get("c") if o["op"] == "send" else (len(conns) if o["op"] == "conn" else None)
        sym = "crash"
        if ci is not None and ci < len(conns) and info[ci] is not None:
            d = info[ci]
            scr = screens[conns[ci]["s"]]
            if scr["mode"] == "none" and d["chosen"] == 2 and conns[ci]["obs"] and conns[ci]["obs"][-1][1]["st"] == 2:
                sym = "password-check-without-password"
        findings.append(Finding(sym, ci, "the library crashed while processing op %d (%s): %s" %
                                (nobs, o["op"], " ".join(l for l in impl_lines if l.startswith("x ")))))
    # classification of the global-list symptoms: what made the process-global list differ from what
    # this client was offered / needs?
    for f in findings:
        if f.symptom in ("admitted-without-proof", "unoffered-type-accepted", "offered-type-refused",
                         "password-check-without-password", "vncauth-for-none-client", "foreign-builtin-offered") \
                and f.conn is not None and f.conn < len(info) and info[f.conn]:
            d = info[f.conn]
            inter = False
            if d["offer_op"] is not None and d["minor"] is not None and d["minor"] >= 7:
                hi = d["choice_op"] if d["choice_op"] is not None else len(ops)
                for j, od in enumerate(info):
                    if od and j != d["ci"] and od["offer_op"] is not None and od["minor"] is not None and \
                       od["minor"] >= 7 and d["offer_op"] < od["offer_op"] <= hi and od["primary"] != d["primary"]:
                        inter = True
            if f.symptom == "admitted-without-proof":
                if d["chosen"] == 1 and d["minor"] is not None and d["minor"] >= 7:
                    f.symptom = "none-accepted-on-protected"
                else:
                    continue
            lo = d["offer_op"] if d["offer_op"] is not None else -1
            hi = d["choice_op"] if d["choice_op"] is not None else len(ops)
            unreg = any(o["op"] == "unreg" and lo < j < hi for j, o in enumerate(ops))
            if f.symptom == "foreign-builtin-offered":
                cause = "stale-next-resurrection"
            elif inter:
                cause = "rewritten-by-other-connection"
            elif unreg:
                cause = "app-unregister-chain"
            elif d["polluted"]:
                cause = "stale-next-resurrection"
            else:
                cause = "none"
            f.feat.update(kind="global-handler-list", cause=cause)
    return findings


# ================================================================ generators
VERSIONS_OK = [b"RFB 003.003\n", b"RFB 003.007\n", b"RFB 003.008\n", b"RFB 003.889\n", b"RFB 003.005\n",
               b"RFB 003.006\n", b"RFB 003.000\n", b"RFB 003.999\n", b"RFB 003.014\n", b"RFB 003.009\n"]
VERSIONS_ODD = [b"RFB   3.  8\n", b"RFB +03.+08\n", b"RFB 003.-01\n", b"RFB 003.008 ", b"RFB 3.7\n\n\n\n\n", b"RFB 03.7\0\0\0\0",
                b"RFB 003. 07\n", b"RFB 003.7xyz", b"RFB  03.889\n", b"RFB 003.-7\n\n", b"RFB 3.8\0junk"]
VERSIONS_BAD = [b"RFB 004.000\n", b"RFB 002.008\n", b"RFB 00a.008\n", b"RFB 003x008\n", b"RFB 003.\n\n\n\n", b"RFB .003008\n",
                b"RFB 033.008\n", b"RFB -03.008\n", b"RFB 003.+\n\n\n", b"RFB \0003.008"]
NORMAL_PWS = [b"password", b"secret12", b"a", b"ab", b"longpassword", b"longpassXYZ", b"p\xe4ssw\xf6rd", b"1234567",
              b"Zq!7\x7f\x01", b"\xff\xfe\xfd"]


class Planner:
    """reference simulation of the intended handshake, used only to plan inputs (which connection
    will be handed which challenge, what a correct response is)."""
    def __init__(self, rng, k, tag):
        self.rng, self.lines = rng, ["case %d %s" % (k, tag)]
        self.screens, self.conns = [], []
        self.queue = b""
        self.tags = set()

    def screen(self, mode, pws=None, fvo=None, content=None, name=None):
        w, h = self.rng.randint(1, 9), self.rng.randint(1, 9)
        name = name if name is not None else bytes(self.rng.choice(b"abcdefgh") for _ in range(self.rng.randint(0, 5))) + b"%d" % len(self.screens)
        if mode == "none":
            self.lines.append("screen %d %d %s none" % (w, h, hx(name)))
        elif mode == "custom":
            self.lines.append("screen %d %d %s custom" % (w, h, hx(name)))
        elif mode == "list":
            self.lines.append("screen %d %d %s list %d %s" % (w, h, hx(name), fvo, " ".join(hx(p) for p in pws)))
        else:
            self.lines.append("screen %d %d %s file %s" % (w, h, hx(name), hx(content)))
        scr = dict(mode=mode, pws=pws or [], fvo=fvo, content=content, w=w, h=h, name=name)
        self.screens.append(scr)
        return len(self.screens) - 1

    def passwords(self, s):
        return screen_passwords(self.screens[s])

    def setlist(self, s, pws, fvo):
        self.lines.append("setlist %d %d %s" % (s, fvo, " ".join(hx(p) for p in pws)))
        self.screens[s]["pws"], self.screens[s]["fvo"] = pws, fvo

    def setfile(self, s, content):
        self.lines.append("setfile %d %s" % (s, hx(content)))
        self.screens[s]["content"] = content

    def types(self, tys):
        self.lines.append("types %d %d %d %d" % tuple(tys))

    def rand_chal(self):
        r = self.rng.random()
        if r < 0.8:
            return bytes(self.rng.randrange(256) for _ in range(16))
        if r < 0.85:
            return b"\0" * 16
        if r < 0.9:
            return b"\xff" * 16
        b = bytes(self.rng.randrange(256) for _ in range(8))
        return b + b

    def _will_challenge(self, c, data):
        """does delivering data to connection c draw a challenge (intended behaviour)?"""
        st, buf = c["st"], data
        protected = self.screens[c["s"]]["mode"] != "none" and not c["rev"]
        draws = 0
        minor = c["minor"]
        while buf and st in ("pv", "sec"):
            if st == "pv":
                if len(buf) < 12:
                    break
                v = sscanf_version(buf[:12])
                buf = buf[12:]
                if v is None or v[0] != 3:
                    st = "x"
                    break
                minor = v[1]
                if minor < 7:
                    if protected:
                        draws += 1
                        st = "auth"
                    else:
                        st = "init"
                else:
                    st = "sec"
            elif st == "sec":
                t = buf[0]
                buf = buf[1:]
                if t == 2 and protected:
                    draws += 1
                    st = "auth"
                elif t == 1 and not protected:
                    st = "init"
                else:
                    st = "x"
        return draws

    def _advance(self, c, data, eof):
        protected = self.screens[c["s"]]["mode"] != "none" and not c["rev"]
        buf = data
        while c["st"] not in ("x", "normal"):
            need = {"pv": 12, "sec": 1, "auth": 16, "init": 1}[c["st"]]
            if not buf:
                break
            if len(buf) < need:
                c["st"] = "x"
                break
            m, buf = buf[:need], buf[need:]
            if c["st"] == "pv":
                v = sscanf_version(m)
                if v is None or v[0] != 3:
                    c["st"] = "x"
                    continue
                c["minor"] = v[1]
                if v[1] < 7:
                    if protected:
                        c["chal"], self.queue = (self.queue + b"\0" * 16)[:16], self.queue[16:]
                        c["st"] = "auth"
                    else:
                        c["st"] = "init"
                else:
                    c["st"] = "sec"
            elif c["st"] == "sec":
                if m[0] == 2 and protected:
                    c["chal"], self.queue = (self.queue + b"\0" * 16)[:16], self.queue[16:]
                    c["st"] = "auth"
                elif m[0] == 1 and not protected:
                    c["st"] = "normal" if c["minor"] == 889 else "init"
                else:
                    c["st"] = "x"
            elif c["st"] == "auth":
                ok = any(vnc_encrypt(p, c["chal"]) == m for p in self.passwords(c["s"])) or \
                     (self.screens[c["s"]]["mode"] == "custom" and m == bytes(b0 ^ 0x5a for b0 in c["chal"]))
                c["st"] = "init" if ok else "x"
            elif c["st"] == "init":
                c["st"] = "normal"
        if eof:
            c["st"] = "x"

    def _maybe_rand(self, c, data):
        for _ in range(self._will_challenge(c, data)):
            ch = self.rand_chal()
            self.queue += ch
            self.lines.append("rand " + hx(ch))

    def conn(self, s, rev=False, data=b"", eof=False):
        c = dict(s=s, rev=rev, st="pv", minor=None, chal=None)
        self._maybe_rand(c, data)
        self.lines.append("conn %d %d %d %s" % (s, 1 if rev else 0, 1 if eof else 0, hx(data)))
        self.conns.append(c)
        self._advance(c, data, eof)
        return len(self.conns) - 1

    def send(self, ci, data, eof=False):
        c = self.conns[ci]
        if c["st"] == "normal" and data:
            return                      # outside the model
        self._maybe_rand(c, data)
        self.lines.append("send %d %d %s" % (ci, 1 if eof else 0, hx(data)))
        self._advance(c, data, eof)

    def response(self, ci, kind, pw=None):
        c = self.conns[ci]
        ch = c["chal"] if c["chal"] is not None else bytes(self.rng.randrange(256) for _ in range(16))
        pws = self.passwords(c["s"])
        if kind == "correct":
            if self.screens[c["s"]]["mode"] == "custom":
                return bytes(b0 ^ 0x5a for b0 in ch)
            p = pw if pw is not None else (self.rng.choice(pws) if pws else b"x")
            return vnc_encrypt(p, ch)
        if kind == "echo":
            return ch
        if kind == "zeros":
            return b"\0" * 16
        if kind == "flip":
            p = pw if pw is not None else (self.rng.choice(pws) if pws else b"x")
            r = bytearray(vnc_encrypt(p, ch))
            r[self.rng.randrange(16)] ^= 1 << self.rng.randrange(8)
            return bytes(r)
        if kind == "half":
            p = pw if pw is not None else (self.rng.choice(pws) if pws else b"x")
            r = vnc_encrypt(p, ch)
            return r[:8] + bytes(self.rng.randrange(256) for _ in range(8))
        if kind == "truncpw":
            # the password without its last significant character (8-character passwords: the 7-byte prefix)
            p = pw if pw is not None else (self.rng.choice(pws) if pws else b"x")
            p = p.split(b"\0")[0][:8]
            return vnc_encrypt(p[:-1] if len(p) > 1 else p + b"x", ch)
        if kind == "otherpw":
            return vnc_encrypt(self.rng.choice(NORMAL_PWS) + b"!", ch)
        if kind == "stale":
            p = pw if pw is not None else (self.rng.choice(pws) if pws else b"x")
            return vnc_encrypt(p, bytes(self.rng.randrange(256) for _ in range(16)))
        return bytes(self.rng.randrange(256) for _ in range(16))


RESP_KINDS = ["correct", "correct", "correct", "echo", "zeros", "flip", "half", "otherpw", "stale", "random", "truncpw"]


def pick_pw_screen(pl, rng, weak_pool, force_weak=False):
    mode = rng.choice(["list", "list", "list", "file"])
    if mode == "list":
        n = rng.choice([0, 1, 1, 2, 3, 4])
        pws = [rng.choice(weak_pool) if (force_weak or rng.random() < 0.15) else rng.choice(NORMAL_PWS) for _ in range(n)]
        if force_weak and not pws:
            pws = [rng.choice(weak_pool)]
        fvo = rng.choice([0, 1, 1, 2, n, n + 1, 100])
        return pl.screen("list", pws=pws, fvo=fvo)
    r = rng.random()
    if r < 0.75 or force_weak:
        pw = rng.choice(weak_pool) if (force_weak or rng.random() < 0.15) else rng.choice(NORMAL_PWS)
        content = passwd_file_content(pw[:8])
        if rng.random() < 0.2:
            content += b"extra"
    elif r < 0.9:
        content = bytes(rng.randrange(256) for _ in range(rng.randint(0, 7)))
    else:
        content = bytes(rng.randrange(256) for _ in range(8))
    return pl.screen("file", content=content)


def gen_single(rng, k, weak_pool, cls):
    """one connection, one screen: version x choice x response x ClientInit"""
    pl = Planner(rng, k, cls)
    if cls == "open":
        s = pl.screen("none")
    else:
        s = pick_pw_screen(pl, rng, weak_pool, force_weak=(cls == "weak"))
    rev = rng.random() < (0.5 if cls == "reverse" else 0.05)
    r = rng.random()
    ver = rng.choice(VERSIONS_OK[:4]) if r < 0.75 else (rng.choice(VERSIONS_OK) if r < 0.9 else rng.choice(VERSIONS_ODD))
    if not ver.startswith(b"RFB "):
        ci = pl.conn(s, rev)
        pl.send(ci, ver)
    else:
        ci = pl.conn(s, rev, ver)
    c = pl.conns[ci]
    if c["st"] == "sec":
        protected = pl.screens[s]["mode"] != "none" and not rev
        r = rng.random()
        t = (2 if protected else 1) if r < 0.8 else rng.choice([0, 1, 2, 16, 30, 5, 255, rng.randrange(256)])
        pl.send(ci, bytes([t]))
    if c["st"] == "auth":
        kind = rng.choice(RESP_KINDS if cls != "weak" else ["correct", "correct", "echo", "echo", "zeros", "flip", "random"])
        resp = pl.response(ci, kind)
        if rng.random() < 0.06:
            pl.send(ci, resp[:rng.randint(1, 15)], eof=rng.random() < 0.7)
        else:
            pl.send(ci, resp)
    if c["st"] == "init":
        pl.send(ci, bytes([rng.choice([1, 1, 1, 0, 7])]), eof=rng.random() < 0.1)
    pl.lines[0] += " " + ver[4:11].decode("latin1").replace(" ", "_").replace("\n", "").replace("\0", "0")
    return pl.lines


def gen_malformed(rng, k, weak_pool):
    pl = Planner(rng, k, "malformed")
    s = pick_pw_screen(pl, rng, weak_pool) if rng.random() < 0.7 else pl.screen("none")
    r = rng.random()
    if r < 0.35:
        ver = rng.choice(VERSIONS_BAD + VERSIONS_ODD)
        if ver.startswith(b"RFB "):
            ci = pl.conn(s, False, ver)
        else:
            ci = pl.conn(s, False)
            pl.send(ci, ver)
        if pl.conns[ci]["st"] == "sec":
            pl.send(ci, bytes([rng.randrange(256)]))
    elif r < 0.55:
        # truncated version line
        ver = rng.choice(VERSIONS_OK)[:rng.randint(4, 11)]
        ci = pl.conn(s, False, ver, eof=rng.random() < 0.6)
    elif r < 0.8:
        # everything in one write: version + type + guessed response + ClientInit
        ver = rng.choice(VERSIONS_OK[:4])
        blob = ver + bytes([rng.choice([1, 2])]) + bytes(rng.randrange(256) for _ in range(rng.choice([0, 1, 16, 17])))
        ci = pl.conn(s, rng.random() < 0.2, blob, eof=rng.random() < 0.3)
    else:
        ver = rng.choice(VERSIONS_OK[:4])
        ci = pl.conn(s, False, ver)
        for _ in range(rng.randint(1, 3)):
            if pl.conns[ci]["st"] in ("x", "normal"):
                break
            pl.send(ci, bytes(rng.randrange(256) for _ in range(rng.choice([1, 1, 2, 15, 16, 17]))), eof=rng.random() < 0.2)
    return pl.lines


def gen_interleave(rng, k, weak_pool, with_ext=False):
    """several screens (protected and open), several clients, handshakes interleaved message by
    message; every client picks its type among the offered one, the other built-in type and
    application types"""
    pl = Planner(rng, k, "interleave-ext" if with_ext else "interleave")
    nscr = rng.choice([2, 2, 3])
    kinds = ["pw", "open"] + [rng.choice(["pw", "open"]) for _ in range(nscr - 2)]
    rng.shuffle(kinds)
    sids = [pick_pw_screen(pl, rng, weak_pool) if kd == "pw" else pl.screen("none") for kd in kinds]
    ncl = rng.choice([2, 2, 3, 4])
    progs = []
    for i in range(ncl):
        s = rng.choice(sids)
        rev = rng.random() < 0.15
        ver = rng.choice([b"RFB 003.008\n"] * 5 + [b"RFB 003.007\n"] * 3 + [b"RFB 003.003\n", b"RFB 003.889\n"])
        honest = rng.random() < 0.45
        progs.append(dict(s=s, rev=rev, ver=ver, honest=honest, ci=None, done=False))
    if with_ext:
        if rng.random() < 0.5:
            # arbitrary security types of the application handlers: TightVNC (16), other registered
            # numbers, collisions with the built-in types, 0 and 255
            pool = [16, 16, 30, 5, 6, 17, 18, 19, 20, 77, 129, 200, 255, 0, 1, 2]
            pl.types([rng.choice(pool) for _ in range(4)])
        for _ in range(rng.randint(0, 2)):
            pl.lines.append("reg %d" % rng.randint(2, 5))
    steps = 0
    while not all(p["done"] for p in progs) and steps < 40:
        steps += 1
        if with_ext and rng.random() < 0.15:
            pl.lines.append("%s %d" % (rng.choice(["reg", "reg", "unreg"]), rng.randint(2, 5)))
            continue
        p = rng.choice([q for q in progs if not q["done"]])
        if p["ci"] is None:
            p["ci"] = pl.conn(p["s"], p["rev"], p["ver"])
            continue
        c = pl.conns[p["ci"]]
        protected = pl.screens[p["s"]]["mode"] != "none" and not p["rev"]
        if c["st"] == "sec":
            if p["honest"]:
                t = 2 if protected else 1
            else:
                t = rng.choice([1, 1, 2, 2, 16, 30, 0])
            pl.send(p["ci"], bytes([t]))
            if pl.conns[p["ci"]]["st"] == "x":
                # the reference refuses; an implementation that does not may go on: feed it a
                # plausible continuation so that a wrongly admitted client becomes visible
                p["tail"] = [bytes(rng.randrange(256) for _ in range(16)) if t == 2 else bytes([1])]
                p["after"] = True
        elif c["st"] == "auth":
            kind = "correct" if p["honest"] else rng.choice(RESP_KINDS)
            pl.send(p["ci"], pl.response(p["ci"], kind))
        elif c["st"] == "init":
            pl.send(p["ci"], bytes([1 if rng.random() < 0.85 else 0]))
        elif c["st"] == "x" and p.get("after") and p.get("tail"):
            pl.lines.append("send %d 0 %s" % (p["ci"], hx(p["tail"].pop(0))))
            if not p["tail"]:
                p["done"] = True
        else:
            p["done"] = True
    return pl.lines


def gen_f1_patterns(rng, k, weak_pool):
    """directed: X on a protected screen is parked in RFB_SECURITY_TYPE while Y (open screen or
    reverse connection, or the other way round) gets its list; then X / Y choose."""
    pl = Planner(rng, k, "parked")
    sp = pick_pw_screen(pl, rng, weak_pool)
    so = pl.screen("none")
    first = rng.choice(["protected", "open"])
    vx = rng.choice([b"RFB 003.008\n", b"RFB 003.007\n", b"RFB 003.889\n"])
    vy = rng.choice([b"RFB 003.008\n", b"RFB 003.007\n", b"RFB 003.889\n"])
    y_rev_on_protected = rng.random() < 0.3
    if first == "protected":
        x = pl.conn(sp, False, vx)
        y = pl.conn(sp, True, vy) if y_rev_on_protected else pl.conn(so, False, vy)
    else:
        x = pl.conn(sp, True, vx) if y_rev_on_protected else pl.conn(so, False, vx)
        y = pl.conn(sp, False, vy)
    order = [x, y] if rng.random() < 0.7 else [y, x]
    for ci in order:
        c = pl.conns[ci]
        protected = pl.screens[c["s"]]["mode"] != "none" and not c["rev"]
        t = rng.choice([1, 2])
        pl.send(ci, bytes([t]))
        if pl.conns[ci]["st"] == "auth":
            pl.send(ci, pl.response(ci, rng.choice(["correct", "correct", "echo", "random"])))
        elif pl.conns[ci]["st"] == "x":
            # continuation for an implementation that did not refuse
            if t == 2:
                pl.lines.append("send %d 0 %s" % (ci, hx(bytes(rng.randrange(256) for _ in range(16)))))
            else:
                pl.lines.append("send %d 0 01" % ci)
            continue
        if pl.conns[ci]["st"] == "init":
            pl.send(ci, b"\1")
    return pl.lines


def gen_filechange(rng, k, weak_pool):
    """password-FILE screens whose file is rewritten between connections, and between the challenge
    and the response of a connection (rfbDefaultPasswordCheck reads the file at every check)"""
    pl = Planner(rng, k, "file-change")
    pa, pb = rng.sample(NORMAL_PWS + weak_pool[:4], 2)
    s = pl.screen("file", content=passwd_file_content(pa[:8]))
    other = pl.screen("none") if rng.random() < 0.4 else None
    vers = [b"RFB 003.003\n", b"RFB 003.007\n", b"RFB 003.008\n"]

    def handshake_until_auth():
        ci = pl.conn(s, False, rng.choice(vers))
        if pl.conns[ci]["st"] == "sec":
            pl.send(ci, b"\2")
        return ci

    def new_content():
        r = rng.random()
        if r < 0.7:
            return passwd_file_content(pb[:8])
        if r < 0.85:
            return bytes(rng.randrange(256) for _ in range(rng.randint(0, 7)))      # unreadable: too short
        return passwd_file_content(pa[:8]) + b"tail"

    a = handshake_until_auth()
    if rng.random() < 0.5:
        pl.send(a, pl.response(a, "correct"))
        if pl.conns[a]["st"] == "init":
            pl.send(a, b"\1")
        pl.setfile(s, new_content())
    else:
        # the file changes while the client holds its challenge
        pl.setfile(s, new_content())
        pl.send(a, pl.response(a, rng.choice(["correct", "correct", "random"]), pw=rng.choice([pa, pb, None])))
        if pl.conns[a]["st"] == "init":
            pl.send(a, b"\1")
    if other is not None:
        o = pl.conn(other, False, b"RFB 003.008\n")
        pl.send(o, b"\1")
    for pw in rng.sample([pa, pb, pa, pb], 3):
        ci = handshake_until_auth()
        if pl.conns[ci]["st"] == "auth":
            pl.send(ci, pl.response(ci, "correct", pw=pw))
        if pl.conns[ci]["st"] == "init":
            pl.send(ci, b"\1")
        if rng.random() < 0.3:
            pl.setfile(s, new_content() if rng.random() < 0.6 else passwd_file_content(pa[:8]))
    return pl.lines


def gen_fvo_sweep(rng, k0):
    """rfbCheckPasswordByList: authPasswdFirstViewOnly at EVERY position (-1 .. n+1) of lists of 1..4
    passwords (also with the same password twice), the client proving each password in turn"""
    cases = []
    base = [b"alpha", b"bravo", b"charlie", b"delta"]
    lists = [base[:n] for n in (1, 2, 3, 4)] + [[b"alpha", b"bravo", b"alpha"], [b"same", b"same"]]
    for pws in lists:
        for fvo in range(-1, len(pws) + 2):
            for idx in range(len(pws)):
                pl = Planner(rng, k0 + len(cases), "fvo-sweep")
                s = pl.screen("list", pws=pws, fvo=fvo)
                ci = pl.conn(s, False, rng.choice([b"RFB 003.003\n", b"RFB 003.008\n"]))
                if pl.conns[ci]["st"] == "sec":
                    pl.send(ci, b"\2")
                pl.send(ci, pl.response(ci, "correct", pw=pws[idx]))
                if pl.conns[ci]["st"] == "init":
                    pl.send(ci, b"\1")
                cases.append(pl.lines)
    return cases


def gen_tight(rng, k, weak_pool):
    """the application registered the TightVNC file-transfer extension (security type 16, object 2 is
    the library's own handler): nested negotiation tunnelling caps / authentication caps / choice /
    challenge / response, all client bytes in one write (the handler reads them with blocking reads)"""
    L = ["case %d tight" % k, "tight 1"]
    kind = rng.choice(["list", "list", "file", "none"])
    pw = rng.choice(NORMAL_PWS + weak_pool[:3])
    if kind == "list":
        pws = [pw] + [rng.choice(NORMAL_PWS) for _ in range(rng.randint(0, 2))]
        rng.shuffle(pws)
        L.append("screen 4 3 7470 list %d %s" % (rng.choice([0, 1, 5]) if rng.random() < 0.3 else 9, " ".join(hx(p) for p in pws)))
    elif kind == "file":
        L.append("screen 4 3 7466 file %s" % hx(passwd_file_content(pw[:8])))
    else:
        L.append("screen 4 3 746f none")
    other = rng.random() < 0.4
    if other:
        L.append("screen 2 2 6f none" if kind != "none" else "screen 2 2 70 list 1 %s" % hx(rng.choice(NORMAL_PWS)))
    if rng.random() < 0.3:
        L.append("reg %d" % rng.randint(3, 5))
    L.append("reg 2")
    if rng.random() < 0.15:
        L += ["unreg 2", "reg 2"]
    rev = rng.random() < 0.15
    ver = rng.choice([b"RFB 003.008\n"] * 3 + [b"RFB 003.007\n"] * 2 + [b"RFB 003.889\n"])
    L.append("conn 0 %d 0 %s" % (1 if rev else 0, hx(ver)))
    ci = 0
    if other and rng.random() < 0.6:
        L.append("conn 1 0 0 %s" % hx(rng.choice([b"RFB 003.008\n", b"RFB 003.007\n"])))
    protected = kind != "none" and not rev
    ch = bytes(rng.randrange(256) for _ in range(16))
    auth = rng.choice([2, 2, 2, 2, 1, 1, 0, 5, 16, 0x01000000, 0x02000000, 0xffffffff]) if protected else None
    msg = b"\x10"
    if protected:
        msg += auth.to_bytes(4, "big")
        if auth == 2:
            L.append("rand " + hx(ch))
        r = rng.random()
        good = vnc_encrypt(pw.split(b"\0")[0], ch)
        resp = good if r < 0.5 else (ch if r < 0.65 else (b"\0" * 16 if r < 0.75 else (
            bytes([good[0] ^ 1]) + good[1:] if r < 0.9 else b"")))
        split = rng.random() < 0.12
        if split:
            L.append("send %d 0 %s" % (ci, hx(msg)))
            if resp:
                L.append("send %d 0 %s" % (ci, hx(resp)))
        else:
            L.append("send %d 0 %s" % (ci, hx(msg + resp)))
    else:
        L.append("send %d 0 %s" % (ci, hx(msg + (b"\0\0\0\1" if rng.random() < 0.2 else b""))))
    L.append("send %d 0 %s" % (ci, hx(bytes([rng.choice([1, 1, 0])]))))
    return L


def gen_custom(rng, k, weak_pool):
    """a screen whose passwordCheck is an application callback (response = challenge xor 0x5a)"""
    pl = Planner(rng, k, "custom")
    s = pl.screen("custom")
    if rng.random() < 0.4:
        o = pl.screen("none")
        pl.conn(o, False, b"RFB 003.008\n")
    ci = pl.conn(s, rng.random() < 0.1, rng.choice([b"RFB 003.003\n", b"RFB 003.007\n", b"RFB 003.008\n", b"RFB 003.889\n"]))
    if pl.conns[ci]["st"] == "sec":
        pl.send(ci, bytes([rng.choice([2, 2, 2, 1, 16])]))
    if pl.conns[ci]["st"] == "auth":
        kind = rng.choice(["correct", "correct", "echo", "zeros", "flip", "random"])
        r = pl.response(ci, kind)
        if kind == "flip":
            r0 = bytearray(pl.response(ci, "correct")); r0[rng.randrange(16)] ^= 1 << rng.randrange(8); r = bytes(r0)
        pl.send(ci, r)
    if pl.conns[ci]["st"] == "init":
        pl.send(ci, b"\1")
    return pl.lines


def gen_listchange(rng, k, weak_pool):
    """authPasswdData / authPasswdFirstViewOnly of a password-list screen replaced between connections and
    between the challenge and the response of a connection"""
    pl = Planner(rng, k, "list-change")
    pa, pb, pc = rng.sample(NORMAL_PWS + weak_pool[:3], 3)
    s = pl.screen("list", pws=[pa], fvo=rng.choice([0, 1, 1]))
    vers = [b"RFB 003.003\n", b"RFB 003.007\n", b"RFB 003.008\n"]
    def to_auth():
        ci = pl.conn(s, False, rng.choice(vers))
        if pl.conns[ci]["st"] == "sec":
            pl.send(ci, b"\2")
        return ci
    for _ in range(rng.randint(2, 4)):
        ci = to_auth()
        if rng.random() < 0.6:
            pl.setlist(s, rng.choice([[pb], [pa, pb], [pb, pa], [pc, pa, pb], []]), rng.choice([0, 1, 2]))
        if pl.conns[ci]["st"] == "auth":
            pl.send(ci, pl.response(ci, "correct", pw=rng.choice([pa, pb, pc, None])))
        if pl.conns[ci]["st"] == "init":
            pl.send(ci, b"\1")
        if rng.random() < 0.4:
            pl.setlist(s, rng.choice([[pa], [pb, pc], [pa, pb, pc]]), rng.choice([0, 1, 3]))
    return pl.lines


def gen_encfail(rng, k, weak_pool):
    """the DES backend fails (gcry_cipher_setkey refuses every key): rfbEncryptBytes fails closed with
    random bytes, rfbDecryptPasswdFromFile returns NULL: nobody is let in by the built-in callbacks"""
    pl = Planner(rng, k, "encfail")
    s = pick_pw_screen(pl, rng, weak_pool)
    pws = pl.passwords(s)
    ci = pl.conn(s, False, rng.choice([b"RFB 003.003\n", b"RFB 003.008\n", b"RFB 003.007\n"]))
    if pl.conns[ci]["st"] == "sec":
        pl.send(ci, b"\2")
    when = rng.random()
    if when < 0.7:
        pl.lines.append("encfail 1")
    if pl.conns[ci]["st"] == "auth":
        pl.send(ci, pl.response(ci, rng.choice(["correct", "correct", "echo", "zeros", "random"])))
    if when >= 0.7:
        pl.lines.append("encfail 1")
        c2 = pl.conn(s, False, b"RFB 003.008\n")
        pl.send(c2, b"\2")
        if pl.conns[c2]["st"] == "auth":
            pl.send(c2, pl.response(c2, "correct"))
    # whatever the planner believes, feed ClientInit to every connection: an implementation that let
    # somebody in becomes visible
    for j in range(len(pl.conns)):
        pl.lines.append("send %d 0 01" % j)
    return pl.lines


def gen_udp(rng, k, weak_pool):
    """screens with the UDP input port open (screen->udpPort): datagrams from a peer that never spoke RFB,
    on protected and open screens, interleaved with ordinary handshakes"""
    pl = Planner(rng, k, "udp")
    sp = pick_pw_screen(pl, rng, weak_pool)
    so = pl.screen("none")
    for s in rng.sample([sp, so], rng.choice([1, 2, 2])):
        pl.lines.append("udpon %d" % s)
    key = lambda: bytes([4, rng.randrange(2), 0, 0]) + rng.randrange(1 << 16).to_bytes(4, "big")
    ptr = lambda: bytes([5, rng.randrange(8)]) + rng.randrange(1 << 16).to_bytes(2, "big") + rng.randrange(1 << 16).to_bytes(2, "big")
    ci = None
    for _ in range(rng.randint(2, 7)):
        r = rng.random()
        s = rng.choice([sp, sp, so])
        if r < 0.35:
            pl.lines.append("udp %d %s" % (s, hx(key())))
        elif r < 0.6:
            pl.lines.append("udp %d %s" % (s, hx(ptr())))
        elif r < 0.75:
            bad = rng.choice([key()[:rng.randint(1, 7)], ptr() + b"x", bytes([rng.choice([0, 2, 3, 6, 255])]) + bytes(7), key() + b"yy"])
            pl.lines.append("udp %d %s" % (s, hx(bad)))
        elif ci is None:
            ci = pl.conn(sp, False, b"RFB 003.008\n")
        elif pl.conns[ci]["st"] == "sec":
            pl.send(ci, b"\2")
        elif pl.conns[ci]["st"] == "auth":
            pl.send(ci, pl.response(ci, rng.choice(["correct", "random"])))
    return pl.lines


def gen_des(rng, k, weak_pool):
    L = ["case %d des" % k]
    for _ in range(6):
        pw = rng.choice(weak_pool) if rng.random() < 0.4 else (
            rng.choice(NORMAL_PWS) if rng.random() < 0.5 else bytes(rng.randrange(1, 256) for _ in range(rng.randint(0, 10))))
        if rng.random() < 0.2 and pw in weak_pool:
            pw = bytes((b | 0x80) if rng.random() < 0.5 else b for b in pw)      # parity bit is ignored
        blk = bytes(rng.randrange(256) for _ in range(16))
        L.append("des %s %s" % (hx(pw), hx(blk)))
    return L


def corpus_cases(k0):
    cases = []
    cdir = os.path.join(vlib.VERIF, "corpus", "C05")
    if os.path.isdir(cdir):
        for fn in sorted(os.listdir(cdir)):
            lines = [l for l in open(os.path.join(cdir, fn)).read().split("\n") if l.strip() and not l.startswith("#")]
            if not lines:
                continue
            if lines[0].startswith("case "):
                lines[0] = "case %d corpus:%s" % (k0 + len(cases), fn)
            else:
                lines = ["case %d corpus:%s" % (k0 + len(cases), fn)] + lines
            cases.append(lines)
    return cases


def gen_cases(ctx):
    rng = ctx.rng
    weak_pool = weak_passwords()
    cases = corpus_cases(0)
    scale = 2 if ctx.quick() else 16
    plan = [("protected", 500), ("weak", 160), ("open", 120), ("reverse", 100)]
    for cls, n in plan:
        for _ in range(n * scale):
            cases.append(gen_single(rng, len(cases), weak_pool, cls))
    # every representable weak-key password once, echoed challenge and correct response
    for pw in weak_pool:
        for kind in ("echo", "correct"):
            pl = Planner(rng, len(cases), "weak-sweep")
            s = pl.screen("list", pws=[pw], fvo=1)
            ci = pl.conn(s, False, b"RFB 003.008\n")
            pl.send(ci, b"\2")
            pl.send(ci, pl.response(ci, kind))
            if pl.conns[ci]["st"] == "init":
                pl.send(ci, b"\1")
            cases.append(pl.lines)
    # every security-type byte 0..255, chosen by a client of a protected screen and by a client of
    # an open screen whose handshakes are interleaved
    for tb in range(256):
        pl = Planner(rng, len(cases), "type-sweep")
        sp = pl.screen("list", pws=[rng.choice(NORMAL_PWS)], fvo=1)
        so = pl.screen("none")
        order = rng.random() < 0.5
        x = pl.conn(sp if order else so, False, rng.choice([b"RFB 003.008\n", b"RFB 003.007\n"]))
        y = pl.conn(so if order else sp, False, rng.choice([b"RFB 003.008\n", b"RFB 003.007\n"]))
        for ci in (x, y):
            pl.send(ci, bytes([tb]))
            if pl.conns[ci]["st"] == "auth":
                pl.send(ci, pl.response(ci, "correct"))
            if pl.conns[ci]["st"] == "init":
                pl.send(ci, b"\1")
        cases.append(pl.lines)
    for _ in range(250 * scale):
        cases.append(gen_malformed(rng, len(cases), weak_pool))
    for _ in range(500 * scale):
        cases.append(gen_interleave(rng, len(cases), weak_pool))
    for _ in range(250 * scale):
        cases.append(gen_interleave(rng, len(cases), weak_pool, with_ext=True))
    for _ in range(300 * scale):
        cases.append(gen_f1_patterns(rng, len(cases), weak_pool))
    for _ in range(40 * scale):
        cases.append(gen_des(rng, len(cases), weak_pool))
    for _ in range(150 * scale):
        cases.append(gen_filechange(rng, len(cases), weak_pool))
    for _ in range(200 * scale):
        cases.append(gen_tight(rng, len(cases), weak_pool))
    for _ in range(120 * scale):
        cases.append(gen_udp(rng, len(cases), weak_pool))
    for _ in range(100 * scale):
        cases.append(gen_custom(rng, len(cases), weak_pool))
    for _ in range(120 * scale):
        cases.append(gen_listchange(rng, len(cases), weak_pool))
    for _ in range(80 * scale):
        cases.append(gen_encfail(rng, len(cases), weak_pool))
    cases += gen_fvo_sweep(rng, len(cases))
    cases = [c for c in cases if script_ok(c)]
    for i, c in enumerate(cases):
        p = c[0].split(" ", 2)
        c[0] = "case %d %s" % (i, p[2] if len(p) > 2 else "")
    return cases


# ================================================================ running
def sync_extraction(pid, extract_vo):
    """The Extraction command writes to <verif>/build/ocaml/<pid>/ (path relative to coq/), while
    vlib.build_ocaml reads VERIF_BUILD/ocaml/<pid>/: with a scratch VERIF_BUILD copy the files over
    (and force a re-extraction if they are missing)."""
    import shutil
    src = os.path.join(vlib.VERIF, "build", "ocaml", pid)
    if not os.path.exists(os.path.join(src, "model.ml")):
        os.makedirs(src, exist_ok=True)
        vo = os.path.join(vlib.COQ, extract_vo)
        if os.path.exists(vo):
            os.unlink(vo)
        vlib.coq_make([extract_vo])
    dst = os.path.join(vlib.BUILD, "ocaml", pid)
    if os.path.abspath(src) != os.path.abspath(dst) and os.path.exists(os.path.join(src, "model.ml")):
        os.makedirs(dst, exist_ok=True)
        for fn in ("model.ml", "model.mli"):
            s, d = os.path.join(src, fn), os.path.join(dst, fn)
            if not os.path.exists(d) or open(s, "rb").read() != open(d, "rb").read():
                shutil.copy(s, d)


def build(ctx):
    cexe = vlib.build_harness("vdrv_auth", ["vdrv_auth.c"], wraps=("random", "gcry_cipher_setkey"))
    proof_ok = vlib.prove(ctx, PROP_FILE, [EXTRACT])
    sync_extraction("C05", EXTRACT)
    mexe = vlib.build_ocaml("C05", "driver_C05.ml", EXTRACT)
    return cexe, mexe, proof_ok


def run_impl(ctx, cases, cexe):
    script = "\n".join("\n".join(c) for c in cases) + "\n"
    return vlib.run_driver([cexe, ctx.scratch], script, timeout=3000)


VARIANT = {"single": "0", "udp": "0"}      # which rfbUnregisterSecurityHandler the library has (probe_variant)

PROBE = ["case 0 probe", "screen 1 1 70 none", "reg 2", "reg 3", "unreg 3", "conn 0 0 0 " + b"RFB 003.008\n".hex()]


def probe_variant(ctx, cexe):
    """Both list-handling variants are mirrored (cfg_unreg_single) and have the same theorems: find out
    which one the library implements.  reg e2; reg e3; unreg e3: the code as of 39c3ee3 also drops e2
    (recursion on ->next), notes/fix_C05_3.diff keeps it, so type 16 is (not) advertised."""
    rc, co, ce = run_impl(ctx, [PROBE], cexe)
    cs = vlib.split_cases(co)
    single = "0"
    try:
        _, conns = parse_obs(cs[0][1][-1])
        out = conns[0]["out"]
        n = out[12]
        if 16 in out[13:13 + n]:
            single = "1"
    except Exception:
        pass
    VARIANT["single"] = single
    # UDP input on a password-protected screen: delivered (HEAD) or dropped (notes/fix_C05_4.diff)?
    rc, co, ce = run_impl(ctx, [["case 0 probe-udp", "screen 1 1 70 list 1 70", "udpon 0", "udp 0 0401000000000061"]], cexe)
    cs = vlib.split_cases(co)
    try:
        flags, _ = parse_obs(cs[0][1][-1])
        VARIANT["udp"] = "0" if int(flags.get("in", 0)) > 0 else "1"
    except Exception:
        VARIANT["udp"] = "0"
    return single


def run_model(ctx, cases, mexe, legacy=False):
    script = "\n".join("\n".join(c) for c in cases) + "\n"
    exe = [mexe, "1", "1", "0", "0"] if legacy else [mexe, "0", "0", VARIANT["single"], VARIANT["udp"]]
    return vlib.run_driver(exe, script, timeout=3000, unlimited_stack=True)


TIGHT_CAPS_LEN = 8 + 16 * (4 + 6 + 12)      # rfbSendInteractionCaps: header + server / client / encoding capabilities


def strip_interaction_caps(lines, impl_lines):
    """TightVNC clients are sent the interaction capabilities right after ServerInit (rfbTightExtensionInit).
    That traffic follows the admission and is not part of C05 (and for a view-only client part of it is
    uninitialised stack memory, see notes/C05.md): cut it from the implementation's observations."""
    if not any(l.startswith("tight 1") for l in lines):
        return impl_lines
    screens, conn_screen = [], []
    for o in parse_script(lines):
        if o["op"] == "screen":
            screens.append(server_init(o["scr"]))
        elif o["op"] == "conn":
            conn_screen.append(o["s"])
    out = []
    for l in impl_lines:
        if not l.startswith("o "):
            out.append(l)
            continue
        parts = l.split(" | ")
        for i in range(1, len(parts)):
            f = parts[i].split(",")
            ci = i - 1
            if ci < len(conn_screen) and conn_screen[ci] < len(screens) and f[3] != "-":
                b = unhx(f[3])
                si = screens[conn_screen[ci]]
                k = b.find(si)
                rest = b[k + len(si):] if k >= 0 else b""
                if len(rest) >= 8 and rest[6:8] == b"\0\0":
                    ns, nc, ne = (int.from_bytes(rest[j:j + 2], "big") for j in (0, 2, 4))
                    # file transfer announced (4 + 6 message capabilities) or, for a view-only client /
                    # disabled file transfer, none (c3e8ae4); always the 12 encoding capabilities
                    if (ns, nc) in ((4, 6), (0, 0)) and ne == 12 and len(rest) == 8 + 16 * (ns + nc + ne):
                        f[3] = hx(b[:k + len(si)])
                        parts[i] = ",".join(f)
        out.append(" | ".join(parts))
    return out


def case_class(c):
    p = c[0].split()
    k = p[2] if len(p) > 2 else "?"
    return "corpus" if k.startswith("corpus") else k


def handshake_signature(lines, impl_lines):
    """(class of outcome) used to count distinct non-trivial evaluations"""
    sig = []
    for l in impl_lines:
        if l.startswith("o "):
            _, conns = parse_obs(l)
            sig = [(c["st"], c["vo"], len(c["out"])) for c in conns]
    return tuple(sig)


def check(ctx):
    cexe, mexe, proof_ok = build(ctx)
    single = probe_variant(ctx, cexe)
    cases = gen_cases(ctx)
    rc1, cout, cerr = run_impl(ctx, cases, cexe)
    rc2, mout, merr = run_model(ctx, cases, mexe)
    cc, mc = vlib.split_cases(cout), vlib.split_cases(mout)
    nops = sum(len(c) - 1 for c in cases)
    hist, distinct = {}, set()
    mismatches, failing = [], []
    unmodelled = 0
    for idx, c in enumerate(cases):
        il = strip_interaction_caps(c, cc[idx][1] if idx < len(cc) else [])
        ml = mc[idx][1] if idx < len(mc) else []
        d = vlib.first_diff(il, ml)
        if any(" unmod=1" in l for l in ml):
            d = None                      # bytes after ClientInit: outside the model, not compared
            unmodelled += 1
        fs = oracle_case(c, il)
        hist[case_class(c)] = hist.get(case_class(c), 0) + 1
        sig = handshake_signature(c, il)
        if any(s[0] in (3, 4, -1) and s[2] > 12 for s in sig):
            distinct.add((case_class(c), tuple((s[0], s[1], s[2]) for s in sig), c[0].split()[-1]))
        if fs:
            failing.append((idx, fs))
        if d is not None:
            mismatches.append((idx, d, bool(fs)))
    if rc1 != 0 or len(cc) != len(cases):
        failing.append((max(0, len(cc) - 1), [Finding("harness-died", None, "implementation driver exited with %d after %d of %d cases: %s"
                                                      % (rc1, len(cc), len(cases), cerr[-600:]))]))
    if rc2 != 0 or len(mc) != len(cases):
        mismatches.append((max(0, len(mc) - 1), (0, "<model driver failed>", merr[-300:]), False))
    ctx.coverage.update(
        evaluations=nops, distinct_nontrivial=len(distinct),
        rule="authentication scripts (screens none/list/file, application handlers, scripted challenges, connections "
             "inbound/reverse, client bytes) run on the extracted Coq process model and on the real library in one process; "
             "after every op the state, viewOnly, handler invocations and exact output bytes of every connection are "
             "compared; the spec oracle (own DES + handshake parser) evaluates soundness/completeness/offer/view-only on "
             "the implementation's output. distinct_nontrivial = distinct (class, per-connection (state, viewOnly, "
             "output length) vector, version tag) among cases where some connection got past the version exchange",
        samples=[cases[i] for i in (0, len(cases) // 3, 2 * len(cases) // 3, len(cases) - 1)],
        input_distribution=hist, cases=len(cases), correspondence_mismatches=len(mismatches),
        oracle_failing_cases=len(failing), not_compared_unmodelled=unmodelled, exhaustive=False,
        list_handling_variant=("notes/fix_C05_3.diff semantics (cfg_unreg_single = true)" if single == "1" else
                               "recursion on ->next as of 39c3ee3 (cfg_unreg_single = false)"),
        udp_variant=("UDP input dropped on protected screens (notes/fix_C05_4.diff, cfg_udp_gated = true)" if VARIANT["udp"] == "1"
                     else "UDP input ungated as of /repo HEAD (cfg_udp_gated = false)"))
    ctx.assumptions += [
        "external: libgcrypt DES = FIPS 46 DES (cross-checked by the 'des' ops and by every authentication of the run)",
        "first bytes of a connection are empty or start with 'RFB ' (otherwise rfbNewClient takes the WebSocket/TLS path, not modelled)",
        "application security handlers are modelled as 'log and close'; screens keep default sharing flags; no bytes after ClientInit",
        "challenge unpredictability (random()) is out of scope: the challenge is an input of the model and of the harness",
    ]

    def run1(lines):
        r1, co, ce = run_impl(ctx, [lines], cexe)
        r2, mo, me = run_model(ctx, [lines], mexe)
        cs, ms = vlib.split_cases(co), vlib.split_cases(mo)
        return strip_interaction_caps(lines, cs[0][1] if cs else []), (ms[0][1] if ms else []), co, mo, ce

    def shrink(lines, pred):
        body = vlib.ddmin(lines[1:], lambda sub: script_ok([lines[0]] + sub) and pred([lines[0]] + sub), max_tests=150)
        return [lines[0]] + body

    def replay_text(lines, co, mo, ce=""):
        _, lo, _ = run_model(ctx, [lines], mexe, legacy=True)
        return ("script:\n" + "\n".join(lines) + "\n\nimplementation output:\n" + co + ce[-1200:] +
                "\nmodel output (baseline cfgF: fixes 39c3ee3 + fa69878; list handling variant %s):\n" % VARIANT["single"] + mo +
                "\nmodel output (cfg_legacy = code before the fixes, regression witness):\n" + lo +
                "\nimplementation behaves like: %s\n" % ("baseline model" if co == mo else
                                                           ("the code before 39c3ee3/fa69878 (regression)" if co == lo else "neither")))

    # 1. property violations on the implementation (oracle), grouped by symptom
    seen = {}
    for idx, fs in failing:
        for f in fs:
            key = (f.symptom, f.feat.get("kind"), f.feat.get("cause"), f.feat.get("weak"), f.feat.get("missing"), f.feat.get("extra"))
            seen.setdefault(key, []).append((idx, f))
    for key, lst in sorted(seen.items(), key=lambda kv: str(kv[0])):
        idx, f = min(lst, key=lambda t: len(cases[t[0]]))
        lines = cases[idx]
        feat = f.features()
        if vlib.match_finding(ctx.pid, feat) is None:
            def pred(sub, sym=f.symptom, ft=feat):
                il, _, _, _, _ = run1(sub)
                return any(g.symptom == sym and g.features() == ft for g in oracle_case(sub, il))
            lines = shrink(lines, pred)
        il, ml, co, mo, ce = run1(lines)
        fs2 = [g for g in oracle_case(lines, il) if g.features() == feat] or \
              [g for g in oracle_case(lines, il) if g.symptom == f.symptom] or [f]
        ctx.violation("C05 violated on the implementation: %s - %s (%d cases)" % (f.symptom, fs2[0].text, len(lst)),
                      fs2[0].features(), replay_text(lines, co, mo, ce))
    # 2. model and implementation differ where the property predicate holds
    unexplained = [(idx, d) for idx, d, has_f in mismatches if not has_f]
    if unexplained:
        idx, d = unexplained[0]
        def pred2(sub):
            il, ml, _, _, _ = run1(sub)
            return il != ml and not any(" unmod=1" in l for l in ml) and not oracle_case(sub, il)
        lines = shrink(cases[idx], pred2)
        il, ml, co, mo, ce = run1(lines)
        ctx.violation("correspondence AuthModel.v <-> auth.c/rfbserver.c/main.c no longer holds (%d cases differ although "
                      "the C05 predicates hold on the implementation's output): first difference %r" %
                      (len(unexplained), vlib.first_diff(il, ml)),
                      {"kind": "correspondence"},
                      "correspondence: Auth/AuthModel.v step vs the real handshake\n" + replay_text(lines, co, mo, ce),
                      no_input=True)
    if not proof_ok and not failing:
        vlib.report_proof_failure(ctx, "Correspondence and the C05 oracle were run on %d operations (%d cases) "
                                  "without exhibiting a failing input." % (nops, len(cases)))


def replay(ctx, path):
    txt = open(path).read()
    if "script:\n" not in txt:
        print("replay names a theorem/correspondence, re-running the full check")
        return check(ctx)
    body = txt.split("script:\n", 1)[1].split("\n\n", 1)[0]
    lines = [l for l in body.split("\n") if l.strip()]
    cexe, mexe, proof_ok = build(ctx)
    probe_variant(ctx, cexe)
    r1, co, ce = run_impl(ctx, [lines], cexe)
    r2, mo, me = run_model(ctx, [lines], mexe)
    _, lo, _ = run_model(ctx, [lines], mexe, legacy=True)
    cs = vlib.split_cases(co)
    il = strip_interaction_caps(lines, cs[0][1] if cs else [])
    print("implementation:\n" + co + "model (baseline):\n" + mo + "model (code before the fixes):\n" + lo)
    fs = oracle_case(lines, il)
    ctx.coverage.update(evaluations=len(lines) - 1, distinct_nontrivial=0, rule="replay", samples=[lines])
    for f in fs:
        print("oracle: %s - %s" % (f.symptom, f.text))
        ctx.violation("C05 violated on the implementation: %s - %s" % (f.symptom, f.text), f.features(),
                      "script:\n" + "\n".join(lines) + "\n\nimplementation output:\n" + co)
    ms = vlib.split_cases(mo)
    if not fs and il != (ms[0][1] if ms else []):
        ctx.violation("correspondence differs on the replayed script", {"kind": "correspondence"},
                      "script:\n" + "\n".join(lines) + "\n\n" + co + "\n" + mo, no_input=True)
