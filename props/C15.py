"""C15 - Cursor handling never damages the framebuffer and shows the right cursor.

Proof: coq/Props/Properties_C15.v (theorems over the mirror model Cursor/CursorDefs.v: hide (show fb) = fb
for every framebuffer/cursor/hot-spot/position, show = overlay (full for the repaired clip, partial +
refuted for the code as it is), redraw covers old and new box, mask dilation, shape message round trip).
Tie: (a) sraClipRect2 and the protocol constants are re-translated from /repo on every run;
(b) correspondence: the extracted model and the real library (rfbShowCursor/rfbHideCursor called on a real
client, real update sessions over socketpairs) run the same scripts, every observable compared.  The model
carries, beside the code of the tree, the variants before the fixes 1a3b6d2 / 0775c26 / 2b32386 / 8f58d2d (F15, F15b, F15c, F15d);
the run uses the tree's variant and names a regression when dropping one repair explains a disagreement.
Independently of the mirror model the property predicate (framebuffer restored; picture = overlay) is
evaluated in Python on the implementation's own output.
"""
import os, re, sys
import vlib

PROP_FILE = "Props/Properties_C15.v"
EXTRACT = "Extract/Extract_C15.vo"

FORMATS = [  # bpp, rmax, gmax, bmax, rshift, gshift, bshift
    (4, 255, 255, 255, 0, 8, 16), (4, 255, 255, 255, 16, 8, 0), (2, 31, 63, 31, 11, 5, 0),
    (2, 31, 31, 31, 0, 5, 10), (1, 7, 7, 3, 0, 3, 6), (1, 3, 3, 3, 0, 2, 4), (3, 255, 255, 255, 0, 8, 16),
]


# ---------------------------------------------------------------- spec-level oracle (python)
class Cur:
    def __init__(s, w, h, xh, yh, premult, fore, back, src, mask, rich, alpha):
        s.w, s.h, s.xh, s.yh, s.premult, s.fore, s.back = w, h, xh, yh, premult, fore, back
        s.src, s.mask, s.rich, s.alpha = src, mask, rich, alpha

    def lines(s):
        L = ["cur %d %d %d %d %d %d %d %d %d %d %d" % ((s.w, s.h, s.xh, s.yh, 1 if s.premult else 0) + s.fore + s.back)]
        L.append("src " + ("-" if s.src is None else (bytes(s.src).hex() or "-")))
        L.append("mask " + (bytes(s.mask).hex() or "-"))
        L.append("rich " + ("-" if s.rich is None else (" ".join("%x" % p for p in s.rich) or "-")))
        L.append("alpha " + ("-" if s.alpha is None else (bytes(s.alpha).hex() or "-")))
        return L


def bitat(data, rowbytes, u, v):
    return (data[v * rowbytes + u // 8] >> (7 - (u % 8))) & 1


COLOUR_RULE = "spec"


def rich_of(cur, fmt):
    """pixels of a cursor; for an X-style cursor (bitmap + 16-bit colours) by the SPECIFICATION: a component comp is
    the intensity comp/65535, i.e. the channel value max*comp//65535 (CursorColour.v) - not the library's expression.
    COLOUR_RULE == "unscaled" (the library before notes/fix_C15_5.diff: comp << shift) is used only to CLASSIFY a
    failure as the known finding F15e, never to accept an output."""
    if cur.rich is not None:
        return cur.rich
    bpp, rm, gm, bm, rs, gs, bs = fmt
    def word(c):
        if COLOUR_RULE == "spec":
            return (((rm * c[0] // 65535) << rs) | ((gm * c[1] // 65535) << gs) | ((bm * c[2] // 65535) << bs)) % (1 << (8 * bpp))
        return ((((c[0] << rs) & 0xffffffff) | ((c[1] << gs) & 0xffffffff) | ((c[2] << bs) & 0xffffffff))) % (1 << (8 * bpp))
    fore, back = word(cur.fore), word(cur.back)
    rb = (cur.w + 7) // 8
    return [fore if bitat(cur.src, rb, u, v) else back for v in range(cur.h) for u in range(cur.w)]


def blend(fmt, premult, a, s, d):
    bpp, rm, gm, bm, rs, gs, bs = fmt
    out = 0
    for mx, sh in ((rm, rs), (gm, gs), (bm, bs)):
        m = (mx << sh) & 0xffffffff
        dc, sc = (d & m) >> sh, (s & m) >> sh
        if not premult:
            sc = (a * sc) // 255
        out |= (sc + ((255 - a) * dc) // 255) << sh
    return (out & 0xffffffff) % (1 << (8 * bpp))


def overlay(fb, W, H, fmt, cur, px, py):
    """the property's reference picture: cursor cells laid over the framebuffer at (px,py)"""
    out = [row[:] for row in fb]
    if cur is None or cur.w == 0 or cur.h == 0:
        return out
    rich = rich_of(cur, fmt)
    rb = (cur.w + 7) // 8
    for v in range(cur.h):
        y = py - cur.yh + v
        if not 0 <= y < H:
            continue
        for u in range(cur.w):
            x = px - cur.xh + u
            if not 0 <= x < W:
                continue
            if cur.alpha is not None:
                a = cur.alpha[v * cur.w + u]
                if a:
                    out[y][x] = blend(fmt, cur.premult, a, rich[v * cur.w + u], fb[y][x])
            elif bitat(cur.mask, rb, u, v):
                out[y][x] = rich[v * cur.w + u]
    return out


def parse_dump(s):
    return [[int(p, 16) for p in r.split(",")] for r in s.split("/")] if s else []


# ---------------------------------------------------------------- generators
def rand_cursor(rng, fmt, kind=None):
    bpp = fmt[0]
    w = rng.choice([1, 1, 2, 3, 4, 5, 7, 8, 9, 12, 15, 16, 17])
    h = rng.choice([1, 1, 2, 3, 4, 5, 7, 8, 9, 11])
    if rng.random() < 0.03:
        w = 0
    elif rng.random() < 0.03:
        h = 0
    kind = kind or rng.choice(["rich", "rich", "x", "x", "alpha", "alphapm"])
    rb = (w + 7) // 8
    dens = rng.choice([0.2, 0.5, 0.9, 1.0])
    def bitmap(d):
        b = bytearray(rb * h)
        for v in range(h):
            for u in range(w):
                if rng.random() < d:
                    b[v * rb + u // 8] |= 0x80 >> (u % 8)
        return list(b)
    mask = bitmap(dens)
    pm = (1 << (8 * bpp)) - 1
    src = rich = alpha = None
    if kind == "x":
        src = bitmap(0.5)
    else:
        rich = [rng.randint(0, pm) for _ in range(w * h)]
        if rng.random() < 0.3:
            src = bitmap(0.5)
    if kind.startswith("alpha"):
        alpha = [rng.choice([0, 0, 1, 127, 128, 254, 255, rng.randint(0, 255)]) for _ in range(w * h)]
        if kind == "alphapm":      # premultiplied source: channels already <= alpha share, no channel overflow
            bppv, rm, gm, bm, rs, gs, bs = fmt
            rich = [(((rng.randint(0, rm) * a) // 255) << rs) | (((rng.randint(0, gm) * a) // 255) << gs) |
                    (((rng.randint(0, bm) * a) // 255) << bs) for a in alpha]
    xh = rng.choice([0, 0, w // 2, max(w - 1, 0), w, rng.randint(0, w + 2)])
    yh = rng.choice([0, 0, h // 2, max(h - 1, 0), h, rng.randint(0, h + 2)])
    def col():
        return tuple(rng.choice([0, 0xffff, 0x8000, rng.randint(0, 0xffff)]) for _ in range(3))
    return Cur(w, h, xh, yh, kind == "alphapm", col(), col(), src, mask, rich, alpha)


def edge_positions(rng, W, H, cur):
    """pointer positions whose cursor box touches / crosses / leaves every edge (the case splits of clip1)"""
    xs = [0, 1, W - 2, W - 1, W, W + 1, cur.xh, cur.xh - 1, cur.xh - cur.w, cur.xh - cur.w + 1,
          W - cur.w + cur.xh - 1, W - cur.w + cur.xh, W - cur.w + cur.xh + 1, W - 1 + cur.xh, W + cur.xh, 65535, W // 2]
    ys = [0, 1, H - 2, H - 1, H, H + 1, cur.yh, cur.yh - 1, cur.yh - cur.h, cur.yh - cur.h + 1,
          H - cur.h + cur.yh - 1, H - cur.h + cur.yh, H - cur.h + cur.yh + 1, H - 1 + cur.yh, H + cur.yh, 65535, H // 2]
    xs = [x for x in xs if 0 <= x <= 65535]
    ys = [y for y in ys if 0 <= y <= 65535]
    return rng.choice(xs), rng.choice(ys)


BPS_CHOICES = {4: [8, 10, 5, 6, 4], 3: [8, 5, 4], 2: [5, 4, 3], 1: [2]}


def init_format(bpp, bps):
    """rfbInitServerFormat on a little-endian host"""
    if bpp == 1:
        return (1, 7, 7, 3, 0, 3, 6)
    m = (1 << bps) - 1
    return (bpp, m, m, m, 0, bps, 2 * bps)


def newfb_line(rng, W, H, bpp, bps):
    pm = (1 << (8 * bpp)) - 1
    return "newfb %d " % bps + " ".join("%x" % rng.randint(0, pm) for _ in range(W * H))


def stride_line(rng, bpp):
    """in a third of the cases the rows of the framebuffer are further apart than width*bytesPerPixel
    (screen->paddedWidthInBytes): cursor.c must step by the row stride and never touch the padding"""
    if rng.random() < 0.35:
        return ["stride %d" % rng.choice([1, 2, 3, bpp, bpp + 1, 4 * bpp, 16, 29])]
    return []


def direct_case(rng, k):
    fmt = rng.choice(FORMATS)
    bpp = fmt[0]
    W, H = rng.choice([1, 2, 3, 5, 8, 9, 13]), rng.choice([1, 2, 3, 4, 7, 10])
    pm = (1 << (8 * bpp)) - 1
    fb = [[rng.randint(0, pm) for _ in range(W)] for _ in range(H)]
    L = ["case %d direct" % k, "screen %d %d %d %d %d %d %d %d %d" % ((W, H) + fmt)] + stride_line(rng, bpp) + \
        ["fb " + " ".join("%x" % p for r in fb for p in r)]
    for _ in range(rng.choice([1, 1, 2])):
        cur = rand_cursor(rng, fmt)
        L += cur.lines() + ["setcur"]
        for _ in range(rng.choice([1, 2, 4])):
            px, py = edge_positions(rng, W, H, cur)
            L += ["pos %d %d" % (px, py), "show", "hide"]
            if rng.random() < 0.15:
                # the application switches to a framebuffer of another format (same size and pixel size): a rich
                # form derived for the old format must not survive
                L += [newfb_line(rng, W, H, bpp, rng.choice(BPS_CHOICES[bpp])), "pos %d %d" % (min(px, W - 1), min(py, H - 1)), "show", "hide"]
        if rng.random() < 0.3:
            L.append("getrich")
    return L


SESSION_FORMATS = [f for f in FORMATS if f[0] in (1, 2, 4)]
ENC_SETS = [[], [], [], ["x"], ["rich"], ["x", "pos"], ["rich", "pos"], ["pos"], ["rich", "x"]]


def rand_rect_in(rng, W, H):
    x1 = rng.randint(0, W - 1); x2 = rng.randint(x1 + 1, W)
    y1 = rng.randint(0, H - 1); y2 = rng.randint(y1 + 1, H)
    return x1, y1, x2, y2


def session_case(rng, k, flavour=None):
    fmt = rng.choice(SESSION_FORMATS)
    bpp = fmt[0]
    W, H = rng.choice([2, 3, 5, 8, 10]), rng.choice([2, 3, 4, 7])
    pm = (1 << (8 * bpp)) - 1
    fb = [[rng.randint(0, pm) for _ in range(W)] for _ in range(H)]
    flavour = flavour or rng.choice(["soft", "soft", "mixed", "mixed", "partial", "switch", "fail", "hook", "hook", "newfb", "newfb"])
    L = ["case %d session %s" % (k, flavour), "screen %d %d %d %d %d %d %d %d %d" % ((W, H) + fmt)] + \
        stride_line(rng, fmt[0]) + ["fb " + " ".join("%x" % p for r in fb for p in r)]
    def small_cursor():
        c = rand_cursor(rng, fmt, "x" if flavour == "newfb" and rng.random() < 0.8 else None)
        return c
    cur = small_cursor()
    if rng.random() < 0.9:
        L += cur.lines() + ["setcur"]
    else:
        cur = None
    ncl = rng.choice([1, 1, 2, 3])
    alive = []
    encs_of = {}
    for i in range(ncl):
        encs = [] if flavour in ("soft", "partial") else rng.choice(ENC_SETS)
        if flavour == "newfb":
            encs = rng.choice([[], [], ["rich"], ["rich", "pos"], ["x"]])
        encs_of[i] = encs
        L.append(("client %d " % i + " ".join(encs)).rstrip())
        alive.append(i)
        if rng.random() < 0.8:
            L.append("fur %d 0 0 0 %d %d" % (i, W, H))
    for _ in range(rng.choice([4, 8, 14])):
        r = rng.random()
        i = rng.choice(alive)
        if r < 0.30:
            if flavour == "partial" and rng.random() < 0.5:
                x1, y1, x2, y2 = rand_rect_in(rng, W, H)
                L.append("fur %d %d %d %d %d %d" % (i, rng.randint(0, 1), x1, y1, x2 - x1, y2 - y1))
            else:
                L.append("fur %d %d 0 0 %d %d" % (i, rng.choice([0, 1, 1, 1]), W, H))
        elif r < 0.60:
            c = cur or Cur(1, 1, 0, 0, False, (0, 0, 0), (0, 0, 0), None, [0], None, None)
            px, py = edge_positions(rng, W, H, c)
            L.append("ptr %d %d %d" % (i, px, py))
        elif r < 0.78:
            x1, y1, x2, y2 = rand_rect_in(rng, W, H)
            L.append("fill %d %d %d %d %x" % (x1, y1, x2, y2, rng.randint(0, pm)))
        elif r < 0.90:
            if rng.random() < 0.15:
                cur = None
                L.append("nocur")
            else:
                cur = small_cursor()
                L += cur.lines() + ["setcur"]
        elif r < 0.97 and flavour == "switch":
            L.append(("setenc %d " % i + " ".join(rng.choice(ENC_SETS + [[], []]))).rstrip())
            L.append("fur %d 1 0 0 %d %d" % (i, W, H))
        elif flavour == "fail" and len(alive) > 0 and rng.random() < 0.7:
            L.append("failwrite %d %d" % (i, rng.choice([0, 0, 3, 10])))
            if rng.random() < 0.5:          # the cursor is replaced at the head of the update that is going to fail
                cur = rand_cursor(rng, fmt, rng.choice([None, "alpha", "alphapm"]))
                L += cur.lines() + ["hookcur %d" % i]
            L.append("fur %d 0 0 0 %d %d" % (i, W, H))
            alive.remove(i)
            if not alive:
                break
        elif flavour == "newfb" and rng.random() < 0.7:
            L.append(newfb_line(rng, W, H, bpp, rng.choice(BPS_CHOICES[bpp])))
            for j in alive:
                if encs_of[j]:          # clients re-announce their encodings after the format change: shape sent again
                    L.append(("setenc %d " % j + " ".join(encs_of[j])).rstrip())
                L.append("fur %d %d 0 0 %d %d" % (j, rng.choice([0, 1]), W, H))
        elif flavour == "hook" and rng.random() < 0.6:
            cur = rand_cursor(rng, fmt, rng.choice([None, None, "alpha", "alphapm"]))
            L += cur.lines() + ["hookcur %d" % i]
            L.append(rng.choice(["fur %d 0 0 0 %d %d" % (i, W, H), "fur %d 1 0 0 %d %d" % (i, W, H),
                                 "fill 0 0 %d %d %x" % (W, H, rng.randint(0, pm))]))
    for i in alive:
        L.append("fur %d 1 0 0 %d %d" % (i, W, H))
    return L


def copy_case(rng, k):
    """rfbDoCopyRect with clients that take CopyRect, a server-painted cursor and pointer moves: after every update
    that answers a full-screen request the client's picture (CopyRect rectangles applied) must be the framebuffer with
    the cursor at the CURRENT pointer position - in particular when the pointer moved into the destination of a copy
    that is still pending.  The session model has no copyRegion: these cases are checked by the picture oracle only."""
    fmt = rng.choice(SESSION_FORMATS)
    bpp = fmt[0]
    W, H = rng.choice([5, 8, 10, 13]), rng.choice([4, 7, 9])
    pm = (1 << (8 * bpp)) - 1
    fb = [[rng.randint(0, pm) for _ in range(W)] for _ in range(H)]
    L = ["case %d session copy" % k, "screen %d %d %d %d %d %d %d %d %d" % ((W, H) + fmt)] + \
        stride_line(rng, fmt[0]) + ["fb " + " ".join("%x" % p for r in fb for p in r)]
    cur = rand_cursor(rng, fmt, rng.choice(["rich", "rich", "x"]))
    if rng.random() < 0.12:
        # a cursor without pixels: with a CopyRect client and a pending request the library used to announce more
        # rectangles than it sent (C03-F26, fixed in /repo bdf836a); kept in every run
        if rng.random() < 0.5:
            cur.w, cur.src, cur.mask, cur.rich = 0, ([] if cur.src is not None else None), [], ([] if cur.rich is not None else None)
        else:
            cur.h, cur.src, cur.mask, cur.rich = 0, ([] if cur.src is not None else None), [], ([] if cur.rich is not None else None)
        cur.alpha = None
    L += cur.lines() + ["setcur"]
    ncl = rng.choice([1, 1, 2])
    for i in range(ncl):
        encs = rng.choice([["copyrect"], ["copyrect"], ["copyrect"], [], ["rich", "copyrect"], ["x", "pos", "copyrect"]])
        L.append(("client %d %s" % (i, " ".join(encs))).rstrip())
    for i in range(ncl):
        L.append("fur %d 0 0 0 %d %d" % (i, W, H))
    dest = None
    for _ in range(rng.choice([3, 6, 10])):
        r = rng.random()
        if r < 0.35:
            x1, y1, x2, y2 = rand_rect_in(rng, W, H)
            dx, dy = rng.randint(x2 - W, x1), rng.randint(y2 - H, y1)
            if (dx, dy) == (0, 0):
                dx = 1 if x2 < W and x1 >= 1 else 0
                dy = 0 if dx else (1 if y1 >= 1 else -1 if y2 < H else 0)
            if (dx, dy) != (0, 0) and 0 <= x1 - dx and x2 - dx <= W and 0 <= y1 - dy and y2 - dy <= H:
                L.append("copy %d %d %d %d %d %d" % (x1, y1, x2, y2, dx, dy))
                dest = (x1, y1, x2, y2)
                if rng.random() < 0.7:          # the pointer moves into the destination before the next request
                    L.append("ptr %d %d %d" % (rng.randrange(ncl), rng.randint(x1, x2 - 1), rng.randint(y1, y2 - 1)))
        elif r < 0.6:
            if dest and rng.random() < 0.5:
                x1, y1, x2, y2 = dest
                L.append("ptr %d %d %d" % (rng.randrange(ncl), rng.randint(x1, x2 - 1), rng.randint(y1, y2 - 1)))
            else:
                L.append("ptr %d %d %d" % (rng.randrange(ncl), rng.randint(0, W - 1), rng.randint(0, H - 1)))
        elif r < 0.7:
            x1, y1, x2, y2 = rand_rect_in(rng, W, H)
            L.append("fill %d %d %d %d %x" % (x1, y1, x2, y2, rng.randint(0, pm)))
        else:
            L.append("fur %d 1 0 0 %d %d" % (rng.randrange(ncl), W, H))
            dest = None
    for i in range(ncl):
        L.append("fur %d 1 0 0 %d %d" % (i, W, H))
    return L


def oracle_only(c):
    """cases the mirror model does not cover (no copyRegion in the session model): picture oracle only"""
    t = c[0].split()
    return len(t) > 3 and t[2] == "session" and t[3] == "copy"


def mask_case(rng, k):
    L = ["case %d mask" % k]
    for _ in range(6):
        w = rng.choice([1, 2, 7, 8, 9, 15, 16, 17, 24, 31, 33])
        h = rng.choice([1, 2, 3, 5, 8])
        rb = (w + 7) // 8
        d = rng.choice([0.05, 0.2, 0.5])
        b = bytearray(rb * h)
        for v in range(h):
            for u in range(rb * 8 if rng.random() < 0.2 else w):
                if rng.random() < d:
                    b[v * rb + u // 8] |= 0x80 >> (u % 8)
        L.append("makemask %d %d %s" % (w, h, bytes(b).hex()))
    return L


def makex_case(rng, k):
    fmt = rng.choice(FORMATS)
    bpp = fmt[0]
    L = ["case %d makex" % k, "screen 2 2 %d %d %d %d %d %d %d" % fmt]
    for _ in range(3):
        cur = rand_cursor(rng, fmt, "rich")
        cur.src = None
        r = rng.random()
        if r < 0.4:
            cur.fore = cur.back = (0, 0, 0)         # "interpolate to black and white"
        elif r < 0.7:                               # many pixels equal to the background colour
            bppv, rm, gm, bm, rs, gs, bs = fmt
            bg = ((((rm * cur.back[0]) // 0xffff) << rs) | (((gm * cur.back[1]) // 0xffff) << gs) |
                  (((bm * cur.back[2]) // 0xffff) << bs)) & 0xffffffff
            bg %= 1 << (8 * bpp)
            cur.rich = [bg if rng.random() < 0.5 else p for p in cur.rich]
        if cur.w == 0 or cur.h == 0:
            continue
        L += cur.lines() + ["setcur", "makex"]
    return L


def sweep_case(rng, k, W, H, cw, ch, xh, yh):
    """every pointer position 0..W+cw, 0..H+ch for one screen/cursor/hot-spot (all clip case splits)"""
    fmt = rng.choice(FORMATS)
    pm = (1 << (8 * fmt[0])) - 1
    fb = [[rng.randint(0, pm) for _ in range(W)] for _ in range(H)]
    cur = rand_cursor(rng, fmt, rng.choice(["rich", "x", "alpha"]))
    rb = (cw + 7) // 8
    cur.w, cur.h, cur.xh, cur.yh = cw, ch, xh, yh
    cur.mask = [rng.choice([0xff, 0xff, rng.randint(0, 255)]) for _ in range(rb * ch)]
    cur.src = [rng.randint(0, 255) for _ in range(rb * ch)]
    cur.rich = None if cur.alpha is None and rng.random() < 0.5 else [rng.randint(0, pm) for _ in range(cw * ch)]
    cur.alpha = None if cur.alpha is None else [rng.choice([0, 1, 128, 255]) for _ in range(cw * ch)]
    L = ["case %d sweep" % k, "screen %d %d %d %d %d %d %d %d %d" % ((W, H) + fmt)] + stride_line(rng, fmt[0]) + \
        ["fb " + " ".join("%x" % p for r in fb for p in r)] + cur.lines() + ["setcur"]
    for py in range(0, H + ch + 1):
        for px in range(0, W + cw + 1):
            L += ["pos %d %d" % (px, py), "show", "hide"]
    return L


DEFAULT_CUR = dict(w=8, h=7, xh=3, yh=3, fore=(0, 0, 0), back=(65535, 65535, 65535),
                   src=[0, 66, 36, 24, 36, 66, 0], mask=[231, 231, 126, 60, 126, 231, 231])


def defcur_case(rng, k):
    """several screens of different pixel formats in ONE process, all with the library's built-in cursor
    (a static object: its derived rich form survives from screen to screen); own process per case"""
    L = ["case %d defcur" % k]
    fmts = [rng.choice(FORMATS) for _ in range(rng.choice([2, 2, 3]))]
    if rng.random() < 0.5:
        fmts.sort(key=lambda f: f[0])          # growing pixel size: the cached buffer is too short
    for fmt in fmts:
        W, H = rng.choice([9, 12, 16]), rng.choice([8, 9, 12])
        pm = (1 << (8 * fmt[0])) - 1
        fb = [[rng.randint(0, pm) for _ in range(W)] for _ in range(H)]
        L += ["screen %d %d %d %d %d %d %d %d %d" % ((W, H) + fmt), "fb " + " ".join("%x" % p for r in fb for p in r), "defcur"]
        if fmt[0] != 3 and rng.random() < 0.4:
            L += ["client 0 rich", "fur 0 0 0 0 %d %d" % (W, H)]
        else:
            for _ in range(2):
                L += ["pos %d %d" % (rng.randint(0, W - 1), rng.randint(0, H - 1)), "show", "hide"]
    return L


def gen_cases(ctx):
    rng = ctx.rng
    cases, k = [], 0
    cdir = os.path.join(vlib.VERIF, "corpus", "C15")
    if os.path.isdir(cdir):
        for fn in sorted(os.listdir(cdir)):
            lines = [l for l in open(os.path.join(cdir, fn)).read().split("\n") if l.strip()]
            if lines and not lines[0].startswith("case "):
                lines = ["case %d corpus:%s" % (k, fn)] + lines
            cases.append(lines)
            k += 1
    nd = 1500 if ctx.quick() else 30000
    for _ in range(nd):
        cases.append(direct_case(rng, k))
        k += 1
    for _ in range(nd // 2):
        cases.append(session_case(rng, k))
        k += 1
    sweeps = [(rng.choice([1, 2, 4]), rng.choice([1, 3]), rng.choice([1, 2, 3, 9]), rng.choice([1, 2]), None, None)
              for _ in range(6)] if ctx.quick() else \
             [(W, H, cw, ch, None, None) for W in (1, 2, 3, 5) for H in (1, 2, 4) for cw in (1, 2, 3, 8, 9) for ch in (1, 2, 3)]
    for (W, H, cw, ch, _, _) in sweeps:
        for xh in sorted(set([0, cw // 2, cw - 1, cw])):
            for yh in sorted(set([0, ch - 1, ch])):
                cases.append(sweep_case(rng, k, W, H, cw, ch, xh, yh))
                k += 1
    for _ in range(12 if ctx.quick() else 120):
        cases.append(defcur_case(rng, k))
        k += 1
    for _ in range(nd // 10):
        cases.append(mask_case(rng, k))
        k += 1
        cases.append(makex_case(rng, k))
        k += 1
    for _ in range(250 if ctx.quick() else 5000):
        cases.append(copy_case(rng, k))
        k += 1
    return cases


# ---------------------------------------------------------------- oracle over one case
class CaseState:
    pass


def _oracle_case(script, impl, crash=None):
    """evaluate the property predicate on the implementation's observations of one case.
    returns list of (message, features)"""
    errs = []
    st = CaseState()
    st.W = st.H = 0
    st.fmt = None
    st.fb = []
    st.cur = None
    st.pend = None
    st.px = st.py = 0
    st.shown = False
    st.sx = st.sy = 0
    st.cl = {}
    st.hook = None          # (client, cursor) the displayHook will install at the head of that client's next update
    st.hook_fired = None    # client whose update ran the hook in the op being looked at
    st.prev_cur = None
    it = iter(impl)
    for op in script[1:]:
        p = op.split()
        try:
            line = next(it)
        except StopIteration:
            feat = {"kind": "crash", "op": p[0]}
            if getattr(st, "defcur_screens", 0) >= 2:
                feat["defcur"] = True
            errs.append(("implementation produced no observation for '%s' (crash%s)" % (op, ": " + crash[1][:200] if crash else "?"), feat))
            return errs
        if "PADDAMAGED" in line:
            errs.append(("'%s' wrote into the padding between the rows of the framebuffer (paddedWidthInBytes > width*bpp)" % op,
                         {"kind": "padding", "op": p[0]}))
            line = line.replace(" PADDAMAGED", "")
        if p[0] == "screen":
            st.W, st.H = int(p[1]), int(p[2])
            st.fmt = tuple(int(t) for t in p[3:10])
            st.fb = [[0] * st.W for _ in range(st.H)]
            st.cur = None
        elif p[0] == "fb":
            v = [int(t, 16) for t in p[1:]]
            st.fb = [v[y * st.W:(y + 1) * st.W] for y in range(st.H)]
        elif p[0] == "cur":
            a = [int(t) for t in p[1:]]
            st.pend = Cur(a[0], a[1], a[2], a[3], bool(a[4]), tuple(a[5:8]), tuple(a[8:11]), None, [], None, None)
        elif p[0] == "src":
            st.pend.src = None if p[1] == "-" else list(bytes.fromhex(p[1]))
        elif p[0] == "mask":
            st.pend.mask = [] if p[1] == "-" else list(bytes.fromhex(p[1]))
        elif p[0] == "rich":
            st.pend.rich = None if p[1:] == ["-"] else [int(t, 16) for t in p[1:]]
        elif p[0] == "alpha":
            st.pend.alpha = None if p[1] == "-" else list(bytes.fromhex(p[1]))
        elif p[0] == "newfb":
            st.fmt = init_format(st.fmt[0], int(p[1]))
            v = [int(t, 16) for t in p[2:]]
            st.fb = [v[y * st.W:(y + 1) * st.W] for y in range(st.H)]
            st.sx, st.sy = min(st.sx, st.W - 1), min(st.sy, st.H - 1)       # rfbNewFramebuffer keeps the pointer on the screen
        elif p[0] == "defcur":
            d = DEFAULT_CUR
            st.cur = Cur(d["w"], d["h"], d["xh"], d["yh"], False, d["fore"], d["back"], list(d["src"]), list(d["mask"]), None, None)
            st.defcur_screens = getattr(st, "defcur_screens", 0) + 1
            want = "defcur %d %d %d %d %d %d %d %d %d %d %s %s" % ((d["w"], d["h"], d["xh"], d["yh"]) + d["fore"] + d["back"] +
                                                                   (bytes(d["src"]).hex(), bytes(d["mask"]).hex()))
            if line != want:
                errs.append(("the library's built-in cursor is not the documented one: " + line[:120], {"kind": "defcur", "what": "fields"}))
            for c in st.cl.values():
                c["must_shape"] = c["shape"]
        elif p[0] == "setcur":
            st.cur = st.pend
            for c in st.cl.values():
                c["must_shape"] = c["shape"]
        elif p[0] == "nocur":
            st.cur = None
            for c in st.cl.values():
                c["must_shape"] = c["shape"]
        elif p[0] in ("client", "setenc"):
            k = int(p[1])
            encs = p[2:]
            if p[0] == "client":
                st.cl[k] = dict(fullonly=True, dead=False, must_pos=False, must_shape=False, failing=False,
                                shape=False, rich=False, pos=False, switched=False)
            c = st.cl.get(k)
            if c is not None and not c["dead"]:
                was_shape = c["shape"]
                c["shape"] = "x" in encs or "rich" in encs
                c["rich"] = "rich" in encs
                c["pos"] = "pos" in encs and c["shape"]
                c["must_shape"] = c["shape"]
                c["must_pos"] = c["must_pos"] and c["pos"]
                if was_shape and not c["shape"]:
                    c["switched"] = True
        elif p[0] == "fur":
            k = int(p[1])
            if k in st.cl and [int(t) for t in p[3:7]] != [0, 0, st.W, st.H]:
                st.cl[k]["fullonly"] = False
            elif k in st.cl and p[2] == "0":
                st.cl[k]["switched"] = False     # everything is sent again
        elif p[0] == "ptr":
            k, x, y = int(p[1]), int(p[2]), int(p[3])
            if k in st.cl and not st.cl[k]["dead"] and (x, y) != (st.sx, st.sy):
                st.sx, st.sy = x, y
                for j, c in st.cl.items():
                    c["must_pos"] = c["pos"] and j != k
        elif p[0] == "copy":
            x1, y1, x2, y2, dx, dy = (int(t) for t in p[1:7])
            old = [r[:] for r in st.fb]
            for y in range(y1, y2):
                for x in range(x1, x2):
                    st.fb[y][x] = old[y - dy][x - dx]
        elif p[0] == "fill":
            x1, y1, x2, y2 = (int(t) for t in p[1:5])
            v = int(p[5], 16)
            for y in range(y1, y2):
                for x in range(x1, x2):
                    st.fb[y][x] = v
        elif p[0] == "failwrite":
            if int(p[1]) in st.cl:
                st.cl[int(p[1])]["failing"] = True
        elif p[0] == "hookcur":
            st.hook = (int(p[1]), st.pend)
        elif p[0] == "makemask":
            w, h = int(p[1]), int(p[2])
            src = [] if p[3] == "-" else list(bytes.fromhex(p[3]))
            rb = (w + 7) // 8
            got = line.split(" ", 1)[1] if " " in line else ""
            def sb(x, y):
                return 0 <= y < h and 0 <= x < 8 * rb and bitat(src, rb, x, y)
            want = bytearray(rb * h)
            for y in range(h):
                for x in range(8 * rb):
                    if any(sb(x + dx, y + dy) for dx in (-1, 0, 1) for dy in (-1, 0, 1)):
                        want[y * rb + x // 8] |= 0x80 >> (x % 8)
            if got != bytes(want).hex():
                errs.append(("rfbMakeMaskForXCursor: mask is not the source bitmap dilated by one pixel",
                             {"kind": "mask", "what": "dilation"}))
        elif p[0] == "pos":
            st.px, st.py = int(p[1]), int(p[2])
        elif p[0] == "show":
            got = parse_dump(line.split(" ", 1)[1] if " " in line else "")
            want = overlay(st.fb, st.W, st.H, st.fmt, st.cur, st.px, st.py)
            if got != want:
                bad = [(x, y) for y in range(st.H) for x in range(st.W)
                       if y >= len(got) or x >= len(got[y]) or got[y][x] != want[y][x]]
                edge = all(x == st.W - 1 or y == st.H - 1 for (x, y) in bad) and \
                    all(got[y][x] == st.fb[y][x] for (x, y) in bad if y < len(got) and x < len(got[y]))
                errs.append(("rfbShowCursor: painted framebuffer is not the cursor laid over the framebuffer "
                             "(%d pixels differ, first at %s%s)" % (len(bad), bad[0],
                              "; all of them cursor pixels missing in the last column/row" if edge else ""),
                             dict({"kind": "overlay", "where": "last_col_row" if edge else "other",
                                   "cursor": "alpha" if st.cur and st.cur.alpha is not None else "mask"},
                                  **({"defcur": True} if getattr(st, "defcur_screens", 0) >= 2 else {}))))
        elif p[0] == "hide":
            got = parse_dump(line.split(" ", 1)[1] if " " in line else "")
            if got != st.fb:
                errs.append(("rfbHideCursor did not restore the application's framebuffer",
                             {"kind": "restore", "cursor": "alpha" if st.cur and st.cur.alpha is not None else "mask"}))
        if st.cl and " app=" in line:
            errs += session_obs(st, op, line)
        if getattr(st, "defcur_screens", 0) >= 2:       # a second screen of the process uses the built-in cursor
            for (_, f) in errs:
                f["defcur"] = True
    return errs


def oracle_case(script, impl, crash=None):
    """the property predicate; failures that exist only because X-cursor colours are shifted unscaled (F15e) are
    re-labelled kind=rich_colour so that they are reported as that one finding"""
    global COLOUR_RULE
    COLOUR_RULE = "spec"
    errs = _oracle_case(script, impl, crash)
    if not errs:
        return errs
    COLOUR_RULE = "unscaled"
    try:
        alt = _oracle_case(script, impl, crash)
    except Exception:
        alt = errs
    finally:
        COLOUR_RULE = "spec"
    def key(f):
        return tuple(sorted((k, str(v)) for k, v in f.items()))
    left = {}
    for (_, f) in alt:
        left[key(f)] = left.get(key(f), 0) + 1
    out = []
    for (m, f) in errs:
        if left.get(key(f), 0) > 0:
            left[key(f)] -= 1
            out.append((m, f))
        else:
            out.append((m + " [X-cursor colour: the library shifts the 16-bit component unscaled instead of max*comp/65535]",
                        {"kind": "rich_colour", "what": "unscaled", "was": f.get("kind")}))
    return out


def parse_session_line(line):
    parts = line.split(" | ")
    app = parse_dump(parts[0].split(" app=", 1)[1]) if " app=" in parts[0] else None
    cl = {}
    for part in parts[1:]:
        k, rest = part.split(": ", 1)
        d = {"raw": rest}
        if rest.startswith("dead"):
            d["dead"] = True
        else:
            d["dead"] = False
            for tok in rest.split(" "):
                if "=" in tok:
                    a, b = tok.split("=", 1)
                    d[a] = b
        cl[int(k)] = d
    return app, cl


def check_shape(st, c, shp):
    """the cursor pseudo-rectangle carries the cursor's exact size, hot-spot, colours/pixels and mask"""
    extra = None
    if "!" in shp:
        shp, extra = shp.split("!", 1)
    b = bytes.fromhex(shp)
    x, y, w, h = (int.from_bytes(b[i:i + 2], "big") for i in (0, 2, 4, 6))
    enc = int.from_bytes(b[8:12], "big", signed=True)
    cur = st.cur
    bpp = st.fmt[0]
    if enc != (-239 if c["rich"] else -240):
        return "cursor shape sent with encoding %d to a %s client" % (enc, "RichCursor" if c["rich"] else "XCursor"), "encoding"
    hidden = cur is None or (cur.w == 1 and cur.h == 1 and cur.mask and cur.mask[0] == 0)
    if hidden:
        if (x, y, w, h) != (0, 0, 0, 0) or len(b) != 12 or extra:
            return "no cursor: expected an empty cursor pseudo-rectangle", "hidden"
        return None
    if cur.w * cur.h == 0:       # an empty cursor: any pseudo-rectangle with w*h = 0, which has no payload in RFB
        if w * h != 0:
            return "cursor without pixels announced as %dx%d" % (w, h), "geometry"
        if extra or len(b) != 12:
            return ("cursor of %dx%d pixels: RFB says a cursor pseudo-rectangle with w*h = 0 has no payload, the server "
                    "sent %d more bytes (a client loses synchronisation)" % (cur.w, cur.h, len(extra or "") // 2 + len(b) - 12)), "empty_payload"
        return None
    if (w, h, x, y) != (cur.w, cur.h, cur.xh, cur.yh):
        return "cursor pseudo-rectangle announces size/hot-spot %s, cursor has %s" % ((w, h, x, y), (cur.w, cur.h, cur.xh, cur.yh)), "geometry"
    rb = (w + 7) // 8
    body = b[12:]
    if c["rich"]:
        want = b"".join(int(p).to_bytes(bpp, "little") for p in rich_of(cur, st.fmt)) + bytes(cur.mask[:rb * h])
        if body != want:
            return "RichCursor pixels/mask differ from the cursor", "rich_payload"
    else:
        if body[6 + rb * h:] != bytes(cur.mask[:rb * h]):
            return "XCursor mask differs from the cursor's mask", "x_mask"
        if cur.src is not None:
            if body[:6] != bytes([v >> 8 for v in cur.fore + cur.back]):
                return "XCursor colours differ from the cursor's colours", "x_colours"
            if body[6:6 + rb * h] != bytes(cur.src[:rb * h]):
                return "XCursor bitmap differs from the cursor's bitmap", "x_bitmap"
    return None


def session_obs(st, op, line):
    errs = []
    app, obs = parse_session_line(line)
    st.hook_fired = None
    if st.hook is not None:
        hk, hcur = st.hook
        o = obs.get(hk)
        if o is not None and hk in st.cl and not st.cl[hk]["dead"] and (o["dead"] or o.get("sent") == "1"):
            # the update of client hk ran: the application replaced the cursor at its head
            st.prev_cur, st.cur, st.hook, st.hook_fired = st.cur, hcur, None, hk
            for c in st.cl.values():
                c["must_shape"] = c["shape"]
    if app != st.fb:
        errs.append(("application framebuffer damaged after '%s' (update bracket did not restore it)" % op.split()[0],
                     {"kind": "restore", "cursor": "session"}))
    for k, c in st.cl.items():
        o = obs.get(k)
        if o is None:
            continue
        if o["dead"]:
            c["dead"] = True
            continue
        if any(t in o["raw"] for t in ("BADRECT", "BADCOPY", "TRUNCATED", "UNEXPECTED")):
            errs.append(("malformed update stream for client %d after '%s': %s" % (k, op.split()[0], o["raw"][:80]),
                         {"kind": "stream", "what": o["raw"].split()[0]}))
            continue
        if c["dead"] or o.get("sent") != "1":
            continue
        kindc = "alpha" if st.cur and st.cur.alpha is not None else "mask"
        other_in_hook_round = st.hook_fired is not None and k != st.hook_fired
        if other_in_hook_round:
            # updated in the round in which another client's update replaced the cursor: before or after it
            if o.get("shape", "-") != "-" and check_shape(st, c, o["shape"]) is None:
                c["must_shape"] = False
            if c["fullonly"]:
                got = parse_dump(o.get("pic", ""))
                wants = [st.fb] if c["shape"] else [overlay(st.fb, st.W, st.H, st.fmt, cu, st.sx, st.sy) for cu in (st.cur, st.prev_cur)]
                if got not in wants and not all(
                        (x == st.W - 1 or y == st.H - 1) for w_ in wants[:1] for y in range(st.H) for x in range(st.W) if got[y][x] != w_[y][x]):
                    errs.append(("client picture after an update in the round of a cursor replacement shows neither the old nor "
                                 "the new cursor", {"kind": "picture", "where": "other", "cursor": kindc, "client": "hookround",
                                                    "switched": c["switched"]}))
            c["must_pos"] = False
            continue
        if o.get("shape", "-") != "-":
            if not c["shape"]:
                errs.append(("cursor shape sent to a client without cursor-shape support", {"kind": "shape", "what": "unsolicited"}))
            else:
                e = check_shape(st, c, o["shape"])
                if e:
                    errs.append(("cursor shape message wrong: " + e[0], {"kind": "shape", "what": e[1]}))
        elif c["must_shape"]:
            errs.append(("cursor was replaced but the update to a cursor-shape client carries no shape", {"kind": "shape", "what": "missing"}))
        c["must_shape"] = False
        if o.get("pos", "-") != "-":
            if tuple(int(t) for t in o["pos"].split(",")) != (st.sx, st.sy):
                errs.append(("PointerPos %s is not the pointer position %s" % (o["pos"], (st.sx, st.sy)), {"kind": "pos", "what": "value"}))
        elif c["must_pos"]:
            errs.append(("another client moved the pointer but the update carries no PointerPos", {"kind": "pos", "what": "missing"}))
        c["must_pos"] = False
        if c["fullonly"]:
            got = parse_dump(o.get("pic", ""))
            want = st.fb if c["shape"] else overlay(st.fb, st.W, st.H, st.fmt, st.cur, st.sx, st.sy)
            if got != want:
                bad = [(x, y) for y in range(st.H) for x in range(st.W) if got[y][x] != want[y][x]]
                edge = all(x == st.W - 1 or y == st.H - 1 for (x, y) in bad) and all(got[y][x] == st.fb[y][x] for (x, y) in bad)
                errs.append(("client picture after the update is not the framebuffer %s (%d pixels differ, first at %s%s)" %
                             ("without cursor" if c["shape"] else "with the cursor laid over it at the pointer position",
                              len(bad), bad[0], "; all of them cursor pixels missing in the last column/row" if edge else ""),
                             {"kind": "picture", "where": "last_col_row" if edge else "other", "cursor": kindc,
                              "client": "shape" if c["shape"] else "soft", "switched": c["switched"]}))
    return errs


# ---------------------------------------------------------------- the check
def ensure_model(pid):
    """Extraction always writes /verif/build/ocaml/<pid>/model.ml (path fixed in Extract_<pid>.v); with a
    scratch VERIF_BUILD the OCaml build looks elsewhere: copy the extracted files over."""
    import shutil
    src = os.path.join(vlib.VERIF, "build", "ocaml", pid)
    dst = os.path.join(vlib.BUILD, "ocaml", pid)
    if os.path.abspath(src) != os.path.abspath(dst):
        os.makedirs(dst, exist_ok=True)
        for fn in ("model.ml", "model.mli"):
            if os.path.exists(os.path.join(src, fn)):
                shutil.copy(os.path.join(src, fn), os.path.join(dst, fn))


def build(ctx):
    cexe = vlib.build_harness("vdrv_cursor", ["vdrv_cursor.c"], wraps=("write",))
    proof_ok = vlib.prove(ctx, PROP_FILE, [EXTRACT])
    ensure_model("C15")
    mexe = vlib.build_ocaml("C15", "driver_C15.ml", EXTRACT)
    return cexe, mexe, proof_ok


def isolated(c):
    return c[0].split()[2:3] == ["defcur"]


def run_impl(cexe, cases):
    """defcur cases run in a process of their own (the built-in cursor is process-wide state, and the tree may
    die on them); their output is spliced in at the end"""
    normal = [c for c in cases if not isolated(c)]
    script = "\n".join("\n".join(c) for c in normal) + "\n"
    rc, out, err = vlib.run_driver(cexe, script, timeout=3000) if normal else (0, "", "")
    for c in cases:
        if isolated(c):
            r, o, e = vlib.run_driver(cexe, "\n".join(c) + "\n", timeout=120)
            out += o
            if r != 0:
                m = __import__("re").search(r"(SUMMARY: [^\n]*)", e)
                run_impl.crashes[c[0]] = (r, m.group(1) if m else e[-300:])
    return rc, out, err


run_impl.crashes = {}


def run_model_cases(mexe, cases, variant):
    normal = [c for c in cases if not isolated(c)]
    _, mo, me = vlib.run_driver([mexe] + ([variant] if variant else []), "\n".join("\n".join(c) for c in normal) + "\n",
                                timeout=3000, unlimited_stack=True) if normal else (0, "", "")
    for c in cases:
        if isolated(c):
            _, o, _ = vlib.run_driver([mexe] + ([variant] if variant else []), "\n".join(c) + "\n", timeout=300, unlimited_stack=True)
            mo += o
    return 0, mo, me


def run_model(mexe, cases, variant=""):
    """variant: comma-separated proposed repairs the model mirrors ("clip", "empty", "switch"); "" = code as it is"""
    return run_model_cases(mexe, cases, variant)


PROPOSED = []


def source_variants():
    """repairs whose presence is read from the source text of the tree under test.
    reqclip = notes/fix_C03_8.diff (C03 F22): rfbSendFramebufferUpdate clips updateRegion to the saved
    requestedRegion after the cursor redraw; the model then runs send_update_r / pump_rounds_r (CursorReqClip.v)."""
    out = []
    try:
        txt = open(os.path.join(vlib.REPO, "src", "libvncserver", "rfbserver.c"), errors="replace").read()
        if re.search(r"sraRgnAnd\(\s*updateRegion\s*,\s*requested\s*\)", txt):
            out.append("reqclip")
    except OSError:
        pass
    return out


REPAIRS = ["clip", "empty", "switch", "cache"]      # /repo commits 1a3b6d2, 0775c26, 2b32386, 8f58d2d (were notes/fix_C15_1.._4.diff)


def case_kind(c):
    t = c[0].split()
    return t[2] if len(t) > 2 else "?"


def check(ctx):
    cexe, mexe, proof_ok = build(ctx)
    cases = gen_cases(ctx)
    run_impl.crashes = {}
    rc1, cout, cerr = run_impl(cexe, cases)
    crashes = dict(run_impl.crashes)
    by_head = {h: ls for (h, ls) in vlib.split_cases(cout)}

    def mism(variant):
        _, mo, _ = run_model(mexe, [c for c in cases if not oracle_only(c)], variant)
        mby = {h: ls for (h, ls) in vlib.split_cases(mo)}
        out = []
        for idx, c in enumerate(cases):
            if oracle_only(c):
                continue
            il, ml = by_head.get(c[0], []), mby.get(c[0], [])
            if c[0] in crashes and len(il) < len(ml) and il == ml[:len(il)] and ml[len(il)].endswith(" ERR"):
                continue        # the library died (sanitizer) exactly where the model has its explicit error value
            d = vlib.first_diff(il, ml)
            if d is not None:
                out.append((idx, d))
        return out
    # the tree contains the three repairs (commits 1a3b6d2, 0775c26, 2b32386): the model mirrors them.
    # On disagreement find out (greedy) whether dropping one of them explains it - a regression of that fix.
    tree = list(REPAIRS) + source_variants()
    mm0 = mism(",".join(tree))
    mismatches, chosen = mm0, tree
    if mismatches and PROPOSED:
        cand = mism(",".join(tree + PROPOSED))      # has a proposed repair been applied?
        if len(cand) < len(mismatches):
            mismatches, chosen = cand, tree + PROPOSED
            if not cand:
                mm0 = cand
    if mismatches:
        for r in REPAIRS:
            trial = [x for x in chosen if x != r]
            cand = mism(",".join(trial))
            if len(cand) < len(mismatches):
                mismatches, chosen = cand, trial
    variant = ",".join(chosen)
    nops = sum(len(c) - 1 for c in cases)
    hist, distinct = {}, set()
    oracle_fail = []
    for idx, c in enumerate(cases):
        il = by_head.get(c[0], [])
        hist[case_kind(c)] = hist.get(case_kind(c), 0) + 1
        prev = None
        for op, l in zip(c[1:], il):
            if op == "show" and prev is not None and l != prev:
                distinct.add(l)
            if l.startswith(("fb ", "hide ", "show ")):
                prev = l if not l.startswith("fb ") else prev
            if op.startswith("fb "):
                prev = None
        for e in oracle_case(c, il, crashes.get(c[0])):
            oracle_fail.append((idx, e))
    if rc1 != 0 and not any(e[1][1].get("kind") == "crash" for e in oracle_fail):
        oracle_fail.append((0,
                            ("implementation driver exited with %d: %s" % (rc1, cerr[-800:]), {"kind": "crash", "op": "?"})))
    ctx.coverage.update(
        evaluations=nops, distinct_nontrivial=len(distinct),
        rule="cursor scripts (screen/fb/cursor/pos/show/hide, update sessions) run on the extracted Coq model and on "
             "the library; every op's observation compared. distinct_nontrivial = distinct painted framebuffers "
             "observed on the implementation after rfbShowCursor",
        samples=[cases[i] for i in (0, len(cases) // 2, len(cases) - 1)],
        input_distribution=hist, cases=len(cases), repairs_found_in_library=variant or "none",
        repairs_expected_in_library=",".join(REPAIRS + source_variants()),
        correspondence_mismatches=len(mm0), mismatches_of_closest_variant=len(mismatches),
        oracle_failures=len(oracle_fail), exhaustive=False)
    ctx.assumptions += ["server pixel format is little-endian (serverFormat.bigEndian = FALSE, x86-64 host)",
                        "one client thread at a time (interleavings of two output threads are C13's)"]

    def shrink(idx, pred):
        c = cases[idx]
        return [c[0]] + vlib.ddmin(c[1:], lambda sub: pred([c[0]] + sub), max_tests=120)

    seen = set()
    for idx, (msg, feat) in oracle_fail:
        key = (feat.get("kind"), feat.get("where"), feat.get("what"), feat.get("switched"), feat.get("defcur"))
        if key in seen or len(seen) >= 6:
            continue
        seen.add(key)

        def pred(lines, want=feat):
            r, co, _ = run_impl(cexe, [lines])
            cs = vlib.split_cases(co)
            try:
                es = oracle_case(lines, cs[0][1] if cs else [])
            except Exception:
                return False
            return any(f.get("kind") == want.get("kind") and f.get("where") == want.get("where") and
                       f.get("what") == want.get("what") and f.get("switched") == want.get("switched") for (_, f) in es)
        small = shrink(idx, pred) if feat.get("kind") != "crash" and not feat.get("defcur") else cases[idx]
        r, co, ce = run_impl(cexe, [small])
        if run_impl.crashes.get(small[0]):
            ce += "\ncrash: %s" % (run_impl.crashes[small[0]],)
        _, mo, _ = run_model(mexe, [small], variant)
        ctx.violation("cursor property violated on the implementation: " + msg, feat,
                      "script:\n" + "\n".join(small) + "\n\nimplementation output:\n" + co + ce[-1500:] +
                      "\nmodel output (repairs mirrored: %s):\n" % (variant or "none") + mo)
    if mm0 and not [1 for (_, (m, f)) in oracle_fail if vlib.match_finding("C15", f) is None]:
        idx, d = mm0[0]
        variant = ",".join(REPAIRS + source_variants())

        def pred2(lines):
            r, co, _ = run_impl(cexe, [lines])
            _, mo, _ = run_model(mexe, [lines], variant)
            return co != mo
        small = shrink(idx, pred2)
        r, co, ce = run_impl(cexe, [small])
        _, mo, me = run_model(mexe, [small], variant)
        ctx.violation("correspondence Cursor/*.v <-> cursor.c/rfbserver.c no longer holds (%d cases differ from the model of "
                      "the tree, %d from the closest variant '%s' with some repair dropped); the property predicate held on "
                      "every implementation output explored" % (len(mm0), len(mismatches), ",".join(chosen)), {"kind": "correspondence"},
                      "correspondence: Cursor/CursorDefs.v, Cursor/CursorSession.v vs src/libvncserver/cursor.c, "
                      "rfbserver.c (rfbSendFramebufferUpdate bracket, SetEncodings), main.c (rfbDefaultPtrAddEvent)\n"
                      "script:\n" + "\n".join(small) + "\n\nimplementation output:\n" + co + ce[-1500:] +
                      "\nmodel output (repairs mirrored: %s):\n" % (variant or "none") + mo + me[-500:], no_input=True)
    if not proof_ok and not ctx.violations:
        vlib.report_proof_failure(ctx, "Correspondence and the overlay/restore oracle were run on %d operations "
                                  "without exhibiting a failing input." % nops)


def replay(ctx, path):
    txt = open(path).read()
    if "script:\n" not in txt:
        print("replay names a theorem/correspondence, re-running the full check")
        return check(ctx)
    body = txt.split("script:\n", 1)[1].split("\n\n", 1)[0]
    lines = [l for l in body.split("\n") if l.strip()]
    cexe, mexe, _ = build(ctx)
    r, co, ce = run_impl(cexe, [lines])
    _, m0, _ = run_model(mexe, [lines], "")
    _, m1, _ = run_model(mexe, [lines], ",".join(REPAIRS + source_variants()))
    print("implementation:\n" + co + ce[-800:] + "model (tree: all three repairs):\n" + m1 + "model (before the repairs):\n" + m0)
    cs = vlib.split_cases(co)
    es = oracle_case(lines, cs[0][1] if cs else [])
    ctx.coverage.update(evaluations=len(lines) - 1, distinct_nontrivial=0, rule="replay", samples=[lines])
    for (msg, feat) in es[:3]:
        ctx.violation("cursor property violated on the implementation: " + msg, feat,
                      "script:\n" + "\n".join(lines) + "\n\nimplementation output:\n" + co)
    if not es and co != m1:
        ctx.violation("correspondence differs on the replayed script", {"kind": "correspondence"},
                      "script:\n" + "\n".join(lines) + "\n\n" + co + "\n" + m0, no_input=True)
