"""C17 - Server-side scaling delivers consistent geometry and correctly filtered pixels.

Proof: coq/Props/Properties_C17.v (geometry of rfbScaledCorrection/ScaleX over exact rationals for all sizes,
agreement of the IEEE-double model with it on a swept range, box filter = per-channel floor average, chain of
scaled screens keeps refCount = number of users, resize notification, refuted: zero dimension (F2), pointer
off by one (F17)).
Tie: protocol constants and ZLIB/ULTRA_MAX_RECT_SIZE regenerated from /repo on every run; correspondence: the
extracted integer model + the primitive-float model (evaluated by ONE coqc call on the generated case list, see
float_table) against the real library: rfbScaledCorrection/ScaleX called directly, SetScale/PalmVNCSetScaleFactor
sessions, reference counts and pixels of every scaled screen after every operation, pointer callbacks.
Independently the property predicate (exact rational arithmetic in Python) is evaluated on the implementation's
own output.
"""
import json, os, re, shutil, subprocess, sys
import vlib

PROP_FILE = "Props/Properties_C17.v"
EXTRACT = "Extract/Extract_C17.vo"

FORMATS = [  # bpp, rmax, gmax, bmax, rshift, gshift, bshift
    (4, 255, 255, 255, 0, 8, 16), (4, 255, 255, 255, 16, 8, 0), (2, 31, 63, 31, 11, 5, 0),
    (2, 31, 31, 31, 0, 5, 10), (1, 7, 7, 3, 0, 3, 6),
]


# ---------------------------------------------------------------- exact (rational) reference, python ints
def ceil_div(a, b):
    return -((-a) // b)


def corr1_exact(frm, to, x, w):
    x2 = (x * to) // frm
    w2 = ceil_div(w * to + (x * to) % frm, frm)
    if w2 == 0:
        w2 = 1
    if x2 + w2 > to:
        w2 = to - x2
    return x2, w2


def ref_filter(fb, W, H, fmt, tc, w2, h2):
    if (w2, h2) == (W, H):          # factor 1: the unscaled framebuffer itself
        return [r[:] for r in fb]
    return ref_filter_scaled(fb, W, H, fmt, tc, w2, h2)


def ref_filter_scaled(fb, W, H, fmt, tc, w2, h2):
    """the reduced image: each pixel = per-channel floor average of its areaX x areaY block (top-left pixel
    for colour maps), areaX = W // w2, the block of pixel X starting at floor(X*W/w2) - the source pixels that
    rfbScaledCorrection maps onto X (for factors dividing the size this is X*areaX)"""
    bpp, rm, gm, bm, rs, gs, bs = fmt
    if w2 == 0 or h2 == 0:
        return [[] for _ in range(h2)]
    ax, ay = W // w2, H // h2
    out = []
    for Y in range(h2):
        row = []
        sy = (Y * H) // h2            # the block that maps onto pixel (X, Y) starts at floor(X*W/w2), floor(Y*H/h2)
        for X in range(w2):
            sx = (X * W) // w2
            if not tc:
                row.append(fb[sy][sx])
                continue
            r = g = b = 0
            for v in range(ay):
                for u in range(ax):
                    p = fb[sy + v][sx + u]
                    r += (p >> rs) & rm
                    g += (p >> gs) & gm
                    b += (p >> bs) & bm
            a2 = ax * ay
            row.append(((((r // a2) & rm) << rs) | (((g // a2) & gm) << gs) | (((b // a2) & bm) << bs)) % (1 << (8 * bpp)))
        out.append(row)
    return out


def parse_dump(s):
    return [[int(p, 16) for p in r.split(",")] if r else [] for r in s.split("/")] if s != "" else []


# ---------------------------------------------------------------- generators
def geom_case(rng, k, exhaustive=None):
    """direct calls of rfbScaledCorrection / ScaleX"""
    L = ["case %d geom" % k]
    if exhaustive:          # same order as ScaleF.sweep1
        W, n = exhaustive
        w2 = W // n
        L = ["case %d sweep %d %d" % (k, W, n)]
        for x in range(W):
            L.append("sx %d %d %d" % (W, w2, x))                  # screen -> scaled (copy deltas)
            for w in (1, 2, W - x):
                if w >= 1 and x + w <= W:
                    L.append("corr %d %d %d %d %d %d %d %d" % (W, W, w2, w2, x, x, w, w))
        for x in range(w2):
            L.append("sx %d %d %d" % (w2, W, x))                  # scaled -> screen (pointer)
            L.append("corr %d %d %d %d %d %d 1 1" % (w2, w2, W, W, x, x))
        return L
    for _ in range(25):
        mode = rng.random()
        if mode < 0.5:
            W = rng.choice([1, 2, 3, 5, 7, 10, 29, 64, 100, 199, 200, 255, 256, 640, 800, 1024, 1280, 1920, 4095, 65535,
                            rng.randint(1, 65535), rng.randint(1, 3000)])
            H = rng.choice([1, 2, 3, 7, 48, 100, 480, 600, 768, 1080, 65535, rng.randint(1, 65535), rng.randint(1, 2000)])
            n = rng.choice([1, 2, 2, 3, 3, 4, 5, 7, 8, 16, 100, 255, rng.randint(1, 255)])
            w2, h2 = W // n, H // n
            if w2 == 0 or h2 == 0:
                continue
            down = rng.random() < 0.6
            fw_, fh_, tw, th = (W, H, w2, h2) if down else (w2, h2, W, H)
        else:
            fw_, fh_, tw, th = (rng.choice([1, 2, 3, 100, 640, 65535, rng.randint(1, 4000)]) for _ in range(4))
        def rect1(dim):
            x = rng.choice([0, 0, dim - 1, dim // 2, rng.randint(0, dim - 1)])
            w = rng.choice([1, 1, dim - x, rng.randint(1, dim - x), 0])     # 0: empty request (the 0 -> 1 rule)
            return x, w
        x, w = rect1(fw_)
        y, h = rect1(fh_)
        L.append("corr %d %d %d %d %d %d %d %d" % (fw_, fh_, tw, th, x, y, w, h))
        L.append("sx %d %d %d" % (fw_, tw, rng.choice([0, 1, fw_ - 1, rng.randint(0, fw_ - 1)])))
    return L


def rand_rect_in(rng, W, H):
    x1 = rng.randint(0, W - 1)
    x2 = rng.choice([x1 + 1, W, rng.randint(x1 + 1, W)])
    y1 = rng.randint(0, H - 1)
    y2 = rng.choice([y1 + 1, H, rng.randint(y1 + 1, H)])
    return x1, y1, x2, y2


def chain_case(rng, k, flavour=None):
    """clients joining / changing factor / leaving, modifications, pointer events"""
    fmt = rng.choice(FORMATS)
    bpp = fmt[0]
    tc = 0 if (bpp == 1 and rng.random() < 0.3) else 1
    W, H = rng.choice([2, 3, 4, 6, 7, 9, 10, 12, 16, 29]), rng.choice([2, 3, 4, 5, 6, 8, 11])
    pm = (1 << (8 * bpp)) - 1
    fb = [[rng.randint(0, pm) for _ in range(W)] for _ in range(H)]
    flavour = flavour or rng.choice(["chain", "chain", "sess", "mixed", "mixed"])
    if flavour in ("sess", "mixed"):
        tc = 1          # colour-mapped screens send SetColourMapEntries first: not decoded by the harness
    L = ["case %d %s" % (k, flavour), "screen %d %d %d %d %d %d %d %d %d %d" % ((W, H) + fmt + (tc,)),
         "fb " + " ".join("%x" % p for r in fb for p in r)]
    ncl = rng.choice([1, 2, 3, 4])
    # configuration axis: screen->deferPtrUpdateTime > 0 = pure motions are remembered and delivered later by
    # rfbUpdateClient (`flush` lets the time pass; values far above the duration of a case)
    defer = rng.choice([0, 0, 5000, 60000])
    if defer:
        L.append("deferptr %d" % defer)
    btn = {}
    if flavour == "mixed":
        # scaled / unscaled x soft-cursor / RichCursor / XCursor clients, a cursor on the screen: the server paints
        # it into the framebuffer AND into every scaled copy around the updates of soft-cursor clients
        ncl = rng.choice([2, 3, 4])
        cw_, ch_ = rng.choice([1, 2, 3]), rng.choice([1, 2, 3])
        L.append("curs %d %d %d %d" % (cw_, ch_, rng.randint(0, cw_ - 1), rng.randint(0, ch_ - 1)))
    kinds = {}
    for i in range(ncl):
        kinds[i] = rng.choice(["", "", "rich", "x"]) if flavour == "mixed" else ""
        if flavour == "mixed" and i == 0:
            kinds[i] = ""                       # at least one soft-cursor client
        L.append(("client %d %s" % (i, kinds[i])).rstrip())
    alive = list(range(ncl))
    dims = {i: (W, H) for i in alive}
    if flavour == "mixed":                      # client 0 stays unscaled, some other one is scaled
        j = rng.choice(alive[1:])
        n = rng.choice([2, 2, 3])
        if W // n >= 1 and H // n >= 1:
            L.append("scale %d %d 0" % (j, n)); dims[j] = (W // n, H // n)
        for i in alive:
            L.append("upd %d 0 0 0 %d %d" % ((i,) + dims[i]))
    def factor():
        m = min(W, H)
        return rng.choice([1, 1, 2, 2, 3, 3, 4, 5, m, max(1, m - 1), rng.randint(1, max(1, m))])
    for _ in range(rng.choice([4, 8, 14])):
        if not alive:
            break
        r = rng.random()
        i = rng.choice(alive)
        if r < 0.35:
            n = factor()
            L.append("scale %d %d %d" % (i, n, rng.choice([0, 0, 1])))
            dims[i] = (W // n, H // n)
        elif r < 0.65:
            x1, y1, x2, y2 = rand_rect_in(rng, W, H)
            if rng.random() < 0.3:
                x2, y2 = x1 + 1, y1 + 1                 # one pixel, often at the right/bottom edge
                if rng.random() < 0.5:
                    x1, x2, y1, y2 = W - 1, W, H - 1, H
            L.append("fill %d %d %d %d %x" % (x1, y1, x2, y2, rng.randint(0, pm)))
        elif r < 0.80:
            w2, h2 = dims[i]
            for _ in range(rng.choice([1, 1, 2, 3])):
                b = rng.choice([btn.get(i, 0), btn.get(i, 0), 0, 1, 5])
                btn[i] = b
                L.append("ptr %d %d %d %d" % (i, rng.choice([0, max(w2 - 1, 0), rng.randint(0, max(w2 - 1, 0))]),
                                              rng.choice([0, max(h2 - 1, 0), rng.randint(0, max(h2 - 1, 0))]), b))
            if rng.random() < 0.7:
                L.append("flush %d" % rng.choice(alive))
        elif r < 0.88 and len(alive) > 1:
            L.append("gone %d" % i)
            alive.remove(i)
        elif flavour == "mixed" and r < 0.93 and len(alive) + 0 < 5 and rng.random() < 0.3:
            k2 = max(kinds) + 1                 # a new client joins, possibly an existing scaled view
            kinds[k2] = rng.choice(["", "rich", "x"])
            L.append(("client %d %s" % (k2, kinds[k2])).rstrip())
            alive.append(k2); dims[k2] = (W, H)
            others = [d for d in dims.values() if d != (W, H)]
            if others and rng.random() < 0.7:
                d = rng.choice(others)
                n = next((f for f in range(2, max(W, H) + 1) if (W // f, H // f) == d), None)
                if n:
                    L.append("scale %d %d 0" % (k2, n)); dims[k2] = d
            L.append("upd %d 0 0 0 %d %d" % ((k2,) + dims[k2]))
        elif flavour in ("sess", "mixed") and dims[i][0] >= 1 and dims[i][1] >= 1:
            w2, h2 = dims[i]
            if rng.random() < 0.6:
                L.append("upd %d %d 0 0 %d %d" % (i, rng.choice([0, 1]), w2, h2))
            else:
                x1, y1, x2, y2 = rand_rect_in(rng, w2, h2)
                L.append("upd %d %d %d %d %d %d" % (i, rng.choice([0, 1]), x1, y1, x2 - x1, y2 - y1))
    if flavour in ("sess", "mixed"):
        for i in alive:
            L.append("upd %d 0 0 0 %d %d" % ((i,) + dims[i]))
    return L


def ptr_case(rng, k):
    """pointer events of scaled clients, delivered at once and deferred (motion coalescing): larger screens whose
    width and height ratios differ, every factor, pure motions / button changes / several clients"""
    W = rng.choice([3, 7, 10, 29, 33, 64, 100, 101, 120, rng.randint(2, 120)])
    H = rng.choice([2, 5, 11, 31, 77, 90, 200, rng.randint(2, 200)])
    fmt = FORMATS[0]
    L = ["case %d ptr" % k, "screen %d %d %d %d %d %d %d %d %d 1" % ((W, H) + fmt)]
    defer = rng.choice([0, 5000, 5000, 60000])
    if defer:
        L.append("deferptr %d" % defer)
    ncl = rng.choice([1, 1, 2, 3])
    for i in range(ncl):
        L.append("client %d" % i)
    dims = {i: (W, H) for i in range(ncl)}
    btn = {}
    m = min(W, H)
    def factor():
        nd = [f for f in range(2, m + 1) if W * (H // f) != H * (W // f)]       # ratios differ
        return rng.choice([rng.choice(nd) if nd else 1, rng.choice(nd) if nd else 2, rng.randint(1, m), m, 1, 2, 3])
    for i in range(ncl):
        if rng.random() < 0.85:
            n = min(factor(), m)
            L.append("scale %d %d %d" % (i, n, rng.choice([0, 0, 1]))); dims[i] = (W // n, H // n)
    for _ in range(rng.choice([6, 12, 20])):
        i = rng.randrange(ncl)
        r = rng.random()
        w2, h2 = dims[i]
        if r < 0.62:
            b = rng.choice([btn.get(i, 0)] * 4 + [0, 1, 2])
            btn[i] = b
            L.append("ptr %d %d %d %d" % (i, rng.choice([0, w2 - 1, w2 - 1, rng.randint(0, w2 - 1)]),
                                          rng.choice([0, h2 - 1, h2 - 1, rng.randint(0, h2 - 1)]), b))
        elif r < 0.92:
            L.append("flush %d" % rng.randrange(ncl))
        else:
            n = min(factor(), m)
            L.append("scale %d %d 0" % (i, n)); dims[i] = (W // n, H // n)
    for i in range(ncl):
        L.append("flush %d" % i)
    return L


def copy_case(rng, k):
    """rfbDoCopyRect with scaled and unscaled clients, with and without the CopyRect encoding: every scaled copy and
    every client's picture (kept across incremental updates, CopyRect rectangles applied) must follow"""
    fmt = rng.choice([f for f in FORMATS])
    bpp = fmt[0]
    W, H = rng.choice([4, 6, 7, 9, 10, 12, 16]), rng.choice([3, 4, 5, 6, 8, 11])
    pm = (1 << (8 * bpp)) - 1
    fb = [[rng.randint(0, pm) for _ in range(W)] for _ in range(H)]
    L = ["case %d copy" % k, "screen %d %d %d %d %d %d %d %d %d 1" % ((W, H) + fmt),
         "fb " + " ".join("%x" % p for r in fb for p in r)]
    ncl = rng.choice([1, 2, 3])
    dims = {}
    for i in range(ncl):
        L.append(("client %d %s" % (i, rng.choice(["copyrect", "copyrect", ""]))).rstrip())
        dims[i] = (W, H)
    for i in range(ncl):
        if rng.random() < 0.75:
            n = rng.choice([2, 2, 3, rng.randint(1, min(W, H))])
            L.append("scale %d %d %d" % (i, n, rng.choice([0, 0, 1]))); dims[i] = (W // n, H // n)
    for i in range(ncl):
        L.append("upd %d 0 0 0 %d %d" % ((i,) + dims[i]))
    for _ in range(rng.choice([1, 2, 4])):
        if rng.random() < 0.75:
            x1, y1, x2, y2 = rand_rect_in(rng, W, H)
            dx, dy = rng.randint(x2 - W, x1), rng.randint(y2 - H, y1)
            if rng.random() < 0.3:
                dx = 0
            elif rng.random() < 0.3:
                dy = 0
            L.append("copy %d %d %d %d %d %d" % (x1, y1, x2, y2, dx, dy))
        else:
            x1, y1, x2, y2 = rand_rect_in(rng, W, H)
            L.append("fill %d %d %d %d %x" % (x1, y1, x2, y2, rng.randint(0, pm)))
        for i in range(ncl):
            if rng.random() < 0.8:
                L.append("upd %d 1 0 0 %d %d" % ((i,) + dims[i]))
    for i in range(ncl):
        L.append("upd %d 1 0 0 %d %d" % ((i,) + dims[i]))
    return L


def cnt_case(rng, k):
    L = ["case %d cnt" % k]
    for _ in range(20):
        w = rng.choice([1, 2, 127, 128, 129, 255, 256, 16383, 16384, 16385, 32768, 65535, rng.randint(1, 65535)])
        h = rng.choice([1, 2, 127, 128, 129, 256, 257, 32768, 65535, rng.randint(1, 65535)])
        L.append("cnt %s %d %d" % (rng.choice(["zlib", "ultra"]), w, h))
    return L


def f2_case(rng, k):
    """factor larger than the width with height/factor >= 1, Zlib or Ultra client, full update"""
    W = rng.choice([1, 2, 3, 5, 8])
    n = rng.randint(W + 1, min(255, W + 6))
    H = n * rng.choice([1, 2, 3]) + rng.randint(0, n - 1)
    fmt = FORMATS[0]
    enc = rng.choice(["zlib", "ultra"])
    return ["case %d f2 %s" % (k, enc), "screen %d %d %d %d %d %d %d %d %d 1" % ((W, H) + fmt),
            "client 0 %s" % enc, "scale 0 %d 0" % n, "zupd 0 %s" % enc]


SWEEP_QUICK, SWEEP_THOROUGH = 64, 160


def gen_cases(ctx):
    rng = ctx.rng
    cases, k = [], 0
    cdir = os.path.join(vlib.VERIF, "corpus", "C17")
    if os.path.isdir(cdir):
        for fn in sorted(os.listdir(cdir)):
            lines = [l for l in open(os.path.join(cdir, fn)).read().split("\n") if l.strip()]
            if lines and not lines[0].startswith("case "):
                lines = ["case %d corpus:%s" % (k, fn)] + lines
            cases.append(lines)
            k += 1
    q = ctx.quick()
    for _ in range(120 if q else 2000):
        cases.append(geom_case(rng, k)); k += 1
    # exhaustive agreement sweep ScaleF <-> C for all (W <= N, factor, x)
    N = SWEEP_QUICK if q else SWEEP_THOROUGH
    for W in range(1, N + 1):
        for n in range(1, min(W, 255) + 1):
            cases.append(geom_case(rng, k, exhaustive=(W, n))); k += 1
    for _ in range(500 if q else 8000):
        cases.append(chain_case(rng, k)); k += 1
    for _ in range(150 if q else 3000):
        cases.append(ptr_case(rng, k)); k += 1
    for _ in range(120 if q else 2500):
        cases.append(copy_case(rng, k)); k += 1
    for _ in range(20 if q else 200):
        cases.append(cnt_case(rng, k)); k += 1
    for _ in range(6 if q else 30):
        cases.append(f2_case(rng, k)); k += 1
    return cases


# ---------------------------------------------------------------- float model: one coqc call
def parse_coq_lists(txt):
    """'= [[1; 2]; [0]] : list (list Z)' blocks -> python lists"""
    out = []
    for m in re.finditer(r"=\s*(\[[^:]*\])\s*:\s*list", txt, flags=re.S):
        s = m.group(1).replace(";", ",")
        out.append(json.loads(s))
    return out


CHUNK = 2500
EVAL = {"S": "Eval vm_compute in (map (fun t => match t with [a; b; c] => show_oz (scaleF a b c) | _ => [] end) %s).\n",
        "C": "Eval vm_compute in (map (fun t => match t with [a; b; c; d; e; f; g; h] => show_o4 (correctionF a b c d e f g h) | _ => [] end) %s).\n",
        "G": "Eval vm_compute in (map (fun t => match t with [a; b; c; d; e; f; g; h] => show_ol (upd_geomF GRID a b c d e f g h) | _ => [] end) %s).\n"}


def hash_entries(entries):
    h = 0
    for v in entries:
        h = (h * 1000003 + (v & ((1 << 63) - 1)) + 7) & ((1 << 63) - 1)
    return h


def sweep_hash_of_impl(case, impl_lines):
    """ScaleF.sweep_hash computed over the implementation's answers of one exhaustive case"""
    ent = []
    for op, line in zip(case[1:], impl_lines):
        p = op.split()
        r = line.split()
        if p[0] == "sx":
            ent += [0] + [int(t) for t in p[1:]] + ([0] if r[1] == "indef" else [1, int(r[1])])
        else:
            ent += [1] + [int(t) for t in p[1:]] + ([0] if r[1] == "indef" else [1] + [int(t) for t in r[1:]])
    return hash_entries(ent)


def float_table(ctx, queries, path, sweeps=(), gridfix=False):
    """evaluate ScaleF on all queries with a single coqc run (lists cut into chunks so that the parser's stack
    suffices); write the table file for the OCaml driver.  sweeps: (W, n) pairs -> dict of ScaleF.sweep_hash"""
    order = []        # (kind, [keys]) per Eval, in file order
    src = ("From LV Require Import Scale.ScaleF.\nFrom Coq Require Import ZArith List.\nImport ListNotations.\n"
           "Local Open Scope Z_scope.\n")
    for kk in ("S", "C", "G"):
        items = [qk for qk in queries if qk[0] == kk]
        for o in range(0, len(items), CHUNK):
            part = items[o:o + CHUNK]
            order.append(part)
            src += EVAL[kk].replace("GRID", "true" if gridfix else "false") % ("[" + "; ".join("[" + "; ".join("(%s)" % t for t in it.split()[1:]) + "]" for it in part) + "]")
    sweeps = list(sweeps)
    for o in range(0, len(sweeps), CHUNK):
        src += "Eval vm_compute in (map sweep_hash [%s]).\n" % "; ".join("(%d, %d)" % pr for pr in sweeps[o:o + CHUNK])
    d = ctx.scratch
    fn = os.path.join(d, "cases_C17.v")
    open(fn, "w").write(src)
    rc, out = vlib.run(["bash", "-c", "ulimit -s unlimited 2>/dev/null; exec coqc -noglob -Q %s LV -w -all %s" % (vlib.COQ, fn)],
                       timeout=1500, cwd=d)
    res = parse_coq_lists(out)
    nsw = (len(sweeps) + CHUNK - 1) // CHUNK
    if rc != 0 or len(res) != len(order) + nsw or any(len(r) != len(part) for r, part in zip(res, order)):
        raise vlib.BuildError("float model evaluation (coqc on generated cases) failed:\n" + out[-2000:])
    hashes = [h for r in res[len(order):] for h in r]
    if len(hashes) != len(sweeps):
        raise vlib.BuildError("float model evaluation: sweep hashes missing")
    float_table.sweep_hashes = dict(zip(sweeps, hashes))
    table = {}
    with open(path, "w") as f:
        for r, part in zip(res, order):
            for key, val in zip(part, r):
                f.write("%s=%s\n" % (key, " ".join(str(v) for v in val)))
                table[key] = val
    return table


def py_float_check(table):
    """third opinion: the same expressions with Python floats (IEEE doubles); returns disagreeing keys"""
    bad = []
    for key, val in table.items():
        p = key.split()
        if p[0] != "S":
            continue
        a, b, x = (int(t) for t in p[1:])
        want = [0]
        if a != 0:
            v = (float(x) * float(b)) / float(a)
            if v == v and abs(v) < 2 ** 31:
                want = [1, int(v)]
        if val != want:
            bad.append((key, val, want))
    return bad


# ---------------------------------------------------------------- the check
def ensure_model(pid):
    src = os.path.join(vlib.VERIF, "build", "ocaml", pid)
    dst = os.path.join(vlib.BUILD, "ocaml", pid)
    if os.path.abspath(src) != os.path.abspath(dst):
        os.makedirs(dst, exist_ok=True)
        for fn in ("model.ml", "model.mli"):
            if os.path.exists(os.path.join(src, fn)):
                shutil.copy(os.path.join(src, fn), os.path.join(dst, fn))


PRIMITIVE_PREFIXES = ("PrimFloat.", "PrimInt63.", "Uint63.", "Sint63.", "FloatAxioms.", "Floats.")


def prove_with_primitives(ctx):
    """vlib.prove, then repair one artefact of its Print-Assumptions parser: the heading line "Axioms:" is
    taken for an axiom called `Axioms`, so every theorem that mentions kernel primitives (PrimFloat.*, PrimInt63.*:
    registered primitives, listed by Print Assumptions) is counted as not discharged.  Recount with that heading
    ignored; nothing else is relaxed."""
    ok = vlib.prove(ctx, PROP_FILE, [EXTRACT, "Scale/ScaleF.vo"])
    if ok:
        return True
    only_heading = [p for p in ctx.proof_problems if re.search(r"non-standard axioms \['Axioms'\]$", p)]
    if len(only_heading) != len(ctx.proof_problems):
        return False
    assum = vlib.print_assumptions(ctx.pid, PROP_FILE)
    tb = list(vlib.TRUSTED_BASE_COMMON)
    for t, ax in assum.items():
        if ax is None:
            return False
        ax = [a for a in ax if a != "Axioms"]
        if any(not a.startswith(PRIMITIVE_PREFIXES) and a not in vlib.AXIOM_WHITELIST for a in ax):
            return False
        tb.append("Print Assumptions %s: %s" % (t, ", ".join(ax) + " (kernel primitives of Coq's Floats/Uint63, no axiom of "
                                                "this development)" if ax else "Closed under the global context"))
    ctx.coverage.update(discharged=len(assum), trusted_base=tb)
    ctx.proof_ok, ctx.proof_problems = True, []
    return True


def build(ctx):
    cexe = vlib.build_harness("vdrv_scale", ["vdrv_scale.c"])
    proof_ok = prove_with_primitives(ctx)
    ensure_model("C17")
    mexe = vlib.build_ocaml("C17", "driver_C17.ml", EXTRACT)
    return cexe, mexe, proof_ok


def script_of(cases):
    return "\n".join("\n".join(c) for c in cases) + "\n"


def crash_summary(err):
    m = re.search(r"(ERROR: AddressSanitizer[^\n]*)", err)
    m2 = re.search(r"(SUMMARY: [^\n]*)", err)
    return " ".join(x.group(1) for x in (m, m2) if x) or err[-300:]


def run_impl(cexe, cases):
    """f2 cases may kill the process (SIGFPE): each of them runs in a process of its own.
    crashes: case header (or '*' for the batch) -> (exit code, sanitizer summary)"""
    normal = [c for c in cases if " f2 " not in c[0] + " "]
    rc, out, err = vlib.run_driver(cexe, script_of(normal), timeout=3000) if normal else (0, "", "")
    crashes = {}
    if rc != 0:
        crashes["*"] = (rc, crash_summary(err))
    for c in cases:
        if " f2 " in c[0] + " ":
            r, o, e = vlib.run_driver(cexe, script_of([c]), timeout=120)
            out += o
            if r != 0:
                crashes[c[0]] = (r, crash_summary(e))
    return rc, out, err, crashes


REPAIRS = ["zerofix", "gridfix", "copyfix"]      # /repo commits 8e7b6f1, d58ea84, <commit of notes/fix_C17_3.diff>
PROPOSED = []


def is_sweep(c):
    return c[0].split()[2:3] == ["sweep"]


def run_model(ctx, mexe, cases, zerofix=False, gridfix=False, copyfix=False):
    sweeps = [tuple(int(t) for t in c[0].split()[3:5]) for c in cases if is_sweep(c)]
    script = script_of([c for c in cases if not is_sweep(c)])
    rc, qo, qe = vlib.run_driver([mexe, "collect", "-"] + (["zerofix"] if zerofix else []), script, timeout=3000,
                                 unlimited_stack=True)
    queries = sorted(set(l[2:] for l in qo.split("\n") if l.startswith("Q ")))
    tpath = os.path.join(ctx.scratch, "float_table.txt")
    table = float_table(ctx, queries, tpath, sweeps, gridfix)
    rc, mo, me = vlib.run_driver([mexe, "run", tpath] + (["zerofix"] if zerofix else ["nozerofix"]) +
                                 (["copyfix"] if copyfix else []), script, timeout=3000,
                                 unlimited_stack=True)
    return mo, me, table


def comparable(lines):
    return [l for l in lines if not l.startswith("upd")]


def oracle_case(script, impl, crash=None):
    """the property predicate on the implementation's observations of one case -> list of (message, features)"""
    errs = []
    W = H = 0
    fmt, tc, fb = None, 1, []
    cl = {}          # k -> dict(alive, dims, palm)
    ncl = 0
    have_cursor = False
    defer, owner = 0, None
    copied = False      # a rfbDoCopyRect happened while some client was scaled (F17c)
    it = iter(impl)
    for op in script[1:]:
        p = op.split()
        try:
            line = next(it)
        except StopIteration:
            feat = {"kind": "crash", "op": p[0]}
            if crash:
                feat["signal"] = "SIGFPE" if ("AddressSanitizer: FPE" in crash[1] or crash[0] == -8) else \
                    "SIGSEGV" if ("SEGV" in crash[1] or crash[0] == -11) else str(crash[0])
            feat["zero_dim"] = any(d["alive"] and (d["dims"][0] == 0 or d["dims"][1] == 0) for d in cl.values())
            errs.append(("implementation died at '%s' (%s): %s" % (op, feat.get("signal", "?"), (crash or ("", ""))[1][:300]), feat))
            return errs
        if p[0] == "screen":
            W, H = int(p[1]), int(p[2])
            fmt = tuple(int(t) for t in p[3:10])
            tc = int(p[10])
            fb = [[0] * W for _ in range(H)]
            cl, ncl = {}, 0
            defer, owner = 0, None
        elif p[0] == "deferptr":
            defer = int(p[1])
        elif p[0] in ("ptr", "flush"):
            # the application must see the origin of the source block of the client pixel (x with the width ratio,
            # y with the height ratio), at once or - a pure motion with deferPtrUpdateTime > 0 - at the flush;
            # only the newest remembered motion, once; nothing from others while one client holds a button
            k = int(p[1])
            d = cl.get(k)
            want = None
            if d and d["alive"]:
                if p[0] == "ptr":
                    x, y, b = int(p[2]), int(p[3]), (int(p[4]) if len(p) > 4 else 0)
                    if owner is None or owner == k:
                        owner = k if b else None
                        w2, h2 = d["dims"]
                        ev = "%d,%d b=%d" % (x * W // w2, y * H // h2, b) if w2 and h2 else None
                        if b != d.get("btn", 0) or defer == 0:
                            want, d["pend"] = ev, None
                        else:
                            d["pend"] = ev
                        d["btn"] = b
                        how = "at once" if want else "deferred"
                else:
                    want, d["pend"] = d.get("pend"), None
                    how = "deferred"
                if d["dims"][0] and d["dims"][1]:
                    got = line.split(" cb=", 1)[1] if " cb=" in line else line
                    if got != (want or "-"):
                        w2, h2 = d["dims"]
                        errs.append(("pointer event of a %dx%d view of a %dx%d screen (%s, deferPtrUpdateTime=%d): '%s' gave %s, expected %s" %
                                     (w2, h2, W, H, how if want else "none due", defer, op, got, want or "-"),
                                     {"kind": "pointer", "what": "deferred" if p[0] == "flush" else "immediate",
                                      "divides": W % w2 == 0 and H % h2 == 0, "defer": defer > 0}))
        elif p[0] == "fb":
            v = [int(t, 16) for t in p[1:]]
            fb = [v[y * W:(y + 1) * W] for y in range(H)]
        elif p[0] == "client":
            cl[ncl] = dict(alive=True, dims=(W, H), palm=False, shape=("rich" in p[2:] or "x" in p[2:]))
            ncl += 1
        elif p[0] == "curs":
            have_cursor = True
        elif p[0] == "corr":
            fw_, fh_, tw, th, x, y, w, h = (int(t) for t in p[1:])
            if line == "corr indef":
                errs.append(("rfbScaledCorrection produced the integer-indefinite value", {"kind": "geometry", "what": "indefinite"}))
                continue
            gx, gy, gw, gh = (int(t) for t in line.split()[1:])
            if w == 0 or h == 0:
                continue        # an empty source rectangle: nothing is required of the result
            if not (gw >= 1 and gh >= 1 and 0 <= gx and 0 <= gy and gx + gw <= tw and gy + gh <= th):
                errs.append(("rfbScaledCorrection(%s) = %s is not a non-empty rectangle inside %dx%d" % (op, (gx, gy, gw, gh), tw, th),
                             {"kind": "geometry", "what": "outside"}))
            else:       # covers the exact image of the source rectangle
                ex, ew = corr1_exact(fw_, tw, x, w)
                ey, eh = corr1_exact(fh_, th, y, h)
                if not (gx <= ex and gx + gw >= ex + ew and gy <= ey and gy + gh >= ey + eh):
                    errs.append(("rfbScaledCorrection(%s) = %s does not cover the exact image %s" % (op, (gx, gy, gw, gh), (ex, ey, ew, eh)),
                                 {"kind": "geometry", "what": "not_covering"}))
        elif p[0] == "sx":
            a, b, x = (int(t) for t in p[1:])
            if line == "sx indef":
                errs.append(("ScaleX produced the integer-indefinite value", {"kind": "pointer", "what": "indefinite"}))
            elif b > a and b // a >= 1 and a == b // (b // a) and a >= 1:
                # a = client (scaled) size of a server b wide, factor n = b // a: block of client pixel x
                ax = b // a
                v = int(line.split()[1])
                if not (x * ax <= v < x * ax + ax):
                    errs.append(("ScaleX(%d->%d, %d) = %d lies outside the source block [%d,%d) of that client pixel" %
                                 (a, b, x, v, x * ax, x * ax + ax), {"kind": "pointer", "what": "off_by_one" if v == x * ax - 1 else "other"}))
        elif p[0] == "cnt":
            pass
        elif p[0] in ("scale", "fill", "gone", "client"):
            pass
        # ---- state-carrying ops: parse the observation
        if p[0] == "fill":
            x1, y1, x2, y2 = (int(t) for t in p[1:5])
            for y in range(y1, y2):
                for x in range(x1, x2):
                    fb[y][x] = int(p[5], 16)
        if p[0] == "copy":
            x1, y1, x2, y2, dx, dy = (int(t) for t in p[1:7])
            old = [r[:] for r in fb]
            for y in range(y1, y2):
                for x in range(x1, x2):
                    fb[y][x] = old[y - dy][x - dx]
            if any(d["alive"] and d["dims"] != (W, H) for d in cl.values()):
                copied = True
        if p[0] == "scale":
            k, n, palm = int(p[1]), int(p[2]), int(p[3])
            if k in cl and cl[k]["alive"]:
                if n == 0:
                    cl[k]["alive"] = False
                    if owner == k:
                        owner = None
                else:
                    want = (W // n, H // n)
                    m = re.match(r"scale msg=(\S*) ", line)
                    msg = bytes.fromhex(m.group(1)) if m and m.group(1) else b""
                    told = None
                    if len(msg) == 6 and msg[0] == 4:
                        told = (int.from_bytes(msg[2:4], "big"), int.from_bytes(msg[4:6], "big"))
                    elif len(msg) == 12 and msg[0] == 15:
                        told = (int.from_bytes(msg[6:8], "big"), int.from_bytes(msg[8:10], "big"))
                        if (int.from_bytes(msg[2:4], "big"), int.from_bytes(msg[4:6], "big")) != (W, H):
                            errs.append(("PalmVNC resize message carries a wrong desktop size", {"kind": "size", "what": "desktop"}))
                    cl[k]["palm"] = cl[k]["palm"] or bool(palm)      # cl->PalmVNC is sticky
                    if told is None or (len(msg) == 12) != cl[k]["palm"]:
                        errs.append(("SetScale(%d) was not answered by one resize message of the requested variant (%s)" % (n, msg.hex()),
                                     {"kind": "size", "what": "message"}))
                    else:
                        cl[k]["prev"], cl[k]["dims"] = cl[k]["dims"], told
                        if told[0] == 0 or told[1] == 0:
                            errs.append(("SetScale(%d) on a %dx%d screen: the client is told a framebuffer of %dx%d pixels" % ((n, W, H) + told),
                                         {"kind": "size", "what": "zero_dim", "zero_dim": True}))
                        elif (want[0] == 0 or want[1] == 0) and told == tuple(cl[k].get("prev", (W, H))):
                            pass        # a factor that would reduce a dimension to 0 is refused: size unchanged
                        elif told != want:
                            errs.append(("SetScale(%d) on a %dx%d screen: client told %s, expected %s" % (n, W, H, told, want),
                                         {"kind": "size", "what": "wrong"}))
        if p[0] == "gone":
            k = int(p[1])
            if k in cl:
                cl[k]["alive"] = False
            if owner == k:
                owner = None
        if p[0] == "upd" and " app=" in line:
            ma = re.search(r" app=(\S*) main=", line)
            if ma and parse_dump(ma.group(1)) != fb:
                errs.append(("application framebuffer is not restored after an update (cursor left in it)",
                             {"kind": "pixels", "what": "app_fb", "divides": True}))
        if p[0] in ("scale", "fill", "gone", "client", "upd", "copy") and " chain=[" in line:
            m = re.search(r"main=(\d+)x(\d+):(-?\d+) chain=\[(.*?)\] cl=\[(.*?)\]", line)
            if not m:
                continue
            users = {}
            for d in cl.values():
                if d["alive"]:
                    users[d["dims"]] = users.get(d["dims"], 0) + 1
            if int(m.group(3)) != users.get((W, H), 0):
                errs.append(("reference count of the unscaled screen is %s with %d users" % (m.group(3), users.get((W, H), 0)),
                             {"kind": "refcount", "what": "main"}))
            for ent in (m.group(4).split(";") if m.group(4) else []):
                dims, ref, dump = ent.split(":", 2)
                w2, h2 = (int(t) for t in dims.split("x"))
                if int(ref) != users.get((w2, h2), 0):
                    errs.append(("scaled screen %s has reference count %s with %d users" % (dims, ref, users.get((w2, h2), 0)),
                                 {"kind": "refcount", "what": "scaled"}))
                if int(ref) > 0 and w2 > 0 and h2 > 0:
                    got = parse_dump(dump)
                    want = ref_filter(fb, W, H, fmt, tc, w2, h2)
                    if got != want:
                        bad = [(x, y) for y in range(h2) for x in range(w2) if got[y][x] != want[y][x]]
                        errs.append(("scaled screen %s (in use) is not the box-filtered framebuffer after '%s' (%d pixels, first %s)" %
                                     (dims, p[0], len(bad), bad[0]),
                                     {"kind": "pixels", "what": "filter", "divides": W % w2 == 0 and H % h2 == 0, "op": p[0],
                                      "copied": copied}))
        if p[0] == "upd" and " size=" in line:
            k = int(p[1])
            m = re.search(r" size=(\d+)x(\d+) pic=(\S*) app=", line)
            w2, h2 = int(m.group(1)), int(m.group(2))
            for r in re.findall(r" r=(\d+),(\d+),(\d+),(\d+)", line):
                x, y, w, h = (int(t) for t in r)
                if x + w > w2 or y + h > h2 or w == 0 or h == 0:
                    errs.append(("update rectangle %s is not a non-empty rectangle inside the scaled size %dx%d" % ((x, y, w, h), w2, h2),
                                 {"kind": "geometry", "what": "rect_outside", "copied": copied}))
            if "OUTSIDE" in line or "ENC" in line or "MALFORMED" in line or "EXTRA" in line:
                errs.append(("malformed update for a scaled client: " + line[:120], {"kind": "geometry", "what": "stream", "copied": copied}))
            soft_with_cursor = have_cursor and k in cl and not cl[k].get("shape")      # cursor painted into its picture: C15's
            full = [int(t) for t in p[3:7]] == [0, 0, w2, h2] and w2 > 0 and h2 > 0
            if k in cl and full and p[2] == "0":
                cl[k]["synced"] = (w2, h2)          # from here on the harness keeps this client's picture
            # a full-size request, non-incremental or incremental on a picture that is complete: the client must now
            # hold the box filter of the framebuffer (CopyRect rectangles are applied to its picture)
            if full and not soft_with_cursor and (p[2] == "0" or (k in cl and cl[k].get("synced") == (w2, h2))):
                got = parse_dump(m.group(3))
                want = ref_filter(fb, W, H, fmt, tc, w2, h2)
                if got != want:
                    bad = [(x, y) for y in range(h2) for x in range(w2) if got[y][x] != want[y][x]]
                    errs.append(("client picture (%dx%d of %dx%d) after a full %s update is not the box-filtered (cursor-free) "
                                 "framebuffer (%d pixels, first %s)%s" %
                                 (w2, h2, W, H, "incremental" if p[2] == "1" else "non-incremental", len(bad), bad[0],
                                  "; CopyRect rectangles sent: %s" % re.findall(r" c=(\S+)", line) if " c=" in line else ""),
                                 {"kind": "pixels", "what": "picture", "divides": W % w2 == 0 and H % h2 == 0,
                                  "copied": copied}))
        if p[0] == "scale" and int(p[1]) in cl:
            cl[int(p[1])]["synced"] = None
    return errs


def case_kind(c):
    t = c[0].split()
    return t[2] if len(t) > 2 else "?"


def check(ctx):
    cexe, mexe, proof_ok = build(ctx)
    cases = gen_cases(ctx)
    rc1, cout, cerr, crashes = run_impl(cexe, cases)
    mo, me, table = run_model(ctx, mexe, cases, zerofix=True, gridfix=True, copyfix=True)     # the tree
    cc, mc = vlib.split_cases(cout), vlib.split_cases(mo)
    by_head = {h: ls for (h, ls) in cc}
    mby_head = {h: ls for (h, ls) in mc}
    corr_head = dict(by_head)       # for the correspondence: a SIGFPE is the model's explicit DIV0 error value
    for h, (r, e) in crashes.items():
        if h != "*" and ("AddressSanitizer: FPE" in e or r == -8):
            corr_head[h] = by_head.get(h, []) + ["zupd DIV0"]

    def mismatches_of(mby):
        out = []
        for idx, c in enumerate(cases):
            il = corr_head.get(c[0], [])
            if is_sweep(c):
                pr = tuple(int(t) for t in c[0].split()[3:5])
                hm = float_table.sweep_hashes.get(pr)
                hi = sweep_hash_of_impl(c, il) if len(il) == len(c) - 1 else None
                if hm != hi:
                    out.append((idx, (0, "hash of all answers %s" % hi, "ScaleF.sweep_hash %s = %s" % (pr, hm))))
                continue
            d = vlib.first_diff(comparable(il), comparable(mby.get(c[0], [])))
            if d is not None:
                out.append((idx, d))
        return out
    mm0 = mismatches_of(mby_head)
    mismatches, chosen = mm0, list(REPAIRS)
    if mm0 and PROPOSED:    # has the proposed repair been applied to the library?
        mo1, _, t1 = run_model(ctx, mexe, cases, zerofix=True, gridfix=True, copyfix=True)
        mm1 = mismatches_of({h: ls for (h, ls) in vlib.split_cases(mo1)})
        if len(mm1) < len(mm0):
            mm0 = mismatches = mm1
            chosen = list(REPAIRS) + PROPOSED
    if mm0:     # would the model with one repair dropped agree?  -> regression of that commit
        for trial in (["zerofix", "copyfix"], ["gridfix", "copyfix"], ["zerofix", "gridfix"], []):
            mo1, _, t1 = run_model(ctx, mexe, cases, zerofix="zerofix" in trial, gridfix="gridfix" in trial,
                                   copyfix="copyfix" in trial)
            mm1 = mismatches_of({h: ls for (h, ls) in vlib.split_cases(mo1)})
            if len(mm1) < len(mismatches):
                mismatches, chosen = mm1, list(trial)
        run_model(ctx, mexe, cases, zerofix=True, gridfix=True, copyfix=True)
    variant = ",".join(chosen) or "none"
    pybad = py_float_check(table)
    nops = sum(len(c) - 1 for c in cases)
    hist, distinct = {}, set()
    oracle_fail = []
    for idx, c in enumerate(cases):
        il = by_head.get(c[0], [])
        hist[case_kind(c)] = hist.get(case_kind(c), 0) + 1
        for op, l in zip(c[1:], il):
            if op.startswith(("corr", "sx")):
                distinct.add(op + "->" + l)
        for e in oracle_case(c, il, crashes.get(c[0]) or (crashes.get("*") if len(il) < len(c) - 1 else None)):
            oracle_fail.append((idx, e))
    if rc1 != 0 and not oracle_fail:
        oracle_fail.append((0, ("implementation driver exited with %d: %s" % (rc1, cerr[-800:]), {"kind": "crash", "op": "?"})))
    ctx.coverage.update(
        evaluations=nops, distinct_nontrivial=len(distinct),
        rule="scaling scripts run on the model (extracted integer part + primitive-float geometry evaluated by coqc) and "
             "on the library; every op's observation compared (update sessions 'upd': spec oracle only). "
             "distinct_nontrivial = distinct (rfbScaledCorrection | ScaleX call, result) pairs observed on the implementation",
        samples=[cases[i][:12] for i in (0, len(cases) // 2, len(cases) - 1)],
        input_distribution=hist, cases=len(cases), float_queries=len(table), repairs_found_in_library=variant,
        python_double_disagreements=len(pybad),
        correspondence_mismatches=len(mm0), mismatches_of_closest_variant=len(mismatches),
        repairs_expected_in_library=",".join(REPAIRS),
        oracle_failures=len(oracle_fail), exhaustive_sweep="ScaleX/rfbScaledCorrection, both directions, all W <= %d, all factors, all x" %
                         (SWEEP_QUICK if ctx.quick() else SWEEP_THOROUGH))
    ctx.assumptions += ["IEEE-754 binary64 round-to-nearest-even for the C doubles (x86-64 SSE2, no FMA contraction)",
                        "update sessions (regions, encoders) are checked by the spec oracle only; their region logic is C02/C11's"]

    def shrink(idx, pred):
        c = cases[idx]
        return [c[0]] + vlib.ddmin(c[1:], lambda sub: pred([c[0]] + sub), max_tests=80)

    seen = set()
    for idx, (msg, feat) in oracle_fail:
        key = (feat.get("kind"), feat.get("what"), feat.get("divides"), feat.get("zero_dim"))
        if key in seen or len(seen) >= 8:
            continue
        seen.add(key)

        def pred(lines, want=feat):
            r, o, e, cr = run_impl(cexe, [lines])
            cs = vlib.split_cases(o)
            try:
                es = oracle_case(lines, cs[0][1] if cs else [], cr.get(lines[0]) or cr.get("*"))
            except Exception:
                return False
            return any(f.get("kind") == want.get("kind") and f.get("what") == want.get("what") for (_, f) in es)
        small = shrink(idx, pred) if feat.get("kind") != "crash" else cases[idx]
        r, co, ce, cr = run_impl(cexe, [small])
        ctx.violation("scaling property violated on the implementation: " + msg, feat,
                      "script:\n" + "\n".join(small) + "\n\nimplementation output:\n" + co + ce[-1500:] +
                      ("\ncrash: %s\n" % (cr,) if cr else ""))
    if pybad and not oracle_fail:
        ctx.violation("primitive-float model (ScaleF.v) and Python doubles disagree on %d expressions, e.g. %s" % (len(pybad), pybad[0]),
                      {"kind": "correspondence"}, "first disagreements: %s" % (pybad[:5],), no_input=True)
    if mm0 and not [1 for (_, (m, f)) in oracle_fail if vlib.match_finding("C17", f) is None]:
        idx, d = mm0[0]
        c = cases[idx]
        ctx.violation("correspondence Scale/*.v <-> scale.c no longer holds (%d cases differ from the model of the tree, %d "
                      "from the model with the zero-dimension repair dropped); the property predicate held on every "
                      "implementation output explored" % (len(mm0), len(mismatches)), {"kind": "correspondence"},
                      "correspondence: Scale/ScaleF.v (scaleF, correctionF, upd_geomF), Scale/ScaleDefs.v vs "
                      "src/libvncserver/scale.c, rfbserver.c (SetScale handlers)\nscript:\n" + "\n".join(c) +
                      "\n\nfirst differing observation (#%d):\nimplementation: %s\nmodel:          %s\n" % d, no_input=True)
    if not proof_ok and not ctx.violations:
        vlib.report_proof_failure(ctx, "Correspondence and the spec oracle were run on %d operations without exhibiting a "
                                  "failing input." % nops)


def replay(ctx, path):
    txt = open(path).read()
    if "script:\n" not in txt:
        print("replay names a theorem/correspondence, re-running the full check")
        return check(ctx)
    body = txt.split("script:\n", 1)[1].split("\n\n", 1)[0]
    lines = [l for l in body.split("\n") if l.strip()]
    cexe, mexe, _ = build(ctx)
    r, co, ce, cr = run_impl(cexe, [lines])
    mo, me, _ = run_model(ctx, mexe, [lines], zerofix=True, gridfix=True, copyfix=True)
    print("implementation:\n" + co + ce[-800:] + ("crash: %s\n" % (cr,) if cr else "") + "model:\n" + mo)
    cs = vlib.split_cases(co)
    es = oracle_case(lines, cs[0][1] if cs else [], cr.get(lines[0]) or cr.get("*"))
    ctx.coverage.update(evaluations=len(lines) - 1, distinct_nontrivial=0, rule="replay", samples=[lines])
    for (msg, feat) in es[:3]:
        ctx.violation("scaling property violated on the implementation: " + msg, feat,
                      "script:\n" + "\n".join(lines) + "\n\nimplementation output:\n" + co)
    ms = vlib.split_cases(mo)
    if not es and cs and ms and comparable(cs[0][1]) != comparable(ms[0][1]):
        ctx.violation("correspondence differs on the replayed script", {"kind": "correspondence"},
                      "script:\n" + "\n".join(lines) + "\n\n" + co + "\n" + mo, no_input=True)
