"""C14 - Shared / non-shared session policy is enforced.

Proof: coq/Props/Properties_C14.v - theorems over Session/Sharing.v, the mirror of the decision at
the end of rfbProcessClientInitMessage, for all client lists, all flag combinations, all arrival
orders (C14_nevershared_at_most_one: invariant over every history).
Tie: (a) the RFB state numbers are regenerated from /repo on every run (Gen/Consts_C14.v);
(b) correspondence: the extracted `step` and the real library (harness/vdrv_share.c: one screen,
socketpair clients inbound / reverse, parked at RFB_SECURITY_TYPE or RFB_INITIALISATION,
ClientInit with a chosen shared byte, peers dropping) run the same scripts; after every op the
state of every client (open and in which rfb state, or closed) is compared, and `probe` checks
that every open RFB_NORMAL client is really served a framebuffer update.
Independently of the mirror model the policy itself is evaluated on the implementation's output
by a Python oracle (oracle_case).
"""
import os
import vlib

PROP_FILE = "Props/Properties_C14.v"
EXTRACT = "Extract/Extract_C14.vo"


def sync_extraction(pid, extract_vo):
    """see props/C05.py: Extraction writes under <verif>/build, build_ocaml reads VERIF_BUILD"""
    import shutil
    src = os.path.join(vlib.VERIF, "build", "ocaml", pid)
    if not os.path.exists(os.path.join(src, "model.ml")):
        os.makedirs(src, exist_ok=True)
        vo = os.path.join(vlib.COQ, extract_vo)
        if os.path.exists(vo):
            os.unlink(vo)
        vlib.coq_make([extract_vo])
    dst = os.path.join(vlib.BUILD, "ocaml", pid)
    if os.path.abspath(src) != os.path.abspath(dst) and os.path.exists(os.path.join(src, "model.ml")):
        os.makedirs(dst, exist_ok=True)
        for fn in ("model.ml", "model.mli"):
            s, d = os.path.join(src, fn), os.path.join(dst, fn)
            if not os.path.exists(d) or open(s, "rb").read() != open(d, "rb").read():
                shutil.copy(s, d)


# ---------------------------------------------------------------- generators
MINORS = [8, 8, 8, 8, 7, 7, 3, 889, 889, 9, 14, 16, 100, 888, 890, 999, 5, 0]


def gen_case(rng, k, flags=None, nops=None, change_flags=False):
    fl = flags if flags is not None else (rng.random() < 0.3, rng.random() < 0.35, rng.random() < 0.45)
    L = ["case %d a%dn%dd%d%s" % (k, fl[0], fl[1], fl[2], " dyn" if change_flags else ""),
         "flags %d %d %d" % (int(fl[0]), int(fl[1]), int(fl[2]))]
    phase = []          # planner's rough view: 0 hold, 1 sec, 3 init, 4 normal, -1 closed
    minors = []
    nops = nops or rng.choice([4, 8, 12, 20, 30])
    for _ in range(nops):
        r = rng.random()
        live = [i for i, p in enumerate(phase) if p != -1]
        if not live and len(phase) >= 10:
            L.append("probe")            # ten clients used up and all gone: nothing left to do
            break
        q = "q" if rng.random() < 0.25 else ""      # quiet: the event stays pending until the next pass
        if (r < 0.25 or not live) and len(phase) < 10:
            rev = 1 if rng.random() < 0.2 else 0
            m = rng.choice(MINORS)
            h = rng.random()
            if h < 0.12:
                L.append("connhold %d %d" % (rev, m))      # newClientHook: RFB_CLIENT_ON_HOLD
                phase.append(0)
            elif h < 0.18:
                L.append("connrefuse %d" % rev)    # newClientHook: RFB_CLIENT_REFUSE
                phase.append(-1)
            else:
                L.append("conn %d %d" % (rev, m))
                phase.append(3 if m < 7 else 1)
            minors.append(m)
        elif r < 0.32 and any(phase[i] == 0 for i in live):
            i = rng.choice([i for i in live if phase[i] == 0])
            L.append("release %d" % i)
            phase[i] = 3 if minors[i] < 7 else 1
        elif r < 0.45:
            c = [i for i in live if phase[i] == 1] or live
            i = rng.choice(c)
            L.append("adv%s %d" % (q, i))
            if phase[i] == 1:
                phase[i] = 4 if minors[i] == 889 else 3
        elif r < 0.80:
            c = [i for i in live if phase[i] == 3]
            if not c or rng.random() < 0.05:
                c = list(range(len(phase))) or [0]
            i = rng.choice(c)
            L.append("init%s %d %d" % (q, i, rng.choice([0, 0, 0, 1, 1, 255, 2])))
            if i < len(phase) and phase[i] == 3:
                phase[i] = 4
        elif r < 0.90:
            i = rng.choice(live)
            L.append("drop%s %d" % (q, i))
            phase[i] = -1
        elif r < 0.95 and change_flags:
            L.append("flags %d %d %d" % (rng.random() < 0.5, rng.random() < 0.5, rng.random() < 0.5))
        else:
            L.append("probe")
    L.append("probe")
    return L


def gen_directed(k, fl, order, shareds, revs, parked, minors=None):
    """n clients arrive in the given order with their shared flags; `parked` clients stop at
    RFB_SECURITY_TYPE / RFB_INITIALISATION / on hold and are only completed at the very end"""
    L = ["case %d directed a%dn%dd%d" % (k, fl[0], fl[1], fl[2]), "flags %d %d %d" % fl]
    n = len(order)
    minors = minors or [8] * n
    for i in range(n):
        L.append("%s %d %d" % ("connhold" if parked[i] == 3 else "conn", revs[i], minors[i]))
    for i in range(n):
        if parked[i] not in (1, 3):
            L.append("adv %d" % i)
    for i in order:
        if parked[i] == 0:
            L.append("init %d %d" % (i, shareds[i]))
    L.append("probe")
    for i in order:
        if parked[i] == 3:
            L.append("release %d" % i)
        if parked[i] in (1, 3):
            L.append("adv %d" % i)
        if parked[i]:
            L.append("init %d %d" % (i, shareds[i]))
    L.append("probe")
    return L


def gen_same_pass(k, fl, newer_hangs_up, sh, minor, extra_old):
    """a fully connected client hangs up and another client's ClientInit arrives in the SAME pass of
    the event loop; the list head is the newest client, so the arrival order decides which event is
    handled first.  extra_old: a third, older, fully connected client exists."""
    L = ["case %d samepass a%dn%dd%d" % (k, fl[0], fl[1], fl[2]), "flags %d %d %d" % fl]
    idx = 0
    if extra_old:
        L += ["conn 0 8", "adv 0", "init 0 1"]
        idx = 1
    a, c = (idx + 1, idx) if newer_hangs_up else (idx, idx + 1)
    if newer_hangs_up:
        L += ["conn 0 %d" % minor, "adv %d" % c, "conn 0 8", "adv %d" % a, "init %d 1" % a]
    else:
        L += ["conn 0 8", "adv %d" % a, "init %d 1" % a, "conn 0 %d" % minor, "adv %d" % c]
    L += ["dropq %d" % a, "init %d %d" % (c, sh), "probe"]
    return L


def corpus_cases():
    cases = []
    cdir = os.path.join(vlib.VERIF, "corpus", "C14")
    if os.path.isdir(cdir):
        for fn in sorted(os.listdir(cdir)):
            lines = [l for l in open(os.path.join(cdir, fn)).read().split("\n") if l.strip() and not l.startswith("#")]
            if lines:
                if lines[0].startswith("case "):
                    lines = lines[1:]
                cases.append(["case 0 corpus:%s" % fn] + lines)
    return cases


def gen_cases(ctx):
    import itertools
    rng = ctx.rng
    cases = corpus_cases()
    # exhaustive small scenarios: all 8 flag combinations x 2..3 clients x arrival orders x shared flags
    # x one reverse position x one parked client
    for fl in itertools.product((0, 1), repeat=3):
        for n in (2, 3):
            for order in itertools.permutations(range(n)):
                for shareds in itertools.product((0, 1), repeat=n):
                    for rv in range(-1, n):
                        for pk in range(-1, n):
                            if not ctx.quick() or rng.random() < 0.12:
                                revs = [1 if i == rv else 0 for i in range(n)]
                                parked = [(rng.choice([1, 2, 3]) if i == pk else 0) for i in range(n)]
                                minors = [rng.choice(MINORS) for _ in range(n)]
                                cases.append(gen_directed(len(cases), fl, order, shareds, revs, parked, minors))
    # every protocol minor version class as the exclusive / shared newcomer next to a connected client
    for fl in itertools.product((0, 1), repeat=3):
        for m in (0, 3, 6, 7, 8, 9, 14, 16, 100, 888, 889, 890, 999):
            for sh in (0, 1):
                cases.append(gen_directed(len(cases), fl, (0, 1), (1, sh), (0, 0), (0, 0), [8, m]))
    # hang-up and ClientInit in the same pass, both arrival orders
    for fl in itertools.product((0, 1), repeat=3):
        for newer in (True, False):
            for sh in (0, 1):
                for m in (8, 3, 14):
                    for extra in (False, True):
                        cases.append(gen_same_pass(len(cases), fl, newer, sh, m, extra))
    nrand = 1500 if ctx.quick() else 20000
    for _ in range(nrand):
        cases.append(gen_case(rng, len(cases), change_flags=rng.random() < 0.15))
    for i, c in enumerate(cases):
        p = c[0].split(" ", 2)
        c[0] = "case %d %s" % (i, p[2] if len(p) > 2 else "")
    return cases


# ---------------------------------------------------------------- spec oracle
def parse_states(line):
    if not line.startswith("o"):
        return None
    out = []
    for t in line.split()[1:]:
        bad = t.endswith("!")
        out.append((int(t.rstrip("!")), bad))
    return out


class Sim:
    """The stated policy, executed on the script: which clients are open and in which state.  Events
    pending at the same time are handled one per client and pass, newest client first (the client
    list is newest-first); a message before a hang-up."""
    def __init__(self):
        self.always = self.never = self.dont = False
        self.cl = []      # dicts: st, rev, minor, hold, pend, gone

    def states(self):
        return [c["st"] for c in self.cl]

    def client_init(self, i, sh):
        c = self.cl[i]
        c["st"] = 4
        excl = (not c["rev"]) and (self.never or ((not self.always) and not sh))
        others = [j for j, d in enumerate(self.cl) if j != i and d["st"] == 4]
        self.last = dict(exclusive=excl, others=len(others), reverse=c["rev"], shared=int(sh), minor=c["minor"])
        if excl and self.dont:
            if others:
                c["st"] = -1
        elif excl:
            for j in others:
                self.cl[j]["st"] = -1

    def one_pass(self):
        for i in range(len(self.cl) - 1, -1, -1):
            c = self.cl[i]
            if c["st"] == -1 or c["hold"]:
                continue
            if c["pend"] is not None:
                m, c["pend"] = c["pend"], None
                # harness fact: the peer end of a socketpair that has hung up makes the server's next write
                # fail (EPIPE), so a client whose message needs an answer is closed instead of served
                if m == "adv":
                    if c["st"] == 1:
                        if c["gone"] and c["minor"] > 7:
                            c["st"] = -1                   # SecurityResult (3.8+) / ServerInit (3.889) unwritable
                        else:
                            c["st"] = 3
                            if c["minor"] == 889:
                                self.client_init(i, True)      # implicit shared ClientInit
                else:
                    if c["st"] == 3:
                        if c["gone"]:
                            c["st"] = -1                   # ServerInit unwritable: never becomes fully connected
                        else:
                            self.client_init(i, m[1])
            elif c["gone"]:
                c["st"] = -1

    def pump(self):
        self.one_pass()
        self.one_pass()
        self.one_pass()

    def op(self, p):
        self.last = {}
        if p[0] == "flags":
            self.always, self.never, self.dont = p[1] == "1", p[2] == "1", p[3] == "1"
            return
        if p[0] in ("conn", "connhold", "connrefuse"):
            minor = int(p[2]) if len(p) > 2 else 8
            st = 3 if minor < 7 else 1
            c = dict(st=st, rev=p[1] == "1", minor=minor, hold=False, pend=None, gone=False)
            if p[0] == "connhold":
                c["st"], c["hold"] = 0, True
            elif p[0] == "connrefuse":
                c["st"] = -1
            self.cl.append(c)
            self.pump()
            return
        if p[0] == "probe":
            self.pump()
            return
        i = int(p[1])
        quiet = p[0].endswith("q")
        name = p[0].rstrip("q")
        if i < len(self.cl):
            c = self.cl[i]
            if name == "release":
                if c["st"] == 0 and c["hold"]:
                    c["hold"] = False
                    c["st"] = 3 if c["minor"] < 7 else 1
            elif name == "adv":
                if c["st"] == 1 and c["pend"] is None and not c["gone"]:
                    c["pend"] = "adv"
            elif name == "init":
                if c["st"] == 3 and c["pend"] is None and not c["gone"]:
                    c["pend"] = ("init", int(p[2]) != 0)
            elif name == "drop":
                if c["st"] != -1:
                    c["gone"] = True
        if not quiet:
            self.pump()


def oracle_case(lines, impl_lines):
    """the sharing policy, evaluated on the implementation's own observations.
    returns (message, features) or None"""
    sim = Sim()
    never_throughout = None
    it = iter(impl_lines)
    prev = []
    for op in lines[1:]:
        p = op.split()
        try:
            line = next(it)
        except StopIteration:
            return ("the implementation stopped before '%s' (crash?)" % op, {"what": "crash"})
        if line.startswith("x "):
            return ("the implementation crashed: %s" % line, {"what": "crash"})
        cur = parse_states(line)
        if cur is None:
            return ("unexpected output %r for '%s'" % (line, op), {"what": "output"})
        st = [s for s, _ in cur]
        if p[0] not in ("flags", "conn", "connhold", "connrefuse", "release", "adv", "advq", "init", "initq",
                        "drop", "dropq", "probe"):
            return ("unknown op %s" % op, {"what": "script"})
        sim.op(p)
        if p[0] == "flags":
            never_throughout = sim.never if never_throughout is None else (never_throughout and sim.never)
        want = sim.states()
        feat = dict(always=sim.always, never=sim.never, dontdisconnect=sim.dont, op=p[0].rstrip("q"))
        feat.update(sim.last)
        if p[0] == "probe":
            for j, (s, bad) in enumerate(cur):
                if bad:
                    return ("client %d is in RFB_NORMAL but is not served framebuffer updates" % j, dict(feat, what="not-served"))
        if st != want:
            what = "policy"
            newcomer = [j for j in range(min(len(st), len(want), len(prev))) if prev[j] in (1, 3) and (st[j] == 4 or want[j] == 4)]
            if any(st[j] != want[j] for j in newcomer):
                j = [j for j in newcomer if st[j] != want[j]][0]
                what = "newcomer-" + ("kept" if st[j] == 4 else ("dropped" if st[j] == -1 else "not-initialised"))
            elif any(a == -1 and b != -1 for a, b in zip(st, want)):
                what = "other-client-disconnected"
            elif any(a != -1 and b == -1 for a, b in zip(st, want)):
                what = "other-client-kept"
            return ("after '%s' the clients are %s, the sharing policy requires %s (before: %s; flags always=%d never=%d "
                    "dontDisconnect=%d; minors %s)" % (op, st, want, prev, sim.always, sim.never, sim.dont,
                                                       [c["minor"] for c in sim.cl]), dict(feat, what=what))
        revs = [c["rev"] for c in sim.cl]
        if never_throughout and sum(1 for j, s in enumerate(st) if s == 4 and not revs[j]) > 1:
            return ("never-shared screen serves %d inbound clients at once after '%s': %s" %
                    (sum(1 for j, s in enumerate(st) if s == 4 and not revs[j]), op, st), dict(feat, what="two-on-nevershared"))
        prev = st
    return None


# ---------------------------------------------------------------- the check
def build(ctx):
    cexe = vlib.build_harness("vdrv_share", ["vdrv_share.c"])
    proof_ok = vlib.prove(ctx, PROP_FILE, [EXTRACT])
    sync_extraction("C14", EXTRACT)
    mexe = vlib.build_ocaml("C14", "driver_C14.ml", EXTRACT)
    return cexe, mexe, proof_ok


def run_pair(cases, cexe, mexe):
    script = "\n".join("\n".join(c) for c in cases) + "\n"
    r1 = vlib.run_driver(cexe, script, timeout=3000)
    r2 = vlib.run_driver(mexe, script, timeout=3000, unlimited_stack=True)
    return r1, r2


def check(ctx):
    cexe, mexe, proof_ok = build(ctx)
    cases = gen_cases(ctx)
    (rc1, cout, cerr), (rc2, mout, merr) = run_pair(cases, cexe, mexe)
    cc, mc = vlib.split_cases(cout), vlib.split_cases(mout)
    nops = sum(len(c) - 1 for c in cases)
    hist, distinct = {}, set()
    mismatches, failing = [], []
    for idx, c in enumerate(cases):
        il = cc[idx][1] if idx < len(cc) else []
        ml = mc[idx][1] if idx < len(mc) else []
        d = vlib.first_diff(il, ml)
        if d is not None:
            mismatches.append((idx, d))
        e = oracle_case(c, il)
        if e:
            failing.append((idx, e))
        kind = c[0].split()[2] if len(c[0].split()) > 2 else "?"
        kind = "corpus" if kind.startswith("corpus") else (kind if kind in ("directed", "samepass") else "random")
        hist[kind] = hist.get(kind, 0) + 1
        # distinct decisions actually exercised: (flags, shared byte class, reverse, #others, outcome)
        prev = None
        for op, l in zip(c[1:], il):
            st = parse_states(l)
            if st is None:
                break
            if op.split()[0] in ("init", "initq") and prev is not None:
                i = int(op.split()[1])
                if i < len(prev) and prev[i][0] == 3:
                    others = sum(1 for j, (s, _) in enumerate(prev) if j != i and s == 4)
                    mid = sum(1 for j, (s, _) in enumerate(prev) if j != i and s in (0, 1, 3))
                    closed = sum(1 for (a, _), (b, _) in zip(prev, st) if a == 4 and b == -1)
                    distinct.add((c[0].split()[2][:6] if len(c[0].split()) > 2 else "", int(op.split()[2]) != 0,
                                  min(others, 3), min(mid, 2), st[i][0], min(closed, 3)))
            prev = st
    if rc1 != 0 or len(cc) != len(cases):
        failing.append((max(0, len(cc) - 1), ("implementation driver exited with %d after %d of %d cases: %s" %
                                              (rc1, len(cc), len(cases), cerr[-500:]), {"what": "harness-died"})))
    ctx.coverage.update(
        evaluations=nops, distinct_nontrivial=len(distinct),
        rule="sharing scripts (flags, connect inbound/reverse with newClientHook accept / on-hold / refuse, release, advance handshake, ClientInit with shared byte, drop, probe) run "
             "on the extracted Coq model and on the real library; the rfb state of every client is compared after every op. "
             "distinct_nontrivial = distinct (flag class, shared?, #other RFB_NORMAL clients, #mid-handshake clients, "
             "newcomer outcome, #clients closed) over the ClientInit decisions actually taken by the implementation",
        samples=[cases[i] for i in (0, len(cases) // 2, len(cases) - 1)],
        input_distribution=hist, cases=len(cases), correspondence_mismatches=len(mismatches),
        oracle_failing_cases=len(failing), exhaustive=not ctx.quick())
    ctx.assumptions += ["one screen; clients use security type None (password-less screen); application-driven event loop",
                        "a closed client is observed as gone after the event loop has run (rfbProcessEvents reaps it)"]

    def run1(lines):
        (r1, co, ce), (r2, mo, me) = run_pair([lines], cexe, mexe)
        cs, ms = vlib.split_cases(co), vlib.split_cases(mo)
        return (cs[0][1] if cs else []), (ms[0][1] if ms else []), co, mo, ce

    def shrink(lines, pred):
        return [lines[0]] + vlib.ddmin(lines[1:], lambda sub: pred([lines[0]] + sub), max_tests=200)

    seen = set()
    for idx, (msg, feat) in failing:
        key = feat.get("what")
        if key in seen:
            continue
        seen.add(key)
        lines = shrink(cases[idx], lambda sub: (lambda r: r is not None and r[1].get("what") == key)(oracle_case(sub, run1(sub)[0])))
        il, ml, co, mo, ce = run1(lines)
        r = oracle_case(lines, il) or (msg, feat)
        ctx.violation("sharing policy violated on the implementation: " + r[0], r[1],
                      "script:\n" + "\n".join(lines) + "\n\nimplementation output:\n" + co + ce[-800:] + "\nmodel output:\n" + mo)
    if mismatches and not failing:
        idx, d = mismatches[0]
        lines = shrink(cases[idx], lambda sub: (lambda r: r[0] != r[1])(run1(sub)))
        il, ml, co, mo, ce = run1(lines)
        ctx.violation("correspondence Session/Sharing.v <-> rfbProcessClientInitMessage no longer holds (%d cases differ); the "
                      "policy predicate held on every implementation output explored" % len(mismatches),
                      {"kind": "correspondence"},
                      "correspondence: Session/Sharing.v step vs the real library\nscript:\n" + "\n".join(lines) +
                      "\n\nimplementation output:\n" + co + ce[-800:] + "\nmodel output:\n" + mo, no_input=True)
    if not proof_ok and not failing:
        vlib.report_proof_failure(ctx, "Correspondence and the policy oracle were run on %d operations (%d cases) without "
                                  "exhibiting a failing input." % (nops, len(cases)))


def replay(ctx, path):
    txt = open(path).read()
    if "script:\n" not in txt:
        print("replay names a theorem/correspondence, re-running the full check")
        return check(ctx)
    body = txt.split("script:\n", 1)[1].split("\n\n", 1)[0]
    lines = [l for l in body.split("\n") if l.strip()]
    cexe, mexe, proof_ok = build(ctx)
    (r1, co, ce), (r2, mo, me) = run_pair([lines], cexe, mexe)
    cs = vlib.split_cases(co)
    il = cs[0][1] if cs else []
    print("implementation:\n" + co + "model:\n" + mo)
    ctx.coverage.update(evaluations=len(lines) - 1, distinct_nontrivial=0, rule="replay", samples=[lines])
    e = oracle_case(lines, il)
    if e:
        ctx.violation("sharing policy violated on the implementation: " + e[0], e[1],
                      "script:\n" + "\n".join(lines) + "\n\nimplementation output:\n" + co)
    elif co != mo:
        ctx.violation("correspondence differs on the replayed script", {"kind": "correspondence"},
                      "script:\n" + "\n".join(lines) + "\n\n" + co + "\n" + mo, no_input=True)
