"""C13 - Background (threaded) event loop: no deadlock, no use-after-free, clean shutdown.

TWO PARTS, labelled separately in the evidence:

(1) PROOF about the protocol MODEL (coq/Props/Properties_C13.v over Session/ThreadsModel.v): small-step
    interleaving models of the locking protocol as read from main.c / rfbserver.c / sockets.c /
    cursor.c, with explicit schedules; theorems for ALL schedules (lock order acyclic for any number of
    threads; gone-callback exactly once; repaired shutdown never stuck and always finishable; repaired
    iterator never touches freed memory; serialised cursor bracket restores the framebuffer) and
    machine-checked refutations of the faithful protocol with explicit schedules (lost wake-up in
    shutdown, iterator use-after-free, threads never joined, cursor burnt into the framebuffer, lock-order
    inversion on colour-mapped screens).

(2) SAMPLED behaviour of the real library (harness/vdrv_threads.c): randomised stress of
    rfbRunEventLoop(screen,-1,TRUE) over loopback TCP with seeded yields injected by pthread/select/
    read/write wraps, ASan, a watchdog on every phase, a TSan build for lock-order / mutex-misuse
    reports; plus FORCED-SCHEDULE replays of the model's refutation witnesses on the real library.
    Tie between the two: the model's schedule-independent predictions (gone hook = new hook, number of
    never-joined threads after n cycles, the set of (held, acquired) mutex-class pairs) are compared
    with what the harness observes.
"""
import os, re, json
from concurrent.futures import ThreadPoolExecutor
import vlib

LEVEL = "proof"
PROP_FILE = "Props/Properties_C13.v"
WRAPS = ("pthread_mutex_lock", "pthread_mutex_unlock", "pthread_cond_wait", "pthread_cond_signal",
         "pthread_create", "pthread_join", "pthread_detach", "select", "read", "write", "pthread_mutex_init", "pthread_mutex_destroy")
ASAN_ENV = {"ASAN_OPTIONS": "detect_leaks=0:abort_on_error=0:allocator_may_return_null=1"}
TSAN_ENV = {"TSAN_OPTIONS": "halt_on_error=0 exitcode=0 report_signal_unsafe=0 detect_deadlocks=1 second_deadlock_stack=1"}


def sync_extraction():
    import shutil
    src = os.path.join(vlib.VERIF, "build", "ocaml", "C13")
    dst = os.path.join(vlib.BUILD, "ocaml", "C13")
    if os.path.abspath(src) != os.path.abspath(dst) and os.path.exists(os.path.join(src, "model.ml")):
        os.makedirs(dst, exist_ok=True)
        for f in ("model.ml", "model.mli"):
            shutil.copy(os.path.join(src, f), os.path.join(dst, f))


REF_MS = 260.0          # what the harness' "calibrate" op takes on an idle development machine
SPEED = {"factor": 1.0}


def run_cases(exe, cases, env, workers, timeout=400, slow=1.0):
    """every case in its own harness process; all time-outs of the harness are multiplied by the measured speed
    factor (VDRV_SPEED) and, for confirmation re-runs, by `slow` (VDRV_SLOW)"""
    e = dict(env)
    e["VDRV_SPEED"] = "%.2f" % SPEED["factor"]
    e["VDRV_SLOW"] = "%.2f" % slow
    tmo = timeout * SPEED["factor"] * slow + 60

    def one(c):
        try:
            return vlib.run_driver(exe, "\n".join(c) + "\n", timeout=tmo, env=e)
        except Exception as ex:                      # a run the harness' own parent-side bound did not end
            return (-1, "", "run_driver: %r" % (ex,))
    with ThreadPoolExecutor(max_workers=workers) as ex:
        return list(ex.map(one, cases))


def calibrate(exe, par):
    """speed factor of this machine under this load: `par` calibration processes at the same time (the cases
    run `par` at a time), slowest one counts; never below 1"""
    def one(_):
        try:
            rc, out, err = vlib.run_driver(exe, "calibrate\n", timeout=300, env=ASAN_ENV)
            m = re.search(r"calib ms=(\d+)", out)
            return float(m.group(1)) if m else None
        except Exception:
            return None
    with ThreadPoolExecutor(max_workers=par) as ex:
        ms = [x for x in ex.map(one, range(par)) if x]
    if not ms:
        return 4.0, []
    return min(50.0, max(1.0, max(ms) / REF_MS)), ms


def parse_result(out):
    d = {"raw": out}
    for l in out.split("\n"):
        if l.startswith("result "):
            for t in l.split()[1:]:
                if "=" in t:
                    k, v = t.split("=", 1)
                    d[k] = v
        elif l.startswith("presult2 "):
            for t in l.split()[1:]:
                if "=" in t:
                    k, v = t.split("=", 1)
                    d["p2_" + k] = v
        elif l.startswith("presult "):
            for t in l.split()[1:]:
                if "=" in t:
                    k, v = t.split("=", 1)
                    d["p_" + k] = v
        elif l.startswith("pairs"):
            d["pairs"] = l.split()[1:]
        elif l.startswith("#hang"):
            m = re.search(r"phase=(\S+)", l)
            d["phase"] = m.group(1) if m else "?"
    return d


def asan_features(err):
    site = re.search(r"SUMMARY: AddressSanitizer: (\S+) \S+ in (\S+)", err)
    feat = {"defect": site.group(1) if site else "crash", "site": site.group(2) if site else "?"}
    m = re.search(r"freed by thread .*?\n(.*?)\n\n", err, flags=re.S)
    if m:
        fns = re.findall(r" in (\S+) ", m.group(1))
        feat["freed_by"] = "rfbClientConnectionGone" if "rfbClientConnectionGone" in fns else (fns[1] if len(fns) > 1 else "?")
    elif "rfbClientConnectionGone" in err and feat["defect"] in ("heap-use-after-free", "SEGV", "attempting", "double-free"):
        feat["freed_by"] = "rfbClientConnectionGone"
    return feat


def asan_head(err):
    i = err.find("ERROR: AddressSanitizer")
    return err[max(0, i - 80):i + 3500] if i >= 0 else err[-3000:]


def gen_cases(ctx):
    rng = ctx.rng
    cases = []
    n = 14 if ctx.quick() else 150
    for i in range(n):
        seed = rng.randint(1, 10 ** 6)
        y = rng.choice([0, 10, 30, 60, 100])
        c = ["case %d stress" % len(cases),
             "stress %d %d %d %d %d %d %d %d" % (seed, y, rng.randint(1, 3), rng.randint(0, 4), rng.randint(0, 2),
                                                 rng.randint(0, 3), rng.randint(0, 8), rng.randint(0, 1))]
        cases.append(c)
    # forced-schedule replays of the model's refutation witnesses: the four built-in ones + every script of corpus/C13/
    forced_ops = ["force lostwakeup", "force iteruaf", "force cursor", "force shutdownjoin"]
    cdir = os.path.join(vlib.VERIF, "corpus", "C13")
    for f in sorted(os.listdir(cdir)) if os.path.isdir(cdir) else []:
        for l in open(os.path.join(cdir, f)).read().split("\n"):
            if l.startswith("force ") and l.strip() not in forced_ops:
                forced_ops.append(l.strip())
    forced = [["case %d forced" % (len(cases) + i), w] for i, w in enumerate(forced_ops)]
    # final-contents phases: every application operation as the LAST one, no request outstanding, then one
    # incremental request per staying client (Raw / CopyRect / CopyRect+RichCursor+PointerPos)
    nph = 5 if ctx.quick() else 40
    phases = [["case %d phases" % (len(cases) + len(forced) + i),
               "phases %d %d %d" % (rng.randint(1, 10 ** 6), rng.choice([0, 20, 50, 100]), 2)] for i in range(nph)]
    base = len(cases) + len(forced) + len(phases)
    # sharing policy inside the threaded lifecycle: every flag combination x shared flag of the newcomer,
    # then the survivor is torn down by peer close / rfbCloseClient / shutdown only
    combos = [(a, n, d, b) for (a, n, d) in ((0, 0, 0), (0, 0, 1), (0, 1, 0), (0, 1, 1), (1, 0, 0), (1, 0, 1)) for b in (0, 1)]
    policy = []
    for (a, n, d, b) in combos:
        for route in ((0, 1, 2) if not ctx.quick() else (rng.randint(0, 2),)):
            policy.append(["case %d policy" % (base + len(policy)),
                           "policy %d %d %d %d %d %d %d" % (rng.randint(1, 10 ** 6), rng.choice([0, 20, 60]), a, n, d, b, route)])
    # heavily fragmented update (> maxRectsPerUpdate), slow reader, mark placed while the output thread is blocked
    frag = [["case %d fragment" % (base + len(policy) + i), "fragment %d %d" % (rng.randint(1, 10 ** 6), y)]
            for i, y in enumerate((0, 20, 50, 100) if ctx.quick() else (0, 10, 20, 50, 100) * 4)]
    return cases, forced, phases, policy, frag


# ---------------------------------------------------------------------------------------------------
# oracles: one function per scenario, each maps ONE harness run to a list of observations
#   (cls, msg, feat, errtext); cls is the coarse defect class used to decide whether a re-run shows
#   "the same thing" (a hang may hit the watchdog in another phase, a crash another site)

def _cls(feat):
    d = feat.get("defect", feat.get("kind", "?"))
    if d in ("hang",):
        return "hang"
    if d in ("heap-use-after-free", "SEGV", "crash", "double-free", "attempting", "stack-use-after-return") or "freed_by" in feat or "site" in feat:
        return "crash"
    if d == "tsan":
        return "tsan:" + str(feat.get("kind"))
    return str(d)


def _generic(d, out, err, rc):
    """crash / watchdog of any scenario"""
    if rc == 124 and "result " not in out:
        return [("hang", "the run did not end within the outer bound", {"defect": "hang", "phase": "outer-bound"}, err)]
    if d.get("crash") == "1":
        feat = asan_features(err)
        return [("crash", "the process crashed / AddressSanitizer reported %s" % (feat,), feat, asan_head(err))]
    if d.get("hang") == "1":
        return [("hang", "watchdog: phase '%s' did not return" % d.get("phase"), {"defect": "hang", "phase": d.get("phase", "?")}, err)]
    return []


def _misuse(d):
    """the wrap layer's own mutex-misuse oracle: UNLOCK of a mutex the thread does not hold, an API call that returns
    while the application thread still holds a library mutex"""
    bu, hr = int(d.get("bad_unlock", 0) or 0), int(d.get("held_at_return", 0) or 0)
    if not bu and not hr:
        return []
    txt = d.get("misuse", "-")
    m = re.search(r":in_\(*([A-Za-z_0-9]+)", txt)
    site = m.group(1) if m else "?"
    what = []
    if hr:
        what.append("%d mutex(es) were still held by the application thread when the API call returned" % hr)
    if bu:
        what.append("%d UNLOCK(s) of a mutex the calling thread did not hold / pthread_join calls of the library that failed" % bu)
    if "join-failed" in txt and "unlock-not-held" not in txt and not hr:
        m = re.search(r"join-failed:T(\d+):in_\(*([A-Za-z_0-9]+)", txt)
        return [("join_failed", "a pthread_join called by the library failed (error %s) in %s: the thread it wanted to wait for does not exist "
                 "(not created yet, detached, or joined before) [%s]" % (m.group(1) if m else "?", m.group(2) if m else site, txt),
                 {"defect": "join_failed", "site": m.group(2) if m else site}, "")]
    return [("mutex_misuse", "mutex misuse seen by the wrap layer: " + "; ".join(what) + " [kind:class+client:where = %s]" % txt,
             {"defect": "mutex_misuse", "site": site}, "")]


def _pairs_obs(d, model):
    """every observed (held, acquired) mutex-class pair must be in the model's table - including pairs with the client
    list mutex (G), the extension mutex (E) and mutexes the harness cannot name (X)"""
    obs = []
    for pr in d.get("pairs", []):
        if pr not in model["table"]:
            if pr in model["palette"]:
                obs.append(("inversion:" + pr, "lock-order inversion observed: mutex class pair %s (held->acquired) is taken in the order the "
                            "model's rank forbids" % pr, {"defect": "lock_order_inversion"}, ""))
            else:
                obs.append(("corr:pair:" + pr, "mutex-class pair %s (held->acquired%s) is not in the model's table" %
                            (pr, ", X = a mutex the harness cannot name" if "X" in pr[:2] else ""), {"kind": "correspondence"}, ""))
    return obs


def judge_stress(c, r, model):
    rc, out, err = r
    d = parse_result(out)
    info = {"d": d, "completed": False}
    obs = _generic(d, out, err, rc)
    if obs:
        return obs, info
    if "result " not in out:
        feat = asan_features(err)
        return [("crash", "the process ended without a result / AddressSanitizer reported %s" % (feat,), feat, asan_head(err))], info
    if "error" in d:
        return [("setup", "the stress run could not set itself up (%s)" % d.get("error"), {"defect": "crash", "site": "setup"}, err)], info
    info["completed"] = True
    if d.get("new") != d.get("gone") or d.get("dupgone", "0") != "0":
        obs.append(("gone_count", "clientGoneHook ran %s times for %s accepted clients (%s on unknown records)" %
                    (d.get("gone"), d.get("new"), d.get("dupgone")), {"defect": "gone_count"}, ""))
    if d.get("converged") != d.get("stay") or d.get("stay_ok") != d.get("stay"):
        obs.append(("final_contents", "%s of %s staying clients ended with the final framebuffer contents (%s kept a well-formed stream)" %
                    (d.get("converged"), d.get("stay"), d.get("stay_ok")), {"defect": "final_contents"}, ""))
    n = int(d.get("cycles", 0))
    z = int(d.get("zombies_after_cycles", 0))
    if int(d.get("stuck_after_cycles", 0)) > 0:
        obs.append(("hang", "%s disconnected client(s) were not torn down within 10 s: clientInput is blocked joining a clientOutput thread "
                    "that went to sleep after the last wake-up (clientGoneHook only ran at shutdown)" % d.get("stuck_after_cycles"),
                    {"defect": "hang", "phase": "disconnect"}, ""))
    elif z != model["zombies"].get(n, -1):
        # HEAD's protocol (600ddcc: a client thread that ends by itself detaches itself; th_run true) leaves none
        obs.append(("corr:zombies", "never-reclaimed threads after %d cycles: model %s (HEAD's protocol; %s before 600ddcc), implementation %d" %
                    (n, model["zombies"].get(n), model["zombies_old"].get(n), z), {"kind": "correspondence"}, ""))
    if z != 0:
        obs.append(("threads_not_reclaimed", "%d client threads that have ended were never joined nor detached after %d connect/disconnect cycles "
                    "(resources grow with the number of past connections)" % (z, n), {"defect": "threads_not_reclaimed"}, ""))
    obs += _pairs_obs(d, model) + _misuse(d)
    return obs, info


def judge_forced(c, r, model):
    rc, out, err = r
    d = parse_result(out)
    what = c[1].split()[1]
    info = {"d": d, "what": what, "seen": False, "completed": True}
    obs = []
    if what == "lostwakeup":
        info["seen"] = d.get("hang") == "1"
        if d.get("hang") == "1" or rc == 124:
            obs.append(("hang", "forced schedule (clientOutput preempted between the unlocked test of cl->state and LOCK(updateMutex), "
                        "rfbCloseClient preempted between UNLOCK(updateMutex) and state = RFB_SHUTDOWN): rfbShutdownServer never returns",
                        {"defect": "hang", "phase": d.get("phase", "?")}, ""))
        elif d.get("crash") == "1":
            obs += _generic(d, out, err, rc)
    elif what == "iteruaf":
        uaf = "heap-use-after-free" in err
        info["seen"] = uaf
        if uaf:
            feat = asan_features(err)
            obs.append(("crash", "forced schedule (iterator preempted between reading the next pointer and rfbIncrClientRef while the peer "
                        "disconnects): heap-use-after-free in %s" % feat.get("site"), feat, asan_head(err)))
        else:
            obs += _generic(d, out, err, rc)
    elif what == "shutdownjoin":
        uaf = "heap-use-after-free" in err
        info["seen"] = uaf
        if uaf:
            feat = asan_features(err)
            obs.append(("crash", "forced schedule (rfbShutdownServer preempted right after rfbCloseClient's notification; it has already advanced its "
                        "iterator, which dropped the only reference on currentCl): the client thread frees the record, rfbShutdownServer then reads "
                        "currentCl->screen / currentCl->client_thread: heap-use-after-free in %s" % feat.get("site"), feat, asan_head(err)))
        else:
            obs += _generic(d, out, err, rc)
    elif what == "newfbgone":
        stuck = int(d.get("p_client_threads_ended", 2) or 0) < 2
        held = int(d.get("held_at_return", d.get("p_held_at_return", 0)) or 0) > 0
        info["seen"] = stuck or held
        if stuck or held:
            obs.append(("mutex_misuse", "forced schedule (the peer of an idle client disconnects while rfbNewFramebuffer is between its pass that locks every "
                        "sendMutex and its pass that unlocks them): rfbNewFramebuffer returned still holding %s mutex(es) [%s]; of the client's two threads "
                        "%s ended within 3 s (its clientInput thread is blocked in rfbClientConnectionGone on LOCK(cl->sendMutex))" %
                        (d.get("held_at_return", "?"), d.get("misuse", "-"), d.get("p_client_threads_ended", "?")),
                        {"defect": "mutex_misuse", "site": "rfbNewFramebuffer"}, ""))
        obs += _generic(d, out, err, rc)
    elif what == "newfbaccept":
        bad = int(d.get("bad_unlock", d.get("p_bad_unlock", 0)) or 0) > 0
        info["seen"] = bad
        if bad:
            obs.append(("mutex_misuse", "forced schedule (a connection is accepted while rfbNewFramebuffer is between its two passes): rfbNewFramebuffer "
                        "UNLOCKs the sendMutex of the new client, which it never locked [%s]" % d.get("misuse", "-"),
                        {"defect": "mutex_misuse", "site": "rfbNewFramebuffer"}, ""))
        obs += _generic(d, out, err, rc)
    elif what == "eintr":
        bad = [k for k in ("p_served_after_signal", "p_torn_down_after_close", "p2_accepts_after_signal") if d.get(k) == "0"]
        info["seen"] = bool(bad)
        if bad:
            obs.append(("select_failure", "a signal handler of the application (SA_RESTART) ran once on the client's thread and once on the listener thread "
                        "(pthread_kill, as the kernel may do with any process-directed signal): select() returned EINTR there; afterwards: client still "
                        "served = %s, torn down within 10 s after its peer closed = %s, new connections still accepted = %s" %
                        (d.get("p_served_after_signal"), d.get("p_torn_down_after_close"), d.get("p2_accepts_after_signal")),
                        {"defect": "select_failure"}, ""))
        obs += _generic(d, out, err, rc) + [o for o in _misuse(d)]
    elif what == "closeinhandshake":
        info["seen"] = d.get("hang") == "1"
        if d.get("hang") == "1" or rc == 124:
            obs.append(("hang_in_handshake", "forced schedule (rfbShutdownServer closes a client while its thread is between reading a handshake message and storing the next "
                        "handshake state): the store overwrites RFB_SHUTDOWN, the client's thread goes on serving, rfbShutdownServer never returns from pthread_join",
                        {"defect": "hang", "phase": d.get("phase", "?"), "after": "close_in_handshake"}, ""))
        else:
            obs += _generic(d, out, err, rc) + _misuse(d)
    elif what == "cursor":
        b = int(d.get("burned_pixels", 0) or 0)
        info["seen"] = b > 0
        if b > 0:
            obs.append(("cursor_burned", "forced schedule (two clientOutput threads inside their rfbShowCursor/rfbHideCursor brackets at the same "
                        "time): %d pixels of the cursor stay painted in the application's framebuffer" % b, {"defect": "cursor_burned"}, ""))
        else:
            obs += _generic(d, out, err, rc)
    return obs, info


def _setup(what, out):
    return ("setup", "%s run could not set its clients up (could not connect / initial picture did not arrive): %s" % (what, out[-200:].strip()),
            {"defect": "crash", "site": "setup"}, "")


def judge_phases(c, r, model):
    rc, out, err = r
    d = parse_result(out)
    info = {"d": d, "completed": False}
    if "p_phases" not in d:
        obs = _generic(d, out, err, rc)
        return (obs or [_setup("final-contents", out)]), info
    obs = []
    if int(d.get("p_phasefails", 0)) > 0:
        first = d.get("p_failed", "[?]")[1:].split(",")[0].rstrip("]")
        op, kind, how = (first.split(":") + ["?", "?", "?"])[:3]
        obs.append(("final_contents", "a staying client did not end up with the final framebuffer: after the application's last operation '%s' "
                    "(no request outstanding) the client of kind %s (k0 Raw, k1 CopyRect+Raw, k2 CopyRect+Raw+RichCursor+PointerPos) sent one "
                    "incremental request and got %s within 10 s; all failures of the run: %s" %
                    (op, kind, "no update" if how == "noupdate" else "a malformed stream", d.get("p_failed")),
                    {"defect": "final_contents", "after": op}, ""))
    else:
        info["completed"] = True
    obs += _generic(d, out, err, rc) + _pairs_obs(d, model) + _misuse(d)
    return obs, info


def judge_policy(c, r, model):
    rc, out, err = r
    d = parse_result(out)
    p = c[1].split()
    info = {"d": d, "completed": False}
    if "p_policy_ok" not in d:
        obs = _generic(d, out, err, rc)
        return (obs or [_setup("sharing-policy", out)]), info
    obs = []
    if d.get("p_policy_ok") != "1":
        obs.append(("sharing_policy", "sharing policy under the background loop: alwaysShared=%s neverShared=%s dontDisconnect=%s, newcomer shared=%s: first client "
                    "%s, newcomer %s (1 = served, 0 = closed by the server, -1 = silent)" % (p[3], p[4], p[5], p[6], d.get("p_a"), d.get("p_b")),
                    {"defect": "sharing_policy"}, ""))
    if d.get("p2_torn_down_in_time") == "0":
        obs.append(("not_torn_down", "after the sharing decision (alwaysShared=%s neverShared=%s dontDisconnect=%s, newcomer shared=%s) a connection that ended "
                    "(route %s: 0 peer close, 1 rfbCloseClient) was not torn down within 10 s: clientGoneHook ran %s times for %s clients" %
                    (p[3], p[4], p[5], p[6], p[7], d.get("p2_gone"), d.get("p2_new")), {"defect": "not_torn_down"}, ""))
    g = _generic(d, out, err, rc)
    if g:
        obs += g
    elif "new" in d and (d.get("new") != d.get("gone") or d.get("dupgone", "0") != "0"):
        obs.append(("gone_count", "clientGoneHook ran %s times for %s accepted clients" % (d.get("gone"), d.get("new")), {"defect": "gone_count"}, ""))
    obs += _pairs_obs(d, model) + _misuse(d)
    info["completed"] = not obs
    return obs, info


def judge_fragment(c, r, model):
    rc, out, err = r
    d = parse_result(out)
    info = {"d": d, "completed": False}
    if "p_fragment_ok" not in d:
        obs = _generic(d, out, err, rc)
        return (obs or [_setup("fragmented-update", out)]), info
    obs = []
    if d.get("p_rects_in_first_update") != "1" or d.get("p_write_blocked", "0") == "0":
        info["inconclusive"] = "fragment scenario did not produce the blocked bounding-box update: " + out[-200:]
    elif d.get("p_fragment_ok") != "1":
        obs.append(("final_contents", "a staying client did not end up with the final framebuffer: an update of 60 separate squares went out as its bounding box to a "
                    "slow reader; while the output thread was blocked in write() the application changed and marked a pixel inside the box; after the "
                    "update and further incremental requests %s pixel(s) still differ (the mark placed during the send was lost)" % d.get("p_diff"),
                    {"defect": "final_contents", "after": "mark_during_send"}, ""))
    else:
        info["completed"] = True
    obs += _generic(d, out, err, rc) + _pairs_obs(d, model) + _misuse(d)
    return obs, info


# TSan: lock-order-inversion / mutex misuse only (data races are outside this check).
# Reports are classified by ROOT CAUSE, not by the sanitizer's wording.  The iterator window
# (C13-N2: a client record is torn down by rfbClientConnectionGone while an iterating thread still
# works on it) shows as heap-use-after-free, "use of an invalid mutex", "unlock of an unlocked mutex",
# "destroy of a locked mutex", ... depending on where the two threads are.
ITER_USERS = ("rfbClientIteratorNext", "rfbIncrClientRef", "rfbDecrClientRef", "rfbReleaseClientIterator",
              "rfbMarkRegionAsModified", "rfbMarkRectAsModified", "rfbSendBell", "rfbSendServerCutText",
              "rfbNewFramebuffer", "rfbSetCursor", "rfbScheduleCopyRegion", "rfbDoCopyRegion", "rfbDoCopyRect",
              "rfbDefaultPtrAddEvent", "rfbRedrawAfterHideCursor", "rfbShutdownServer", "rfbScreenCleanup",
              "rfbGetClientIterator")
TEARDOWN_KINDS = ("heap-use-after-free", "use of an invalid mutex", "unlock of an unlocked mutex",
                  "destroy of a locked mutex", "double lock", "read lock of a write locked mutex")


def judge_tsan(c, r, model):
    rc, out, err = r
    obs = []
    seen = set()
    parts = err.split("==================")
    race_seen = any("rfbClientConnectionGone" in q and "ThreadSanitizer" in q and not q.lstrip().startswith("WARNING: ThreadSanitizer: data race")
                    for q in parts)
    for rr in parts:
        m = re.search(r"WARNING: ThreadSanitizer: ([^\n(]+)", rr)
        if not m:
            continue
        kind = m.group(1).strip()
        if kind.startswith("data race") or kind.startswith("signal"):
            continue
        if kind.startswith("thread leak") and "rfbStartOnHoldClient" in rr:
            item = ("threads_not_reclaimed", "ThreadSanitizer: " + kind, {"defect": "threads_not_reclaimed"}, rr[:4000])   # ended client threads never joined
        elif (kind.startswith("unlock of an unlocked mutex") or kind.startswith("destroy of a locked mutex")) and \
                re.search(r"#[0-3] [^\n]*rfbNewFramebuffer", rr):
            # C13-N5: rfbNewFramebuffer unlocks over a second iterator pass what it locked over a first one
            item = ("mutex_misuse", "ThreadSanitizer: " + kind + " in rfbNewFramebuffer", {"defect": "mutex_misuse", "site": "rfbNewFramebuffer"}, rr[:4000])
        elif any(kind.startswith(tk) for tk in TEARDOWN_KINDS) and \
                ("rfbClientConnectionGone" in rr or any(u in rr for u in ITER_USERS) or
                 ("rfbNewTCPOrUDPClient" in rr and (race_seen or not kind.startswith("unlock")))):
            # a mutex "created at rfbNewTCPOrUDPClient" lives in a client record
            feat = {"defect": "heap-use-after-free", "freed_by": "rfbClientConnectionGone"}
            if re.search(r"#[0-2] [^\n]*rfbShutdownServer", rr):
                feat["site"] = "rfbShutdownServer"       # C13-N3: the join in rfbShutdownServer after the reference was dropped
            item = ("crash", "ThreadSanitizer: iterator window: " + kind + (" in rfbShutdownServer" if "site" in feat else ""), feat, rr[:4000])
        else:
            item = ("tsan:" + kind.split()[0], "ThreadSanitizer: " + kind, {"defect": "tsan", "kind": kind.split()[0]}, rr[:4000])
        if item[1] not in seen:
            seen.add(item[1])
            obs.append(item)
    return obs, {"d": {}, "completed": True}


JUDGES = {"stress": judge_stress, "forced": judge_forced, "phases": judge_phases, "policy": judge_policy,
          "fragment": judge_fragment, "tsan": judge_tsan}
RERUNS = 3


def check(ctx):
    cexe = vlib.build_harness("vdrv_threads", ["vdrv_threads.c"], wraps=WRAPS)
    proof_ok = vlib.prove(ctx, PROP_FILE, ["Extract/Extract_C13.vo"])
    sync_extraction()
    mexe = vlib.build_ocaml("C13", "driver_C13.ml", "Extract/Extract_C13.vo")
    cases, forced, phases, policy, frag = gen_cases(ctx)
    ncyc = list(range(0, 10))
    rc, mout, merr = vlib.run_driver(mexe, "case 0 model\ntable\nwitness\n" + "".join("cycles %d\n" % n for n in ncyc))
    model = {"table": set(), "palette": set(), "zombies": {}, "zombies_old": {}, "witness": []}
    for l in mout.split("\n"):
        p = l.split()
        if not p:
            continue
        if p[0] == "table":
            model["table"] = set(p[1:])
        elif p[0] == "table_palette":
            model["palette"] = set(p[1:])
        elif p[0] == "cycles":
            model["zombies"][int(p[1])] = int(p[2].split("=")[1])
            model["zombies_old"][int(p[1])] = int(p[4].split("=")[1])
        elif p[0] == "witness":
            model["witness"].append(l)

    # speed of this machine under the present load: scales every time-out of the harness
    workers = 5
    factor, calib_ms = calibrate(cexe, workers)
    SPEED["factor"] = factor
    reduced = None
    if factor >= 2.5:
        workers = 3
    if factor >= 8.0 and ctx.quick():
        reduced = "speed factor %.1f: quick tier reduced to 5 stress / 2 phase / 4 policy / 1 fragment / 1 TSan runs" % factor
        cases, phases, policy, frag = cases[:5], phases[:2], policy[::3], frag[:1]
    elif factor >= 4.0 and ctx.quick():
        reduced = "speed factor %.1f: quick tier reduced to 8 stress / 3 phase / 6 policy / 2 fragment runs" % factor
        cases, phases, policy, frag = cases[:8], phases[:3], policy[::2], frag[:2]

    texe = None
    tsan_cases = (cases[:1] if factor >= 8.0 else cases[:2]) if ctx.quick() else cases[:12]
    try:
        texe = vlib.build_harness("vdrv_threads", ["vdrv_threads.c"], wraps=WRAPS, variant="tsan")
    except vlib.BuildError as e:
        tsan_cases = []
        ctx.assumptions.append("TSan build unavailable: " + str(e)[:120])

    def exe_env(kind):
        return (texe, TSAN_ENV, 900) if kind == "tsan" else (cexe, ASAN_ENV, 400)

    groups = [("stress", cases, workers), ("forced", forced, 4), ("phases", phases, workers), ("policy", policy, workers),
              ("fragment", frag, min(4, workers)), ("tsan", tsan_cases, 2)]
    runs = []                      # (kind, case, result, observations, info)
    for kind, cs, w in groups:
        if not cs:
            continue
        exe, env, tmo = exe_env(kind)
        for c, r in zip(cs, run_cases(exe, cs, env, w, timeout=tmo)):
            obs, info = JUDGES[kind](c, r, model)
            runs.append((kind, c, r, obs, info))

    # ---- CONFIRM BEFORE ALARM.  An observation that is not a known finding is reported only if exactly that
    # scenario (same seed, same forced schedule) shows the same class of defect again in the majority of RERUNS
    # fresh processes with doubled time-outs (or the class shows in >= 4 first runs and >= 3 re-runs).
    unknown = {}                   # cls -> list of indices into runs
    for i, (kind, c, r, obs, info) in enumerate(runs):
        for (cls, msg, feat, etxt) in obs:
            if feat.get("kind") == "correspondence" or vlib.match_finding("C13", feat) is None:
                unknown.setdefault(cls, [])
                if i not in unknown[cls]:
                    unknown[cls].append(i)
    jobs = []                      # (cls, run index)
    for cls, idx in sorted(unknown.items()):
        for i in idx[:3]:
            jobs += [(cls, i)] * RERUNS
    rerun_hits = {}                # (cls, i) -> hits
    rerun_total = {}               # cls -> hits in all re-runs
    if jobs:
        vlib.log("C13: %d observation class(es) to confirm: %s" % (len(unknown), sorted(unknown)))
        uniq = sorted(set(i for (_, i) in jobs))
        rr = {}
        for kind in ("stress", "forced", "phases", "policy", "fragment", "tsan"):
            ii = [i for i in uniq if runs[i][0] == kind]
            if not ii:
                continue
            exe, env, tmo = exe_env(kind)
            rcases = [runs[i][1] for i in ii for _ in range(RERUNS)]
            res = run_cases(exe, rcases, env, 2 if kind == "tsan" else min(6, max(3, workers)), timeout=tmo, slow=2.0)
            for n, i in enumerate(ii):
                rr[i] = [JUDGES[kind](runs[i][1], res[n * RERUNS + k], model)[0] for k in range(RERUNS)]
        for cls, idx in unknown.items():
            for i in idx[:3]:
                h = sum(1 for o in rr[i] if any(x[0] == cls for x in o))
                rerun_hits[(cls, i)] = h
                rerun_total[cls] = rerun_total.get(cls, 0) + h
    confirmed = set()
    for cls, idx in unknown.items():
        if any(rerun_hits.get((cls, i), 0) * 2 > RERUNS for i in idx[:3]) or (len(idx) >= 4 and rerun_total.get(cls, 0) >= 3):
            confirmed.add(cls)
    unconfirmed = []

    def report(msg, feat, case, out, err=""):
        ctx.violation("threaded event loop (sampled run): " + msg, feat,
                      "script:\n" + "\n".join(case) + "\n\nimplementation output:\n" + out[-3000:] +
                      ("\n\nstderr:\n" + err[-4000:] if err else ""))

    hist = {"stress": len(cases), "forced": len(forced), "phases": len(phases), "policy": len(policy), "fragment": len(frag), "tsan": len(tsan_cases)}
    pairs_seen = set()
    done = {"stress": 0, "phases": 0, "policy": 0, "fragment": 0}
    forced_seen = {}
    inconclusive = []
    corr = []
    reported_tsan = set()
    for i, (kind, c, r, obs, info) in enumerate(runs):
        rc, out, err = r
        if kind in done and info.get("completed"):
            done[kind] += 1
        if kind == "forced":
            forced_seen[info["what"]] = info["seen"]
        if info.get("inconclusive"):
            inconclusive.append(info["inconclusive"])
        for pr in info["d"].get("pairs", []):
            pairs_seen.add(pr)
        for (cls, msg, feat, etxt) in obs:
            is_corr = feat.get("kind") == "correspondence"
            if not is_corr and vlib.match_finding("C13", feat) is not None:
                report(msg, feat, c, out, etxt)           # recorded as KNOWN-FINDING by vlib
                continue
            if cls not in confirmed:
                if cls == "setup":
                    inconclusive.append(msg)
                unconfirmed.append({"what": msg[:300], "features": feat, "case": c[1],
                                    "reruns_showing_it": "%s/%d" % (rerun_hits.get((cls, i), "-"), RERUNS)})
                continue
            if is_corr:
                corr.append(msg)
            elif kind == "tsan":
                if msg not in reported_tsan:
                    reported_tsan.add(msg)
                    report(msg + " (confirmed in %s of %d re-runs)" % (rerun_hits.get((cls, i), "other cases'"), RERUNS), feat, c, "", etxt)
            else:
                report(msg + " (confirmed: the same scenario showed it in %s of %d re-runs with doubled time-outs)" %
                       (rerun_hits.get((cls, i), "other cases'"), RERUNS), feat, c, out, etxt)
    for u in unconfirmed[:10]:
        vlib.log("C13 UNCONFIRMED (not reproduced in the majority of %d re-runs, not reported): %s" % (RERUNS, " ".join(u["what"].split())[:200]))

    other = sorted(p for p in pairs_seen if p not in model["table"])
    ctx.coverage.update(
        evaluations=sum(hist.values()), distinct_nontrivial=len(pairs_seen) + sum(done.values()),
        final_contents_phase_runs_ok=done["phases"], policy_runs_ok=done["policy"], fragment_runs_ok=done["fragment"],
        final_contents_phase_runs_inconclusive=len(inconclusive),
        speed_factor=round(factor, 2), calibration_ms=calib_ms, calibration_reference_ms=REF_MS,
        unconfirmed_sampled_observations=unconfirmed[:20], confirmation_reruns=len(jobs),
        confirmed_classes=sorted(confirmed),
        rule="PROOF PART: theorems of Props/Properties_C13.v hold for every schedule of the protocol models. SAMPLED PART: "
             "each evaluation is one stress run of the real background loop (own process, seeded yield injection at every "
             "lock/wait/socket call of the library, watchdog, ASan) or one forced-schedule replay or one TSan run; "
             "distinct_nontrivial = distinct observed (held,acquired) mutex-class pairs + runs that completed all phases; "
             "every time-out is multiplied by the measured speed factor; an observation that is not a known finding is reported "
             "only when the same scenario shows it again in the majority of 3 fresh re-runs with doubled time-outs",
        samples=[cases[0], cases[-1], forced[0], phases[0]],
        input_distribution=hist, stress_completed=done["stress"],
        model_lock_table=sorted(model["table"]), observed_lock_pairs=sorted(pairs_seen),
        observed_pairs_not_in_model=other, forced_replays=forced_seen, model_witnesses=model["witness"],
        proof_part="protocol model only (Session/ThreadsModel.v): for all schedules of the modelled threads",
        sampled_part="real scheduler, data races on plain fields, memory reclamation, kernel behaviour: randomised stress, labelled exploration",
        exhaustive=False)
    if reduced:
        ctx.coverage["reduced_sampling"] = reduced
    ctx.assumptions += [
        "the theorems are about the protocol model, not about the C text under the real scheduler (DESIGN.md section 8: C13 partial)",
        "finite fragments: 2 output threads (cursor), 1 iterator + 1 client thread (reference counting), 4 threads / 1 client (shutdown); the lock-order theorem is unbounded",
        "stress runs sample schedules; absence of a hang / ASan report in them proves nothing",
        "sampled observations are confirmed by re-runs before they are reported: a defect that shows in fewer than half of the runs of one scenario "
        "and in fewer than 4 scenarios is recorded as unconfirmed only",
    ]
    if corr:
        corr = sorted(set(corr))
        ctx.violation("correspondence Session/ThreadsModel.v <-> threaded loop no longer holds: " + "; ".join(corr),
                      {"kind": "correspondence"},
                      "correspondence: lock_table / th_cycles of Session/ThreadsModel.v vs observations of harness/vdrv_threads.c\n"
                      "model table: %s\nobserved: %s\n%s" % (sorted(model["table"]), sorted(pairs_seen), "\n".join(corr)), no_input=True)
    if not proof_ok and not ctx.violations:
        vlib.report_proof_failure(ctx, "Stress runs: %d completed without an unknown failure." % done["stress"])


def replay(ctx, path):
    txt = open(path).read()
    if "script:\n" not in txt:
        print("replay names a theorem/correspondence, re-running the full check")
        return check(ctx)
    body = txt.split("script:\n", 1)[1].split("\n\n", 1)[0]
    lines = [l for l in body.split("\n") if l.strip()]
    cexe = vlib.build_harness("vdrv_threads", ["vdrv_threads.c"], wraps=WRAPS)
    vlib.prove(ctx, PROP_FILE, ["Extract/Extract_C13.vo"])
    SPEED["factor"] = calibrate(cexe, 1)[0]
    (rc, out, err), = run_cases(cexe, [lines], ASAN_ENV, 1)
    print("implementation:\n" + out + "\nstderr tail:\n" + err[-2500:])
    ctx.coverage.update(evaluations=1, distinct_nontrivial=0, rule="replay (sampled: the schedule is not reproduced exactly unless forced)", samples=[lines])
    d = parse_result(out)
    if d.get("hang") == "1":
        ctx.violation("watchdog: phase '%s' did not return" % d.get("phase"), {"defect": "hang", "phase": d.get("phase", "?")},
                      "script:\n" + "\n".join(lines) + "\n\n" + out)
    elif d.get("crash") == "1":
        ctx.violation("crash / sanitizer report", asan_features(err),
                      "script:\n" + "\n".join(lines) + "\n\n" + out + asan_head(err))
    elif int(d.get("burned_pixels", 0) or 0) > 0:
        ctx.violation("cursor burnt into the framebuffer", {"defect": "cursor_burned"}, "script:\n" + "\n".join(lines) + "\n\n" + out)
    elif int(d.get("zombies_after_cycles", 0) or 0) > 0:
        ctx.violation("client threads never joined", {"defect": "threads_not_reclaimed"}, "script:\n" + "\n".join(lines) + "\n\n" + out)
