"""C13 - Background (threaded) event loop: no deadlock, no use-after-free, clean shutdown.

TWO PARTS, labelled separately in the evidence:

(1) PROOF about the protocol MODEL (coq/Props/Properties_C13.v over Session/ThreadsModel.v): small-step
    interleaving models of the locking protocol as read from main.c / rfbserver.c / sockets.c /
    cursor.c, with explicit schedules; theorems for ALL schedules (lock order acyclic for any number of
    threads; gone-callback exactly once; repaired shutdown never stuck and always finishable; repaired
    iterator never touches freed memory; serialised cursor bracket restores the framebuffer) and
    machine-checked refutations of the faithful protocol with explicit schedules (lost wake-up in
    shutdown, iterator use-after-free, threads never joined, cursor burnt into the framebuffer, lock-order
    inversion on colour-mapped screens).

(2) SAMPLED behaviour of the real library (harness/vdrv_threads.c): randomised stress of
    rfbRunEventLoop(screen,-1,TRUE) over loopback TCP with seeded yields injected by pthread/select/
    read/write wraps, ASan, a watchdog on every phase, a TSan build for lock-order / mutex-misuse
    reports; plus FORCED-SCHEDULE replays of the model's refutation witnesses on the real library.
    Tie between the two: the model's schedule-independent predictions (gone hook = new hook, number of
    never-joined threads after n cycles, the set of (held, acquired) mutex-class pairs) are compared
    with what the harness observes.
"""
import os, re, json
from concurrent.futures import ThreadPoolExecutor
import vlib

LEVEL = "proof"
PROP_FILE = "Props/Properties_C13.v"
WRAPS = ("pthread_mutex_lock", "pthread_mutex_unlock", "pthread_cond_wait", "pthread_cond_signal",
         "pthread_create", "pthread_join", "select", "read", "write")
ASAN_ENV = {"ASAN_OPTIONS": "detect_leaks=0:abort_on_error=0:allocator_may_return_null=1"}
TSAN_ENV = {"TSAN_OPTIONS": "halt_on_error=0 exitcode=0 report_signal_unsafe=0 detect_deadlocks=1 second_deadlock_stack=1"}


def sync_extraction():
    import shutil
    src = os.path.join(vlib.VERIF, "build", "ocaml", "C13")
    dst = os.path.join(vlib.BUILD, "ocaml", "C13")
    if os.path.abspath(src) != os.path.abspath(dst) and os.path.exists(os.path.join(src, "model.ml")):
        os.makedirs(dst, exist_ok=True)
        for f in ("model.ml", "model.mli"):
            shutil.copy(os.path.join(src, f), os.path.join(dst, f))


def run_cases(exe, cases, env, workers, timeout=400):
    def one(c):
        return vlib.run_driver(exe, "\n".join(c) + "\n", timeout=timeout, env=env)
    with ThreadPoolExecutor(max_workers=workers) as ex:
        return list(ex.map(one, cases))


def parse_result(out):
    d = {"raw": out}
    for l in out.split("\n"):
        if l.startswith("result "):
            for t in l.split()[1:]:
                if "=" in t:
                    k, v = t.split("=", 1)
                    d[k] = v
        elif l.startswith("presult2 "):
            for t in l.split()[1:]:
                if "=" in t:
                    k, v = t.split("=", 1)
                    d["p2_" + k] = v
        elif l.startswith("presult "):
            for t in l.split()[1:]:
                if "=" in t:
                    k, v = t.split("=", 1)
                    d["p_" + k] = v
        elif l.startswith("pairs"):
            d["pairs"] = l.split()[1:]
        elif l.startswith("#hang"):
            m = re.search(r"phase=(\S+)", l)
            d["phase"] = m.group(1) if m else "?"
    return d


def asan_features(err):
    site = re.search(r"SUMMARY: AddressSanitizer: (\S+) \S+ in (\S+)", err)
    feat = {"defect": site.group(1) if site else "crash", "site": site.group(2) if site else "?"}
    m = re.search(r"freed by thread .*?\n(.*?)\n\n", err, flags=re.S)
    if m:
        fns = re.findall(r" in (\S+) ", m.group(1))
        feat["freed_by"] = "rfbClientConnectionGone" if "rfbClientConnectionGone" in fns else (fns[1] if len(fns) > 1 else "?")
    elif "rfbClientConnectionGone" in err and feat["defect"] in ("heap-use-after-free", "SEGV", "attempting", "double-free"):
        feat["freed_by"] = "rfbClientConnectionGone"
    return feat


def asan_head(err):
    i = err.find("ERROR: AddressSanitizer")
    return err[max(0, i - 80):i + 3500] if i >= 0 else err[-3000:]


def gen_cases(ctx):
    rng = ctx.rng
    cases = []
    n = 14 if ctx.quick() else 150
    for i in range(n):
        seed = rng.randint(1, 10 ** 6)
        y = rng.choice([0, 10, 30, 60, 100])
        c = ["case %d stress" % len(cases),
             "stress %d %d %d %d %d %d %d %d" % (seed, y, rng.randint(1, 3), rng.randint(0, 4), rng.randint(0, 2),
                                                 rng.randint(0, 3), rng.randint(0, 8), rng.randint(0, 1))]
        cases.append(c)
    forced = [["case %d forced" % (len(cases) + i), "force " + w] for i, w in enumerate(("lostwakeup", "iteruaf", "cursor"))]
    # final-contents phases: every application operation as the LAST one, no request outstanding, then one
    # incremental request per staying client (Raw / CopyRect / CopyRect+RichCursor+PointerPos)
    nph = 5 if ctx.quick() else 40
    phases = [["case %d phases" % (len(cases) + len(forced) + i),
               "phases %d %d %d" % (rng.randint(1, 10 ** 6), rng.choice([0, 20, 50, 100]), 2)] for i in range(nph)]
    base = len(cases) + len(forced) + len(phases)
    # sharing policy inside the threaded lifecycle: every flag combination x shared flag of the newcomer,
    # then the survivor is torn down by peer close / rfbCloseClient / shutdown only
    combos = [(a, n, d, b) for (a, n, d) in ((0, 0, 0), (0, 0, 1), (0, 1, 0), (0, 1, 1), (1, 0, 0), (1, 0, 1)) for b in (0, 1)]
    policy = []
    for (a, n, d, b) in combos:
        for route in ((0, 1, 2) if not ctx.quick() else (rng.randint(0, 2),)):
            policy.append(["case %d policy" % (base + len(policy)),
                           "policy %d %d %d %d %d %d %d" % (rng.randint(1, 10 ** 6), rng.choice([0, 20, 60]), a, n, d, b, route)])
    # heavily fragmented update (> maxRectsPerUpdate), slow reader, mark placed while the output thread is blocked
    frag = [["case %d fragment" % (base + len(policy) + i), "fragment %d %d" % (rng.randint(1, 10 ** 6), y)]
            for i, y in enumerate((0, 20, 50, 100) if ctx.quick() else (0, 10, 20, 50, 100) * 4)]
    return cases, forced, phases, policy, frag


def check(ctx):
    cexe = vlib.build_harness("vdrv_threads", ["vdrv_threads.c"], wraps=WRAPS)
    proof_ok = vlib.prove(ctx, PROP_FILE, ["Extract/Extract_C13.vo"])
    sync_extraction()
    mexe = vlib.build_ocaml("C13", "driver_C13.ml", "Extract/Extract_C13.vo")
    cases, forced, phases, policy, frag = gen_cases(ctx)
    ncyc = list(range(0, 10))
    rc, mout, merr = vlib.run_driver(mexe, "case 0 model\ntable\nwitness\n" + "".join("cycles %d\n" % n for n in ncyc))
    model = {"table": set(), "palette": set(), "zombies": {}, "witness": []}
    for l in mout.split("\n"):
        p = l.split()
        if not p:
            continue
        if p[0] == "table":
            model["table"] = set(p[1:])
        elif p[0] == "table_palette":
            model["palette"] = set(p[1:])
        elif p[0] == "cycles":
            model["zombies"][int(p[1])] = int(p[2].split("=")[1])
        elif p[0] == "witness":
            model["witness"].append(l)
    workers = 5
    res = run_cases(cexe, cases, ASAN_ENV, workers)
    fres = run_cases(cexe, forced, ASAN_ENV, 3)
    pres = run_cases(cexe, phases, ASAN_ENV, 5)
    polres = run_cases(cexe, policy, ASAN_ENV, 5)
    fragres = run_cases(cexe, frag, ASAN_ENV, 4)
    tsan_lines = []
    tsan_cases = cases[:2] if ctx.quick() else cases[:12]
    try:
        texe = vlib.build_harness("vdrv_threads", ["vdrv_threads.c"], wraps=WRAPS, variant="tsan")
        tres = run_cases(texe, tsan_cases, TSAN_ENV, 2, timeout=900)
    except vlib.BuildError as e:
        tres = []
        ctx.assumptions.append("TSan build unavailable: " + str(e)[:120])

    hist = {"stress": len(cases), "forced": len(forced), "phases": len(phases), "policy": len(policy), "fragment": len(frag), "tsan": len(tres)}
    pairs_seen = set()
    nstress_ok = 0
    mism = []

    def report(msg, feat, case, out, err=""):
        ctx.violation("threaded event loop (sampled run): " + msg, feat,
                      "script:\n" + "\n".join(case) + "\n\nimplementation output:\n" + out[-3000:] +
                      ("\n\nstderr:\n" + err[-4000:] if err else ""))

    for c, (rc, out, err) in zip(cases, res):
        d = parse_result(out)
        if d.get("crash") == "1" or "result" not in out:
            feat = asan_features(err)
            report("the process crashed / AddressSanitizer reported %s" % (feat,), feat, c, out, asan_head(err))
            continue
        if d.get("hang") == "1":
            report("watchdog: phase '%s' did not return" % d.get("phase"), {"defect": "hang", "phase": d.get("phase", "?")}, c, out, err)
            continue
        nstress_ok += 1
        if d.get("new") != d.get("gone") or d.get("dupgone", "0") != "0":
            report("clientGoneHook ran %s times for %s accepted clients (%s on unknown records)" % (d.get("gone"), d.get("new"), d.get("dupgone")),
                   {"defect": "gone_count"}, c, out)
        if d.get("converged") != d.get("stay") or d.get("stay_ok") != d.get("stay"):
            report("%s of %s staying clients ended with the final framebuffer contents (%s kept a well-formed stream)" %
                   (d.get("converged"), d.get("stay"), d.get("stay_ok")), {"defect": "final_contents"}, c, out)
        n = int(d.get("cycles", 0))
        z = int(d.get("zombies_after_cycles", 0))
        if int(d.get("stuck_after_cycles", 0)) > 0:
            report("%s disconnected client(s) were not torn down within 2 s: clientInput is blocked joining a clientOutput thread "
                   "that went to sleep after the last wake-up (clientGoneHook only ran at shutdown)" % d.get("stuck_after_cycles"),
                   {"defect": "hang", "phase": "disconnect"}, c, out)
        if z != model["zombies"].get(n, -1):
            mism.append("never-joined threads after %d cycles: model %s, implementation %d" % (n, model["zombies"].get(n), z))
        if z != 0:
            report("%d client threads that have ended were never joined after %d connect/disconnect cycles "
                   "(resources grow with the number of past connections)" % (z, n), {"defect": "threads_not_reclaimed"}, c, out)
        for p in d.get("pairs", []):
            pairs_seen.add(p)
    # a known race shows in a few percent of the runs; when most runs hang or crash something else is wrong
    nh = sum(1 for (rc, out, err) in res if parse_result(out).get("hang") == "1")
    nc = sum(1 for (rc, out, err) in res if parse_result(out).get("crash") == "1")
    nstuck = sum(1 for (rc, out, err) in res if int(parse_result(out).get("stuck_after_cycles", 0) or 0) > 0)
    ncyc_cases = sum(1 for c in cases if int(c[1].split()[7]) > 0)
    # the lost wake-up leaves a disconnected client alive in up to ~20 % of the runs at high yield rates;
    # when (almost) every run that disconnects clients shows it, teardown on disconnect is broken
    if nstuck >= 4 and nstuck * 10 >= ncyc_cases * 7:
        ctx.violation("threaded event loop (sampled run): in %d of %d stress runs disconnected clients are not torn down "
                      "(clientGoneHook does not run when the connection ends) - not the rare lost wake-up" % (nstuck, len(cases)),
                      {"defect": "gone_count"}, "script:\n" + "\n".join(cases[0]) + "\n\n%d of %d stress cases left disconnected clients alive" % (nstuck, len(cases)))
    if nh >= max(5, (len(cases) * 35) // 100):
        ctx.violation("threaded event loop (sampled run): %d of %d stress runs hang - not the rare lost wake-up" % (nh, len(cases)),
                      {"defect": "hang_systematic"}, "script:\n" + "\n".join(cases[0]) + "\n\n%d of %d stress cases hit the watchdog" % (nh, len(cases)))
    if nc >= max(4, (len(cases) * 2) // 5):
        ctx.violation("threaded event loop (sampled run): %d of %d stress runs crash - not the rare iterator race" % (nc, len(cases)),
                      {"defect": "crash_systematic"}, "script:\n" + "\n".join(cases[0]) + "\n\n%d of %d stress cases crashed" % (nc, len(cases)))
    known_pairs = set(p for p in pairs_seen if "G" not in p[:2] or p in model["table"])
    unknown_pairs = sorted(p for p in known_pairs if p not in model["table"])
    inversions = sorted(p for p in unknown_pairs if p in model["palette"])
    if inversions:
        ctx.violation("lock-order inversion observed: mutex class pairs %s (held->acquired) are taken in the order the "
                      "model's rank forbids" % inversions, {"defect": "lock_order_inversion"}, "pairs observed: %s" % sorted(pairs_seen))
    other = [p for p in unknown_pairs if p not in inversions]

    # forced-schedule replays of the model's refutation witnesses
    forced_seen = {}
    for c, (rc, out, err) in zip(forced, fres):
        d = parse_result(out)
        what = c[1].split()[1]
        if what == "lostwakeup":
            forced_seen[what] = d.get("hang") == "1"
            if d.get("hang") == "1":
                report("forced schedule (clientOutput preempted between the unlocked test of cl->state and LOCK(updateMutex), "
                       "rfbCloseClient preempted between UNLOCK(updateMutex) and state = RFB_SHUTDOWN): rfbShutdownServer never returns",
                       {"defect": "hang", "phase": d.get("phase", "?")}, c, out)
        elif what == "iteruaf":
            uaf = "heap-use-after-free" in err
            forced_seen[what] = uaf
            if uaf:
                feat = asan_features(err)
                report("forced schedule (iterator preempted between reading the next pointer and rfbIncrClientRef while the peer "
                       "disconnects): heap-use-after-free in %s" % feat.get("site"), feat, c, out, asan_head(err))
            elif d.get("crash") == "1":
                report("forced iterator schedule crashed differently", {"defect": "crash", "site": "?"}, c, out, err)
        elif what == "cursor":
            b = int(d.get("burned_pixels", 0) or 0)
            forced_seen[what] = b > 0
            if b > 0:
                report("forced schedule (two clientOutput threads inside their rfbShowCursor/rfbHideCursor brackets at the same "
                       "time): %d pixels of the cursor stay painted in the application's framebuffer" % b,
                       {"defect": "cursor_burned"}, c, out)
    # final-contents phases
    nphase_ok = 0
    ninconclusive = []
    for c, (rc, out, err) in zip(phases, pres):
        d = parse_result(out)
        if "p_phases" not in d:
            if d.get("crash") == "1":
                feat = asan_features(err)
                report("phases run crashed / AddressSanitizer reported %s" % (feat,), feat, c, out, asan_head(err))
            elif d.get("hang") == "1":
                report("watchdog: phase '%s' did not return" % d.get("phase"), {"defect": "hang", "phase": d.get("phase", "?")}, c, out, err)
            else:
                ninconclusive.append(out[-200:])       # could not connect / initial picture timed out (machine load)
            continue
        if int(d.get("p_phasefails", 0)) > 0:
            first = d.get("p_failed", "[?]")[1:].split(",")[0].rstrip("]")
            op, kind, how = (first.split(":") + ["?", "?", "?"])[:3]
            report("a staying client did not end up with the final framebuffer: after the application's last operation '%s' "
                   "(no request outstanding) the client of kind %s (k0 Raw, k1 CopyRect+Raw, k2 CopyRect+Raw+RichCursor+PointerPos) sent one "
                   "incremental request and got %s within 8 s; all failures of the run: %s" %
                   (op, kind, "no update" if how == "noupdate" else "a malformed stream", d.get("p_failed")),
                   {"defect": "final_contents", "after": op}, c, out)
        else:
            nphase_ok += 1
        if d.get("hang") == "1":
            report("watchdog: phase '%s' did not return" % d.get("phase"), {"defect": "hang", "phase": d.get("phase", "?")}, c, out, err)
        elif d.get("crash") == "1":
            feat = asan_features(err)
            report("phases run crashed / AddressSanitizer reported %s" % (feat,), feat, c, out, asan_head(err))

    # sharing policy + teardown of the survivor, fragmented update with a mark mid-send
    npol_ok = nfrag_ok = 0
    def generic_fail(c, d, out, err):
        if d.get("crash") == "1":
            feat = asan_features(err)
            report("run crashed / AddressSanitizer reported %s" % (feat,), feat, c, out, asan_head(err))
            return True
        if d.get("hang") == "1":
            report("watchdog: phase '%s' did not return" % d.get("phase"), {"defect": "hang", "phase": d.get("phase", "?")}, c, out, err)
            return True
        return False
    for c, (rc, out, err) in zip(policy, polres):
        d = parse_result(out)
        p = c[1].split()
        if "p_policy_ok" not in d:
            if not generic_fail(c, d, out, err):
                ninconclusive.append(out[-200:])
            continue
        bad = False
        if d.get("p_policy_ok") != "1":
            bad = True
            report("sharing policy under the background loop: alwaysShared=%s neverShared=%s dontDisconnect=%s, newcomer shared=%s: first client "
                   "%s, newcomer %s (1 = served, 0 = closed by the server, -1 = silent)" % (p[3], p[4], p[5], p[6], d.get("p_a"), d.get("p_b")),
                   {"defect": "sharing_policy"}, c, out)
        if d.get("p2_torn_down_in_time") == "0":
            bad = True
            report("after the sharing decision (alwaysShared=%s neverShared=%s dontDisconnect=%s, newcomer shared=%s) a connection that ended "
                   "(route %s: 0 peer close, 1 rfbCloseClient) was not torn down within 5 s: clientGoneHook ran %s times for %s clients" %
                   (p[3], p[4], p[5], p[6], p[7], d.get("p2_gone"), d.get("p2_new")), {"defect": "not_torn_down"}, c, out)
        if generic_fail(c, d, out, err):
            bad = True
        elif d.get("new") != d.get("gone") or d.get("dupgone", "0") != "0":
            bad = True
            report("clientGoneHook ran %s times for %s accepted clients" % (d.get("gone"), d.get("new")), {"defect": "gone_count"}, c, out)
        npol_ok += 0 if bad else 1
    for c, (rc, out, err) in zip(frag, fragres):
        d = parse_result(out)
        if "p_fragment_ok" not in d:
            if not generic_fail(c, d, out, err):
                ninconclusive.append(out[-200:])
            continue
        if d.get("p_rects_in_first_update") != "1" or d.get("p_write_blocked", "0") == "0":
            ninconclusive.append("fragment scenario did not produce the blocked bounding-box update: " + out[-200:])
        elif d.get("p_fragment_ok") != "1":
            report("a staying client did not end up with the final framebuffer: an update of 60 separate squares went out as its bounding box to a "
                   "slow reader; while the output thread was blocked in write() the application changed and marked a pixel inside the box; after the "
                   "update and further incremental requests %s pixel(s) still differ (the mark placed during the send was lost)" % d.get("p_diff"),
                   {"defect": "final_contents", "after": "mark_during_send"}, c, out)
        else:
            nfrag_ok += 1
        generic_fail(c, d, out, err)

    if len(ninconclusive) * 2 > len(phases):
        ctx.violation("threaded event loop (sampled run): %d of %d final-contents runs could not even set their clients up: %s" %
                      (len(ninconclusive), len(phases), ninconclusive[0]), {"defect": "crash", "site": "setup"},
                      "script:\n" + "\n".join(phases[0]))

    # TSan: lock-order-inversion / mutex misuse only (data races are outside this check)
    tsan_bad = []
    # Reports are classified by ROOT CAUSE, not by the sanitizer's wording.  The known iterator window
    # (C13-N2: a client record is torn down by rfbClientConnectionGone while an iterating thread still
    # works on it) shows as heap-use-after-free, "use of an invalid mutex", "unlock of an unlocked mutex",
    # "destroy of a locked mutex", ... depending on where the two threads are.
    ITER_USERS = ("rfbClientIteratorNext", "rfbIncrClientRef", "rfbDecrClientRef", "rfbReleaseClientIterator",
                  "rfbMarkRegionAsModified", "rfbMarkRectAsModified", "rfbSendBell", "rfbSendServerCutText",
                  "rfbNewFramebuffer", "rfbSetCursor", "rfbScheduleCopyRegion", "rfbDoCopyRegion", "rfbDoCopyRect",
                  "rfbDefaultPtrAddEvent", "rfbRedrawAfterHideCursor", "rfbShutdownServer", "rfbScreenCleanup",
                  "rfbGetClientIterator")
    TEARDOWN_KINDS = ("heap-use-after-free", "use of an invalid mutex", "unlock of an unlocked mutex",
                      "destroy of a locked mutex", "double lock", "read lock of a write locked mutex")
    for c, (rc, out, err) in zip(tsan_cases, tres):
        for r in err.split("=================="):
            m = re.search(r"WARNING: ThreadSanitizer: ([^\n(]+)", r)
            if not m:
                continue
            kind = m.group(1).strip()
            if kind.startswith("data race") or kind.startswith("signal"):
                continue
            if kind.startswith("thread leak") and "rfbStartOnHoldClient" in r:
                tsan_bad.append((kind, {"defect": "threads_not_reclaimed"}, c, r))   # ended client threads never joined
                continue
            # a mutex "created at rfbNewTCPOrUDPClient" lives in a client record
            race_seen = any("rfbClientConnectionGone" in q and "ThreadSanitizer" in q and not q.lstrip().startswith("WARNING: ThreadSanitizer: data race")
                            for q in err.split("=================="))
            if any(kind.startswith(tk) for tk in TEARDOWN_KINDS) and \
               ("rfbClientConnectionGone" in r or any(u in r for u in ITER_USERS) or
                ("rfbNewTCPOrUDPClient" in r and (race_seen or not kind.startswith("unlock")))):
                tsan_bad.append(("iterator window: " + kind,
                                 {"defect": "heap-use-after-free", "freed_by": "rfbClientConnectionGone"}, c, r))
                continue
            tsan_bad.append((kind, {"defect": "tsan", "kind": kind.split()[0]}, c, r))
    seen_k = set()
    for kind, feat, c, r in tsan_bad:
        if kind in seen_k:
            continue
        seen_k.add(kind)
        report("ThreadSanitizer: " + kind, feat, c, "", r[:4000])

    ctx.coverage.update(
        evaluations=len(cases) + len(forced) + len(phases) + len(policy) + len(frag) + len(tres), distinct_nontrivial=len(pairs_seen) + nstress_ok + nphase_ok + npol_ok + nfrag_ok,
        final_contents_phase_runs_ok=nphase_ok, policy_runs_ok=npol_ok, fragment_runs_ok=nfrag_ok, final_contents_phase_runs_inconclusive=len(ninconclusive),
        rule="PROOF PART: theorems of Props/Properties_C13.v hold for every schedule of the protocol models. SAMPLED PART: "
             "each evaluation is one stress run of the real background loop (own process, seeded yield injection at every "
             "lock/wait/socket call of the library, watchdog, ASan) or one forced-schedule replay or one TSan run; "
             "distinct_nontrivial = distinct observed (held,acquired) mutex-class pairs + stress runs that completed all phases",
        samples=[cases[0], cases[-1], forced[0], phases[0]],
        input_distribution=hist, stress_completed=nstress_ok,
        model_lock_table=sorted(model["table"]), observed_lock_pairs=sorted(pairs_seen),
        observed_pairs_not_in_model=other, forced_replays=forced_seen, model_witnesses=model["witness"],
        tsan_reports_other_than_data_races=len(tsan_bad),
        proof_part="protocol model only (Session/ThreadsModel.v): for all schedules of the modelled threads",
        sampled_part="real scheduler, data races on plain fields, memory reclamation, kernel behaviour: randomised stress, labelled exploration",
        exhaustive=False)
    ctx.assumptions += [
        "the theorems are about the protocol model, not about the C text under the real scheduler (DESIGN.md section 8: C13 partial)",
        "finite fragments: 2 output threads (cursor), 1 iterator + 1 client thread (reference counting), 4 threads / 1 client (shutdown); the lock-order theorem is unbounded",
        "stress runs sample schedules; absence of a hang / ASan report in them proves nothing",
    ]
    if other or mism:
        ctx.violation("correspondence Session/ThreadsModel.v <-> threaded loop no longer holds: " +
                      "; ".join(mism + (["mutex-class pairs not in the model's table: %s" % other] if other else [])),
                      {"kind": "correspondence"},
                      "correspondence: lock_table / th_cycles of Session/ThreadsModel.v vs observations of harness/vdrv_threads.c\n"
                      "model table: %s\nobserved: %s\n%s" % (sorted(model["table"]), sorted(pairs_seen), "\n".join(mism)), no_input=True)
    if not proof_ok and not ctx.violations:
        vlib.report_proof_failure(ctx, "Stress runs: %d completed without an unknown failure." % nstress_ok)


def replay(ctx, path):
    txt = open(path).read()
    if "script:\n" not in txt:
        print("replay names a theorem/correspondence, re-running the full check")
        return check(ctx)
    body = txt.split("script:\n", 1)[1].split("\n\n", 1)[0]
    lines = [l for l in body.split("\n") if l.strip()]
    cexe = vlib.build_harness("vdrv_threads", ["vdrv_threads.c"], wraps=WRAPS)
    vlib.prove(ctx, PROP_FILE, ["Extract/Extract_C13.vo"])
    (rc, out, err), = run_cases(cexe, [lines], ASAN_ENV, 1)
    print("implementation:\n" + out + "\nstderr tail:\n" + err[-2500:])
    ctx.coverage.update(evaluations=1, distinct_nontrivial=0, rule="replay (sampled: the schedule is not reproduced exactly unless forced)", samples=[lines])
    d = parse_result(out)
    if d.get("hang") == "1":
        ctx.violation("watchdog: phase '%s' did not return" % d.get("phase"), {"defect": "hang", "phase": d.get("phase", "?")},
                      "script:\n" + "\n".join(lines) + "\n\n" + out)
    elif d.get("crash") == "1":
        ctx.violation("crash / sanitizer report", asan_features(err),
                      "script:\n" + "\n".join(lines) + "\n\n" + out + asan_head(err))
    elif int(d.get("burned_pixels", 0) or 0) > 0:
        ctx.violation("cursor burnt into the framebuffer", {"defect": "cursor_burned"}, "script:\n" + "\n".join(lines) + "\n\n" + out)
    elif int(d.get("zombies_after_cycles", 0) or 0) > 0:
        ctx.violation("client threads never joined", {"defect": "threads_not_reclaimed"}, "script:\n" + "\n".join(lines) + "\n\n" + out)
