"""C19 - File-transfer operations touch the filesystem only when permitted.

Proof: coq/Props/Properties_C19.v - theorems over the monadic mirror of the UltraVNC file-transfer
code of rfbserver.c (coq/Session/FileXferDefs.v): permission = permitFileTransfer && (callback absent
|| callback says yes) with the callback an arbitrary stateful oracle, environment (file system, zlib,
strftime) an oracle too; effects = trace of Ask / Fs op path / Tx bytes / CloseClient.
Tie: (a) protocol constants, MAX_PATH, block size re-generated from the source on every run
(Gen/Consts_C19.v); (b) correspondence in two phases: the real library (static ASan build; link-time
wraps of open/opendir/readdir/closedir/mkdir/rmdir/unlink/rename/stat/fstat/fopen/read/write/close/
strftime/compress/uncompress/rfbCloseClient; sandbox directory rebuilt for every case in a forked
child) runs the generated scripts and logs every callback invocation, file-system call with its
arguments AND result, bytes sent, rfbCloseClient, transfer state; the recorded results instantiate
the model's environment oracle and the extracted model must reproduce the identical trace.
Independently of the mirror the property predicate is evaluated on the implementation's trace (spec
oracle below: nothing but the refusal when permission is false at entry, nothing after a refusal,
every path = the documented translation of a name the client sent, over-long names never reach the
file system, no descriptor survives the connection, TightVNC extension gated and confined).
"""
import os, re, shutil, struct, sys, json
import vlib

PROP_FILE = "Props/Properties_C19.v"
WRAPS = ("open", "opendir", "readdir", "closedir", "mkdir", "rmdir", "unlink", "rename", "stat", "fstat", "fopen",
         "read", "write", "close", "strftime", "compress", "uncompress", "rfbCloseClient", "creat", "utime", "getpwuid")
MARK = ("cfg", "msg", "chunk", "gone", "tight", "targs")
MAX_PATH = 260

# content types / params (rfbproto.h; the model takes them from Gen/Consts_C19.v)
DCR, DIRP, FTR, FHDR, FPKT, EOFT, ABRT, OFFER, ACCH, CMD, CMDR, CHK, ACC = 1, 2, 3, 4, 5, 6, 7, 8, 9, 10, 11, 12, 14


def hx(b):
    return b.hex() if b else "-"


def unhx(s):
    return b"" if s == "-" else bytes.fromhex(s)


def ftmsg(ct, cp, size, payload=b"", length=None, extra=b"", pad=0):
    if length is None:
        length = len(payload)
    return bytes([7, ct & 255, cp & 255, pad]) + struct.pack(">II", size & 0xffffffff, length & 0xffffffff) + payload + extra


# ---------------------------------------------------------------- generators
def gen_cases(ctx, root):
    rng = ctx.rng
    sb = root + "/sb"
    cases = []
    quick = ctx.quick()
    mult = 1 if quick else 10

    def add(cls, cfg, ops):
        cases.append(dict(cls=cls, cfg=cfg, ops=ops))

    def M(ct, cp=0, size=0, payload=b"", length=None, extra=b"", eof=False):
        return ("msg", ftmsg(ct, cp, size, payload, length, extra), eof)

    rel_paths = [b"dir1", b"dir1/a.txt", b"dir1\\sub\\c.txt", b"file.txt", b"big.txt", b"empty", b"empty.txt", b"nonexistent", b"dir1/sub",
                 b"out/new.txt", b"", b".", b"..", b"../outside", b"dir1/../file.txt", b"com,ma.txt", b"st*ar.txt", b"dir1/b.bin", b"exact.bin",
                 b"C", b"C:", b"c:/x", b"dir1/\x00hidden", b"\\", b"/", b"out"]
    abs_paths = [b"C:" + sb.encode() + b"/dir1", b"C:" + sb.encode() + b"\\file.txt", b"C:" + sb.encode() + b"/out/abs.txt", b"C:/etc/hostname",
                 b"C:/nonexistent/x", b"C:", b"C:/", b"C:" + sb.encode()]
    all_paths = rel_paths + abs_paths

    def payload_for(ct, cp, p):
        """(payload, extra) a client would send for this type naming path p"""
        if ct == OFFER:
            return p + b",01/02/2020 03:04", b"\0\0\0\0"
        if ct == CMD and cp == 5:
            return p + b"*" + (p + b".renamed" if p else b"x"), b""
        if ct == FPKT:
            return b"packet-data-" + p, b""
        return p, b""

    TYPES = [(DCR, 1), (DCR, 2), (DCR, 3), (DIRP, 0), (FTR, 0), (FHDR, 0), (FPKT, 0), (EOFT, 0), (ABRT, 0), (ABRT, 1), (OFFER, 0), (ACCH, 0),
             (CMD, 1), (CMD, 2), (CMD, 3), (CMD, 4), (CMD, 5), (CMD, 9), (CMDR, 0), (CHK, 0), (13, 0), (ACC, 0), (0, 0), (15, 0), (255, 255)]
    HOMES = ["sb", "sb", "sb", "none"]
    # A. every message type against a server where transfer is not permitted (flag off, or callback says no)
    for (ct, cp) in TYPES:
        for (permit, cb) in [(0, "none"), (0, "1"), (1, "0"), (0, "0"), (1, "01"), (0, "10")]:
            if quick and rng.random() < 0.4:
                continue
            p = rng.choice([b"dir1", b"dir1/a.txt", b"out/x.txt", b"C:" + sb.encode() + b"/file.txt"])
            pl, ex = payload_for(ct, cp, p)
            ops = [M(ct, cp, rng.choice([0, 1, 5, 0xffffffff]), pl, extra=ex)]
            if rng.random() < 0.5:
                ops.append(M(DCR, 2))
            ops.append(("gone",))
            add("disabled", dict(permit=permit, cb=cb, home=rng.choice(HOMES)), ops)
    # B. callback that changes its answer at the k-th invocation, for every message type
    for (ct, cp) in TYPES:
        for k in range(0, 9):
            if quick and rng.random() < 0.55:
                continue
            p = rng.choice([b"dir1", b"dir1/a.txt", b"out/x.txt", b"file.txt"])
            pl, ex = payload_for(ct, cp, p)
            ops = [M(ct, cp, rng.choice([0, 1]), pl, extra=ex)]
            if ct == FHDR:
                ops = [M(FTR, 0, 0, b"dir1/a.txt")] + ops
            ops += [("chunk",), ("gone",)]
            add("flip", dict(permit=1, cb="1" * k + "0", home="sb"), ops)
    for _ in range(40 * mult):
        cb = "".join(rng.choice("1110") for _ in range(rng.randint(1, 14)))
        ops = []
        for _ in range(rng.randint(1, 4)):
            ct, cp = rng.choice(TYPES)
            pl, ex = payload_for(ct, cp, rng.choice(rel_paths))
            ops.append(M(ct, cp, rng.choice([0, 1]), pl, extra=ex))
        ops.append(("gone",))
        add("flip-rand", dict(permit=1, cb=cb, home="sb"), ops)
    # C. enabled: every path-taking type x path shapes
    for (ct, cp) in [(DCR, 1), (FTR, 0), (OFFER, 0), (CMD, 1), (CMD, 4), (CMD, 5)]:
        for p in all_paths:
            if quick and rng.random() < 0.35:
                continue
            if ct in (CMD, OFFER) and p.startswith(b"C:/") and not p.startswith(b"C:" + sb.encode()):
                continue       # never write outside the sandbox
            pl, ex = payload_for(ct, cp, p)
            home = rng.choice(HOMES)
            if home == "none" and (b".." in p):
                continue
            ops = [M(ct, cp, rng.choice([0, 1]), pl, extra=ex)]
            if ct == FTR:
                ops += [M(FHDR, 0, 10), ("chunk",), ("chunk",), ("chunk",)]
            if ct == OFFER:
                ops += [M(FPKT, 0, 0, b"some file content"), M(EOFT)]
            ops.append(("gone",))
            add("paths", dict(permit=1, cb=rng.choice(["none", "none", "1"]), home=home), ops)
    # path length limits (MAX_PATH): with C: prefix, and HOME-prefixed
    lens = [250, 255, 256, 257, 258, 259, 260, 261, 262, 300, 520, 4000]
    for ln in lens:
        for style in ("drive", "home", "nohome"):
            for (ct, cp) in [(DCR, 1), (FTR, 0), (OFFER, 0), (CMD, 1), (CMD, 4), (CMD, 5)]:
                if quick and rng.random() < (0.6 if ln not in (258, 259, 260, 261) else (0.0 if (ct, cp) in ((CMD, 1), (FTR, 0)) else 0.5)):
                    continue
                a100 = b"a" * 100 + b"/" + b"b" * 100 + b"/"
                if style == "drive":
                    base = b"C:" + sb.encode() + b"/" + a100
                    p = (base + b"x" * 5000)[:ln]
                    home = "sb"
                elif style == "home":
                    tot = ln - len(sb) - 1          # strlen(path)+strlen(home)+1 == ln
                    if tot < 1:
                        continue
                    p = (a100 + b"y" * 5000)[:tot]
                    home = "sb"
                else:
                    p = (a100 + b"z" * 5000)[:ln]
                    home = "none"
                pl, ex = payload_for(ct, cp, p)
                add("maxpath", dict(permit=1, cb="none", home=home), [M(ct, cp, 0, pl, extra=ex), ("gone",)])
    # C'. every fixed-size buffer exactly at and beyond its limit (always part of the quick tier)
    import zlib as _z
    for tl in (258, 259, 260, 261, 1000):          # szFileTime[260]: the text after the last ','
        add("bounds", dict(permit=1, cb="none", home="sb"), [M(OFFER, 0, 3, b"out/t.bin," + b"9" * tl, extra=b"\0\0\0\0"), M(FPKT, 0, 0, b"abc"), M(EOFT), ("gone",)])
    for n in (8191, 8192, 8193, 20000):            # sz_rfbBlockSize: raw packets and packets that inflate to n bytes (compBuff[8192])
        raw = bytes((i * 31 + 7) & 255 for i in range(n))
        add("bounds", dict(permit=1, cb="none", home="sb"), [M(OFFER, 0, n, b"out/p.bin,x", extra=b"\0\0\0\0"), M(FPKT, 0, 0, raw), M(FPKT, 0, 1, _z.compress(b"A" * n)), M(EOFT), ("gone",)])
    for f in (b"exact.bin", b"exact1.bin", b"big.txt"):      # files of 8192, 8193, 16484 bytes through the 8192-byte chunk reader
        for comp in (0, 1):
            add("bounds", dict(permit=1, cb="none", home="sb"), [M(FTR, 0, comp, f), M(FHDR, 0, 1), ("chunk",), ("chunk",), ("chunk",), ("chunk",), ("gone",)])
    add("bounds", dict(permit=1, cb="none", home="sb"), [M(DCR, 1, 0, b"longnames"), ("gone",)])          # entry name of 255 characters (cFileName[260], retfilename[520])
    for ln in (258, 259, 260):                     # directory path at MAX_PATH with long entry names
        p = (b"C:" + sb.encode() + b"/longnames" + b"/." * 200)[:ln]
        add("bounds", dict(permit=1, cb="none", home="sb"), [M(DCR, 1, 0, p), ("gone",)])
    # D. transfer sequences
    for _ in range(60 * mult):
        ops = []
        comp = rng.choice([0, 1])
        f = rng.choice([b"big.txt", b"dir1/b.bin", b"dir1/a.txt", b"exact.bin", b"empty.txt", b"dir1", b"nonexistent"])
        seq = rng.choice(["download", "download", "upload", "upload", "mixed", "double"])
        if seq in ("download", "mixed", "double"):
            ops.append(M(FTR, 0, comp, f))
            if seq == "double":
                ops.append(M(FTR, 0, comp, rng.choice([b"file.txt", b"nonexistent"])))
            ops.append(M(FHDR, 0, rng.choice([100, 0, 0xffffffff, 1])))
            for _ in range(rng.randint(0, 5)):
                ops.append(("chunk",))
            if rng.random() < 0.3:
                ops.append(M(ABRT, rng.choice([0, 1])))
        if seq in ("upload", "mixed"):
            name = rng.choice([b"out/up.bin", b"out/up,2.bin", b"out", b"nonexistent/up.bin", b"file.txt"])
            ops.append(M(OFFER, 0, 100, name + rng.choice([b",01/02/2020 03:04", b"", b",,", b","]), extra=rng.choice([b"\0\0\0\0", b"\0\0\0\x07"])))
            for _ in range(rng.randint(0, 4)):
                data = bytes(rng.randrange(256) for _ in range(rng.randint(1, 300)))
                kind = rng.random()
                if kind < 0.5:
                    ops.append(M(FPKT, 0, 0, data))
                elif kind < 0.8:
                    ops.append(M(FPKT, 0, 1, __import__("zlib").compress(data)))
                else:
                    ops.append(M(FPKT, 0, 1, data))          # not a zlib stream
            ops.append(M(rng.choice([EOFT, ABRT, FHDR]), 0, rng.choice([0, 0xffffffff])))
        if rng.random() < 0.4:
            ops.append(M(FPKT, 0, 0, b"stray packet"))
        ops.append(("chunk",))
        ops.append(("gone",))
        add("sequence", dict(permit=1, cb=rng.choice(["none", "none", "1", "1111111111110"]), home="sb"), ops)
    # E. malformed lengths / truncated messages
    for (ct, cp) in [(DCR, 1), (FTR, 0), (OFFER, 0), (FPKT, 0), (CMD, 1), (CMD, 4), (CMD, 5)]:
        for (length, payload, eof) in [(0, b"", False), (0x7fffffff, b"abc", True), (0x80000000, b"abc", True), (0xffffffff, b"", True),
                                       (100, b"short", True), (5, b"dir1/", False), (4, b"dir1zzzz", False), (100000, b"x" * 1000, True)]:
            if quick and rng.random() < 0.3:
                continue
            ex = b"\0\0\0\0" if ct == OFFER and not eof else b""
            add("lengths", dict(permit=1, cb="none", home="sb"), [M(ct, cp, 0, payload, length=length, extra=ex, eof=eof), M(DCR, 2), ("gone",)])
    add("lengths", dict(permit=1, cb="none", home="sb"), [("msg", b"\x07\x01\x01", True), ("gone",)])
    add("lengths", dict(permit=1, cb="none", home="sb"), [M(OFFER, 0, 1, b"out/t.txt,x", extra=b"\0\0", eof=True), ("gone",)])
    # F. random mixtures
    for _ in range(150 * mult):
        ops = []
        for _ in range(rng.randint(1, 6)):
            r = rng.random()
            if r < 0.75:
                ct, cp = rng.choice(TYPES)
                pl, ex = payload_for(ct, cp, rng.choice(rel_paths + abs_paths[:3]))
                ops.append(M(ct, cp, rng.choice([0, 1, 7, 0xffffffff]), pl, extra=ex))
            elif r < 0.95:
                ops.append(("chunk",))
            else:
                ops.append(("gone",))
                break
        if ops[-1] != ("gone",):
            ops.append(("gone",))
        add("mixed", dict(permit=rng.choice([1, 1, 1, 0]), cb=rng.choice(["none", "none", "1", "10", "110", "1111110", "0"]), home="sb"), ops)
    # G. TightVNC 1.3 extension: gate x message types x path shapes; message sequences (stored upload name)
    PM = 4096
    tpaths = [b"/dir1", b"/", b"/dir1/sub", b"/nonexistent", b"/../out", b"/dir1/../../out", b"/..", b"/../../..", b"dir1", b"/dir1/./sub/..",
              b"/" + b"a" * 100, b"/" + b"q" * (PM - 2), b"/" + b"q" * (PM - 1), b"/" + b"q" * PM, b"/" + b"q" * 5000, b"/a\x00/../x", b"/...", b"/.. /x"]
    for (en, vo) in [(1, 0), (1, 0), (0, 0), (1, 1), (0, 1)]:
        for p in tpaths:
            for what in ("list", "mkdir", "download", "upload"):
                if quick and rng.random() < (0.55 if len(p) < 3000 else 0.0):
                    continue
                if what in ("mkdir", "upload"):
                    p2 = p.rstrip(b"/") + b"/made" if len(p) < 200 else p
                else:
                    p2 = p
                add("tight", dict(permit=0, cb="none", home="sb"), [("tight", en, vo, rng.choice(["/dir1", "", "/dir1/sub"]), [(what, p2)])])
    outside = b"/.." + sb.encode() + b"/file.txt"
    seqs = [
        [("upload", b"/up.bin"), ("uploaddata", b"hello"), ("uploaddone", b"")],
        [("upload", b"/up.bin"), ("uploaddata", b"hello"), ("uploadfail", b"oops")],
        [("upload", b"/up.bin"), ("uploaddatac", b"zz"), ("list", b"/")],
        [("upload", b"/up.bin"), ("upload", outside), ("uploadfail", b"oops")],          # stale name: unlink
        [("upload", outside), ("uploaddone", b"")],                                         # stale name: utime
        [("upload", b"/up.bin"), ("upload", b"no-slash"), ("uploaddatac", b"x")],
        [("upload", b"/nonexistent/up.bin"), ("uploadfail", b"r"), ("uploaddone", b"")],
        [("uploaddone", b""), ("uploadfail", b"x"), ("dlcancel", b"why")],
        [("download", b"/a.txt"), ("dlcancel", b"stop"), ("download", b"/sub"), ("download", b"/../file.txt")],
        [("list", b"/"), ("mkdir", b"/d1"), ("mkdir", b"/d1/d2"), ("list", b"/d1"), ("upload", b"/d1/f"), ("uploaddone", b"")],
        [("upload", b"/up.bin"), ("uploadfail", b""), ("uploadfail", b"now")],
        [("mkdir", b"/" + b"m" * (PM - 2 - 40)), ("mkdir", b"/" + b"m" * (PM - 2)), ("list", b"/")],
        # the close hook (rfbCloseClient -> CloseUndoneFileUpload) and names that do not arrive completely
        [("upload", b"/up.bin"), ("teardown", b"")],
        [("upload", b"/up.bin"), ("uploadtrunc", sb.encode() + b"/file.txt\x00")],
        [("upload", b"/up.bin"), ("uploadtrunc", b"/x")],
        [("uploadtrunc", sb.encode() + b"/file.txt\x00")],
        [("upload", b"/up.bin"), ("uploaddone", b""), ("uploadtrunc", sb.encode() + b"/big.txt\x00")],
        [("upload", b"/up.bin"), ("upload", b"/up2.bin"), ("teardown", b"")],
        # upload data with sizes 0/0 = the end-of-upload marker; these kinds send no modification time: truncated message -> drop
        [("upload", b"/sub/n"), ("uploaddata", b""), ("uploaddone", b"data"), ("list", b"/dir1"), ("uploaddatac", b"")],
        [("upload", b"/up.bin"), ("uploaddatac", b""), ("list", b"/")],
        [("uploaddata", b""), ("upload", b"/up.bin")],
        # a listing whose spelled-out path plus an entry name exceeds fullpath[PATH_MAX]
        [("mkdir", b"/" + b"n" * 250), ("list", b"/" + b"./" * 1920)],
        [("mkdir", b"/" + b"n" * 250), ("list", b"/" + b"./" * 1000), ("list", b"/")],
    ]
    for sq in seqs:
        for (en, vo) in [(1, 0), (1, 0), (0, 0), (1, 1)]:
            if quick and (en, vo) != (1, 0) and rng.random() < 0.5:
                continue
            add("tight-seq", dict(permit=0, cb="none", home="sb"), [("tight", en, vo, rng.choice(["/dir1", "/dir1"]), sq)])
    # ... followed by the end of the connection: does a descriptor of the extension outlive it?
    for sq in seqs:
        if any(k in ("upload", "download") for k, _ in sq):
            add("tight-seq", dict(permit=0, cb="none", home="sb"), [("tight", 1, 0, "/dir1", sq), ("gone",)])
    for _ in range(20 * mult):
        sq = []
        for _ in range(rng.randint(1, 5)):
            k = rng.choice(["list", "mkdir", "download", "upload", "upload", "uploaddata", "uploaddatac", "uploaddone", "uploadfail", "dlcancel"])
            a = rng.choice(tpaths[:11] + [outside, b"/up.bin", b"/sub/n"]) if k in ("list", "mkdir", "download", "upload") else rng.choice([b"", b"x", b"data"])
            sq.append((k, a))
        add("tight-seq", dict(permit=0, cb="none", home="sb"), [("tight", 1, 0, "/dir1", sq)])
    # H. the extension's command-line options in every order x passwd home usable / absent / unusable
    import itertools
    atoms = [[b"-disablefiletransfer"], [b"-ftproot", b"@/dir1"], [b"-ftproot", b"/nonexistent-root"], [b"-ftproot", b"@/file.txt"],
             [b"-foo"], [b"-ftproot", b"@/dir1/sub/"], [b"-ftproot"], [b"-ftproot", b"-disablefiletransfer"]]
    combos = []
    for k in (1, 2, 3):
        for perm in itertools.permutations(range(len(atoms)), k):
            combos.append(perm)
    for perm in combos:
        if atoms[perm[-1]] == [b"-ftproot"] or len(perm) == 1 or True:
            pass
        if quick and len(perm) == 3 and rng.random() < 0.75:
            continue
        args = [x for i in perm for x in atoms[i]]
        for pw in ("ok", "none", "bad"):
            if quick and pw != "bad" and rng.random() < 0.5:
                continue
            en_s, root_s = spec_tight_args(sb.encode(), pw, args)
            # never let the harness write outside the sandbox: without a root inside it only a harmless listing is requested
            msgs = [("mkdir", b"/made_by_client"), ("list", b"/")] if (root_s or b"").startswith(sb.encode()) else [("list", b"/nonexistent-dir-x")]
            add("tight-args", dict(permit=0, cb="none", home="sb"), [("targs", pw, args), ("tight", "keep", 0, "", msgs)])
    return cases


def case_lines(k, case):
    c = case["cfg"]
    L = ["case %d %s" % (k, case["cls"]), "cfg %d %s %s" % (c["permit"], c["cb"], c["home"])]
    for op in case["ops"]:
        if op[0] == "msg":
            L.append("msg %s%s" % (hx(op[1]), " eof" if op[2] else ""))
        elif op[0] == "tight":
            L.append("tight %s %d %s %s" % (op[1], op[2], hx(op[3].encode()), " ".join("%s %s" % (k, hx(a)) for k, a in op[4])))
        elif op[0] == "targs":
            L.append("targs %s %s" % (op[1], " ".join(hx(a) for a in op[2])))
        else:
            L.append(op[0])
    return L


def parse_case_lines(lines):
    hdr = lines[0].split()
    p = lines[1].split()
    cfg = dict(permit=int(p[1]), cb=p[2], home=p[3])
    ops = []
    for l in lines[2:]:
        q = l.split()
        if not q or q[0] == "=":
            continue
        if q[0] == "msg":
            ops.append(("msg", unhx(q[1]) if len(q) > 1 else b"", len(q) > 2 and q[2] == "eof"))
        elif q[0] == "tight":
            rest = [t for t in q[4:] if not t.startswith(("creat:", "ents:"))]
            ops.append(("tight", q[1] if q[1] == "keep" else int(q[1]), int(q[2]), unhx(q[3]).decode("latin-1"), [(rest[i], unhx(rest[i + 1])) for i in range(0, len(rest) - 1, 2)]))
        elif q[0] == "targs":
            ops.append(("targs", q[1], [unhx(a) for a in q[2:]]))
        else:
            ops.append((q[0],))
    return dict(cls=hdr[2] if len(hdr) > 2 else "corpus", cfg=cfg, ops=ops)


# ---------------------------------------------------------------- running (two phases)
def op_blocks(lines):
    """observation lines of a case -> list of blocks, one per cfg/op marker"""
    out, cur = [], None
    for l in lines:
        if l in MARK:
            cur = [l]
            out.append(cur)
        elif cur is not None:
            cur.append(l)
        else:
            out.append([l])
    return out


def run_both(ctx, env, cases):
    scripts = [case_lines(i, c) for i, c in enumerate(cases)]
    script = "\n".join("\n".join(s) for s in scripts) + "\n"
    rc1, cout, cerr = vlib.run_driver([env["cexe"], env["root"]], script, timeout=2400)
    cc = vlib.split_cases(cout)
    # phase 2: the recorded environment answers follow the operation they belong to
    ms = []
    for i, s in enumerate(scripts):
        blocks = op_blocks(cc[i][1]) if i < len(cc) else []
        ms.append(s[0])
        for j, opline in enumerate(s[1:]):
            if opline.startswith("tight ") and j < len(blocks):
                b = blocks[j]
                cr = "".join("1" if y == "= ok" else "0" for x, y in zip(b, b[1:] + [""]) if x.startswith("fs creat "))
                opline += " creat:" + cr
                groups, cur = [], None
                for x, y in zip(b, b[1:] + [""]):
                    if x.startswith("m "):
                        cur = []
                        groups.append(cur)
                    if cur is not None and x == "fs readdir" and y.startswith("= name "):
                        cur.append(y.split()[2] if len(y.split()) > 2 else "")
                opline += " ents:" + ";".join(",".join(g) for g in groups)
            ms.append(opline)
            if j < len(blocks):
                ms += [l for l in blocks[j][1:] if l.startswith("= ")]
    rc2, mout, merr = vlib.run_driver([env["mexe"], env["root"]], "\n".join(ms) + "\n", timeout=2400, unlimited_stack=True)
    return (rc1, cout, cerr), (rc2, mout, merr)


TIGHT_OPS = ("creat", "unlink", "utime", "mkdir", "opendir", "stat", "openr")


def tight_msgs(block):
    """lines of a tight block -> per message list of (op, path-hex), incl. the per-entry stats of a listed directory"""
    out, cur, dirs = [], None, []
    for l in block:
        if l.startswith("m "):
            cur, dirs = [], []
            out.append(cur)
        elif cur is not None and l in ("dead", "skipped"):
            out[-1] = None          # the connection was closed by an earlier message: nothing is handled any more
            cur = None
        elif cur is not None and l.startswith("fs ") and l.split()[1] in TIGHT_OPS and len(l.split()) > 2:
            q = l.split()
            if q[1] == "opendir":
                dirs.append(q[2])
            if q[2] == "-":          # utime("") / unlink("") on an empty stored name: no file is named
                continue
            cur.append((q[1], q[2]))
    return out


def tight_model_msgs(block):
    """model block -> (tree variant, [other variants]) per message"""
    tree, alts = [], []
    ct = None
    cur = {}
    for l in block:
        if l.startswith("m "):
            ct = []
            cur = {}
            tree.append(ct)
            alts.append(cur)
        elif re.match(r"alt\d -$", l):
            cur[l[3]] = []
        elif re.match(r"alt\d fs ", l):
            q = l.split()
            cur.setdefault(l[3], []).append((q[2], q[3]))
        elif l.startswith("fs ") and ct is not None:
            q = l.split()
            ct.append((q[1], q[2]))
    return tree, alts


def split_alt(block):
    """model block -> (trace of the unchanged-tree variant, [traces of the variants with proposed fixes])"""
    tree = [l for l in block if not re.match(r"alt\d ", l)]
    alts = []
    for k in "123456789":
        a = [l[5:] for l in block if l.startswith("alt%s " % k)]
        if a:
            alts.append([block[0]] + a)
    return tree, alts


# ---------------------------------------------------------------- spec oracle (independent of the mirror model)
PATH_OPS = ("openr", "openw", "opendir", "stat", "mkdir", "rmdir", "unlink", "rename", "fopen")


def c_string(b):
    i = b.find(b"\0")
    return b if i < 0 else b[:i]


def spec_translate(home, p):
    """the documented name translation; None = must be rejected"""
    if len(p) >= MAX_PATH:
        return None
    if p[:2] == b"C:":
        u = p[2:]
    elif home is not None:
        if len(p) + len(home) + 1 >= MAX_PATH:
            return None
        u = home + b"/" + p
    else:
        u = p
    return u.replace(b"\\", b"/")


def named_paths(msg):
    """the path(s) a client names in a complete file-transfer message"""
    if len(msg) < 12 or msg[0] != 7:
        return []
    ct, cp = msg[1], msg[2]
    length = struct.unpack(">I", msg[8:12])[0]
    payload = msg[12:12 + length]
    if len(payload) < length or length == 0:
        return []
    s = c_string(payload)
    if (ct == DCR and cp == 1) or ct == FTR or (ct == CMD and cp in (1, 4)):
        return [s]
    if ct == OFFER:
        i = s.rfind(b",")
        return [s[:i] if i >= 0 else s]
    if ct == CMD and cp == 5:
        i = s.rfind(b"*")
        return [s[:i], s[i + 1:]] if i >= 0 else []
    return []


def spec_tight_args(sbpath, pw, args):
    """documented meaning of the extension's options: -disablefiletransfer switches transfer off for good,
    -ftproot DIR (an existing directory) sets the root, default root = the server user's home directory.
    -> (enabled, root or None when no usable root)"""
    def real(a):
        return sbpath + a[1:] if a[:1] == b"@" else a
    enabled, root = True, None
    home = {"ok": sbpath, "none": None, "bad": b"/nonexistent-home-dir", "empty": b""}[pw]
    if home and os.path.isdir(home):
        root = home.rstrip(b"/") if len(home) > 1 else home
    i = 0
    while i < len(args):
        a = real(args[i])
        if a == b"-ftproot" and i + 1 < len(args):
            d = real(args[i + 1])
            if 0 < len(d) <= 4095 and os.path.isdir(d):
                root = d[:-1] if d.endswith(b"/") else d
                i += 2
                continue
        elif a == b"-disablefiletransfer":
            enabled = False
        i += 1
    return enabled, root


class CbTracker:
    """spec-level view of the callback oracle: which answer comes next"""
    def __init__(self, cb):
        self.cb, self.pos = cb, 0

    def peek(self):
        if self.cb == "none":
            return True
        return self.cb[min(self.pos, len(self.cb) - 1)] == "1"

    def consume(self, n):
        if self.cb != "none":
            self.pos = min(self.pos + n, len(self.cb))


def oracle_case(env, case, iblocks):
    """-> list of (op index, message, features)"""
    fails = []
    cfg = case["cfg"]
    home = None if cfg["home"] == "none" else ((env["root"] + "/sb").encode() if cfg["home"] == "sb" else unhx(cfg["home"]))
    cb = CbTracker(cfg["cb"])
    alive = True
    tight_spec = (True, None)
    for j, op in enumerate(case["ops"]):
        blk = iblocks[j + 1] if j + 1 < len(iblocks) else None
        feat = dict(op=op[0], permit=cfg["permit"], cb=("none" if cfg["cb"] == "none" else ("flip" if ("0" in cfg["cb"] and "1" in cfg["cb"]) else cfg["cb"][0])))
        if blk is None:
            break
        crash = [l for l in blk if l.startswith("crash")]
        body = blk[1:]
        if op[0] == "targs":
            sbp = (env["root"] + "/sb").encode()
            en_s, root_s = spec_tight_args(sbp, op[1], op[2])
            tight_spec = (en_s, root_s)
            ti = [l for l in body if l.startswith("tinit ")]
            feat.update(pw=op[1], disabled_given=int(not en_s))
            if crash or not ti:
                fails.append((j, "processing the extension's command-line options: %s" % (crash[0] if crash else "no state reported"), dict(feat, kind="crash")))
                break
            q = ti[0].split()
            got_en = q[1] == "enabled=1"
            got_root = (sbp if q[2] == "root=@" else b"") + unhx(q[3])
            if got_en and not en_s:
                fails.append((j, "-disablefiletransfer was given, yet the TightVNC file transfer is enabled after the command line %r (home directory: %s)" %
                              ([a[:40] for a in op[2]], op[1]), dict(feat, kind="tight-reenabled")))
            elif got_en and root_s is None and got_root == b"":
                fails.append((j, "neither the passwd home directory nor a -ftproot option names a directory, yet the TightVNC file transfer stays "
                                 "enabled with an empty root: requests are served relative to the whole file system (command line %r, home: %s)" %
                              ([a[:40] for a in op[2]], op[1]), dict(feat, kind="tight-unconfined")))
            elif root_s is not None and got_root != root_s:
                fails.append((j, "transfer root is %r, the last valid -ftproot / home directory given is %r" % (got_root[-60:], root_s[-60:]), dict(feat, kind="tight-root")))
            continue
        if op[0] == "tight":
            en, vo, suf, sq = op[1:]
            ftproot = (env["root"] + "/sb" + suf).encode()
            if en == "keep":
                en = int(tight_spec[0])
                # no usable home directory and no valid -ftproot: the extension's root is "" (the whole file system)
                ftproot = tight_spec[1] if tight_spec[1] is not None else b"/"
            pathops = [l.split() for l in body if l.startswith("fs ") and l.split()[1] in PATH_OPS + ("creat", "utime") and len(l.split()) > 2
                       and l.split()[2] != "-"]          # an empty name names no file (the call fails with ENOENT)
            feat.update(enabled=en, viewonly=vo)
            kinds = [k for k, a in sq]
            if crash:
                fails.append((j, "TightVNC extension request crashes the server: %s (messages %r)" % (crash[0], [(k, len(a)) for k, a in sq]),
                              dict(feat, kind="crash", asan=(crash[0].split() + ["?"])[1], listing=int("list" in kinds))))
                break
            if not (en and not vo):
                if pathops or any(l.startswith("tx ") for l in body):
                    fails.append((j, "TightVNC file-transfer request honoured although the extension is %s" %
                                  ("off" if not en else "not allowed for a view-only client"), dict(feat, kind="tight-ungated")))
            else:
                for po in pathops:
                    p = unhx(po[2])
                    real = os.path.realpath(p)
                    base = os.path.realpath(ftproot)
                    if not (real == base or real.startswith(base.rstrip(b"/") + b"/")):
                        fails.append((j, "TightVNC extension: '%s' on %r, outside the transfer root %r (messages %r)" %
                                      (po[1], p, ftproot, [(k, a[:60]) for k, a in sq]),
                                      dict(feat, kind="tight-escape", fsop=po[1], trunc=int("uploadtrunc" in kinds))))
                        break
            continue
        if crash:
            k = "hang-at-teardown" if (op[0] == "gone" and "timeout" in crash[0]) else "crash"
            fails.append((j, "file-transfer handling: implementation %s during '%s'" % (crash[0], op[0]), dict(feat, kind=k)))
            break
        if op[0] == "gone":
            lk = [l for l in body if l.startswith("leak ")]
            if lk and int(lk[0].split()[1]) > 0:
                # which kind of descriptor: a directory stream that was opened and never closed, or the transfer's file
                dirs = 0
                for b in iblocks[1:j + 1]:
                    dirs += sum(1 for x, y in zip(b, b[1:]) if x.startswith("fs opendir ") and y == "= ok") - sum(1 for x in b if x == "fs closedir")
                fails.append((j, "a transfer outlives its connection: %s descriptor(s) opened by file transfer still open after "
                                 "rfbClientConnectionGone%s" % (lk[0].split()[1], " (directory stream of rfbSendDirContent never closed)" if dirs > 0 else ""),
                              dict(feat, kind="fd-leak", dirstream=int(dirs > 0), tight=int(any(o[0] == "tight" for o in case["ops"][:j])))))
            alive = False
            continue
        if body and body[0] == "dead":
            continue
        asks = [l for l in body if l.startswith("ask ")]
        if op[0] == "chunk":
            allowed = bool(cfg["permit"]) and cb.peek()
            cb.consume(len(asks))
            if not allowed and any(l.startswith(("fs ", "tx ")) for l in body):
                fails.append((j, "rfbSendFileTransferChunk reads/sends although transfer is not permitted", dict(feat, kind="ungated-chunk")))
            continue
        msg = op[1]
        is_ft = len(msg) >= 12 and msg[0] == 7
        allowed = bool(cfg["permit"]) and cb.peek()
        cb.consume(len(asks))
        feat.update(ctype=msg[1] if len(msg) > 1 else -1, cparam=msg[2] if len(msg) > 2 else -1)
        evs = [l for l in body if l.startswith(("fs ", "tx ", "ask ", "closeclient"))]
        if is_ft and not allowed:
            if any(l.startswith(("fs ", "tx ")) for l in evs) or "closeclient" not in evs or not any(l.startswith("st ") and l.endswith("sock=0") for l in body):
                what = "; ".join(x for x in [
                    "file-system call(s) / bytes sent: " + " | ".join(e[:60] for e in evs if e.startswith(("fs ", "tx ")))[:240] if any(e.startswith(("fs ", "tx ")) for e in evs) else "",
                    "the connection is not dropped" if "closeclient" not in evs else ""] if x)
                fails.append((j, "file transfer not permitted when the message (type %d/%d) arrives, yet %s" % (msg[1], msg[2], what), dict(feat, kind="ungated")))
                continue
        # nothing after the connection was dropped
        seen_stop = False
        for e in evs:
            if seen_stop and (e.startswith("tx ") or (e.startswith("fs ") and e.split()[1] in PATH_OPS + ("read", "write", "readdir"))):
                fails.append((j, "effect after the connection was refused/closed: %s" % e[:80], dict(feat, kind="effect-after-refusal")))
                break
            if e == "closeclient":      # (a refusing guard is 'ask 0' immediately followed by closeclient; the permission handshake
                seen_stop = True        #  of rfbAbortFileTransfer and the silent re-check of the chunk sender also ask, without closing)
        # every path operated on is the documented translation of a name the client sent
        if is_ft:
            names = named_paths(msg)
            ok_paths = set()
            for nm in names:
                t = spec_translate(home, nm)
                if t is not None:
                    ok_paths.add(t)
            listed = set()
            for idx, l in enumerate(body):
                q = l.split()
                if l.startswith("= name "):
                    for t in list(ok_paths):
                        listed.add(t + b"/" + unhx(q[2]))
                if l.startswith("fs ") and q[1] in PATH_OPS:
                    ps = [unhx(x) for x in q[2:]]
                    for p in ps:
                        if not (p in ok_paths or (q[1] == "stat" and p in listed)):
                            kind = "truncated-or-long-path" if any(len(nm) >= MAX_PATH - 1 or (home and len(nm) + len(home) + 1 >= MAX_PATH - 1) for nm in names) else "untranslated-path"
                            fails.append((j, "'%s' on %r which is not the translation of a name in the request (%r)" % (q[1], p[:300], [n[:80] for n in names]),
                                          dict(feat, kind=kind, fsop=q[1])))
                            break
    return fails


# ---------------------------------------------------------------- the check
def ensure_model(pid):
    src = os.path.join(vlib.VERIF, "build", "ocaml", pid)
    dst = os.path.join(vlib.BUILD, "ocaml", pid)
    if os.path.abspath(src) != os.path.abspath(dst) and os.path.exists(os.path.join(src, "model.ml")):
        os.makedirs(dst, exist_ok=True)
        for f in ("model.ml", "model.mli"):
            shutil.copy(os.path.join(src, f), os.path.join(dst, f))


def setup(ctx):
    cexe = vlib.build_harness("vdrv_ft", ["vdrv_ft.c"], wraps=WRAPS)
    proof_ok = vlib.prove(ctx, PROP_FILE, ["Extract/Extract_C19.vo"])
    ensure_model("C19")
    mexe = vlib.build_ocaml("C19", "driver_C19.ml", "Extract/Extract_C19.vo")
    root = os.path.join(ctx.scratch, "root")
    os.makedirs(root, exist_ok=True)
    return dict(cexe=cexe, mexe=mexe, root=root), proof_ok


def compare_case(env, case, il, ml):
    ib, mb = op_blocks(il), op_blocks(ml)
    mism, nalt = None, 0
    for j in range(len(case["ops"])):
        op = case["ops"][j]
        impl = ib[j + 1] if j + 1 < len(ib) else ["<missing>"]
        mod = mb[j + 1] if j + 1 < len(mb) else ["<missing>"]
        crash = [l for l in impl if l.startswith("crash")]
        if op[0] == "targs":
            tr_, al_ = split_alt(mod)
            if impl != tr_ and impl in al_:
                nalt += 1
            elif impl != tr_ and not crash and mism is None:
                d = vlib.first_diff(impl, mod)
                mism = (j, "targs: impl '%s' / model '%s'" % (d[1][:120], d[2][:120]))
            continue
        if op[0] == "tight":
            im = tight_msgs(impl)
            mt, ma = tight_model_msgs(mod)
            for k in range(max(len(im), len(mt))):
                a = im[k] if k < len(im) else []
                if a is None:
                    continue
                t = mt[k] if k < len(mt) else []
                fs_ = list((ma[k] if k < len(ma) else {}).values())
                okt = a == t[:len(a)] and (bool(a) == bool(t) or not a)
                okf = any(a == f[:len(a)] and bool(a) == bool(f) for f in fs_)
                if not a and t and not crash:
                    # the model lists the calls a handler can make; none at all is accepted only for an over-long name
                    okt = any(len(x[1]) > 7000 for x in t)
                if okt:
                    continue
                if okf:
                    nalt += 1
                    continue
                if not crash and mism is None:
                    mism = (j, "tight message %d: implementation %s, model %s" % (k, [(x, y[-24:]) for x, y in a][:3], [(x, y[-24:]) for x, y in t][:3]))
            continue
        tree, alts = split_alt(mod)
        if crash:
            if op[0] == "gone" and "timeout" in crash[0] and "hang" in tree:
                break
            if mism is None:
                mism = (j, "implementation %s, model: %s" % (crash[0], "|".join(tree)[:200]))
            break
        if impl == tree:
            continue
        if impl in alts:
            nalt += 1
            continue
        if mism is None:
            d = vlib.first_diff(impl, tree)
            mism = (j, "op %d (%s) line %d: impl '%s' / model '%s'" % (j, op[0], d[0], d[1][:140], d[2][:140]))
    return mism, nalt


def evaluate(ctx, env, cases):
    (rc1, cout, cerr), (rc2, mout, merr) = run_both(ctx, env, cases)
    cc, mc = vlib.split_cases(cout), vlib.split_cases(mout)
    res = []
    for idx, c in enumerate(cases):
        il = cc[idx][1] if idx < len(cc) else []
        ml = mc[idx][1] if idx < len(mc) else []
        mism, nalt = compare_case(env, c, il, ml)
        res.append((mism, oracle_case(env, c, op_blocks(il)), nalt, il, ml))
    return res, (rc1, cerr, rc2, merr)


def load_corpus():
    cdir = os.path.join(vlib.VERIF, "corpus", "C19")
    out = []
    if os.path.isdir(cdir):
        for fn in sorted(os.listdir(cdir)):
            lines = [l for l in open(os.path.join(cdir, fn)).read().split("\n") if l.strip() and not l.startswith("#")]
            cur = []
            for l in lines + ["case end"]:
                if l.startswith("case "):
                    if len(cur) >= 2:
                        c = parse_case_lines(cur)
                        c["cls"] = "corpus:" + fn
                        out.append(c)
                    cur = [l]
                elif cur:
                    cur.append(l)
    return out


def shrink_case(case, pred):
    ops = list(case["ops"])
    if len(ops) > 1:
        small = vlib.ddmin(ops, lambda sub: pred(dict(case, ops=sub)), max_tests=40)
        return dict(case, ops=small)
    return case


def check(ctx):
    env, proof_ok = setup(ctx)
    cases = load_corpus() + gen_cases(ctx, env["root"])
    res, (rc1, cerr, rc2, merr) = evaluate(ctx, env, cases)
    hist, distinct, nops, nalt_total = {}, set(), 0, 0
    mismatches, oracle_fail = [], []
    for idx, (c, r) in enumerate(zip(cases, res)):
        mism, ofail, nalt, il, ml = r
        cls = c["cls"].split(":")[0]
        hist[cls] = hist.get(cls, 0) + 1
        nops += len(c["ops"])
        nalt_total += nalt
        for b in op_blocks(il)[1:]:
            if any(l.startswith(("fs ", "tx ", "closeclient", "leak", "crash")) for l in b):
                # times and sandbox-dependent values removed
                distinct.add("|".join(re.sub(r"^= (stat|fstat) .*", r"= \1", l) for l in b if not l.startswith("tx 0702010000")))
        if mism:
            mismatches.append((idx, mism))
        for o in ofail:
            oracle_fail.append((idx, o))
    if rc2 != 0:
        mismatches.append((0, (0, "model driver exited with %d: %s" % (rc2, merr[-400:]))))
    ctx.coverage.update(
        evaluations=nops, distinct_nontrivial=len(distinct),
        rule="scripts (configuration incl. a scripted, possibly answer-changing permission callback; file-transfer messages of every "
             "content type, rfbSendFileTransferChunk calls, connection teardown; TightVNC-extension requests) run against rfbserver.c "
             "in a per-case sandbox; trace of callback invocations, file-system/zlib/strftime calls with arguments and results, bytes "
             "sent, rfbCloseClient, transfer state compared line by line with the extracted model fed with the recorded environment "
             "answers. distinct_nontrivial = distinct implementation traces (times stripped) with at least one fs/tx/close event",
        samples=[[l[:200] for l in case_lines(i, cases[i])[:5]] for i in (0, len(cases) // 3, 2 * len(cases) // 3)],
        input_distribution=hist, cases=len(cases), correspondence_mismatches=len(mismatches),
        oracle_failures=len(oracle_fail), matches_only_fixed_variant=nalt_total, exhaustive=False)
    ctx.assumptions += ["file-system semantics (symbolic links, races, permissions) are outside the model: results of calls are oracle answers",
                        "the peer keeps reading (writes to an open socket succeed)", "single-threaded event loop (no background thread)"]

    def fails_oracle(case):
        r, _ = evaluate(ctx, env, [case])
        return bool(r[0][1])

    def fails_corr(case):
        r, _ = evaluate(ctx, env, [case])
        return r[0][0] is not None

    seen, reported = set(), 0
    for idx, (j, msg, feat) in oracle_fail:
        key = json.dumps({k: v for k, v in feat.items() if k in ("kind", "op", "ctype", "cparam", "fsop", "dirstream")}, sort_keys=True)
        if key in seen or reported >= 6:
            continue
        seen.add(key)
        feat = dict(feat, cls=cases[idx]["cls"].split(":")[0])
        if vlib.match_finding(ctx.pid, feat) is not None:
            ctx.violation(msg, feat, "")
            continue
        small = shrink_case(cases[idx], fails_oracle)
        r, (_, ce, _, _) = evaluate(ctx, env, [small])
        if r[0][1]:
            j, msg, feat2 = r[0][1][0]
            feat = dict(feat2, cls=feat["cls"])
        else:
            small = cases[idx]
            r, (_, ce, _, _) = evaluate(ctx, env, [small])
        if ctx.violation("file-transfer property violated on the implementation: " + msg, feat,
                         "script:\n" + "\n".join(case_lines(0, small)) + "\n\nimplementation output:\n" + "\n".join(l[:400] for l in r[0][3]) +
                         "\n" + ce[-2500:] + "\nmodel output:\n" + "\n".join(l[:400] for l in r[0][4])):
            reported += 1
    if mismatches and not ctx.violations:
        idx, (j, d) = mismatches[0]
        small = shrink_case(cases[idx], fails_corr)
        r, (_, ce, _, me) = evaluate(ctx, env, [small])
        ctx.violation("correspondence Session/FileXferDefs.v <-> rfbserver.c file transfer no longer holds (%d cases differ, first: %s); the "
                      "spec oracle held on every implementation trace explored" % (len(mismatches), d[:200]), {"kind": "correspondence"},
                      "correspondence: Session/FileXferDefs.v (handle_message/process/send_chunk/connection_gone) vs rfbserver.c\n"
                      "script:\n" + "\n".join(case_lines(0, small)) + "\n\nimplementation output:\n" + "\n".join(l[:400] for l in r[0][3]) + "\n" + ce[-1500:] +
                      "\nmodel output:\n" + "\n".join(l[:400] for l in r[0][4]) + "\n" + me[-500:], no_input=True)
    if not proof_ok and not ctx.violations:
        vlib.report_proof_failure(ctx, "Correspondence and the spec oracle were run on %d operations without exhibiting a failing input." % nops)


def replay(ctx, path):
    txt = open(path).read()
    if "script:\n" not in txt:
        print("replay names a theorem/correspondence, re-running the full check")
        return check(ctx)
    body = txt.split("script:\n", 1)[1].split("\n\n", 1)[0]
    lines = [l for l in body.split("\n") if l.strip()]
    env, proof_ok = setup(ctx)
    case = parse_case_lines(lines)
    r, (_, ce, _, me) = evaluate(ctx, env, [case])
    mism, ofail, nalt, il, ml = r[0]
    print("implementation:\n" + "\n".join(l[:300] for l in il) + "\n" + ce[-1500:] + "\nmodel:\n" + "\n".join(l[:300] for l in ml))
    ctx.coverage.update(evaluations=len(case["ops"]), distinct_nontrivial=0, rule="replay", samples=[[l[:200] for l in lines]])
    if ofail:
        j, msg, feat = ofail[0]
        ctx.violation("file-transfer property violated on the implementation: " + msg, dict(feat, cls=case["cls"].split(":")[0]),
                      "script:\n" + "\n".join(lines) + "\n\nimplementation output:\n" + "\n".join(l[:400] for l in il) + "\n" + ce[-2500:])
    elif mism:
        ctx.violation("correspondence differs on the replayed script: " + mism[1], {"kind": "correspondence"},
                      "script:\n" + "\n".join(lines) + "\n\n" + "\n".join(l[:400] for l in il) + "\n\n" + "\n".join(l[:400] for l in ml), no_input=True)
