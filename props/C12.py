"""C12 - Every connection is torn down exactly once and releases all it acquired.

Proof: coq/Props/Properties_C12.v (theorems over the mirror model Session/LifecycleModel.v, for all
operation sequences: connects, partial handshakes, messages, injected I/O faults, application
decisions, shutdowns).  Tie: (a) message sizes / type numbers / buffer sizes are re-translated from
/repo on every run (Gen/Consts_C12.v); (b) correspondence: the extracted model and the real
library (harness/vdrv_life.c: socketpair sessions, link-time wraps of read/write/recv/select/close/
open/pthread_mutex_*) run the same lifecycle scripts - among them a fault (EOF / ECONNRESET /
EAGAIN-until-timeout) injected at EVERY I/O call index of several reference sessions - and every
observable is compared after every operation.  Independently of the mirror model the property
predicate itself (exactly one gone hook and one close per connection, nothing left after
cleanup, LeakSanitizer silent, no deadlock, other connections undisturbed) is evaluated on the
implementation's own output.
"""
import os, re, sys, json
from concurrent.futures import ThreadPoolExecutor
import vlib

PROP_FILE = "Props/Properties_C12.v"
WRAPS = ("read", "write", "recv", "select", "close", "open", "free", "accept", "fcntl", "fcntl64",
         "pthread_mutex_lock", "pthread_mutex_unlock", "pthread_mutex_destroy")
ASAN_ENV = {"ASAN_OPTIONS": "detect_leaks=1:abort_on_error=0:allocator_may_return_null=1:print_suppressions=0"}
EXISTING = b"C:/proc/self/exe"
MISSING = b"C:/nonexistent/c12"


# ---------------------------------------------------------------- message builders (peer -> server)
def hx(b):
    return bytes(b).hex()

def be16(v):
    return bytes([(v >> 8) & 255, v & 255])

def be32(v):
    v &= 0xFFFFFFFF
    return bytes([(v >> 24) & 255, (v >> 16) & 255, (v >> 8) & 255, v & 255])

def m_version(minor=8, major=3):
    return b"RFB %03d.%03d\n" % (major, minor)

def m_setenc(encs):
    return bytes([2, 0]) + be16(len(encs)) + b"".join(be32(e) for e in encs)

def m_fur(incr, w, h):
    return bytes([3, incr]) + be16(0) + be16(0) + be16(w) + be16(h)

def m_key(sym):
    return bytes([4, 1, 0, 0]) + be32(sym)

def m_ptr(mask, x, y):
    return bytes([5, mask]) + be16(x) + be16(y)

def m_cut(txt):
    return bytes([6, 0, 0, 0]) + be32(len(txt)) + txt

def m_xvp(ver, code):
    return bytes([250, 0, ver, code])

def m_ft(ct, cp, size, payload=b"", length=None):
    return bytes([7, ct, cp, 0]) + be32(size) + be32(len(payload) if length is None else length) + payload

ENC_RAW, ENC_COPY, ENC_ZLIB, ENC_XVP = 0, 1, 6, 0xFFFFFECB
KEY_CLOSE = 0xC105E


def handshake(k, minor=8, auth=0, shared=1, authresp=1):
    """ops taking connection k from RFB_PROTOCOL_VERSION to RFB_NORMAL (or to its refusal)"""
    L = ["in %d %s" % (k, hx(m_version(minor))), "pe"]
    if minor >= 7:
        L += ["in %d %s" % (k, hx([2 if auth else 1])), "pe"]
    if auth:
        L += ["in %d %s" % (k, hx([authresp] + [0] * 15)), "pe"]
        if authresp != 1:
            return L
    if minor != 889:
        L += ["in %d %s" % (k, hx([shared])), "pe"]
    return L


def cfg(w=8, h=8, auth=0, always=0, never=0, dontdisc=0, xvp=0, ft=0):
    return "config %d %d %d %d %d %d %d %d" % (w, h, auth, always, never, dontdisc, xvp, ft)


def m_scale(f, palm=False):
    return bytes([15 if palm else 8, f, 0, 0])


# reference sessions in which connection 0 is a witness: nothing another connection does may change its stream
WITNESS_REFS = ("shared", "auth", "big", "filetransfer", "truncated", "scaled", "listen", "nonblock", "inetd")


# ---------------------------------------------------------------- transport sessions (oracle only)
# Connections that reach rfbNewClient by another route than accept()/the listening socket, or that speak
# another transport: the httpd proxy hand-over (CONNECT / GET /proxied.connection), WebSocket upgrades that
# succeed, fail or die half-way, a descriptor whose rfbSetNonBlocking fails, an inetd connection.  These are
# OUTSIDE the Coq model: only the specification oracle (exactly one close per descriptor, hooks paired,
# everything freed - LeakSanitizer -, refcounts = users, nothing of the application closed) judges them,
# on the reference run and with a fault (EOF / ECONNRESET / EAGAIN) injected at every I/O call.
def ws_frame(payload):
    """client-to-server binary frame, mask key 0"""
    assert len(payload) < 126
    return bytes([0x82, 0x80 | len(payload), 0, 0, 0, 0]) + payload


WS_OK = (b"GET /websockify/some/path HTTP/1.1\r\nHost: server.example\r\nUpgrade: websocket\r\nConnection: Upgrade\r\n"
         b"Sec-WebSocket-Key: dGhlIHNhbXBsZSBub25jZQ==\r\nOrigin: http://example\r\nSec-WebSocket-Protocol: binary\r\n"
         b"Sec-WebSocket-Version: 13\r\n\r\n")
WS_NOVERSION = b"GET /a/rather/long/path/" + b"x" * 200 + b" HTTP/1.1\r\nHost: a\r\nOrigin: b\r\n\r\n"
WS_NOKEY = b"GET /p HTTP/1.1\r\nHost: a\r\nOrigin: b\r\nSec-WebSocket-Version: 13\r\n\r\n"
WS_NOHOST = b"GET /path/without/host HTTP/1.1\r\nSec-WebSocket-Key: dGhlIHNhbXBsZSBub25jZQ==\r\nSec-WebSocket-Version: 13\r\n\r\n"
WS_PARTIAL = b"GET /half/way HTTP/1.1\r\nHost: a\r\nSec-WebSocket-Ver"
PROXY_CONNECT = b"CONNECT localhost:5900 HTTP/1.0\r\n\r\n"
PROXY_GET = b"GET /proxied.connection HTTP/1.0\r\n\r\n"


def tcfg(http=0, **kw):
    return cfg(**kw) + " %d" % http


def transport_sessions():
    T = {}
    w = h = 8
    ver = m_version(8)
    def rfb_tail(k, wrap=lambda b: b):
        return ["in %d %s" % (k, hx(wrap(bytes([1])))), "pe", "in %d %s" % (k, hx(wrap(bytes([1])))), "pe",
                "in %d %s" % (k, hx(wrap(m_fur(0, w, h)))), "pe", "mark", "in %d %s" % (k, hx(wrap(m_fur(1, w, h)))), "pe"]
    # httpd proxy hand-over: accepted / refused by newClientHook / on hold then refused, peer gone, next to a plain client
    for name, req in (("connect", PROXY_CONNECT), ("get", PROXY_GET)):
        T["proxy_%s_accept" % name] = [tcfg(1), "accept a"] + handshake(0) + ["haccept a " + hx(req + ver), "pe", "pe"] + rfb_tail(1) + [
            "peerclose 1", "pe", "in 0 " + hx(m_fur(0, w, h)), "pe", "shutdown", "end"]
        T["proxy_%s_refuse" % name] = [tcfg(1), "accept a"] + handshake(0) + ["haccept r " + hx(req + ver), "pe", "pe", "pe",
            "accept a", "in 0 " + hx(m_fur(0, w, h)), "pe", "shutdown", "end"]
        T["proxy_%s_hold" % name] = [tcfg(1), "haccept h " + hx(req + ver), "pe", "pe", "accept a", "refuse 0", "pe",
            "haccept h " + hx(req + ver), "pe", "pe", "start 2"] + ["in 2 " + hx(bytes([1])), "pe", "appclose 2", "pe", "shutdown", "end"]
    T["proxy_peer_gone"] = [tcfg(1), "haccept a " + hx(PROXY_CONNECT), "pe", "peerclose 0", "pe", "pe", "shutdown", "end"]
    T["proxy_closed_at_accept"] = [tcfg(1), "haccept a closed", "pe", "pe", "pe", "shutdown", "end"]
    T["proxy_bad_port"] = [tcfg(1), "haccept a " + hx(b"CONNECT localhost:1 HTTP/1.0\r\n\r\n"), "pe", "pe", "pe", "shutdown", "end"]
    T["http_file"] = [tcfg(1), "accept a", "haccept a " + hx(b"GET /index.vnc HTTP/1.0\r\n\r\n"), "pe", "pe", "pe", "shutdown", "end"]
    T["http_replaced"] = [tcfg(1), "haccept a " + hx(b"GET /inde"), "pe", "pe", "haccept r " + hx(PROXY_CONNECT + ver), "pe", "pe", "pe", "shutdown", "end"]
    T["http_pending_at_shutdown"] = [tcfg(1), "accept a", "haccept a " + hx(b"CONNECT localhost:59"), "pe", "pe", "shutdown", "end"]
    T["proxy_auth"] = [tcfg(1, auth=1), "haccept a " + hx(PROXY_GET + ver), "pe", "pe", "in 0 " + hx(bytes([2])), "pe",
                       "in 0 " + hx(bytes([0] * 16)), "pe", "pe", "shutdown", "end"]
    # WebSocket transport: upgrade succeeds (then RFB inside frames), is rejected after the GET line, dies half-way
    for name, via in (("accept", "accept"), ("listen", "laccept")):
        pe = ["pe"] if via == "laccept" else []
        T["ws_ok_%s" % name] = [tcfg(0), "%s a %s" % (via, hx(WS_OK))] + pe + ["in 0 " + hx(ws_frame(ver)), "pe"] + rfb_tail(0, ws_frame) + [
            "accept a", "peerclose 0", "pe", "pe", "shutdown", "end"]
        T["ws_noversion_%s" % name] = [tcfg(0), "accept a", "%s a %s" % (via, hx(WS_NOVERSION))] + pe + ["pe", "shutdown", "end"]
        T["ws_nokey_%s" % name] = [tcfg(0), "%s a %s" % (via, hx(WS_NOKEY))] + pe + ["pe", "accept a", "shutdown", "end"]
    T["ws_nohost"] = [tcfg(0), "accept a " + hx(WS_NOHOST), "pe", "shutdown", "end"]
    T["ws_partial"] = [tcfg(0), "accept a " + hx(WS_PARTIAL), "pe", "shutdown", "end"]
    T["ws_partial_listen_gone"] = [tcfg(0), "laccept a " + hx(WS_PARTIAL), "pe", "pe", "shutdown", "end"]
    T["ws_refused"] = [tcfg(0), "accept r " + hx(WS_OK), "pe", "accept h " + hx(WS_OK), "refuse 1", "pe", "shutdown", "end"]
    T["ws_appclose"] = [tcfg(0), "accept a " + hx(WS_OK), "in 0 " + hx(ws_frame(ver)), "pe", "appclose 0", "pe", "shutdown", "end"]
    T["ws_open_at_shutdown"] = [tcfg(0), "accept a " + hx(WS_OK), "in 0 " + hx(ws_frame(ver)), "pe", "shutdown", "end"]
    T["ws_over_proxy"] = [tcfg(1), "haccept a " + hx(PROXY_CONNECT + WS_NOVERSION), "pe", "pe", "pe", "shutdown", "end"]
    # rfbSetNonBlocking fails on the new descriptor (direct, listening socket, proxy)
    T["nonblock_accept"] = [tcfg(0), "accept a"] + handshake(0) + ["setflfail 1", "accept a", "pe", "in 0 " + hx(m_fur(0, w, h)), "pe", "shutdown", "end"]
    T["nonblock_listen"] = [tcfg(0), "setflfail 0", "laccept a " + hx(ver), "pe", "pe", "accept a", "shutdown", "end"]
    # (the inetd route and the rfbSetNonBlocking failure are modelled now: reference sessions inetd*, nonblock)
    return T


def impl_io_count(cexe, ops):
    (co,), _, _ = run_chunks(cexe, [["case 0 tref"] + ops], env=ASAN_ENV, workers=1)
    n = 0
    for l in co[1]:
        m = re.search(r" io=(\d+)", l)
        if m:
            n = max(n, int(m.group(1)))
    return n


def is_oracle_only(c):
    return len(c[0].split()) > 2 and c[0].split()[2].startswith("t")


# ---------------------------------------------------------------- reference sessions (fault sweep)
def ref_sessions():
    R = {}
    w = h = 8
    # 1. two shared clients, raw witness + zlib subject, every message kind, hold/refuse, shutdown
    L = [cfg(w, h, xvp=1, ft=1), "accept a"] + handshake(0) + [
        "in 0 " + hx(m_setenc([ENC_RAW])), "pe", "in 0 " + hx(m_fur(0, w, h)), "pe",
        "accept a"] + handshake(1) + [
        "in 1 " + hx(m_setenc([ENC_ZLIB, ENC_COPY, ENC_XVP])), "pe",
        "in 1 " + hx(m_fur(0, w, h)), "pe",
        "in 1 " + hx(m_key(0x61)), "pe", "in 1 " + hx(m_ptr(1, 3, 3)), "pe", "in 1 " + hx(m_ptr(0, 3, 3)), "pe",
        "in 1 " + hx(m_cut(b"hi")), "pe",
        "in 1 " + hx(m_xvp(1, 2)), "pe", "in 1 " + hx(m_xvp(1, 3)), "pe", "in 1 " + hx(m_xvp(2, 0)), "pe",
        "in 1 " + hx(m_ft(3, 0, 0, MISSING)), "pe",
        "mark", "in 0 " + hx(m_fur(1, w, h)), "in 1 " + hx(m_fur(1, w, h)), "pe",
        "bell", "cuttext",
        "accept h", "start 2"] + handshake(2, minor=3) + ["accept r", "accept h", "refuse 4",
        "in 2 " + hx(m_fur(0, w, h)), "pe",
        "peerclose 1", "pe", "mark", "in 0 " + hx(m_fur(1, w, h)), "pe", "pe", "shutdown", "cleanup", "end"]
    R["shared"] = L
    # 2. authentication: success (3.8), failure (3.8: reason string), failure (3.7), success 3.3
    L = [cfg(w, h, auth=1), "accept a"] + handshake(0, auth=1) + ["in 0 " + hx(m_fur(0, w, h)), "pe",
        "accept a"] + handshake(1, auth=1, authresp=0) + ["accept a"] + handshake(2, minor=7, auth=1, authresp=0) + [
        "accept a"] + handshake(3, minor=3, auth=1) + ["in 3 " + hx(m_fur(0, w, h)), "pe",
        "accept a"] + handshake(4, minor=7, auth=1) + ["bell", "pe", "end"]
    R["auth"] = L
    # 3. non-shared replacement, -dontdisconnect refusal, Mac client (3.889), 3.7
    L = [cfg(w, h), "accept a"] + handshake(0, shared=1) + ["accept a"] + handshake(1, minor=7, shared=1) + [
        "accept a", "in 2 " + hx(m_version(8)), "pe",                       # parked mid-handshake
        "accept a"] + handshake(3, shared=0) + ["pe", "accept a"] + handshake(4, minor=889) + [
        "in 4 " + hx(m_fur(0, w, h)), "pe", "in 2 01", "pe", "in 2 01", "pe", "cleanup", "end"]
    R["exclusive"] = L
    L = [cfg(w, h, dontdisc=1), "accept a"] + handshake(0, shared=1) + ["accept a"] + handshake(1, shared=0) + [
        "pe", "accept a"] + handshake(2, shared=1) + ["in 0 " + hx(m_fur(0, w, h)), "pe", "shutdown", "end"]
    R["dontdisc"] = L
    L = [cfg(w, h, never=1), "accept a"] + handshake(0, shared=1) + ["accept a"] + handshake(1, shared=1) + [
        "pe", "bell", "end"]
    R["never"] = L
    # 4. larger screen: a Raw update needs several flushes
    L = [cfg(100, 100), "accept a"] + handshake(0) + ["in 0 " + hx(m_fur(0, 100, 100)), "pe",
        "accept a"] + handshake(1) + ["in 1 " + hx(m_setenc([ENC_COPY, ENC_RAW])), "pe", "in 1 " + hx(m_fur(0, 100, 100)), "pe",
        "mark", "in 0 " + hx(m_fur(1, 100, 100)), "pe", "peerclose 0", "pe", "end"]
    R["big"] = L
    # 5. file transfer request of an existing file, end of file, abort, second client untouched
    L = [cfg(w, h, ft=1), "accept a"] + handshake(0) + ["in 0 " + hx(m_fur(0, w, h)), "pe",
        "accept a"] + handshake(1) + [
        "in 1 " + hx(m_ft(3, 0, 0, EXISTING)), "pe", "in 1 " + hx(m_ft(6, 0, 0)), "pe",
        "in 1 " + hx(m_ft(7, 0, 0)), "pe", "in 1 " + hx(m_ft(7, 1, 0)), "pe",
        "in 1 " + hx(m_ft(3, 0, 1, EXISTING)), "pe", "in 1 " + hx(m_ft(4, 0, 0xFFFFFFFF)), "pe",
        "in 1 " + hx(m_ft(4, 0, 0xFFFFFFFF)), "pe", "bell", "pe", "end"]
    R["filetransfer"] = L
    # 6. truncated messages: every wait for the rest of a message times out
    L = [cfg(w, h), "accept a"] + handshake(0) + ["accept a"] + handshake(1) + [
        "in 1 " + hx(m_setenc([ENC_RAW, ENC_ZLIB])[:9]), "pe",
        "accept a", "in 2 " + hx(m_version(8)[:5]), "pe",
        "accept a"] + handshake(3) + ["in 3 " + hx(m_cut(b"hello")[:10]), "pe",
        "accept a"] + handshake(4) + ["in 4 " + hx(m_key(KEY_CLOSE)), "pe",
        "accept a"] + handshake(5) + ["in 5 " + hx(m_ptr(0x55, 7, 7)), "pe",
        "accept a"] + handshake(6) + ["in 6 " + hx(m_cut(b"Xx")), "pe",
        "accept a"] + handshake(7) + ["in 7 " + hx([99]), "pe", "in 0 01", "pe", "in 0 " + hx(m_fur(0, w, h)), "pe",
        "accept a 58595a5a21", "accept a closed", "accept a 52464220", "end"]
    R["truncated"] = L
    # 7. scaled clients: both message variants, equal / different factors, scale 1, impossible factor,
    #    teardown by peer close, write failure, application close, refusal, shutdown
    fs = lambda k, d: "in %d %s" % (k, hx(m_fur(0, d, d)))
    L = [cfg(w, h), "accept a"] + handshake(0) + ["in 0 " + hx(m_fur(0, w, h)), "pe",
        "accept a"] + handshake(1) + ["in 1 " + hx(m_scale(2)), "pe", fs(1, 4), "pe",
        "accept a"] + handshake(2) + ["in 2 " + hx(m_scale(2, palm=True)), "pe", "in 2 " + hx(m_setenc([ENC_ZLIB])), "pe", fs(2, 4), "pe",
        "accept a"] + handshake(3) + ["in 3 " + hx(m_scale(4)), "pe", fs(3, 2), "pe", "in 3 " + hx(m_scale(2)), "pe",
        "accept a"] + handshake(4) + ["in 4 " + hx(m_scale(9)), "pe", "in 4 " + hx(m_scale(1)), "pe", "in 4 " + hx(m_scale(8)), "pe", fs(4, 1), "pe",
        "mark", fs(1, 4), fs(3, 4), "pe", "bell",
        "peerclose 1", "pe", "appclose 2", "pe", "in 3 " + hx(m_scale(0)), "pe", "mark", "in 0 " + hx(m_fur(1, w, h)), "pe",
        "accept a"] + handshake(5) + ["in 5 " + hx(m_scale(4)), "pe", "shutdown", "cleanup", "end"]
    R["scaled"] = L
    # 8. connections arriving through the listening socket: accepted, held, refused, peer already
    #    gone, garbage instead of a protocol version; several waiting at once
    L = [cfg(w, h), "laccept a", "pe"] + handshake(0) + ["in 0 " + hx(m_fur(0, w, h)), "pe",
        "laccept r", "pe", "laccept h", "laccept a closed", "laccept a 58595a5a21", "pe", "pe", "pe", "start 2"] + handshake(2) + [
        "laccept r", "laccept a", "in 0 " + hx(m_fur(1, w, h)), "mark", "pe", "pe"] + handshake(6) + [
        "in 6 " + hx(m_scale(2)), "pe", "laccept r", "bell", "pe", "peerclose 6", "pe", "laccept a", "shutdown", "laccept a", "pe", "cleanup", "end"]
    R["listen"] = L
    # 9. rfbSetNonBlocking fails on the new descriptor: direct rfbNewClient, first and second call site on the
    #    listening-socket path; next to a witness and a scaled client; descriptor numbers are re-used by later accepts
    L = [cfg(w, h), "accept a"] + handshake(0) + ["in 0 " + hx(m_fur(0, w, h)), "pe", "accept n", "accept a"] + handshake(2) + [
        "in 2 " + hx(m_scale(2)), "pe", "laccept n", "pe", "laccept m " + hx(m_version(8)), "laccept a", "pe", "pe"] + handshake(5) + [
        "accept m closed", "mark", "in 0 " + hx(m_fur(1, w, h)), "pe", "peerclose 2", "pe", "laccept n", "shutdown", "pe", "cleanup", "end"]
    R["nonblock"] = L
    # 10. started by inetd: the one descriptor handed over at the first rfbCheckFds (its bytes served in the same
    #     call), further clients through rfbNewClient, peer close / shutdown with it open; 11.-13. refused by the hook,
    #     rfbSetNonBlocking failing at the hand-over, shut down before the hand-over
    L = [cfg(w, h), "inetd a " + hx(m_version(8)), "pe", "in 0 " + hx([1]), "pe", "in 0 " + hx([1]), "pe",
         "in 0 " + hx(m_fur(0, w, h)), "pe", "laccept a", "pe", "accept a"] + handshake(1) + [
         "mark", "in 0 " + hx(m_fur(1, w, h)), "pe", "peerclose 1", "pe", "shutdown", "pe", "cleanup", "end"]
    R["inetd"] = L
    R["inetd_peerclose"] = [cfg(w, h), "inetd a", "pe"] + handshake(0) + ["in 0 " + hx(m_fur(0, w, h)), "pe", "peerclose 0", "pe", "pe", "shutdown", "end"]
    R["inetd_refused"] = [cfg(w, h), "inetd r " + hx(m_version(8)), "pe", "pe", "accept a", "shutdown", "end"]
    R["inetd_nonblock"] = [cfg(w, h), "inetd n " + hx(m_version(8)), "pe", "accept a", "pe", "shutdown", "end"]
    R["inetd_never_handed_over"] = [cfg(w, h), "inetd a " + hx(m_version(8)), "mark", "shutdown", "pe", "cleanup", "end"]
    return R


# ---------------------------------------------------------------- random traces
def rand_case(rng, idx, malformed=False):
    w = h = rng.choice([8, 8, 8, 4, 1, 2, 100])
    au = 1 if rng.random() < 0.2 else 0
    al, ne, dd = (rng.random() < 0.3), (rng.random() < 0.15), (rng.random() < 0.3)
    xv, ft = (rng.random() < 0.5), (rng.random() < 0.4)
    L = ["case %d %s" % (idx, "malformed" if malformed else "random"), cfg(w, h, au, int(al), int(ne), int(dd), int(xv), int(ft))]
    nconn = 0
    dims = {}         # k -> size of the (scaled) framebuffer the client sees, as far as the generator knows
    stage = {}        # k -> next handshake step
    minor = {}
    zl = {}
    nops = rng.choice([10, 25, 40, 70])
    for f in range(rng.choice([0, 0, 1, 1, 2, 3])):
        L.append("fault %d %s" % (rng.randint(0, nops * 2), rng.choice("era")))
    def normal_msg(k):
        r = rng.random()
        if r < 0.22:
            d = dims.get(k, (w, h))
            return m_fur(rng.randint(0, 1), d[0], d[1])
        if r < 0.30:
            f = rng.choice([1, 2, 2, 3, 4, 0, 9, 200])
            if f and w // f and h // f:
                dims[k] = (w // f, h // f)
            return m_scale(f, palm=rng.random() < 0.4)
        if r < 0.36:
            encs = [rng.choice([ENC_RAW, ENC_ZLIB if w * h * 4 < 30000 else ENC_RAW, ENC_COPY, ENC_XVP]) for _ in range(rng.randint(0, 4))]
            return m_setenc(encs)
        if r < 0.46:
            return m_key(KEY_CLOSE if rng.random() < 0.2 else rng.randint(32, 126))
        if r < 0.56:
            return m_ptr(*rng.choice([(0, 1, 1), (1, 2, 2), (0x55, 7, 7), (4, 0, 0)]))
        if r < 0.64:
            return m_cut(rng.choice([b"", b"a", b"Xab", b"hello world"]))
        if r < 0.74:
            return m_xvp(rng.choice([1, 1, 1, 2]), rng.choice([2, 3, 3, 0]))
        if r < 0.90:
            return rng.choice([m_ft(3, 0, 0, MISSING), m_ft(3, 0, rng.randint(0, 1), EXISTING), m_ft(6, 0, 0), m_ft(7, 0, 0),
                               m_ft(7, 1, 0), m_ft(4, 0, 0xFFFFFFFF), m_ft(3, 0, 0, b"")])
        if r < 0.95:
            return bytes([1, 0, 0, 0, 0, 0])
        return bytes([rng.choice([12, 13, 99, 200, 252, 255])])
    for _ in range(nops):
        r = rng.random()
        if nconn == 0 or (r < 0.10 and nconn < 7):
            pre = ""
            if malformed and rng.random() < 0.3:
                pre = " " + rng.choice(["closed", hx(b"RFB 003.008\n"), hx(b"XXXXYY"), hx(b"RFB "), hx(b"\x01\x02\x03\x04")])
            L.append("%s %s%s" % ("laccept" if rng.random() < 0.3 else "accept", rng.choice("aaaaaaaahhrrnm"), pre))
            if L[-1].startswith("laccept"):
                L.append("pe")
            stage[nconn] = 0; minor[nconn] = rng.choice([8, 8, 8, 7, 3, 889, 5, 9])
            nconn += 1
            continue
        k = rng.randrange(nconn)
        if r < 0.55:
            st = stage[k]
            if st == 0:
                msg = m_version(minor[k]) if not (malformed and rng.random() < 0.3) else rng.choice(
                    [b"RFB 004.000\n", b"XYZ 003.008\n", b"RFB 003.008"[:rng.randint(1, 11)], b"HELLO WORLD!", b"RFB 003.008\n\x01",
                     b"RFB 3.8\n\n\n\n\n", b"RFB003.008\n\n", b"RFB 003.0\x03\x00\x00", b"RFB +03.-01\n", b"RFB  \t3. 7\n\n", b"RFB 003 .008",
                     b"RFB 003.\x00008", b"RFB 0003.008", b"RFB -03.008\n", b"RFB 003.+8\n\n"])
                stage[k] = 1 if minor[k] >= 7 else (2 if au else 3)
            elif st == 1:
                msg = bytes([2 if au else 1]) if not (malformed and rng.random() < 0.3) else bytes([rng.choice([0, 1, 2, 5, 19])])
                stage[k] = 2 if au else (3 if minor[k] != 889 else 4)
            elif st == 2:
                msg = bytes([rng.choice([1, 1, 1, 0])] + [0] * 15)
                if malformed and rng.random() < 0.3:
                    msg = msg[:rng.randint(1, 15)]
                stage[k] = 3
            elif st == 3:
                msg = bytes([rng.choice([0, 1, 1, 1])])
                stage[k] = 4
            else:
                msg = normal_msg(k)
                if malformed and rng.random() < 0.35 and len(msg) > 1:
                    msg = msg[:rng.randint(1, len(msg) - 1)]
            L.append("in %d %s" % (k, hx(msg)))
            if rng.random() < 0.8:
                L.append("pe")
        elif r < 0.70:
            L.append("pe")
        elif r < 0.74:
            L.append("peerclose %d" % k)
        elif r < 0.78:
            L.append("appclose %d" % k)
            if rng.random() < 0.7:
                L.append("pe")         # the usual application pattern: the next loop turn reaps it
        elif r < 0.82:
            L.append(rng.choice(["start %d", "refuse %d"]) % k)
        elif r < 0.87:
            L.append("mark")
        elif r < 0.92:
            L.append(rng.choice(["bell", "cuttext"]))
        elif r < 0.95:
            L.append("in %d %s" % (k, hx(m_fur(0, w, h))))
        else:
            L.append("pe")
    tail = rng.random()
    if tail < 0.5:
        L += ["pe", "shutdown", "cleanup"]
    elif tail < 0.7:
        L += ["pe", "cleanup"]
    elif tail < 0.8:
        L += ["pe"]
    L.append("end")
    return L


def directed_cases(start):
    """small scripts aimed at single exit paths (also the witnesses of the known findings)"""
    w = h = 8
    D = []
    def add(name, ops):
        D.append(["case %d directed:%s" % (start + len(D), name)] + ops + ["end"])
    hs = handshake
    add("appclose-shutdown", [cfg(), "accept a", "accept a", "appclose 0", "shutdown", "cleanup"])
    add("appclose-cleanup", [cfg(), "accept a", "appclose 0", "cleanup"])
    add("bellfail-shutdown", [cfg(), "fault 2 r", "accept a", "bell", "shutdown", "cleanup"])
    add("ft-leak", [cfg(ft=1), "accept a"] + hs(0) + ["in 0 " + hx(m_ft(3, 0, 0, EXISTING)), "pe", "peerclose 0", "pe"])
    add("ft-overwrite", [cfg(ft=1), "accept a"] + hs(0) + ["in 0 " + hx(m_ft(3, 0, 0, EXISTING)), "pe",
                                                           "in 0 " + hx(m_ft(3, 0, 0, EXISTING)), "pe", "in 0 " + hx(m_ft(6, 0, 0)), "pe"])
    add("ft-writefail", [cfg(ft=1), "fault 12 r", "accept a"] + hs(0) + ["in 0 " + hx(m_ft(3, 0, 0, EXISTING)), "pe", "pe"])
    add("xvp-hook-close", [cfg(xvp=1), "accept a"] + hs(0) + ["in 0 " + hx(m_xvp(1, 4)), "pe"])
    add("xvp-hook-close-ok", [cfg(xvp=1), "accept a"] + hs(0) + ["in 0 " + hx(m_xvp(1, 5)), "pe"])
    add("pw-hook-close", [cfg(auth=1), "accept a"] + hs(0, auth=1, authresp=2) + ["pe"])
    add("appxvp-closed", [cfg(), "accept a", "appclose 0", "appxvp 0", "pe"])
    add("cuttext8", [cfg(), "accept a"] + hs(0) + ["cuttext8", "peerclose 0", "pe"])
    add("cuttext8-twice", [cfg(), "accept a"] + hs(0) + ["cuttext8", "cuttext8"])
    add("double-appclose", [cfg(), "accept a", "appclose 0", "appclose 0", "pe"])
    add("refuse-after-close", [cfg(), "accept h", "appclose 0", "refuse 0"])
    add("hold-peerclose", [cfg(), "accept h", "peerclose 0", "pe", "pe", "start 0", "pe"])
    add("xvp-in-setenc-fail", [cfg(xvp=1), "fault 13 r", "accept a"] + hs(0) + ["in 0 " + hx(m_setenc([ENC_XVP, ENC_RAW, ENC_ZLIB])), "pe"])
    add("scaled-gone", [cfg(), "accept a"] + hs(0) + ["accept a"] + hs(1) + ["in 1 " + hx(m_scale(2)), "pe", "peerclose 1", "pe", "pe"])
    add("scaled-palm-refuse", [cfg(), "accept a"] + hs(0) + ["in 0 " + hx(m_scale(2, palm=True)), "pe", "accept h", "refuse 1", "appclose 0", "pe"])
    add("scaled-shared-copy", [cfg(), "accept a"] + hs(0) + ["accept a"] + hs(1) + ["accept a"] + hs(2) + [
        "in 0 " + hx(m_scale(2)), "in 1 " + hx(m_scale(2)), "in 2 " + hx(m_scale(4)), "pe", "appclose 1", "pe", "in 0 " + hx(m_scale(4)), "pe", "cleanup"])
    add("listen-refuse", [cfg(), "laccept r", "pe", "laccept r", "laccept a", "pe", "pe"])
    add("nonblock-direct", [cfg(), "accept n", "accept a", "accept m", "pe", "appclose 1", "pe"])
    add("nonblock-listen", [cfg(), "laccept n", "laccept m", "laccept a", "pe", "pe", "pe", "shutdown"])
    add("inetd-hold", [cfg(), "inetd h", "pe", "start 0"] + hs(0) + ["appclose 0", "pe", "shutdown"])
    add("inetd-closed-peer", [cfg(), "inetd a closed", "pe", "pe", "shutdown"])
    add("inetd-late", [cfg(), "accept a", "inetd a", "pe"])
    add("listen-versionfail", [cfg(), "fault 1 r", "laccept a", "pe", "laccept a closed", "pe"])
    add("maxfd", [cfg(), "accept a", "accept a", "accept a", "appclose 2", "appclose 0", "appclose 1", "pe"])
    add("ptr-owner-gone", [cfg(), "accept a"] + hs(0) + ["accept a"] + hs(1) + ["in 0 " + hx(m_ptr(1, 1, 1)), "pe",
        "in 1 " + hx(m_ptr(1, 2, 2)), "pe", "peerclose 0", "pe", "in 1 " + hx(m_ptr(1, 2, 2)), "pe"])
    return D


# ---------------------------------------------------------------- running
def run_chunks(exe, cases, env=None, workers=None, timeout=900):
    workers = workers or max(2, min(12, vlib.NCPU - 2))
    n = len(cases)
    size = max(20, (n + workers * 3 - 1) // (workers * 3))
    chunks = [cases[i:i + size] for i in range(0, n, size)]
    def one(ch):
        script = "\n".join("\n".join(c) for c in ch) + "\n"
        return vlib.run_driver(exe, script, timeout=timeout, env=env)
    with ThreadPoolExecutor(max_workers=workers) as ex:
        res = list(ex.map(one, chunks))
    out, errs, rcs = [], [], []
    for ch, (rc, o, e) in zip(chunks, res):
        cs = vlib.split_cases(o)
        # keep alignment even if a chunk died early
        while len(cs) < len(ch):
            cs.append(("case ? <missing>", ["<driver died: rc=%d %s>" % (rc, e[-300:].replace("\n", " "))]))
        out += cs[:len(ch)]
        errs.append(e); rcs.append(rc)
    return out, rcs, errs


# ---------------------------------------------------------------- spec oracle on the implementation's output
def parse_obs(line):
    segs = line.split(" | ")
    head = segs[0].split()
    d = {"op": head[0], "hung": "HUNG" in head, "conns": {}, "it": None, "raw": line}
    for t in head[1:]:
        if t.startswith("ev=["):
            d["ev"] = [e for e in t[4:-1].split(",") if e]
        elif "=" in t:
            a, b = t.split("=", 1)
            d[a] = b
    for s in segs[1:]:
        if s.startswith("it=["):
            d["it"] = [int(x) for x in s[4:-1].split(",") if x]
            continue
        m = re.match(r"(\d+):(.*)$", s)
        if not m:
            continue
        k = int(m.group(1)); f = m.group(2).split(",")
        c = {"kind": "live", "seg": m.group(2)}
        if f[0] in ("freed", "lost", "http"):
            c["kind"] = f[0]         # http = accepted by the HTTP server / handed in by inetd, not (yet) an RFB client
        else:
            c["state"] = int(f[0][1:]); c["open"] = (f[1] == "o")
        for t in f:
            mm = re.match(r"^(n|g|x|w|fd)(\d+)$", t)
            if mm:
                c[mm.group(1)] = int(mm.group(2))
            elif t.startswith("z"):
                c["z"] = t[1:]
        d["conns"][k] = c
    return d


def via_of(script):
    """which callback/API pattern of the script can leave a mutex locked (for the finding features)"""
    txt = "\n".join(script)
    if "cuttext8" in txt:
        return "cuttext_utf8_null_fallback"
    if "appxvp" in txt:
        return "api_write_after_close"
    c = script[1].split()
    if len(c) > 8 and c[8] == "1" and any(l.startswith("in ") and "0703" in l for l in script):
        return "filetransfer_request_write_failure"
    if len(c) > 7 and (c[3] == "1" or c[7] == "1"):
        # passwordCheck / xvpHook of the scripted application may close the client and report failure
        return "callback_close_then_write"
    return "unknown"


def oracle_case(script, obs_lines, extra, ref_rx0=None):
    """returns list of (message, features).  script: op lines (with case header); obs_lines: the
    implementation's observation lines; extra: its '#' lines."""
    fails = []
    ops = script[1:]
    obs = []
    for l in obs_lines:
        if l.startswith("fin "):
            fin = dict(t.split("=") for t in l.split()[1:])
            obs.append({"op": "fin", "fin": fin, "conns": {}, "hung": False, "ev": []})
        elif l.startswith("<driver died"):
            return [("implementation driver died: " + l[:300], {"defect": "crash"})]
        else:
            try:
                obs.append(parse_obs(l))
            except Exception:
                return [("implementation driver died in the middle of an observation: " + l[-200:], {"defect": "crash"})]
    if len(obs) < len(ops) + 1:
        return [("implementation produced %d observations for %d operations (crash?): %s" % (len(obs), len(ops), "\n".join(obs_lines[-2:])[-400:]),
                 {"defect": "crash"})]
    leak = None; rx = {}
    for l in extra:
        p = l.split()
        if p[0] == "#leak":
            leak = int(p[1])
        elif p[0] == "#rx":
            rx[int(p[1])] = (int(p[2]), p[3] if len(p) > 3 else "")
    hung_at = None
    prev = None
    closed_before_teardown = set()
    for i, o in enumerate(obs):
        if o["op"] == "fin":
            continue
        opline = ops[i] if i < len(ops) else "end"
        if o["hung"]:
            if hung_at is None:
                hung_at = i
            continue
        for k, c in o["conns"].items():
            if c.get("n", 0) > 1:
                fails.append(("newClientHook ran %d times for connection %d (after '%s')" % (c["n"], k, opline), {"defect": "new_count"}))
            if c.get("g", 0) > c.get("n", 0):
                fails.append(("clientGoneHook ran %d times for connection %d (after '%s')" % (c["g"], k, opline), {"defect": "gone_count"}))
            if c.get("x", 0) > 1:
                fails.append(("descriptor of connection %d closed %d times (after '%s')" % (k, c["x"], opline), {"defect": "close_count"}))
            if c["kind"] == "freed":
                if c["g"] != c["n"]:
                    fails.append(("connection %d freed with %d gone-hook calls for %d new-hook calls (after '%s')" % (k, c["g"], c["n"], opline), {"defect": "gone_count"}))
                if c["x"] != 1 or c["fd"] != 0:
                    fails.append(("connection %d freed with %d close() calls, descriptor %s (after '%s')" % (k, c["x"], "open" if c["fd"] else "closed", opline), {"defect": "close_count"}))
            if c["kind"] == "http" and (c["x"] != 0 or c["fd"] != 1):
                fails.append(("connection %d waits on the HTTP socket with %d close() calls, descriptor %s (after '%s')" % (k, c["x"], "open" if c["fd"] else "closed", opline), {"defect": "close_count"}))
            if c["kind"] == "live":
                if c["open"] != (c["x"] == 0) or c["fd"] != (1 if c["open"] else 0):
                    fails.append(("connection %d: sock %s but %d close() calls / descriptor %s (after '%s')" % (k, "open" if c["open"] else "-1", c["x"], "open" if c["fd"] else "closed", opline), {"defect": "close_count"}))
            if o["it"] is not None and k in o["it"] and not (c["kind"] == "live" and c["open"]):
                fails.append(("connection %d still reachable through client iteration although %s (after '%s')" % (k, c["kind"] if c["kind"] != "live" else "closed", opline), {"defect": "reachable"}))
            if o["op"] == "pe" and c["kind"] == "live" and not c["open"]:
                fails.append(("connection %d closed but not reaped by rfbProcessEvents (after '%s')" % (k, opline), {"defect": "not_reaped"}))
        if o.get("ref") not in (None, "-"):
            # every screen of the chain (the unscaled one and each scaled copy) is referenced by exactly
            # the live client records that currently use it
            users = {}
            for c in o["conns"].values():
                if c["kind"] == "live":
                    users[c.get("z", "-")] = users.get(c.get("z", "-"), 0) + 1
            chain = {"-": int(o["ref"])}
            dup = False
            for e in (o.get("sc", "[]")[1:-1].split(";") if o.get("sc", "[]") != "[]" else []):
                dims, r = e.split(":")
                dup = dup or dims in chain
                chain[dims] = int(r)
            if dup:
                fails.append(("two scaled screens of the same size in the chain (after '%s')" % opline, {"defect": "scaled_refcount"}))
            for dims in set(chain) | set(users):
                if chain.get(dims) != users.get(dims, 0):
                    fails.append(("scaledScreenRefCount of the %s screen is %s with %d client records using it (after '%s')" %
                                  ("unscaled" if dims == "-" else dims, chain.get(dims), users.get(dims, 0), opline), {"defect": "scaled_refcount"}))
                    break
        # teardown of one connection leaves every other record alone
        p0 = opline.split()
        if prev is not None and p0[0] in ("appclose", "refuse") and len(p0) > 1:
            for k, c in o["conns"].items():
                if k != int(p0[1]) and k in prev["conns"] and prev["conns"][k]["seg"] != c["seg"]:
                    fails.append(("'%s' changed connection %d: %s -> %s" % (opline, k, prev["conns"][k]["seg"], c["seg"]), {"defect": "others_touched"}))
        if p0[0] in ("shutdown", "cleanup", "end") and prev is not None:
            for k, c in prev["conns"].items():
                if c["kind"] == "live" and not c["open"]:
                    closed_before_teardown.add(k)
        prev = o
    if hung_at is not None:
        opline = ops[hung_at] if hung_at < len(ops) else "end"
        fails.append(("deadlock: a mutex of a client record that was still held was locked again during '%s' (teardown never completes)" % opline,
                      {"defect": "teardown_deadlock", "via": via_of(script)}))
        return fails
    endo = [o for o in obs if o["op"] == "end"]
    fin = [o for o in obs if o["op"] == "fin"]
    if endo:
        lost = [k for k, c in endo[-1]["conns"].items() if c["kind"] != "freed"]
        for k in lost:
            c = endo[-1]["conns"][k]
            feat = {"defect": "closed_client_skipped_at_shutdown"} if k in closed_before_teardown else {"defect": "not_torn_down"}
            fails.append(("connection %d never torn down: after rfbShutdownServer/rfbScreenCleanup its record is still allocated, "
                          "clientGoneHook ran %d times for %d newClientHook calls" % (k, c.get("g", 0), c.get("n", 0)), feat))
        if leak == 1 and not lost:
            fails.append(("LeakSanitizer reports leaked heap memory after rfbScreenCleanup", {"defect": "heap_leak"}))
        if leak is None:
            fails.append(("no leak-check result from the implementation run", {"defect": "crash"}))
    if fin and int(fin[-1]["fin"].get("filefds", 0)) > 0:
        fails.append(("%s file descriptor(s) opened for a file transfer still open after the connection and the screen are gone"
                      % fin[-1]["fin"]["filefds"], {"defect": "filetransfer_fd_leak"}))
    if fin and int(fin[-1]["fin"].get("appfds_lost", 0)) > 0:
        fails.append(("%s descriptor(s) the application opened inside clientGoneHook (re-using the number of the closed socket) were "
                      "closed behind its back" % fin[-1]["fin"]["appfds_lost"], {"defect": "close_count"}))
    if fin and int(fin[-1]["fin"].get("busy", 0)) > 0:
        fails.append(("a locked mutex was destroyed", {"defect": "mutex_busy"}))
    def mask(hexs):
        # the VNC-auth challenge is random: bytes 14..29 of the stream of an authenticating 3.8 client
        if script[1].split()[3] == "1" and len(hexs) >= 60:
            return hexs[:28] + "0" * 32 + hexs[60:]
        return hexs
    if ref_rx0 is not None and 0 in rx and rx[0][0] == 0 and mask(rx[0][1]) != mask(ref_rx0):
        fails.append(("the byte stream received by the witness connection 0 differs from the run without the fault although no fault "
                      "touched it (%d vs %d bytes)" % (len(rx[0][1]) // 2, len(ref_rx0) // 2), {"defect": "witness_stream"}))
    if 0 in rx and rx[0][0] == 0 and (ref_rx0 is not None or " ref:" in script[0]):
        e = parse_stream(bytes.fromhex(rx[0][1]), script)
        if e:
            fails.append(("stream of connection 0 is not a well-formed RFB server stream: " + e, {"defect": "witness_stream"}))
    # route by which the connection came in (for the findings file)
    if any(l.startswith("setflfail") for l in script):
        fails = [(m, dict(f, via="setnonblocking_failure") if f.get("defect") in ("heap_leak", "scaled_refcount") else f) for (m, f) in fails]
    if any(l.startswith("inetd ") for l in script):
        fails = [(m, dict(f, via="inetd") if f.get("defect") == "close_count" else f) for (m, f) in fails]
    return fails


def parse_stream(b, script):
    """strict parser for what the harness' server may send to a Raw client (spec level):
    version, security handshake, ServerInit, FramebufferUpdate(Raw), Bell, ServerCutText, xvp,
    file-transfer messages.  Pixel payload must equal the harness' framebuffer pattern."""
    p = script[1].split()
    if p[0] != "config":
        return None
    w, h = int(p[1]), int(p[2])
    if len(b) == 0:
        return None
    if len(b) < 12 or b[:4] != b"RFB ":
        return "no protocol version"
    # only connections whose handshake is the plain 3.8/None one are parsed further
    first = [l for l in script[2:] if l.startswith("in 0 ")]
    if not first or bytes.fromhex(first[0].split()[2]) != m_version(8) or p[3] != "0":
        return None
    i = 12
    if i == len(b):
        return None
    if b[i:i + 2] != b"\x01\x01":
        return "bad security type list"
    i += 2
    if i == len(b):
        return None
    if b[i:i + 4] != b"\0\0\0\0":
        return "bad SecurityResult"
    i += 4
    if i == len(b):
        return None
    if len(b) < i + 24:
        return "truncated ServerInit"
    if b[i:i + 2] != be16(w) or b[i + 2:i + 4] != be16(h):
        return "ServerInit geometry"
    nl = int.from_bytes(b[i + 20:i + 24], "big")
    i += 24 + nl
    while i < len(b):
        t = b[i]
        if t == 0:
            if len(b) < i + 4:
                return "truncated FramebufferUpdate header"
            n = int.from_bytes(b[i + 2:i + 4], "big"); i += 4
            for _ in range(n):
                if len(b) < i + 12:
                    return "truncated rectangle header"
                x, y, rw, rh, enc = (int.from_bytes(b[i:i + 2], "big"), int.from_bytes(b[i + 2:i + 4], "big"),
                                     int.from_bytes(b[i + 4:i + 6], "big"), int.from_bytes(b[i + 6:i + 8], "big"),
                                     int.from_bytes(b[i + 8:i + 12], "big"))
                i += 12
                if enc != 0:
                    return None      # not a Raw client: content not checked here
                if len(b) < i + rw * rh * 4:
                    return "truncated Raw rectangle"
                for yy in range(rh):
                    for xx in range(rw):
                        v = (0x00102030 + ((y + yy) * w + (x + xx)) * 0x010203) & 0xFFFFFFFF
                        if b[i:i + 4] != v.to_bytes(4, "little"):
                            return "pixel (%d,%d) of a Raw rectangle is not the framebuffer content" % (x + xx, y + yy)
                        i += 4
        elif t == 2:
            i += 1
        elif t == 3:
            if len(b) < i + 8:
                return "truncated ServerCutText"
            i += 8 + int.from_bytes(b[i + 4:i + 8], "big")
        elif t == 250:
            i += 4
        elif t == 7:
            if len(b) < i + 12:
                return "truncated FileTransfer message"
            ln = int.from_bytes(b[i + 8:i + 12], "big")
            ct = b[i + 1]
            i += 12 + ln
            if ct == 4 and int.from_bytes(b[i - ln - 8:i - ln - 4], "big") != 0xFFFFFFFF:
                i += 4
        else:
            return "unknown server message type %d at offset %d" % (t, i)
    if i != len(b):
        return "stream ends inside a message"
    return None


# ---------------------------------------------------------------- the check
def build(ctx):
    cexe = vlib.build_harness("vdrv_life", ["vdrv_life.c"], wraps=WRAPS)
    proof_ok = vlib.prove(ctx, PROP_FILE, ["Extract/Extract_C12.vo"])
    sync_extraction()
    mexe = vlib.build_ocaml("C12", "driver_C12.ml", "Extract/Extract_C12.vo")
    return cexe, mexe, proof_ok


def sync_extraction():
    """the Extraction command writes to <verif>/build/ocaml/C12 (path relative to coq/); with a scratch
    VERIF_BUILD the OCaml build looks elsewhere: copy the extracted model there"""
    import shutil
    src = os.path.join(vlib.VERIF, "build", "ocaml", "C12")
    dst = os.path.join(vlib.BUILD, "ocaml", "C12")
    if os.path.abspath(src) != os.path.abspath(dst) and os.path.exists(os.path.join(src, "model.ml")):
        os.makedirs(dst, exist_ok=True)
        for f in ("model.ml", "model.mli"):
            shutil.copy(os.path.join(src, f), os.path.join(dst, f))


def io_count(mexe, ops):
    rc, out, err = vlib.run_driver(mexe, "case 0 ref\n" + "\n".join(ops) + "\n")
    n = 0
    for l in out.split("\n"):
        m = re.search(r" io=(\d+)", l)
        if m:
            n = max(n, int(m.group(1)))
        if "UNMODELLED" in l or l.startswith("??"):
            raise RuntimeError("reference session leaves the modelled fragment: " + l[:200])
    return n


def gen_cases(ctx, mexe, cexe=None):
    rng = ctx.rng
    cases, meta = [], []      # meta[i] = reference case index (for the witness stream) or None
    def add(c, ref=None):
        c[0] = "case %d %s" % (len(cases), c[0].split(" ", 2)[2] if c[0].count(" ") >= 2 else "x")
        cases.append(c); meta.append(ref)
    cdir = os.path.join(vlib.VERIF, "corpus", "C12")
    if os.path.isdir(cdir):
        for fn in sorted(os.listdir(cdir)):
            lines = [l for l in open(os.path.join(cdir, fn)).read().split("\n") if l.strip() and not l.startswith("#")]
            if lines and not lines[0].startswith("case "):
                tr = any(l.split()[0] in ("haccept", "setflfail") for l in lines) or len(lines[0].split()) > 9
                lines = ["case 0 %s:%s" % ("tcorpus" if tr else "corpus", fn)] + lines
            add(lines)
    for c in directed_cases(0):
        add(c)
    refs = ref_sessions()
    sweep_points = 0
    for name in sorted(refs):
        ops = refs[name]
        n = io_count(mexe, ops)
        base = len(cases)
        add(["case 0 ref:%s" % name] + ops)
        idxs = list(range(n))
        kinds = "era"
        for i in idxs:
            for kd in kinds:
                add(["case 0 sweep:%s:%d:%s" % (name, i, kd), ops[0], "fault %d %s" % (i, kd)] + ops[1:],
                    ref=base if name in WITNESS_REFS else None)
                sweep_points += 1
        if not ctx.quick():
            # pairs of faults
            for _ in range(4 * n):
                i, j = rng.randrange(n), rng.randrange(n)
                if i != j:
                    add(["case 0 sweep2:%s:%d:%d" % (name, i, j), ops[0], "fault %d %s" % (i, rng.choice(kinds)),
                         "fault %d %s" % (j, rng.choice(kinds))] + ops[1:], ref=base if name in WITNESS_REFS else None)
    if cexe is not None:
        ts = transport_sessions()
        for name in sorted(ts):
            ops = ts[name]
            n = impl_io_count(cexe, ops)
            add(["case 0 tref:%s" % name] + ops)
            # a fault at every I/O call of the session (handshake bytes are read one by one: every 3rd index
            # in the quick tier for the long ones, all of them otherwise)
            stride = 1 if (n <= 60 or not ctx.quick()) else 3
            for i in range(0, n, stride):
                for kd in "era":
                    add(["case 0 tsweep:%s:%d:%s" % (name, i, kd), ops[0], "fault %d %s" % (i, kd)] + ops[1:])
                    sweep_points += 1
    nrand = 1500 if ctx.quick() else 30000
    for _ in range(nrand):
        add(rand_case(rng, 0))
    for _ in range(nrand // 3):
        add(rand_case(rng, 0, malformed=True))
    return cases, meta, sweep_points


def features_of(script, feat):
    f = dict(feat)
    return f


def check(ctx):
    cexe, mexe, proof_ok = build(ctx)
    cases, meta, sweep_points = gen_cases(ctx, mexe, cexe)
    cres, crcs, cerrs = run_chunks(cexe, cases, env=ASAN_ENV)
    mres, mrcs, merrs = run_chunks(mexe, [([c[0], "end"] if is_oracle_only(c) else c) for c in cases])
    nops = sum(len(c) - 1 for c in cases)
    hist, distinct, mismatches, oracle_fail, unmod = {}, set(), [], [], 0
    n_oracle_only = 0
    rx0 = {}
    split = []
    for idx, c in enumerate(cases):
        il_all = cres[idx][1] if idx < len(cres) else []
        il = [l for l in il_all if not l.startswith("#")]
        ex = [l for l in il_all if l.startswith("#")]
        ml = mres[idx][1] if idx < len(mres) else []
        split.append((il, ex, ml))
        for l in ex:
            p = l.split()
            if p[0] == "#rx" and p[1] == "0":
                rx0[idx] = p[3] if len(p) > 3 else ""
    for idx, c in enumerate(cases):
        il, ex, ml = split[idx]
        kind = c[0].split()[2].split(":")[0] if len(c[0].split()) > 2 else "?"
        hist[kind] = hist.get(kind, 0) + 1
        oo = is_oracle_only(c)
        if oo:
            n_oracle_only += 1
        elif any("UNMODELLED" in l for l in ml):
            unmod += 1
            continue
        else:
            d = vlib.first_diff(il, ml)
            if d is not None:
                mismatches.append((idx, d))
        for l, op in zip(il, c[1:]):
            if ("X" in l.split(" ev=[")[1].split("]")[0]) if " ev=[" in l else False:
                evs = l.split(" ev=[")[1].split("]")[0]
                distinct.add((op.split()[0], re.sub(r"\d+", "", evs), kind if kind in ("sweep", "ref") else "", l.count(",c,")))
        ref = meta[idx]
        fails = oracle_case(c, il, ex, rx0.get(ref) if ref is not None else None)
        for (msg, feat) in fails:
            oracle_fail.append((idx, msg, feat))
    ctx.coverage.update(
        evaluations=nops, distinct_nontrivial=len(distinct),
        rule="lifecycle scripts (config/accept/in/peerclose/pe/appclose/start/refuse/mark/bell/cuttext/fault/shutdown/cleanup) run on the "
             "extracted Coq model and on libvncserver; after every op the observation (I/O call count, hook and close events, per "
             "connection: state, sock, hold, new/gone/close/write counts, list and fd_set membership, regions, encoding, resources, "
             "descriptor open; refcount, maxFd, pointerClient, client iteration) is compared. distinct_nontrivial = distinct "
             "(operation, sequence of close/gone events, number of closed-unreaped clients) among operations that tore a connection down",
        samples=[cases[i] for i in (0, len(cases) // 2, len(cases) - 1)],
        input_distribution=hist, cases=len(cases), fault_sweep_points=sweep_points,
        correspondence_mismatches=len(mismatches), unmodelled_cases=unmod, oracle_only_cases=n_oracle_only,
        oracle_only_note="tref/tsweep cases (httpd proxy hand-over, WebSocket upgrades, rfbSetNonBlocking failure, inetd) are outside the Coq model: judged by the specification oracle on the implementation's output only",
        oracle_failures=len(oracle_fail), exhaustive=False)
    ctx.assumptions += [
        "application-driven event loop only (backgroundLoop == FALSE); the threaded loop is C13",
        "kernel socket layer modelled as per-connection byte queue + peer-open flag + fault table; socket buffers never fill (writes complete in one call)",
        "heap objects outside the model's resource multiset are covered by LeakSanitizer only (sampled)",
        "WebSocket/TLS connections, the httpd proxy hand-over, SetPixelFormat, extensions are outside the modelled fragment (the first two are judged by the specification oracle only); reverse connections and UDP are not exercised",
    ]
    if unmod * 50 > len(cases):     # a few random byte streams desynchronise into SetPixelFormat etc.: skipped, counted
        ctx.violation("generator produced %d cases outside the modelled fragment (internal error of the check)" % unmod,
                      {"kind": "internal"}, "", no_input=True)

    def run_one(lines):
        (co,), _, _ = run_chunks(cexe, [lines], env=ASAN_ENV, workers=1)
        (mo,), _, _ = run_chunks(mexe, [lines], workers=1)
        return co[1], mo[1]

    def oracle_lines(lines):
        co, mo = run_one(lines)
        il = [l for l in co if not l.startswith("#")]
        ex = [l for l in co if l.startswith("#")]
        return oracle_case(lines, il, ex), co, mo

    seen_feat = set()
    unknown_reported = 0
    for idx, msg, feat in oracle_fail:
        key = json.dumps(feat, sort_keys=True)
        if key in seen_feat:
            continue
        seen_feat.add(key)
        c = cases[idx]
        if vlib.match_finding(ctx.pid, feat) is None and unknown_reported < 4:
            def pred(body):
                lines = [c[0], c[1]] + body + ["end"]
                fs, _, _ = oracle_lines(lines)
                return any(json.dumps(f, sort_keys=True) == key for (_, f) in fs)
            body = vlib.ddmin(c[2:-1], pred, max_tests=120)
            small = [c[0], c[1]] + body + ["end"]
            fs, co, mo = oracle_lines(small)
            m2 = [m for (m, f) in fs if json.dumps(f, sort_keys=True) == key]
            if m2:
                msg = m2[0]
            else:
                small = c; _, co, mo = oracle_lines(c)
            unknown_reported += 1
        else:
            small = c
            _, co, mo = oracle_lines(c)
        ctx.violation("lifecycle property violated on the implementation: " + msg, feat,
                      "script:\n" + "\n".join(small) + "\n\nimplementation output:\n" + "\n".join(co)[:6000] +
                      "\n\nmodel output:\n" + "\n".join(mo)[:4000])
    unknown = [1 for (_, _, f) in oracle_fail if vlib.match_finding(ctx.pid, f) is None]
    if mismatches and not unknown:
        idx, d = mismatches[0]
        c = cases[idx]
        def pred2(body):
            co, mo = run_one([c[0], c[1]] + body + ["end"])
            if any("UNMODELLED" in l for l in mo):
                return False
            return [l for l in co if not l.startswith("#")] != mo
        body = vlib.ddmin(c[2:-1], pred2, max_tests=120)
        small = [c[0], c[1]] + body + ["end"]
        co, mo = run_one(small)
        dd = vlib.first_diff([l for l in co if not l.startswith("#")], mo)
        ctx.violation("correspondence Session/LifecycleModel.v <-> libvncserver lifecycle code no longer holds (%d cases differ); "
                      "the exactly-once/release predicate held on every implementation output explored" % len(mismatches),
                      {"kind": "correspondence"},
                      "correspondence: Session/LifecycleModel.v (step/close_client/connection_gone/process_message...) vs rfbserver.c, "
                      "sockets.c, main.c\nfirst difference: %s\nscript:\n%s\n\nimplementation output:\n%s\n\nmodel output:\n%s" %
                      (dd, "\n".join(small), "\n".join(co)[:6000], "\n".join(mo)[:6000]), no_input=True)
    if not proof_ok and not unknown:
        vlib.report_proof_failure(ctx, "Correspondence and the lifecycle oracle were run on %d operations (%d cases, %d fault-sweep "
                                  "points) without exhibiting an unknown failing input." % (nops, len(cases), sweep_points))


def replay(ctx, path):
    txt = open(path).read()
    if "script:\n" in txt:
        body = txt.split("script:\n", 1)[1].split("\n\n", 1)[0]
    elif re.search(r"^config ", txt, flags=re.M):
        body = txt                       # a bare script (corpus/C12/*.script)
    else:
        print("replay names a theorem/correspondence, re-running the full check")
        return check(ctx)
    lines = [l for l in body.split("\n") if l.strip() and not l.startswith("#")]
    if not lines[0].startswith("case "):
        lines = ["case 0 replay"] + lines
    if lines[-1] != "end":
        lines.append("end")
    cexe, mexe, proof_ok = build(ctx)
    (co,), _, _ = run_chunks(cexe, [lines], env=ASAN_ENV, workers=1)
    (mo,), _, _ = run_chunks(mexe, [lines], workers=1)
    il = [l for l in co[1] if not l.startswith("#")]
    ex = [l for l in co[1] if l.startswith("#")]
    print("implementation:\n" + "\n".join(co[1]) + "\nmodel:\n" + "\n".join(mo[1]))
    ctx.coverage.update(evaluations=len(lines) - 1, distinct_nontrivial=0, rule="replay", samples=[lines])
    fails = oracle_case(lines, il, ex)
    for msg, feat in fails:
        ctx.violation("lifecycle property violated on the implementation: " + msg, feat,
                      "script:\n" + "\n".join(lines) + "\n\nimplementation output:\n" + "\n".join(co[1]))
    transport = len(lines[1].split()) > 9 or any(l.split()[0] in ("haccept", "setflfail", "inetd") or "474554" in l for l in lines[1:])
    if not fails and il != mo[1] and not transport:
        ctx.violation("correspondence differs on the replayed script", {"kind": "correspondence"},
                      "script:\n" + "\n".join(lines) + "\n\n" + "\n".join(co[1]) + "\n" + "\n".join(mo[1]), no_input=True)
