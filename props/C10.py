"""C10 - Pixel-format translation follows the RFB colour-scaling rule for all formats.

Proof: coq/Props/Properties_C10.v (theorems over the mirror model Pixel/Translate.v: rule for both
table strategies, strategies agree, identity, colour-map rule, BGR233 map, area exactness; refuted
statements with witnesses for the defects F10 / F10b / F10c).
Tie: (a) BGR233Format, the SetColourMapEntries constants, the 24-bpp switch and probes of the Swap16 /
Swap32 macros are re-translated from /repo on every run (Gen/Consts_C10.v) and the theorems re-proved
over them; (b) correspondence: the extracted model and the real library (rfbSetTranslateFunction on a
real rfbClientRec + the translate function it selected) run the same scripts; the chosen function
class, the effective client format, the bytes written to the client, the size and checksum of the
lookup table, every output byte, the exact extent of the input read (guard page) are compared.
Independently of the mirror model the property predicate (RFB rounding rule, placement, byte order,
verbatim copy, colour-map rule, area) is evaluated in Python on the implementation's own output.
"""
import os, sys, concurrent.futures
import vlib

PROP_FILE = "Props/Properties_C10.v"
EXTRACT = "Extract/Extract_C10.vo"

# ---------------------------------------------------------------- formats
# (bpp, depth, be, tc, rmax, gmax, bmax, rs, gs, bs)
def F(bpp, be, rmax, gmax, bmax, rs, gs, bs, depth=None, tc=1):
    if depth is None:
        depth = min(bpp, rmax.bit_length() + gmax.bit_length() + bmax.bit_length())
    return (bpp, depth, be, tc, rmax, gmax, bmax, rs, gs, bs)


CATALOGUE = [
    ("rgb565", F(16, 0, 31, 63, 31, 11, 5, 0)), ("bgr565", F(16, 0, 31, 63, 31, 0, 5, 11)),
    ("rgb555", F(16, 0, 31, 31, 31, 10, 5, 0)), ("bgr233", F(8, 0, 7, 7, 3, 0, 3, 6)),
    ("rgb332", F(8, 0, 7, 7, 3, 5, 2, 0)), ("rgb111", F(8, 0, 1, 1, 1, 2, 1, 0)),
    ("rgb888", F(32, 0, 255, 255, 255, 16, 8, 0)), ("bgr888", F(32, 0, 255, 255, 255, 0, 8, 16)),
    ("rgbx8888", F(32, 0, 255, 255, 255, 24, 16, 8)), ("rgb101010", F(32, 0, 1023, 1023, 1023, 20, 10, 0)),
    ("rgb444", F(16, 0, 15, 15, 15, 8, 4, 0)), ("rgb24", F(24, 0, 255, 255, 255, 16, 8, 0)),
    ("bgr24", F(24, 0, 255, 255, 255, 0, 8, 16)), ("rgb666in24", F(24, 0, 63, 63, 63, 12, 6, 0)),
    ("r16g8b8", F(32, 0, 65535, 255, 255, 0, 16, 24)), ("r15g15b2", F(32, 0, 32767, 32767, 3, 0, 15, 30)),
]


def with_be(f, be):
    return f[:2] + (be,) + f[3:]


def fmt_line(tag, f):
    return tag + " " + " ".join(str(int(v)) for v in f)


def rand_fmt(rng, bpp, be=None, kmax=16):
    """max = 2^k-1 (k = 1..16), components inside the pixel and pairwise disjoint, random order and gaps"""
    while True:
        ks = [rng.randint(1, min(kmax, bpp - 2)) for _ in range(3)]
        if sum(ks) <= bpp:
            break
    if rng.random() < 0.3:     # boundary: fill the pixel completely when possible
        for _ in range(64):
            i = rng.randrange(3)
            if sum(ks) < bpp and ks[i] < kmax:
                ks[i] += 1
    order = [0, 1, 2]
    rng.shuffle(order)
    free = bpp - sum(ks)
    gaps = [0, 0, 0]
    if free and rng.random() < 0.6:
        for _ in range(rng.randint(0, free)):
            gaps[rng.randrange(3)] += 1
    sh = [0, 0, 0]
    pos = 0
    for j, c in enumerate(order):
        pos += gaps[j]
        sh[c] = pos
        pos += ks[c]
    assert pos <= bpp
    if be is None:
        be = rng.randint(0, 1)
    return F(bpp, be, (1 << ks[0]) - 1, (1 << ks[1]) - 1, (1 << ks[2]) - 1, sh[0], sh[1], sh[2],
             depth=rng.choice([sum(ks), bpp, pos]))


def klen(m):
    return m.bit_length()


def fmt_ok(f):
    """the property's supported domain for a true-colour format"""
    bpp, depth, be, tc, rm, gm, bm, rs, gs, bs = f
    if not tc or bpp not in (8, 16, 24, 32):
        return False
    rng_ = []
    for m, s in ((rm, rs), (gm, gs), (bm, bs)):
        if m < 1 or m > 65535 or (m & (m + 1)) != 0 or s + klen(m) > bpp:
            return False
        rng_.append((s, s + klen(m)))
    rng_.sort()
    return rng_[0][1] <= rng_[1][0] and rng_[1][1] <= rng_[2][0]


def pf_eq(x, y):
    """spec-level 'identical formats' (RFB: same bpp, depth, byte order unless 8 bpp, same true-colour layout)"""
    if x[0] != y[0] or x[1] != y[1] or (x[0] != 8 and x[2] != y[2]) or (not x[3]) != (not y[3]):
        return False
    return (not x[3]) or x[4:] == y[4:]


BGR233 = (8, 8, 0, 1, 7, 7, 3, 0, 3, 6)


def bgr233_map_msg():
    out = bytearray([1, 0, 0, 0, 1, 0])
    for b in range(4):
        for g in range(8):
            for r in range(8):
                for v in (r * 65535 // 7, g * 65535 // 7, b * 65535 // 3):
                    out += bytes([v >> 8, v & 255])
    return bytes(out)


# ---------------------------------------------------------------- case construction
def pix_bytes_host(v, isz):
    return int(v).to_bytes(isz, "little")


def build_input(pixels, w, h, isz, stride, slack, rng, filler=None):
    """rows of w pixels (host-order values), row padding and `slack` bytes after the last pixel"""
    buf = bytearray()
    for r in range(h):
        row = b"".join(pix_bytes_host(pixels[r * w + x], isz) for x in range(w))
        if r < h - 1:
            pad = stride - len(row)
            row += bytes(rng.randrange(256) for _ in range(pad)) if filler is None else bytes([filler]) * pad
        buf += row
    buf += bytes(rng.randrange(256) for _ in range(slack))
    return bytes(buf)


def sweep_values(rng, sf, budget):
    """source pixel values: exhaustive for <= 16 bpp when the budget allows, otherwise every component
    value of every channel (other channels random) plus boundary pixels"""
    bpp = sf[0]
    full = 1 << bpp
    if bpp <= 16 and full <= budget:
        return list(range(full)), "exhaustive"
    vals = [0, full - 1, 1, full >> 1]
    comps = [(sf[4], sf[7]), (sf[5], sf[8]), (sf[6], sf[9])]
    per = max(8, (budget - 8) // 3)
    for ci, (m, s) in enumerate(comps):
        m = max(1, m)
        if m + 1 <= per:
            cs = range(m + 1)
        else:
            cs = sorted(set([0, 1, 2, m // 2 - 1, m // 2, m // 2 + 1, m - 2, m - 1, m] +
                            [rng.randint(0, m) for _ in range(per - 9)]))
        for c in cs:
            base = rng.randrange(full)
            v = (base & ~((m << s) & (full - 1))) | ((c << s) & (full - 1))
            vals.append(v & (full - 1))
    return vals, "per-channel"


def case_lines(k, cls, sf, cf, econ, cmap, ops):
    L = ["case %d %s" % (k, cls), fmt_line("sf", sf), fmt_line("cf", cf), "econ %d" % econ]
    if cmap is not None:
        L.append("cmap %d %d %s" % (cmap[0], cmap[1], " ".join(map(str, cmap[2]))))
    L.append("setup")
    return L + ops


def xlate_ops(rng, sf, values, mode="grid", slack=0):
    """xlate/extent ops translating the given source values"""
    isz = sf[0] // 8
    n = len(values)
    ops = []
    if mode == "grid":
        w = rng.choice([1, 2, 3, 5, 7, 16, 17, 64, 251, 256]) if n > 16 else rng.randint(1, max(1, n))
        w = min(w, n)
        h = (n + w - 1) // w
        values = values + [values[rng.randrange(n)] for _ in range(w * h - n)]
        stride = w * isz + rng.choice([0, 0, isz, 2 * isz, 3 * isz, 16 * isz])
    else:
        w, h = n, 1
        stride = w * isz
    inp = build_input(values, w, h, isz, stride, slack, rng)
    ops.append("xlate %d %d %d %s" % (stride, w, h, inp.hex()))
    return ops, (w, h, stride, values)


def gen_cases(ctx):
    rng = ctx.rng
    quick = ctx.quick()
    cases = []

    FLAG_BYTES = [1, 1, 2, 128, 255, 255]

    def add(cls, sf, cf, econ=0, cmap=None, ops=(), wire=None):
        L = case_lines(len(cases), cls, sf, cf, econ, cmap, list(ops))
        if wire is None:
            wire = rng.random() < 0.4
        if wire:         # the client format arrives in a real SetPixelFormat message, flags as arbitrary non-zero bytes
            i = L.index("setup")
            L[i] = "setupmsg %d %d" % (rng.choice(FLAG_BYTES) if cf[2] else 0, rng.choice(FLAG_BYTES) if cf[3] else 0)
        cases.append(L)

    # corpus first
    cdir = os.path.join(vlib.VERIF, "corpus", "C10")
    if os.path.isdir(cdir):
        for fn in sorted(os.listdir(cdir)):
            lines = [l for l in open(os.path.join(cdir, fn)).read().split("\n") if l.strip()]
            if not lines:
                continue
            if lines[0].startswith("case "):
                lines[0] = "case %d corpus:%s %s" % (len(cases), fn, " ".join(lines[0].split()[2:]))
            else:
                lines = ["case %d corpus:%s" % (len(cases), fn)] + lines
            cases.append(lines)

    def geom_ops(sf, cf_bpp, slack24=True):
        """small random areas: strides, zero-size, extents"""
        isz = sf[0] // 8
        ops = []
        for _ in range(3):
            w, h = rng.choice([0, 1, 1, 2, 3, 5, 8]), rng.choice([0, 1, 1, 2, 3, 4])
            stride = w * isz + rng.choice([0, 0, isz, 3 * isz, 5 * isz]) + (rng.choice([0, 0, 0, 1, isz - 1]) if isz > 1 else 0)
            vals = [rng.randrange(1 << sf[0]) for _ in range(w * h)]
            slack = 0
            if sf[0] == 24 and w * h > 0:
                slack = rng.choice([0, 1, 1, 2])
            ops.append("extent %d %d %d" % (stride, w, h))
            # rows are laid out at the stride the C code actually uses (stride rounded down to pixels)
            eff = stride if isz == 3 else (stride // isz) * isz
            inp = build_input(vals, w, h, isz, eff, slack, rng)
            ops.append("xlate %d %d %d %s" % (stride, w, h, inp.hex()))
        return ops

    budget16 = 65536
    budget32 = 1024 if quick else 6144
    # 1. catalogue pairs (true colour, supported domain), both client byte orders, both strategies for 16 bpp
    cat = CATALOGUE
    n_cat_full16 = 0
    pairs = [(a, b) for a in cat for b in cat if b[1][0] != 24]
    rng.shuffle(pairs)
    npairs = 60 if quick else len(pairs)
    for (sn, sf), (cn, cf) in pairs[:npairs]:
        cbe = rng.randint(0, 1)
        cf2 = with_be(cf, cbe)
        econ = rng.randint(0, 1) if sf[0] == 16 else rng.randint(0, 1)
        if sf[0] == 16:
            n_cat_full16 += 1
            bud = budget16 if (not quick or n_cat_full16 <= 4) else 2048
        elif sf[0] == 8:
            bud = 256
        else:
            bud = budget32
        vals, how = sweep_values(rng, sf, bud)
        slack = 1 if sf[0] == 24 else 0
        ops, _ = xlate_ops(rng, sf, vals, slack=slack)
        add("tc cat:%s>%s %s" % (sn, cn, how), sf, cf2, econ, None, ops + geom_ops(sf, cf2[0]))
    # 2. random supported pairs
    nrand = 120 if quick else 2500
    full16 = 0
    for _ in range(nrand):
        sb = rng.choice([8, 16, 16, 24, 32, 32])
        cb = rng.choice([8, 16, 32, 32])
        sf = rand_fmt(rng, sb, be=0)
        cf = rand_fmt(rng, cb)
        econ = rng.randint(0, 1)
        if sb == 16:
            full16 += 1
            bud = budget16 if (full16 <= (3 if quick else 150)) else 1024
        elif sb == 8:
            bud = 256
        else:
            bud = budget32 if rng.random() < 0.3 else 512
        vals, how = sweep_values(rng, sf, bud)
        ops, _ = xlate_ops(rng, sf, vals, slack=1 if sb == 24 else 0)
        if rng.random() < 0.1:      # rfbSetClientColourMap must not touch the table of a true-colour server
            ops.append("recmap 1 %d 2 1 2 3 250 251 252" % rng.randint(0, 1))
            o3, _ = xlate_ops(rng, sf, vals[:64], slack=1 if sb == 24 else 0)
            ops += o3
        add("tc rand %s" % how, sf, cf, econ, None, ops + geom_ops(sf, cb))
    # 2b. 24-bpp clients (outside the property's stated client domain 8/16/32, but accepted by the library when
    #     LIBVNCSERVER_ALLOW24BPP): single-table and three-table paths of tabletrans24template.c
    for _ in range(24 if quick else 300):
        sb = rng.choice([8, 16, 16, 24, 32, 32])
        sf = rand_fmt(rng, sb, be=0) if rng.random() < 0.7 else rng.choice([c[1] for c in cat if c[1][0] == sb])
        cf = rand_fmt(rng, 24) if rng.random() < 0.7 else with_be(rng.choice([cat[11][1], cat[12][1], cat[13][1]]), rng.randint(0, 1))
        vals, how = sweep_values(rng, sf, 256 if sb != 16 or rng.random() < 0.8 else 65536)
        ops, _ = xlate_ops(rng, sf, vals, slack=1 if sb == 24 else 0)
        add("tc c24 %s" % how, sf, cf, rng.randint(0, 1), None, ops + geom_ops(sf, 24))
    # 3. 16-bit -> 16-bit components (int overflow in the table initialiser, F10b)
    for _ in range(3 if quick else 12):
        sf = F(32, 0, 65535, 255, 255, *rng.choice([(0, 16, 24), (16, 0, 8), (8, 24, 0)]))
        cf = F(32, rng.randint(0, 1), 65535, 255, 255, *rng.choice([(16, 0, 8), (0, 16, 24)]))
        vals, how = sweep_values(rng, sf, 600)
        m, s = sf[4], sf[7]
        vals += [((c << s) | (rng.randrange(1 << 32) & ~(m << s))) & 0xFFFFFFFF for c in (32768, 32769, 32770, 49152, 65534, 65535)]
        ops, _ = xlate_ops(rng, sf, vals)
        add("tc ovf16", sf, cf, rng.randint(0, 1), None, ops)
    # 4. server byte order differs from the host's (F10c)
    for _ in range(6 if quick else 40):
        sb = rng.choice([8, 16, 32, 24])
        sf = rand_fmt(rng, sb, be=1)
        cf = rand_fmt(rng, rng.choice([8, 16, 32]))
        vals, how = sweep_values(rng, sf, 256)
        ops, _ = xlate_ops(rng, sf, vals, slack=1 if sb == 24 else 0)
        add("tc sbe", sf, cf, rng.randint(0, 1), None, ops)
    # 5. identical formats -> verbatim copy (incl. 8 bpp with different byte-order flag, colour-map servers)
    for _ in range(25 if quick else 300):
        sb = rng.choice([8, 16, 24, 32])
        sf = rand_fmt(rng, sb, be=rng.randint(0, 1)) if rng.random() < 0.7 else with_be(rng.choice(cat)[1], rng.randint(0, 1))
        cf = sf
        if sf[0] == 8 and rng.random() < 0.5:
            cf = with_be(sf, 1 - sf[2])
        cls = "same"
        if rng.random() < 0.25:            # near misses: must NOT be treated as identical
            j = rng.choice([1, 2, 7, 8, 9])
            if j == 1:
                cf = cf[:1] + (cf[1] - 1 if cf[1] > 1 else cf[1] + 1,) + cf[2:]
            elif j == 2 and cf[0] != 8:
                cf = with_be(cf, 1 - cf[2])
            cls = "nearsame"
        ops = geom_ops(sf, cf[0])
        vals = [rng.randrange(1 << sf[0]) for _ in range(40)]
        o2, _ = xlate_ops(rng, sf, vals, slack=1 if (sf[0] == 24 and cls != "same") else 0)
        add(cls, sf, cf, rng.randint(0, 1), None, ops + o2)
    # 6. colour-map clients (BGR233 map) and unsupported colour-map clients
    for _ in range(8 if quick else 60):
        sb = rng.choice([8, 16, 32, 24])
        sf = rand_fmt(rng, sb, be=0) if rng.random() < 0.7 else rng.choice([c for c in cat])[1]
        cb = 8 if rng.random() < 0.8 else rng.choice([16, 32])
        cf = (cb, rng.choice([8, cb]), rng.randint(0, 1), 0, rng.randrange(65536), rng.randrange(65536), rng.randrange(65536),
              rng.randrange(32), rng.randrange(32), rng.randrange(32))
        if rng.random() < 0.2:
            sf = BGR233                      # colour-map client on a BGR233 server: no translation
        vals, how = sweep_values(rng, sf, 256)
        ops, _ = xlate_ops(rng, sf, vals, slack=1 if sf[0] == 24 else 0)
        add("cmclient", sf, cf, rng.randint(0, 1), None, ops)
    # 7. colour-map servers (8 / 16 bpp)
    for _ in range(16 if quick else 160):
        sb = rng.choice([8, 8, 16])
        is16 = rng.randint(0, 1)
        count = rng.choice([0, 1, 2, 16, 255, 256]) if sb == 8 else rng.choice([0, 1, 200, 256, 257, 400])
        lim = 65535 if is16 else 255
        data = [rng.choice([0, lim, rng.randint(0, lim)]) for _ in range(3 * count)]
        sf = (sb, sb, rng.randint(0, 1) if rng.random() < 0.2 else 0, 0, 0, 0, 0, 0, 0, 0)
        cf = rand_fmt(rng, rng.choice([8, 16, 32]))
        if sb == 8:
            vals = list(range(256))
        else:
            vals = list(range(min(count + 8, 65536))) + [65535, 32768, rng.randrange(65536)]
        ops, _ = xlate_ops(rng, sf, vals)
        # the application changes the map and calls rfbSetClientColourMap: ready / not ready, other width, other count
        for _r in range(rng.choice([0, 1, 1, 2])):
            ready = rng.choice([1, 1, 1, 0])
            is16b = rng.randint(0, 1)
            countb = rng.choice([0, 1, 3, 17, 256]) if sb == 8 else rng.choice([0, 2, 256, 300])
            limb = 65535 if is16b else 255
            datab = [rng.choice([0, limb, rng.randint(0, limb)]) for _ in range(3 * countb)]
            ops.append("recmap %d %d %d %s" % (ready, is16b, countb, " ".join(map(str, datab))))
            o3, _ = xlate_ops(rng, sf, vals[:300])
            ops += o3
        add("cmserver", sf, cf, rng.randint(0, 1), (is16, count, data), ops + geom_ops(sf, cf[0]))
    # 7b. the application replaces the framebuffer (rfbNewFramebuffer) while the client is connected: the client's
    #     function and table must follow the new server format, incl. changes of the trueColour flag only
    for _ in range(16 if quick else 150):
        kind = rng.choice(["cm8", "cm8", "same", "other", "rand", "samebpp", "samebpp"])
        cf = rand_fmt(rng, rng.choice([8, 16, 32])) if rng.random() < 0.8 else (8, 8, 0, 0, 0, 0, 0, 0, 0, 0)
        cmap = None
        if kind == "cm8":        # colour-mapped 8-bit server with the default layout fields, then true colour
            sf = (8, 8, 0, 0, 7, 7, 3, 0, 3, 6)
            is16 = rng.randint(0, 1)
            lim = 65535 if is16 else 255
            cmap = (is16, 256, [rng.choice([0, lim, rng.randint(0, lim)]) for _ in range(768)])
            nb = [(rng.choice([2, 8]), 1, 1)] + ([(5, 3, 2)] if rng.random() < 0.3 else [])
        else:
            bpp0 = rng.choice([1, 2, 4])
            bps0 = {1: 2, 2: 5, 4: rng.choice([8, 10])}[bpp0]
            sf = init_server_format(bps0, bpp0) if kind != "rand" else rand_fmt(rng, 8 * bpp0, be=0)
            if kind == "samebpp":     # same pixel size, other bitsPerSample: only maxima and shifts change
                bpp0 = rng.choice([2, 4])
                a_, b_ = rng.sample([3, 4, 5] if bpp0 == 2 else [4, 6, 8, 10], 2)
                sf = init_server_format(a_, bpp0)
                nb = [(b_, 3, bpp0)] + ([(a_, 3, bpp0)] if rng.random() < 0.5 else [])
            elif kind == "same":
                nb = [(bps0, 3, bpp0), (bps0, 3, bpp0)]
            else:
                bpp1 = rng.choice([1, 2, 3, 4])
                nb = [({1: 2, 2: rng.choice([4, 5]), 3: 8, 4: rng.choice([8, 10])}[bpp1], 3, bpp1)]
                if rng.random() < 0.5:
                    nb.append(({1: 2, 2: 5, 3: 8, 4: 8}[bpp0], 3, bpp0))
        vals0, _ = sweep_values(rng, sf, 256)
        ops, _ = xlate_ops(rng, sf, vals0, slack=1 if sf[0] == 24 else 0)
        cur = sf
        for (bps1, spp1, bpp1) in nb:
            ops.append("newfb %d %d %d" % (bps1, spp1, bpp1))
            cur = init_server_format(bps1, bpp1)
            v1, _ = sweep_values(rng, cur, 256)
            o2, _ = xlate_ops(rng, cur, v1)
            ops += o2
            if rng.random() < 0.3:
                ops.append("extent %d 2 2" % (2 * (cur[0] // 8)))
        add("newfb " + kind, sf, cf, rng.randint(0, 1), cmap, ops)
    # 7c. byte-order / true-colour flags through the wire, big-endian server formats declared by the application
    #     (verbatim copy for identical formats, no swap for equal byte orders whatever the flag byte values)
    for _ in range(16 if quick else 150):
        sb = rng.choice([16, 16, 32, 8])
        sf = rand_fmt(rng, sb, be=rng.choice([1, 1, 0]))
        r = rng.random()
        if r < 0.45:
            cf = sf
        elif r < 0.6 and sb != 8:
            cf = with_be(sf, 1 - sf[2])
        else:
            cf = rand_fmt(rng, rng.choice([8, 16, 32]), be=sf[2] if rng.random() < 0.7 else None)
        vals, how = sweep_values(rng, sf, 256)
        ops, _ = xlate_ops(rng, sf, vals)
        add("wire " + ("same" if cf == sf else "diff"), sf, cf, rng.randint(0, 1), None, ops, wire=True)
    # 8. 24-bpp servers: area exactness (F10): input ends exactly at the guard page
    for _ in range(6 if quick else 40):
        sf = rand_fmt(rng, 24, be=0) if rng.random() < 0.6 else CATALOGUE[11][1]
        cf = rand_fmt(rng, rng.choice([8, 16, 32]))
        ops = []
        for _ in range(3):
            w, h = rng.randint(1, 6), rng.randint(1, 4)
            stride = 3 * w + rng.choice([0, 0, 3, 5])
            vals = [rng.randrange(1 << 24) for _ in range(w * h)]
            ops.append("extent %d %d %d" % (stride, w, h))
            ops.append("xlate %d %d %d %s" % (stride, w, h, build_input(vals, w, h, 3, stride, 0, rng).hex()))
        add("s24 area", sf, cf, 0, None, ops)
    # 9. malformed / outside the supported domain: correspondence only
    for _ in range(40 if quick else 600):
        r = rng.random()
        sb = rng.choice([8, 16, 16, 32])
        cb = rng.choice([8, 16, 32])

        def wild(bpp):
            return (bpp, rng.choice([bpp, 1, 24, 255]), rng.randint(0, 1), 1,
                    rng.choice([0, 1, 5, 100, 255, 256, 1023, 65535, rng.randrange(65536)]) or 1,
                    rng.choice([1, 6, 63, 255, 4095, 65535, rng.randrange(1, 65536)]),
                    rng.choice([1, 3, 31, 255, 65535, rng.randrange(1, 65536)]),
                    rng.randrange(min(bpp, 31) + 1) if bpp <= 16 else rng.randrange(32),
                    rng.randrange(min(bpp, 31) + 1) if bpp <= 16 else rng.randrange(32),
                    rng.randrange(min(bpp, 31) + 1) if bpp <= 16 else rng.randrange(32))
        if r < 0.15:
            sf = rand_fmt(rng, sb, be=0)
            cf = rand_fmt(rng, cb)
            bad = rng.choice([0, 1, 4, 7, 15, 17, 24 + 1, 31, 33, 64, 255])
            if rng.random() < 0.5:
                sf = (bad,) + sf[1:]
            else:
                cf = (bad,) + cf[1:]
            add("malformed bpp", sf, cf, rng.randint(0, 1), None, ["xlate 4 1 1 00000000"])
            continue
        if r < 0.22:
            sf = rand_fmt(rng, sb, be=0)
            z = rng.choice([4, 5, 6])
            sf = sf[:z] + (0,) + sf[z + 1:]
            add("malformed zeromax", sf, rand_fmt(rng, cb), rng.randint(0, 1), None, ["xlate 4 1 1 00000000"])
            continue
        sf = wild(sb) if rng.random() < 0.6 else rand_fmt(rng, sb, be=rng.randint(0, 1))
        cf = wild(cb)
        if sb == 32:
            # RGB tables are indexed by (pixel >> shift) & max: any max is fine; out shifts >= 32 are defined (entry 0)
            if rng.random() < 0.3:
                cf = cf[:7] + (rng.choice([32, 40, 255]),) + cf[8:]
        vals = [rng.randrange(1 << sb) for _ in range(96)] + [0, (1 << sb) - 1]
        ops, _ = xlate_ops(rng, sf, vals)
        add("malformed fmt", sf, cf, rng.randint(0, 1), None, ops + geom_ops(sf, cb))
    return cases


# ---------------------------------------------------------------- spec oracle (python; independent of the mirror model)
def parse_case(lines):
    d = {"sf": None, "cf": None, "econ": 0, "cmap": None, "ops": []}
    for l in lines[1:]:
        p = l.split()
        if p[0] in ("sf", "cf"):
            d[p[0]] = tuple(int(x) for x in p[1:11])
        elif p[0] == "econ":
            d["econ"] = int(p[1])
        elif p[0] == "cmap":
            d["cmap"] = (int(p[1]), int(p[2]), [int(x) for x in p[3:]])
        elif p[0] in ("setup", "setupmsg", "newfb", "xlate", "extent", "recmap"):
            d["ops"].append(p)
    return d


def decode_src(sf, b):
    """source pixel value as the SERVER FORMAT describes it (its own byte-order flag)"""
    return int.from_bytes(b, "big" if sf[2] else "little")


def expect_pixel(sf, cf, p, cmap):
    """the client pixel value required by the property for source pixel value p"""
    if sf[3]:
        out = 0
        for (im, ish, om, osh) in ((sf[4], sf[7], cf[4], cf[7]), (sf[5], sf[8], cf[5], cf[8]), (sf[6], sf[9], cf[6], cf[9])):
            c = (p >> ish) & im
            out |= ((c * om + im // 2) // im) << osh
        return out
    is16, count, data = cmap
    sh = 16 if is16 else 8
    rgb = data[3 * p:3 * p + 3] if p < count else [0, 0, 0]
    out = 0
    for c, om, osh in zip(rgb, (cf[4], cf[5], cf[6]), (cf[7], cf[8], cf[9])):
        out |= ((c * (om + 1)) >> sh) << osh
    return out


def init_server_format(bps, bytespp):
    """the server format the documented call rfbNewFramebuffer(screen, fb, w, h, bitsPerSample, samplesPerPixel,
    bytesPerPixel) establishes on a little-endian host: true colour, host byte order, samples packed from bit 0"""
    b = 8 * bytespp
    if b == 8:
        return (8, 8, 0, 1, 7, 7, 3, 0, 3, 6)
    m = ((1 << bps) - 1) & 0xFFFF
    return (b, b, 0, 1, m, m, m, 0, bps & 255, (2 * bps) & 255)


def oracle_case(lines, impl_lines):
    """returns None or (message, features, (op_index, pixel_index))"""
    d = parse_case(lines)
    sf, cf = d["sf"], d["cf"]
    cls = lines[0].split()[2] if len(lines[0].split()) > 2 else ""
    if cls == "malformed" or sf is None or cf is None:
        return None
    client_cm = not cf[3]
    cfe = BGR233 if client_cm else cf
    client_ok = (cf[0] == 8) if client_cm else fmt_ok(cf)

    def describe(sf):
        strat = "single" if (sf[0] < 16 or ((not sf[3] or not d["econ"]) and sf[0] == 16)) else "rgb"
        feat = {"sbpp": sf[0], "cbpp": cf[0], "sbe": sf[2], "cbe": cf[2], "stc": sf[3], "ctc": cf[3], "econ": d["econ"],
                "strategy": strat,
                "ovf16": bool(sf[3] and any(a == 65535 and b == 65535 for a, b in zip(sf[4:7], cf[4:7])))}
        return feat, (fmt_ok(sf) if sf[3] else sf[0] in (8, 16))
    feat, server_ok = describe(sf)
    it = iter(impl_lines)
    setup_fn = None
    pad_leak = None
    cur_cmap = d["cmap"] or (0, 0, [])
    for oi, p in enumerate(d["ops"]):
        try:
            line = next(it)
        except StopIteration:
            return ("implementation produced no observation for '%s' (crash?)" % " ".join(p)[:60], dict(feat, kind="crash"), (oi, 0))
        q = line.split()
        if p[0] == "newfb":
            # the application replaced the framebuffer: from now on the pixels are in the new server format
            sf = init_server_format(int(p[1]), int(p[3]))
            feat, server_ok = describe(sf)
            cur_cmap = (0, 0, [])
            if setup_fn is None:
                continue
            if not (server_ok and fmt_ok(cfe)):
                setup_fn = None
                continue
            if " sf=" not in line or " client ok=1" not in line:
                return ("rfbNewFramebuffer with a supported format: " + line[:60], dict(feat, kind="newfb"), (oi, 0))
            got_sf = tuple(int(x) for x in line.split(" sf=")[1].split(" client ")[0].split())
            if got_sf != sf:
                return ("server format after rfbNewFramebuffer is %s, expected %s" % (got_sf, sf), dict(feat, kind="newfb"), (oi, 0))
            continue
        if p[0] in ("setup", "setupmsg"):
            if client_cm and cf[0] != 8:
                if line != "setup ok=0":
                    return ("colour-map client with %d bpp accepted" % cf[0], dict(feat, kind="setup"), (oi, 0))
                return None
            if not (server_ok and client_ok):
                return None
            if not line.startswith("setup ok=1"):
                return ("supported format pair rejected: " + line[:40], dict(feat, kind="setup"), (oi, 0))
            kv = dict(x.split("=", 1) for x in q[1:] if "=" in x)
            setup_fn = kv["fn"]
            got_cf = tuple(int(x) for x in line.split(" cf=")[1].split(" msg=")[0].split())
            if got_cf != cfe:
                return ("effective client format is %s, expected %s" % (got_cf, cfe), dict(feat, kind="setup"), (oi, 0))
            want_msg = bgr233_map_msg().hex() if client_cm else "-"
            if client_cm and kv["msg"][:2] == "01" and kv["msg"][2:4] != "00" and kv["msg"][4:] == want_msg[4:]:
                pad_leak = ("the padding byte of the SetColourMapEntries message sent to a colour-map client is 0x%s: "
                            "uninitialised stack memory (the harness pre-fills the stack with 0x5a)" % kv["msg"][2:4],
                            dict(feat, kind="padleak"), (oi, 0))
                kv["msg"] = kv["msg"][:2] + "00" + kv["msg"][4:]
            if kv["msg"] != want_msg:
                return ("bytes sent to the client at format change are not %s" %
                        ("the BGR233 colour map" if client_cm else "empty"), dict(feat, kind="cmapmsg"), (oi, 0))
            continue
        if setup_fn is None:
            return None
        if p[0] == "recmap":
            if not line.startswith("recmap ret=1"):
                return ("rfbSetClientColourMap: " + line[:40], dict(feat, kind="recmap"), (oi, 0))
            if not sf[3] and int(p[1]) and " mod=full" not in line:
                return ("rfbSetClientColourMap rebuilt the table but did not mark the whole screen as modified: " + line[:40],
                        dict(feat, kind="recmap"), (oi, 0))
            if not sf[3] and int(p[1]):          # colour-map server, client ready: the new map applies from now on
                cur_cmap = (int(p[2]), int(p[3]), [int(v) for v in p[4:]])
            continue
        stride, w, h = int(p[1]), int(p[2]), int(p[3])
        isz, osz = sf[0] // 8, cfe[0] // 8
        aligned = (stride % isz == 0)
        area_end = ((h - 1) * stride + w * isz) if (w > 0 and h > 0) else 0
        if p[0] == "extent":
            if not aligned:
                continue
            if q[1] != "hi=%d" % area_end:
                return ("translating a %dx%d area (stride %d) reads input up to byte %s, the area ends at byte %d" %
                        (w, h, stride, q[1], area_end), dict(feat, kind="overread"), (oi, 0))
            continue
        inp = bytes.fromhex(p[4]) if len(p) > 4 else b""
        if not aligned:
            continue
        if line.startswith("xlate FAULT"):
            at = int(q[2].split("=")[1])
            if len(inp) >= area_end and at >= area_end:
                return ("read fault at input offset %d: beyond the %dx%d area which ends at byte %d" % (at, w, h, area_end),
                        dict(feat, kind="overread"), (oi, 0))
            continue      # input shorter than the area: the fault is legitimate
        if not line.startswith("xlate out="):
            return ("translate: " + line[:60], dict(feat, kind="memory"), (oi, 0))
        out = bytes.fromhex(line[len("xlate out="):])
        if len(out) != w * h * osz:
            return ("output length %d != w*h*bytes per pixel = %d" % (len(out), w * h * osz), dict(feat, kind="length"), (oi, 0))
        for r in range(h):
            base = r * stride
            for x in range(w):
                src = inp[base + x * isz: base + (x + 1) * isz]
                got = out[(r * w + x) * osz:(r * w + x + 1) * osz]
                if pf_eq(cfe, sf):
                    want = src          # identical formats: verbatim, whatever function was selected
                else:
                    pv = expect_pixel(sf, cfe, decode_src(sf, src), cur_cmap)
                    want = pv.to_bytes(osz, "big" if cfe[2] else "little")
                if got != want:
                    kind = "identity" if pf_eq(cfe, sf) else ("cmvalue" if not sf[3] else "value")
                    return ("pixel %s of server format %s translated to client format %s gives bytes %s, the rule requires %s" %
                            (src.hex(), sf, cfe, got.hex(), want.hex()), dict(feat, kind=kind), (oi, r * w + x))
    return pad_leak


PAD_INITIALISED = [False]
SWITCHES = {}
CRASHES = []


def read_switches():
    """source switches regenerated into coq/Gen/Consts_C10.v (tools/consts.d/C10.json)"""
    sw = {}
    try:
        txt = open(os.path.join(vlib.COQ, "Gen", "Consts_C10.v")).read()
        for name in ("c10_load24_probe", "c10_scale_probe", "c10_rgb24_probe", "c10_pad_probe"):
            i = txt.index("Definition %s " % name)
            body = txt[i:txt.index("\n", i)].split(":=", 1)[1]
            sw[name] = [int(t) for t in body.replace("[", " ").replace("]", " ").replace("(", " ").replace(")", " ")
                        .replace(";", " ").replace(".", " ").split()]
    except (OSError, ValueError):
        pass
    PAD_INITIALISED[0] = (sw.get("c10_pad_probe") == [0])
    return sw


def canon(line):
    """while the library never initialises the padding byte of its SetColourMapEntries message (finding F10e,
    switch c10_pad_probe) that byte is not an observable of the correspondence: masked before the diff"""
    if PAD_INITIALISED[0]:
        return line
    if line.startswith("setup ok=1") and " msg=01" in line:
        i = line.index(" msg=") + 5
        return line[:i + 2] + "00" + line[i + 4:]
    return line


def canon_case(lines):
    """canonical observation lines of one case for the model/implementation diff: padding byte (see canon) and,
    while the verbatim function (memcpy) is installed, the offset of a read fault: which byte of a copy that
    crosses the end of the input memcpy touches first is a property of the C library, not of libvncserver
    (observed: 'FAULT at=49' for a row whose first inaccessible byte is 48)"""
    out, fn = [], None
    for l in lines:
        l = canon(l)
        if l.startswith("setup ok=1 fn=") or " client ok=1 fn=" in l:
            fn = l.split(" fn=")[1].split()[0]
        elif l.startswith("setup ") or (l.startswith("newfb ") and " client ok=1" not in l):
            fn = None
        if fn == "none" and l.startswith("xlate FAULT at="):
            l = "xlate FAULT at=*"
        out.append(l)
    return out


# ---------------------------------------------------------------- running
def run_chunks(exe, cases, nproc, unlimited_stack=False, timeout=3000):
    """split the case list over nproc driver processes; returns (rc, out, err) concatenated in order"""
    if not cases:
        return 0, "", ""
    # balance by script size
    sizes = [sum(len(l) for l in c) for c in cases]
    tot = sum(sizes)
    chunks, cur, acc = [], [], 0
    for c, s in zip(cases, sizes):
        cur.append(c)
        acc += s
        if acc >= tot / nproc and len(chunks) < nproc - 1:
            chunks.append(cur)
            cur, acc = [], 0
    if cur:
        chunks.append(cur)

    def one(ch):
        # a driver that dies (ASan abort, uncaught signal) loses only the case it died in: the rest of the chunk
        # is re-run, the death is recorded in CRASHES with the sanitizer report
        rc_all, out_all, err_all = 0, "", ""
        for _ in range(25):
            script = "\n".join("\n".join(c) for c in ch) + "\n"
            rc, out, err = vlib.run_driver(exe, script, timeout=timeout, unlimited_stack=unlimited_stack)
            out_all += out
            if rc == 0:
                break
            rc_all = rc
            err_all += err[-3000:]
            seen = [l for l in out.split("\n") if l.startswith("case ")]
            k = len(seen) - 1
            if k < 0 or k >= len(ch) or ch[k][0] != seen[-1]:
                break
            CRASHES.append((ch[k], rc, err[-3000:], os.path.basename(exe if isinstance(exe, str) else exe[0])))
            if not out.endswith("\n"):
                out_all += "\n"
            ch = ch[k + 1:]
            if not ch:
                break
        return rc_all, out_all, err_all
    with concurrent.futures.ThreadPoolExecutor(max_workers=nproc) as ex:
        res = list(ex.map(one, chunks))
    rc = max(abs(r[0]) for r in res)
    return rc, "".join(r[1] for r in res), "\n".join(r[2] for r in res if r[2])


def run_pair(cases, cexe, mexe, nproc=1):
    a = run_chunks(cexe, cases, max(1, nproc // 3) if nproc > 1 else 1)
    b = run_chunks(mexe, cases, nproc, unlimited_stack=True)
    return a, b


def minimal_case(lines, op_index, pix_index):
    """reduce a failing case to the single failing pixel"""
    d = parse_case(lines)
    p = d["ops"][op_index]
    head, seen = [], -1
    for l in lines:
        k = l.split()[0]
        if k in ("setup", "setupmsg", "newfb", "xlate", "extent", "recmap"):
            seen += 1
            if seen >= op_index:
                break
        if k in ("case", "sf", "cf", "econ", "cmap", "setup", "setupmsg", "newfb", "recmap"):
            head.append(l)
    if p[0] in ("setup", "setupmsg", "newfb"):
        return head + [" ".join(p)]
    if p[0] != "xlate":
        return head + [" ".join(p)]
    cur_sf = d["sf"]
    for hl in head:
        hp = hl.split()
        if hp[0] == "newfb":
            cur_sf = init_server_format(int(hp[1]), int(hp[3]))
    isz = cur_sf[0] // 8
    stride, w, h = int(p[1]), int(p[2]), int(p[3])
    inp = bytes.fromhex(p[4]) if len(p) > 4 else b""
    r, x = divmod(pix_index, max(w, 1))
    off = r * stride + x * isz
    px = inp[off:off + isz]
    area_end = ((h - 1) * stride + w * isz) if (w > 0 and h > 0) else 0
    extra = inp[area_end:]                 # keep the slack bytes the case had
    return head + ["xlate %d 1 1 %s" % (isz, (px + extra).hex())]


def build(ctx):
    cexe = vlib.build_harness("vdrv_translate", ["vdrv_translate.c"])
    proof_ok = vlib.prove(ctx, PROP_FILE, [EXTRACT])
    # the extraction always writes to /verif/build/ocaml/C10 (path relative to coq/); with a scratch
    # VERIF_BUILD the driver is built there from a copy
    src = os.path.join(vlib.VERIF, "build", "ocaml", "C10")
    dst = os.path.join(vlib.BUILD, "ocaml", "C10")
    if os.path.abspath(src) != os.path.abspath(dst):
        os.makedirs(dst, exist_ok=True)
        for n in ("model.ml", "model.mli"):
            if os.path.exists(os.path.join(src, n)):
                open(os.path.join(dst, n), "w").write(open(os.path.join(src, n)).read())
    mexe = vlib.build_ocaml("C10", "driver_C10.ml", EXTRACT)
    SWITCHES.clear()
    SWITCHES.update(read_switches())
    return cexe, mexe, proof_ok


def check(ctx):
    cexe, mexe, proof_ok = build(ctx)
    cases = gen_cases(ctx)
    del CRASHES[:]
    nproc = 6 if ctx.quick() else 10
    (rc1, cout, cerr), (rc2, mout, merr) = run_pair(cases, cexe, mexe, nproc)
    cc, mc = vlib.split_cases(cout), vlib.split_cases(mout)
    by_hdr_c = {c[0]: c[1] for c in cc}
    by_hdr_m = {c[0]: c[1] for c in mc}
    hist, distinct, npix = {}, set(), 0
    mismatches, oracle_fail = [], []
    for idx, c in enumerate(cases):
        il = by_hdr_c.get(c[0], [])
        ml = by_hdr_m.get(c[0], [])
        d = vlib.first_diff(canon_case(il), canon_case(ml))
        if d is not None:
            mismatches.append((idx, d))
        hp = c[0].split()
        cls = hp[2] if len(hp) > 2 else "?"
        if cls in ("tc", "malformed", "s24", "newfb", "wire") and len(hp) > 3:
            cls += " " + hp[3].split(":")[0]
        if cls.startswith("corpus:"):
            cls = "corpus"
        hist[cls] = hist.get(cls, 0) + 1
        pc = parse_case(c)
        nv = 0
        for p in pc["ops"]:
            if p[0] == "xlate":
                nv += int(p[2]) * int(p[3])
        npix += nv
        if il and il[0].startswith("setup ok=1 fn=table") and nv >= 16 and pc["sf"] and pc["cf"]:
            distinct.add((pc["sf"], pc["cf"], pc["econ"]))
        e = oracle_case(c, il)
        if e:
            oracle_fail.append((idx, e))
    if rc1 != 0 and not oracle_fail and not mismatches:
        mismatches.append((0, (0, "implementation driver exited with %d: %s" % (rc1, cerr[-400:]), "")))
    ctx.coverage.update(
        evaluations=npix, distinct_nontrivial=len(distinct),
        rule="every evaluation = one source pixel translated by the function rfbSetTranslateFunction selected, on the real "
             "library and on the extracted Coq model, all observables compared, property predicate evaluated on the "
             "implementation output. distinct_nontrivial = distinct (server format, client format, economic switch) "
             "triples that selected a table-driven function and translated >= 16 pixels",
        samples=[[l[:200] for l in cases[i]] for i in (0, len(cases) // 2, len(cases) - 1)],
        input_distribution=hist, cases=len(cases), correspondence_mismatches=len(mismatches),
        oracle_failures=len(oracle_fail), exhaustive=False,
        source_switches={k: v for k, v in SWITCHES.items()})
    ctx.assumptions += ["host is little endian (rfbEndianTest = 1); the model states the byte order explicitly",
                        "C int is 32-bit two's complement and signed overflow wraps (as compiled here); the rule theorems "
                        "carry the no-overflow hypothesis explicitly, the overflowing pairs are the finding F10b",
                        "supported domain: bpp 8/16/24/32 server x 8/16/32 client, max = 2^k-1 (k=1..16), components inside "
                        "the pixel and pairwise disjoint, stride a multiple of the pixel size"]

    reported_keys = set()
    for (c, rc, err, who) in CRASHES[:3]:
        if who != os.path.basename(cexe):
            continue
        pc = parse_case(c)
        rep = [l for l in err.split("\n") if "ERROR: AddressSanitizer" in l or "SUMMARY:" in l]
        ctx.violation("the library crashed the implementation driver (exit %d) while executing this case: %s" %
                      (rc, (rep[0] if rep else err.strip().split("\n")[-1] if err.strip() else "no report")[:200]),
                      {"kind": "crash", "sbpp": (pc["sf"] or (0,))[0], "cbpp": (pc["cf"] or (0,))[0]},
                      "script:\n" + "\n".join(c) + "\n\nstderr of the implementation driver:\n" + err)
        reported_keys.add(("crash",))
    for idx, (msg, feat, (oi, pi)) in oracle_fail:
        key = (feat.get("kind"), feat.get("sbpp") == 24, feat.get("cbpp") == 24, feat.get("sbe"), feat.get("ovf16"),
               feat.get("strategy"))
        if feat.get("kind") == "crash":
            key = ("crash",)
        if key in reported_keys:
            continue            # one report per class of failure
        reported_keys.add(key)
        small = minimal_case(cases[idx], oi, pi)
        (r1, co, ce), (r2, mo, me) = run_pair([small], cexe, mexe)
        cs = vlib.split_cases(co)
        e2 = oracle_case(small, cs[0][1] if cs else [])
        if e2 is None:
            small = cases[idx]
            (r1, co, ce), (r2, mo, me) = run_pair([small], cexe, mexe)
            e2 = (msg, feat, (oi, pi))
        txt = "\n".join(l if len(l) < 4000 else l[:4000] + "..." for l in small)
        if len(small) == len(cases[idx]) and any(len(l) >= 4000 for l in small):
            txt = "\n".join(small)
        ctx.violation("pixel translation violates the property on the implementation: " + e2[0], e2[1],
                      "script:\n" + "\n".join(small) + "\n\nimplementation output:\n" + co[:6000] + ce[-1500:] +
                      "\nmodel output:\n" + mo[:6000])
    if mismatches and not any(not v["no_input"] for v in ctx.violations):
        idx, d = mismatches[0]
        c = cases[idx]

        def differs(lines):
            (r1, co, _), (r2, mo, _) = run_pair([lines], cexe, mexe)
            return canon_case(co.split("\n")) != canon_case(mo.split("\n"))
        HK = ("case", "sf", "cf", "econ", "cmap", "setup", "setupmsg")
        head = [l for l in c if l.split()[0] in HK]
        body = [l for l in c if l.split()[0] not in HK]
        small = c
        if differs(head):
            small = head
        else:
            for l in body:
                if differs(head + [l]):
                    small = head + [l]
                    break
        (r1, co, ce), (r2, mo, me) = run_pair([small], cexe, mexe)
        ctx.violation("correspondence Pixel/Translate.v <-> translate.c no longer holds (%d of %d cases differ; first: "
                      "impl '%s' vs model '%s'); the property predicate held on every implementation output explored "
                      "outside the known findings" % (len(mismatches), len(cases), str(d[1])[:80], str(d[2])[:80]),
                      {"kind": "correspondence"},
                      "correspondence: Pixel/Translate.v (set_translate / translate_fn / table_bytes / reads_fn) vs "
                      "rfbSetTranslateFunction + selected translate function\n"
                      "script:\n" + "\n".join(small) + "\n\nimplementation output:\n" + co[:6000] + ce[-1500:] +
                      "\nmodel output:\n" + mo[:6000] + me[-500:], no_input=True)
    if not proof_ok and not ctx.violations:
        vlib.report_proof_failure(ctx, "Correspondence and the rule oracle were run on %d pixels in %d cases without "
                                  "exhibiting a failing input outside the known findings." % (npix, len(cases)))


def replay(ctx, path):
    txt = open(path).read()
    if "script:\n" not in txt:
        print("replay names a theorem/correspondence, re-running the full check")
        return check(ctx)
    body = txt.split("script:\n", 1)[1].split("\n\n", 1)[0]
    lines = [l for l in body.split("\n") if l.strip()]
    cexe, mexe, _ = build(ctx)
    (r1, co, ce), (r2, mo, me) = run_pair([lines], cexe, mexe)
    cs = vlib.split_cases(co)
    e = oracle_case(lines, cs[0][1] if cs else [])
    print("implementation:\n" + co[:4000] + "model:\n" + mo[:4000])
    ctx.coverage.update(evaluations=len(lines) - 1, distinct_nontrivial=0, rule="replay", samples=[[l[:200] for l in lines]])
    if e:
        ctx.violation("pixel translation violates the property on the implementation: " + e[0], e[1],
                      "script:\n" + "\n".join(lines) + "\n\nimplementation output:\n" + co[:6000])
    elif canon_case(co.split("\n")) != canon_case(mo.split("\n")):
        ctx.violation("correspondence differs on the replayed script", {"kind": "correspondence"},
                      "script:\n" + "\n".join(lines) + "\n\n" + co[:6000] + "\n" + mo[:6000], no_input=True)
