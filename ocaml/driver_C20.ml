(* C20 model driver: runs the extracted httpProcessInput mirror on a request script and prints
   the effect trace of every call (same format as harness/vdrv_http.c).
   argv[1] = sandbox root; cfg's directory is root ++ suffix.  The [fs] oracle of the model is
   instantiated with the real sandbox directory tree (read-only).
   For every request the trace of the tree variant is printed; when the regression variant (the
   flow before the fix commits 057fee4 / 6ca4ce7) behaves differently its trace follows, every line
   prefixed "alt ". *)
open Model
open Vutil

let hex_of_bytes (l : z list) : string =
  match l with
  | [] -> "-"
  | _ -> let b = Buffer.create 64 in
    List.iter (fun c -> Buffer.add_string b (Printf.sprintf "%02x" (int_of_z c))) l; Buffer.contents b

let bytes_of_string (s : string) : z list =
  let r = ref [] in
  for i = String.length s - 1 downto 0 do r := z_of_int (Char.code s.[i]) :: !r done; !r

let string_of_bytes (l : z list) : string =
  let b = Buffer.create 64 in
  List.iter (fun c -> Buffer.add_char b (Char.chr ((int_of_z c) land 255))) l; Buffer.contents b

let unhex (h : string) : string =
  if h = "-" then "" else begin
    let n = String.length h / 2 in
    let b = Bytes.create n in
    for i = 0 to n - 1 do Bytes.set b i (Char.chr (int_of_string ("0x" ^ String.sub h (2 * i) 2))) done;
    Bytes.to_string b end

(* fopen(path,"r") + fread to the end: None = cannot be opened; a directory opens and reads nothing *)
let fs_real (p : z list) : z list option =
  let path = string_of_bytes p in
  if String.contains path '\000' then None else
  match (try Some (open_in_bin path) with Sys_error _ -> None) with
  | None -> None
  | Some ic ->
    let b = Buffer.create 4096 in
    let chunk = Bytes.create 65536 in
    (try
       let fin = ref false in
       while not !fin do
         let k = input ic chunk 0 65536 in
         if k = 0 then fin := true else Buffer.add_subbytes b chunk 0 k
       done
     with Sys_error _ -> ());
    close_in_noerr ic;
    Some (bytes_of_string (Buffer.contents b))

let err_s = function
  | NullDeref -> "nullderef" | UninitRead -> "uninitread"
  | Overflow w -> Printf.sprintf "overflow%d" (int_of_z w) | OutOfFuel -> "outoffuel"

let trace ((effs, st), nreads) : string list =
  let out = ref [] in
  let pend = Buffer.create 256 in
  let flush () = if Buffer.length pend > 0 then begin
      out := ("send " ^ hex_of_bytes (bytes_of_string (Buffer.contents pend))) :: !out; Buffer.clear pend end in
  List.iter (function
      | Send b -> Buffer.add_string pend (string_of_bytes b)
      | Open (p, ok) -> flush (); out := (Printf.sprintf "open %s %s" (hex_of_bytes p) (b2s ok)) :: !out
      | NewRfbClient -> flush (); out := "newclient" :: !out
      | Close -> flush (); out := "close" :: !out) effs;
  flush ();
  (match st with
   | Done -> out := "status done" :: !out
   | Again -> out := "status again" :: !out
   | Crash e -> out := ("crash " ^ err_s e) :: !out);
  out := (Printf.sprintf "reads %d" (int_of_nat nreads)) :: !out;
  List.rev !out

let () =
  let root = if Array.length Sys.argv > 1 then Sys.argv.(1) else "" in
  let strs = ref ([], [], [], []) in
  let dummy = { httpDir = []; proxy = false; port = Z0; width = Z0; height = Z0; desktop = []; host = [];
                user = None; r_notfound = []; r_invalid = []; r_ok = []; r_proxyok = [] } in
  let cfg = ref dummy in
  let hb h = bytes_of_string (unhex h) in
  iter_lines stdin (fun line ->
    match split_ws line with
    | [] -> ()
    | "case" :: _ -> print_endline line
    | ["strs"; a; b; c; d] -> strs := (hb a, hb b, hb c, hb d)
    | ["cfg"; dir; px; port; w; h; name; host; user] ->
      let (nf, inv, ok, pok) = !strs in
      cfg := { httpDir = bytes_of_string (root ^ unhex dir); proxy = (px = "1");
               port = z_of_int (int_of_string port); width = z_of_int (int_of_string w);
               height = z_of_int (int_of_string h); desktop = hb name; host = hb host;
               user = (if user = "none" then None else Some (hb user));
               r_notfound = nf; r_invalid = inv; r_ok = ok; r_proxyok = pok };
      print_endline "cfg"
    | "req" :: segs ->
      let sl = List.map (fun s -> if s = "EOF" then Eof else if s = "ERR" then Rerr else Data (hb s)) segs in
      let t1 = trace (http_process_n fs_real v_tree !cfg sl) in
      let t2 = trace (http_process_n fs_real v_prefix !cfg sl) in
      print_endline "req";
      List.iter print_endline t1;
      if t1 <> t2 then List.iter (fun l -> print_endline ("alt " ^ l)) t2
    | ["lreq"; fam; h] ->
      (* the same request over a real listener: one segment, then EAGAIN; the number of reads is not compared *)
      let strip t = List.filter (fun l -> String.length l < 6 || String.sub l 0 6 <> "reads ") t in
      let t1 = strip (trace (http_process_n fs_real v_tree !cfg [Data (hb h)])) in
      print_endline "lreq";
      (match accept_step (fam <> "6") (fam = "6") true with
       | Some sk -> Printf.printf "accepted v6=%s nonblock=%s\n" (b2s sk.from_v6) (b2s sk.nonblocking)
       | None -> print_endline "accepted none");
      List.iter print_endline t1
    | ["sreq"; maxwait; dec; h] ->
      (* a peer that stops reading (or reads again when the scripted select() says so): the request part is
         handled as usual, the send side by the rfbWriteExact mirror; bytes sent and reads are not compared *)
      let keep l = not (String.length l >= 5 && (String.sub l 0 5 = "send " || String.sub l 0 5 = "reads")) in
      let t1 = List.filter keep (trace (http_process_n fs_real v_tree !cfg [Data (hb h)])) in
      let opened = List.exists (fun l -> String.length l > 5 && String.sub l 0 5 = "open " && l.[String.length l - 1] = '1') t1 in
      let len = z_of_int 70000 in
      let ends_r = String.length dec > 0 && dec.[String.length dec - 1] = 'r' in
      let mw = z_of_int (int_of_string maxwait) in
      let show = function
        | Some (r, t) -> [Printf.sprintf "vwait %d" (int_of_z t); Printf.sprintf "complete %s" (b2s (r = WOk))]
        | None -> ["outoffuel"] in
      (* the tree: rfbWriteExact *)
      let tree =
        if not opened then [] else
        let evs = List.init (String.length dec) (fun k -> if dec.[k] = 'r' then WReady else WTimeout) in
        show (wx_loop (if ends_r then evs @ [WWrote len] else evs) mw c20_WX_SLICE_MS len Z0 Z0) in
      (* with notes/fix_C20_4.diff: httpWrite with a deadline of 3 x rfbMaxClientWait for the response *)
      let alt =
        if not opened then [] else
        let evs = List.init (String.length dec) (fun k -> if dec.[k] = 'r' then DReady Z0 else DTimeout) in
        show (wxd_loop (if ends_r then evs @ [DWrote len] else evs) mw c20_WX_SLICE_MS (Z.mul (z_of_int 3) mw) len Z0 Z0) in
      print_endline "sreq";
      List.iter print_endline t1;
      List.iter print_endline tree;
      if alt <> tree then List.iter (fun l -> print_endline ("alt " ^ l)) (t1 @ alt)
    | "poison" :: _ -> print_endline "poison"
    | ["atoi"; h] -> Printf.printf "atoi %d\n" (int_of_z (atoi (hb h)))
    | _ -> Printf.printf "?? %s\n" line)
