(* C01 model driver: executes an encoder script on the extracted Coq model and prints one
   canonical observation line per `upd` / `dec` op (same format as harness/vdrv_enc.c).
   Parsing and printing only; every decision is taken by Model.* *)
open Model
open Vutil

let ztab : z array = Array.init 256 z_of_int
let hexv c = if c <= '9' then Char.code c - 48 else (Char.code c lor 32) - 87

let ints_of_hex (s : string) : int array =
  let n = String.length s / 2 in
  Array.init n (fun i -> hexv s.[2 * i] * 16 + hexv s.[2 * i + 1])

let zlist_of_hex (s : string) : z list =
  let a = ints_of_hex s in
  let r = ref [] in
  for i = Array.length a - 1 downto 0 do r := ztab.(a.(i)) :: !r done; !r

let hex_of_zlist (l : z list) : string =
  let b = Buffer.create 1024 in
  List.iter (fun v -> Buffer.add_string b (Printf.sprintf "%02x" (int_of_z v))) l;
  Buffer.contents b

(* translated screen: w*h pixels of bypp bytes, little-endian value = host view *)
let grid_of_hex (bypp : int) (w : int) (h : int) (s : string) : z list list =
  let a = ints_of_hex s in
  let rows = ref [] in
  for y = h - 1 downto 0 do
    let r = ref [] in
    for x = w - 1 downto 0 do
      let o = (y * w + x) * bypp in
      let v = ref 0 in
      for k = bypp - 1 downto 0 do v := (!v lsl 8) lor a.(o + k) done;
      r := z_of_int !v :: !r
    done;
    rows := !r :: !rows
  done; !rows

let enc_of = function
  | "raw" -> 0 | "rre" -> 2 | "corre" -> 4 | "hextile" -> 5 | "zlib" -> 6 | "tight" -> 7
  | "ultra" -> 9 | "zrle" -> 16 | "zywrle" -> 17 | "tightpng" -> -260 | "default" -> -1 | s -> int_of_string s

let bypp = ref 4
let sbypp = ref 4
let enc = ref 0
let mw = ref 48
let mh = ref 48
let scr : z list list ref = ref []
let sfb : z list list ref = ref []
let scr_w = ref 0
let scr_h = ref 0
(* effective client format: bpp depth be tc rmax gmax bmax rs gs bs *)
let fmt : int array ref = ref [||]

(* which variant of the two ZRLE defects the source text has (decided by props/C01.py) *)
let f1_fixed = ref false
let f2_fixed = ref false
let f7_fixed = ref false
let f8_fixed = ref false
let f4_fixed = ref false

let enc_cmode () =
  let f = !fmt in
  if Array.length f < 10 then O
  else zrle_cmode_gen (not !f2_fixed) (z_of_int f.(0)) (z_of_int f.(2)) (z_of_int f.(4)) (z_of_int f.(5)) (z_of_int f.(6))
         (z_of_int f.(7)) (z_of_int f.(8)) (z_of_int f.(9))

let tight_level = ref (-1)
let tight_quality = ref (-1)
let tight_lastrect = ref false

let enc_b15 () =
  let f = !fmt in
  if Array.length f < 10 || !f1_fixed then false else zrle_bpp15 (z_of_int f.(0)) (z_of_int f.(5))

let () =
  let ri = int_of_string in
  let ni s = nat_of_int (int_of_string s) in
  iter_lines stdin (fun line ->
    match split_ws line with
    | [] -> ()
    | "case" :: _ -> print_endline line; mw := 48; mh := 48; enc := 0; tight_level := -1; tight_quality := -1;
        tight_lastrect := false
    | "screen" :: w :: h :: b :: _ -> bypp := ri b; sbypp := ri b; fmt := [||]; scr_w := ri w; scr_h := ri h
    | ["fb"; hex] -> if !enc = 7 && !tight_lastrect then sfb := grid_of_hex !sbypp !scr_w !scr_h hex
    | "cfmt" :: bpp :: rest -> bypp := ri bpp / 8; fmt := Array.of_list (List.map ri (bpp :: rest))
    | "enc" :: name :: rest ->
        enc := enc_of name;
        (match rest with
         | l :: _ when l <> "-" -> tight_level := ri l
         | _ -> tight_level := -1);
        (match rest with
         | _ :: q :: _ when q <> "-" && q <> "lastrect" -> tight_quality := ri q
         | _ -> tight_quality := -1);
        tight_lastrect := List.mem "lastrect" rest
    | ["corre"; a; b] -> mw := ri a; mh := ri b
    | "variant" :: a :: b :: rest -> f1_fixed := (a = "1"); f2_fixed := (b = "1");
        f7_fixed := (match rest with c :: _ -> c = "1" | [] -> false);
        f8_fixed := (match rest with _ :: d :: _ -> d = "1" | _ -> false);
        f4_fixed := (match rest with _ :: _ :: e :: _ -> e = "1" | _ -> false)
    | ["tr"; w; h; hex] -> scr := grid_of_hex !bypp (ri w) (ri h) hex
    | ["upd"; x; y; w; h] ->
        let p = { p_enc = z_of_int !enc; p_bypp = nat_of_int !bypp; p_sbypp = nat_of_int !sbypp;
                  p_mw = nat_of_int !mw; p_mh = nat_of_int !mh; p_cmode = enc_cmode (); p_b15 = enc_b15 () } in
        let result =
          if !enc = 7 && Array.length !fmt >= 10 then
            let f = !fmt in
            let zi k = z_of_int f.(k) in
            send_tight_session !f7_fixed !f8_fixed (nat_of_int !sbypp) (nat_of_int !bypp) (zi 0) (zi 1) (zi 2) (zi 3) (zi 4) (zi 5) (zi 6) (zi 7) (zi 8) (zi 9)
              (z_of_int !tight_level) (z_of_int !tight_quality) !tight_lastrect (ni x) (ni y) (ni w) (ni h) !scr !sfb
          else if !f4_fixed then send_rect_split p (ni x) (ni y) (ni w) (ni h) !scr
          else send_rect p (ni x) (ni y) (ni w) (ni h) !scr in
        (match result with
         | Ok rects ->
             Printf.printf "upd n=%d" (List.length rects);
             List.iter (fun r -> print_char ' '; print_string (hex_of_zlist (wire_bytes r))) rects;
             print_newline ()
         | Fallback -> print_endline "upd closed"
         | Err -> print_endline "upd model-error")
    | "dec" :: e :: w :: h :: bpp :: depth :: be :: tc :: rmax :: gmax :: bmax :: rs :: gs :: bs :: rest ->
        let zi s = z_of_int (ri s) in
        let cm = spec_cmode (zi bpp) (zi depth) (zi be) (zi tc) (zi rmax) (zi gmax) (zi bmax) (zi rs) (zi gs) (zi bs) in
        let b = nat_of_int (ri bpp / 8) in
        let payload = match rest with [hex] -> zlist_of_hex hex | _ -> [] in
        let res =
          if ri e = 7 then
            dec_tight { tf_bypp = b;
                        tf_tp3 = spec_tpixel3 (zi bpp) (zi depth) (zi tc) (zi rmax) (zi gmax) (zi bmax);
                        tf_be = (ri be <> 0); tf_rs = zi rs; tf_gs = zi gs; tf_bs = zi bs } (ni w) (ni h) payload
          else dec_rect (zi e) b cm (ni w) (ni h) payload in
        (match res with
         | Some g -> print_endline ("dec ok " ^ hex_of_zlist (grid_bytes b g))
         | None -> print_endline "dec err")
    | _ -> ())
