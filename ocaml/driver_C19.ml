(* C19 model driver: runs the extracted file-transfer mirror on a script and prints the same trace
   lines as harness/vdrv_ft.c.  The script is the one given to the harness, where every operation
   line is followed by the environment answers ("= ..." lines) recorded from the implementation run;
   they instantiate the environment oracle of the model and are echoed after the call that consumes
   them.  argv[1] = sandbox root (HOME "sb" = root/sb).  Parsing and printing only. *)
open Model
open Vutil

let hex_of_bytes (l : z list) : string =
  match l with
  | [] -> "-"
  | _ -> let b = Buffer.create 64 in
    List.iter (fun c -> Buffer.add_string b (Printf.sprintf "%02x" ((int_of_z c) land 255))) l; Buffer.contents b

let bytes_of_string (s : string) : z list =
  let r = ref [] in
  for i = String.length s - 1 downto 0 do r := z_of_int (Char.code s.[i]) :: !r done; !r

let string_of_bytes (l : z list) : string =
  let b = Buffer.create 64 in
  List.iter (fun c -> Buffer.add_char b (Char.chr ((int_of_z c) land 255))) l; Buffer.contents b

let unhex (h : string) : string =
  if h = "-" then "" else begin
    let n = String.length h / 2 in
    let b = Bytes.create n in
    for i = 0 to n - 1 do Bytes.set b i (Char.chr (int_of_string ("0x" ^ String.sub h (2 * i) 2))) done;
    Bytes.to_string b end

let hb h = bytes_of_string (unhex h)
let zi s = z_of_int (int_of_string s)

let parse_env (line : string) : env_ans option =
  match split_ws line with
  | ["="; "ok"] -> Some EOk
  | ["="; "fail"] -> Some EFail
  | ["="; "rc"; n] -> Some (ERc (zi n))
  | ["="; "stat"; d; s; c; a; m] -> Some (EStat (d = "1", zi s, zi c, zi a, zi m))
  | ["="; "fstat"; s; h] -> Some (EFstat (zi s, hb h))
  | ["="; "name"; h] -> Some (EName (hb h))
  | ["="; "end"] -> Some EEnd
  | ["="; "bytes"; h] -> Some (EBytes (hb h))
  | _ -> None

let has_answer = function
  | FClosedir | FCloseFd -> false
  | _ -> true

let op_s = function
  | FOpenR p -> "openr " ^ hex_of_bytes p | FOpenW p -> "openw " ^ hex_of_bytes p
  | FOpendir p -> "opendir " ^ hex_of_bytes p | FStat p -> "stat " ^ hex_of_bytes p
  | FMkdir p -> "mkdir " ^ hex_of_bytes p | FRmdir p -> "rmdir " ^ hex_of_bytes p
  | FUnlink p -> "unlink " ^ hex_of_bytes p | FRename (a, b) -> "rename " ^ hex_of_bytes a ^ " " ^ hex_of_bytes b
  | FFstat -> "fstat" | FReaddir -> "readdir" | FClosedir -> "closedir" | FRead -> "read"
  | FWrite b -> "write " ^ hex_of_bytes b | FCloseFd -> "closefd" | FCompress -> "compress" | FUncompress -> "uncompress"

(* events -> lines; env answer texts are echoed after the calls that consumed them *)
let event_lines (evs : event list) (envtxt : string list) : string list =
  let out = ref [] in
  let pend = Buffer.create 256 in
  let rest = ref envtxt in
  let flush () = if Buffer.length pend > 0 then begin out := ("tx " ^ Buffer.contents pend) :: !out; Buffer.clear pend end in
  List.iter (function
      | Tx b -> Buffer.add_string pend (hex_of_bytes b)
      | Ask a -> flush (); out := ("ask " ^ b2s a) :: !out
      | CloseClient -> flush (); out := "closeclient" :: !out
      | ModelErr -> flush (); out := "modelerr" :: !out
      | Fs op -> flush (); out := ("fs " ^ op_s op) :: !out;
        if has_answer op then (match !rest with t :: r -> out := t :: !out; rest := r | [] -> ())) evs;
  flush ();
  List.rev !out

let st_s (s : xstate) =
  Printf.sprintf "st fd=%s snd=%s rcv=%s comp=%s sock=%s" (b2s s.fd_open) (b2s s.sending) (b2s s.receiving) (b2s s.compression) (b2s s.sock_open)

let () =
  let root = if Array.length Sys.argv > 1 then Sys.argv.(1) else "" in
  let lines = ref [] in
  iter_lines stdin (fun l -> lines := l :: !lines);
  let arr = Array.of_list (List.rev !lines) in
  let n = Array.length arr in
  let cfg = ref { permit = false; has_cb = false; home = None; fix_f7 = true; fix_f14 = true; fix_f7b = true } in
  let perms = ref [] and dflt = ref true in
  (* variant 0 = the tree (fix commits 4d56b95, b4cfd8a, 8230228 present); regression variants:
     1 = the flow before 8230228 (F7b), 2 = before 4d56b95 (F7), 3 = before b4cfd8a (F14).
     They run side by side on the same recorded environment answers. *)
  let nv = 4 in
  let sts = Array.make nv st0 in
  let vcfg k = match k with
    | 0 -> { !cfg with fix_f7 = true; fix_f14 = true; fix_f7b = true }
    | 1 -> { !cfg with fix_f7 = true; fix_f14 = true; fix_f7b = false }
    | 2 -> { !cfg with fix_f7 = false; fix_f14 = true; fix_f7b = true }
    | _ -> { !cfg with fix_f7 = true; fix_f14 = false; fix_f7b = true } in
  let tin = ref tinit0 in
  (* descriptors the TightVNC extension lost (TLostFd), per tight variant: they show at teardown *)
  let ntv = 6 in   (* five TightVNC message-flow variants + the tree's flow with the gate of the flow before 2a9083d *)
  let tlost = Array.make ntv 0 in
  let i = ref 0 in
  let take_env () =
    let envs = ref [] and txt = ref [] in
    while !i + 1 < n && String.length arr.(!i + 1) > 0 && arr.(!i + 1).[0] = '=' do
      incr i;
      (match parse_env arr.(!i) with Some e -> envs := e :: !envs; txt := arr.(!i) :: !txt | None -> ())
    done;
    (List.rev !envs, List.rev !txt) in
  let emit_all (outs : string list array) =
    List.iter print_endline outs.(0);
    for k = 1 to Array.length outs - 1 do
      if outs.(k) <> outs.(0) then List.iter (fun l -> print_endline (Printf.sprintf "alt%d %s" k l)) outs.(k)
    done in
  while !i < n do
    let line = arr.(!i) in
    (match split_ws line with
     | [] -> ()
     | "case" :: _ -> print_endline line; Array.fill sts 0 nv st0; Array.fill tlost 0 ntv 0; perms := []; dflt := true
     | ["cfg"; p; cb; hm] ->
       let h = if hm = "none" then None else if hm = "sb" then Some (bytes_of_string (root ^ "/sb")) else Some (hb hm) in
       cfg := { permit = (p = "1"); has_cb = (cb <> "none"); home = h; fix_f7 = true; fix_f14 = true; fix_f7b = true };
       if cb <> "none" then begin
         perms := List.init (String.length cb) (fun k -> cb.[k] = '1');
         dflt := (cb.[String.length cb - 1] = '1') end;
       print_endline "cfg"
     | "msg" :: h :: rest ->
       let (envs, txt) = take_env () in
       print_endline "msg";
       let data = hb h in
       let input = match data with _ :: t -> t | [] -> [] in      (* the type byte is read by the dispatcher *)
       let p1 = ref !perms in
       let outs = Array.init nv (fun k ->
         let s = sts.(k) in
         if not s.sock_open then ["dead"] else begin
           let (((((_, evs), s'), left), envleft), perms') = run_message (vcfg k) !perms !dflt envs input s in
           sts.(k) <- s'; if k = 0 then p1 := perms';
           event_lines evs txt
           @ (if envleft <> [] then [Printf.sprintf "envleft %d" (List.length envleft)] else [])
           @ [Printf.sprintf "left %d" (if s'.sock_open then List.length left else 0); st_s s'] end) in
       emit_all outs; perms := !p1
     | ["chunk"] ->
       let (envs, txt) = take_env () in
       print_endline "chunk";
       let p1 = ref !perms in
       let outs = Array.init nv (fun k ->
         let ((((_, evs), s'), envleft), perms') = run_chunk (vcfg k) !perms !dflt envs sts.(k) in
         sts.(k) <- s'; if k = 0 then p1 := perms';
         event_lines evs txt @ (if envleft <> [] then [Printf.sprintf "envleft %d" (List.length envleft)] else []) @ [st_s s']) in
       emit_all outs; perms := !p1
     | ["gone"] ->
       let _ = take_env () in
       print_endline "gone";
       let res = Array.init nv (fun k ->
         let ((ok, _), s') = run_gone (vcfg k) [] sts.(k) in
         sts.(k) <- s'; (ok, int_of_z s'.lost_fds + (if s'.fd_open then 1 else 0))) in
       let line (ok, n) extra = if ok then [Printf.sprintf "leak %d" (n + extra)] else ["hang"] in
       (* 0..nv-1: the UltraVNC variants with the tree's TightVNC flow; nv..: the tree's UltraVNC flow with the
          other TightVNC variants *)
       let outs = Array.init (nv + ntv - 1) (fun k -> if k < nv then line res.(k) tlost.(0) else line res.(0) tlost.(k - nv + 1)) in
       emit_all outs
     | "targs" :: pw :: args ->
       let _ = take_env () in
       print_endline "targs";
       let sbp = root ^ "/sb" in
       let arg_of h = let a = unhex h in
         if String.length a > 0 && a.[0] = '@' then sbp ^ String.sub a 1 (String.length a - 1) else a in
       let is_dir (p : z list) = (try Sys.is_directory (string_of_bytes p) with Sys_error _ -> false) in
       let env = { pw_home = (match pw with "ok" -> Some (bytes_of_string sbp) | "none" -> None
                                          | "bad" -> Some (bytes_of_string "/nonexistent-home-dir") | _ -> Some []);
                   dir_ok = is_dir } in
       let st = run_args env tinit0 (List.map (fun h -> bytes_of_string (arg_of h)) args) in
       tin := st;
       let r = string_of_bytes st.t_root in
       let sl = String.length sbp in
       (* the tree (since 2a9083d): IsFileTransferEnabled() = the flag && a root was accepted; alt1 = the flow before it
          (regression variant, F19e): the flag alone *)
       let line fx =
         if String.length r >= sl && String.sub r 0 sl = sbp
         then Printf.sprintf "tinit enabled=%s root=@ %s" (b2s (t_effective fx st)) (hex_of_bytes (bytes_of_string (String.sub r sl (String.length r - sl))))
         else Printf.sprintf "tinit enabled=%s root== %s" (b2s (t_effective fx st)) (hex_of_bytes st.t_root) in
       print_endline (line true);
       if line false <> line true then print_endline ("alt1 " ^ line false)
     | "tight" :: en0 :: vo :: suf :: rest ->
       let _ = take_env () in
       print_endline "tight";
       let keep = (en0 = "keep") in
       let en = if keep then (if t_effective true !tin then "1" else "0") else en0 in
       let en_fx = if keep then (if t_effective false !tin then "1" else "0") else en0 in   (* gate of the flow before 2a9083d *)
       let ftproot = if keep then !tin.t_root else bytes_of_string (root ^ "/sb" ^ unhex suf) in
       (* results of creat() recorded from the implementation run: last token "creat:<digits>" *)
       let has_pfx p t = String.length t >= String.length p && String.sub t 0 (String.length p) = p in
       let tail p t = String.sub t (String.length p) (String.length t - String.length p) in
       let creats = (match List.filter (has_pfx "creat:") rest with t :: _ -> tail "creat:" t | [] -> "") in
       (* what readdir() returned in the implementation run, per message: "ents:" groups separated by ';', names by ',' *)
       let ents = (match List.filter (has_pfx "ents:") rest with
           | t :: _ -> Array.of_list (List.map (fun g -> List.filter (fun x -> x <> "") (String.split_on_char ',' g))
                                        (String.split_on_char ';' (tail "ents:" t)))
           | [] -> [||]) in
       let pairs = List.filter (fun t -> not (has_pfx "creat:" t) && not (has_pfx "ents:" t)) rest in
       let mi = ref (-1) in
       let entries () = if !mi < Array.length ents then List.map hb ents.(!mi) else [] in
       let ci = ref 0 in
       let next_creat () = let r = (!ci < String.length creats && creats.[!ci] = '1') in incr ci; r in
       let rec msgs = function
         | kind :: arg :: tl ->
           incr mi;
           let m = (match kind with
             | "list" -> Some (TList (hb arg, entries ())) | "mkdir" -> Some (TMkdir (hb arg))
             | "uploadtrunc" -> Some (TUploadTrunc (hb arg)) | "teardown" -> Some TClose
             | "download" -> Some (TDownload (hb arg))
             | "upload" -> Some (TUpload (hb arg, true))
             (* sizes 0/0 are the end-of-upload marker: the handler then reads the modification time, which these two
                kinds never send - a truncated message *)
             | ("uploaddata" | "uploaddatac") when arg = "-" -> Some TMsgTrunc
             | "uploaddata" -> Some (TUploadData false) | "uploaddatac" -> Some (TUploadData true)
             | "uploaddone" -> Some TUploadDone
             | "uploadfail" -> Some (TUploadFailed (arg <> "-"))
             | "dlcancel" -> Some TDownloadCancel
             | _ -> None) in
           (kind, m) :: msgs tl
         | _ -> [] in
       let op_line = function
         | TStat p -> "fs stat " ^ hex_of_bytes p | TOpendir p -> "fs opendir " ^ hex_of_bytes p
         | TOpenR p -> "fs openr " ^ hex_of_bytes p | TCreat p -> "fs creat " ^ hex_of_bytes p
         | TUtime p -> "fs utime " ^ hex_of_bytes p | TUnlink p -> "fs unlink " ^ hex_of_bytes p
         | TMkdirOp p -> "fs mkdir " ^ hex_of_bytes p
         | TStatEntry (d, n) -> "fs stat " ^ hex_of_bytes (join_dir d n)
         | TOverflow -> "overflow" | TLostFd -> "lostfd" in
       let gate = tight_gate true (en = "1") (vo = "1") in
       (* variant 0 = the tree; regression variants: 1 = before fb3fc0a and 2214ab9, 2 = before fb3fc0a, 3 = before 2214ab9,
          4 = before 7654ac8 *)
       let vs = [| v_tight_tree; v_tight_pre45; v_tight_pre4; v_tight_pre5; v_tight_prefix; v_tight_tree |] in
       let gates = Array.init ntv (fun k -> if k = 5 then tight_gate true (en_fx = "1") (vo = "1") else gate) in
       let sts = Array.make ntv tstate0 in
       List.iter (fun (kind, m) ->
           print_endline ("m " ^ kind);
           match m with
           | None -> ()
           | Some m0 ->
             (* the creat() result applies to a request that reaches creat in the tree variant *)
             let m1 = (match m0 with
                 | TUpload (n, _) ->
                   let (ops, _) = tight_step_g vs.(0) ftproot sts.(0) (gate, TUpload (n, true)) in
                   if List.exists (function TCreat _ -> true | _ -> false) ops then TUpload (n, next_creat ()) else m0
                 | x -> x) in
             let outs = Array.init ntv (fun k ->
                 let (o, s') = tight_step_g vs.(k) ftproot sts.(k) (gates.(k), m1) in
                 sts.(k) <- s';
                 tlost.(k) <- tlost.(k) + List.length (List.filter (fun x -> x = TLostFd) o);
                 List.map op_line (List.filter (fun x -> x <> TLostFd) o)) in
             List.iter print_endline outs.(0);
             for k = 1 to ntv - 1 do
               if outs.(k) <> outs.(0) then begin
                 print_endline (Printf.sprintf "alt%d -" k);
                 List.iter (fun l -> print_endline (Printf.sprintf "alt%d %s" k l)) outs.(k) end
             done) (msgs pairs)
     | ["translate"; hm; p] ->
       (match translate_pure (if hm = "none" then None else Some (hb hm)) (hb p) (z_of_int 260) with
        | None -> print_endline "translate none"
        | Some u -> print_endline ("translate " ^ hex_of_bytes u))
     | _ -> Printf.printf "?? %s\n" line);
    incr i
  done
