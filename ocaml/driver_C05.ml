(* C05 model driver: executes an authentication script on the extracted Coq process model
   (Auth/AuthModel.v, function [step]) and prints one canonical observation line per operation
   (same format as harness/vdrv_auth.c).  argv: [global_check weak_refused unreg_single] (0/1 each; default
   0 0 0 = /repo HEAD, 1 1 0 = the code before fixes 1/2, 0 0 1 = HEAD + notes/fix_C05_3.diff). *)
open Model
open Vutil

let rec n_of_int (n : int) : n = if n = 0 then N0 else Npos (pos_of_int n)
let int_of_n (v : n) : int = match v with N0 -> 0 | Npos p -> int_of_pos p

let bytes_of_hex (s : string) : n list =
  if s = "-" then [] else
  List.init (String.length s / 2) (fun i -> n_of_int (int_of_string ("0x" ^ String.sub s (2 * i) 2)))
let hex_of_bytes (l : n list) : string =
  if l = [] then "-" else String.concat "" (List.map (fun b -> Printf.sprintf "%02x" (int_of_n b)) l)

(* argv: global_check weak_refused unreg_single udp_gated (0/1 each) *)
let flag i = Array.length Sys.argv > i && Sys.argv.(i) = "1"
let ext = ref default_ext
let tight = ref false
let encfail = ref false
let cf () = { cfg_global_check = flag 1; cfg_weak_refused = flag 2; cfg_unreg_single = flag 3; cfg_ext = !ext; cfg_udp_gated = flag 4; cfg_enc_fail = !encfail; cfg_check = xor_check; cfg_tight = !tight }

let p = ref proc_init

let obs () =
  let pr = !p in
  let conn_s (c : conn) =
    Printf.sprintf "%d,%s,%s,%s" (int_of_z (st_code c.c_st)) (b2s c.c_vo)
      (if c.c_ext = [] then "-" else String.concat "." (List.map (fun k -> string_of_int (int_of_nat k)) c.c_ext))
      (hex_of_bytes c.c_out) in
  Printf.printf "o err=%s unmod=%s in=%d%s\n" (b2s pr.p_err) (b2s pr.p_unmod) (List.length pr.p_input)
    (String.concat "" (List.map (fun c -> " | " ^ conn_s c) pr.p_conns))

let doit (o : op) = p := step (cf ()) !p o; obs ()

let () =
  let ni s = nat_of_int (int_of_string s) in
  iter_lines stdin (fun line ->
    match split_ws line with
    | [] -> ()
    | "case" :: _ -> p := proc_init; ext := default_ext; tight := false; encfail := false; print_endline line
    | ["encfail"; b] -> encfail := (b = "1"); obs ()
    | ["tight"; b] -> tight := (b = "1"); obs ()
    | ["types"; a; b; c; d] -> ext := List.map (fun s -> z_of_int (int_of_string s)) [a; b; c; d]; obs ()
    | ["udpon"; s] -> doit (OUdpOn (ni s))
    | ["udp"; s; hx] -> doit (OUdp (ni s, bytes_of_hex hx))
    | ["setfile"; s; hx] -> doit (OSetFile (ni s, bytes_of_hex hx))
    | "screen" :: w :: h :: name :: "none" :: [] ->
        doit (OScreen { s_pw = PwNone; s_w = n_of_int (int_of_string w); s_h = n_of_int (int_of_string h); s_name = bytes_of_hex name })
    | "screen" :: w :: h :: name :: "list" :: fvo :: pws ->
        doit (OScreen { s_pw = PwList (List.map bytes_of_hex pws, z_of_int (int_of_string fvo));
                        s_w = n_of_int (int_of_string w); s_h = n_of_int (int_of_string h); s_name = bytes_of_hex name })
    | "screen" :: w :: h :: name :: "custom" :: [] ->
        doit (OScreen { s_pw = PwCustom; s_w = n_of_int (int_of_string w); s_h = n_of_int (int_of_string h); s_name = bytes_of_hex name })
    | "setlist" :: s :: fvo :: pws -> doit (OSetList (ni s, List.map bytes_of_hex pws, z_of_int (int_of_string fvo)))
    | "screen" :: w :: h :: name :: "file" :: content :: [] ->
        doit (OScreen { s_pw = PwFile (bytes_of_hex content); s_w = n_of_int (int_of_string w);
                        s_h = n_of_int (int_of_string h); s_name = bytes_of_hex name })
    | ["reg"; k] -> doit (OReg (ni k))
    | ["unreg"; k] -> doit (OUnreg (ni k))
    | ["rand"; hx] -> doit (ORand (bytes_of_hex hx))
    | ["conn"; s; rev; eof; hx] -> doit (OConn (ni s, rev = "1", bytes_of_hex hx, eof = "1"))
    | ["send"; c; eof; hx] -> doit (OSend (ni c, bytes_of_hex hx, eof = "1"))
    | ["des"; pw; blk] ->
        Printf.printf "des %s\n" (hex_of_bytes (encrypt_bytes (cf ()) (bytes_of_hex pw) (bytes_of_hex blk)))
    | _ -> Printf.printf "?? %s\n" line)
