(* C16 model driver (same program as driver_C02.ml; the model is shared)
   C02 / C16 model driver: executes an update-bookkeeping script on the extracted Coq model
   (Update/UpdateDefs.v) and prints one canonical observation line per operation, in the same
   format as harness/vdrv_update.c.  Parsing and printing only. *)
open Model
open Vutil

let zi s = z_of_int (int_of_string s)
let iz = int_of_z

let rect_s ((((x1, y1), x2), y2) : rect) = Printf.sprintf "%d,%d,%d,%d" (iz x1) (iz y1) (iz x2) (iz y2)
let rgn_s (r : region) = String.concat ";" (List.map rect_s (rgn_iter false false r))

let pic_hash (p : pic) : int =
  List.fold_left (fun h row -> List.fold_left (fun h v -> (h * 31 + iz v + 1) mod 1000000007) h row) 0 p

let wrect_s (w : wrect) : string =
  match w with
  | WCursor (a, b, c, d) -> Printf.sprintf "%d,%d,%d,%d,K" (iz a) (iz b) (iz c) (iz d)
  | WCopy (x, y, w, h, sx, sy) -> Printf.sprintf "%d,%d,%d,%d,C,%d,%d" (iz x) (iz y) (iz w) (iz h) (iz sx) (iz sy)
  | WRaw (x, y, w, h) -> Printf.sprintf "%d,%d,%d,%d,R" (iz x) (iz y) (iz w) (iz h)
  | WNewFB (w, h) -> Printf.sprintf "%d,%d,N" (iz w) (iz h)
  | WExt (r, s, w, h) -> Printf.sprintf "%d,%d,%d,%d,E" (iz r) (iz s) (iz w) (iz h)
  | WResize (w, h) -> Printf.sprintf "%dx%d" (iz w) (iz h)

let wire_s (msgs : (nat * wmsg) list) : string =
  String.concat "" (List.map (fun (c, (n, rects)) ->
    match rects with
    | [WResize (w, h)] -> Printf.sprintf " w%d:resize=%dx%d" (int_of_nat c) (iz w) (iz h)
    | _ -> Printf.sprintf " w%d:n=%d:[%s]" (int_of_nat c) (iz n) (String.concat ";" (List.map wrect_s rects))) msgs)

let client_s (st : state) (i : int) (c : client) : string =
  let life = iz c.cExt.xLife in
  if life = 2 then Printf.sprintf " | c%d GONE" i
  else if life <> 0 then Printf.sprintf " | c%d CLOSED" i
  else
  Printf.sprintf " | c%d M=[%s] C=[%s] d=%d,%d R=[%s] f=%s%s%s%s%s%s%s q=%d,%d sy=%d df=%d,%d sc=%s b=%d:%d sz=%dx%d P=%d I=%s"
    i (rgn_s c.cM) (rgn_s c.cC) (iz c.cDX) (iz c.cDY) (rgn_s c.cR)
    (b2s c.cUseCopy) (b2s c.cShape) (b2s c.cCurChanged) (b2s c.cReady) (b2s c.cUseNewFB) (b2s c.cUseExt)
    (b2s c.cNewFBPending) (iz c.cReqChange) (iz c.cLastErr) (iz c.cSliceY)
    (iz c.cExt.xDefS) (iz c.cExt.xDefU)
    (match c.cExt.xScaled with Some (w, h) -> Printf.sprintf "%dx%d" (iz w) (iz h) | None -> "-")
    (iz (fmt_bpp c.cBpp.tTo)) (iz (fmt_bits c.cBpp.tTo)) (iz c.cPW) (iz c.cPH)
    (pic_hash c.cPic) (b2s (inv_client_b st c))

let observe (opname : string) (st : state) (msgs : (nat * wmsg) list) : unit =
  let b = Buffer.create 256 in
  Buffer.add_string b (Printf.sprintf "o %s |%s" opname (wire_s msgs));
  List.iteri (fun i c -> Buffer.add_string b (client_s st i c)) st.sClients;
  Buffer.add_string b (Printf.sprintf " | F=%d S=%dx%dx%d B=%d T=%d X=[%s]" (pic_hash st.sFB) (iz st.sW) (iz st.sH) (iz (fmt_bpp st.sBpp)) (iz (fmt_bits st.sBpp))
                         (iz st.sExt.xDefer)
                         (String.concat ";" (List.map (fun (w, h) -> Printf.sprintf "%dx%d" (iz w) (iz h)) st.sExt.xChain)));
  print_endline (Buffer.contents b)

let rec rects_of (l : string list) : rect list =
  match l with
  | a :: b :: c :: d :: t -> (((zi a, zi b), zi c), zi d) :: rects_of t
  | _ -> []

(* format code of UpdateDefs.v: bytes per pixel + 8 * bits per sample, 0 bits = the default of the depth *)
let fmt_code (bpp : int) (bits : int) : z =
  if bpp = 1 || (bpp = 2 && bits = 5) || (bpp = 4 && bits = 8) then z_of_int bpp else z_of_int (bpp + 8 * bits)

let parse_op (ws : string list) : op option =
  let bi s = int_of_string s <> 0 in
  let ni s = nat_of_int (int_of_string s) in
  match ws with
  | ["addclient"] -> Some OpAddClient
  | ["mark"; a; b; c; d] -> Some (OpMark (zi a, zi b, zi c, zi d))
  | ["draw"; a; b; c; d; s] -> Some (OpDraw (zi a, zi b, zi c, zi d, zi s))
  | "schedcopy" :: dx :: dy :: _ :: rs -> Some (OpSchedCopy (rects_of rs, zi dx, zi dy))
  | "docopyrgn" :: dx :: dy :: _ :: rs -> Some (OpDoCopyRegion (rects_of rs, zi dx, zi dy))
  | ["docopyrect"; a; b; c; d; dx; dy] -> Some (OpDoCopyRect (zi a, zi b, zi c, zi d, zi dx, zi dy))
  | ["req"; c; i; x; y; w; h] -> Some (OpRequest (ni c, bi i, zi x, zi y, zi w, zi h))
  | "setenc" :: c :: a :: b :: d :: e :: _ -> Some (OpSetEncodings (ni c, bi a, bi b, bi d, bi e))  (* a 6th word = the pixel encoding: not the model's business *)
  | "setcursor" :: "0" :: _ -> Some (OpSetCursor None)
  | ["setcursor"; _; xh; yh; w; h] -> Some (OpSetCursor (Some (((zi xh, zi yh), zi w), zi h)))
  | ["knobs"; m; s] -> Some (OpKnobs (zi m, zi s))
  | ["tick"; c] -> Some (OpTick (ni c))
  | ["send"; c] -> Some (OpSend (ni c))
  | ["newfb"; w; h; bpp; seed] -> Some (OpNewFB (zi w, zi h, zi bpp, zi seed))
  | ["newfb"; w; h; bpp; seed; bits] -> Some (OpNewFB (zi w, zi h, fmt_code (int_of_string bpp) (int_of_string bits), zi seed))
  | "drawpal" :: a :: b :: c :: d :: pat :: _ :: cols -> Some (OpDrawPal (zi a, zi b, zi c, zi d, zi pat, List.map zi cols))
  | ["setdesktopsize"; c; w; h; ns; hr] -> Some (OpSetDesktopSize (ni c, zi w, zi h, zi ns, zi hr))
  | ["time"; s; u] -> Some (OpTime (zi s, zi u))
  | ["defer"; ms] -> Some (OpDefer (zi ms))
  | ["setpf"; c; b] -> Some (OpSetPixelFormat (ni c, zi b))
  | ["setscale"; c; n] -> Some (OpSetScale (ni c, zi n))
  | ["close"; c] -> Some (OpClose (ni c))
  | ["reap"] -> Some OpReap
  | _ -> None

let () =
  let st = ref (init_state (z_of_int 1) (z_of_int 1) (z_of_int 1)) in
  let live = ref false and dead = ref false in
  iter_lines stdin (fun line ->
    match split_ws line with
    | [] -> ()
    | "case" :: _ :: w :: h :: bpp :: _ ->
        print_endline line; st := init_state (zi w) (zi h) (zi bpp); live := true; dead := false
    | "case" :: _ -> print_endline line; print_endline "BAD CASE"; live := false
    | opname :: _ as ws ->
        if not !live then ()
        else if !dead then Printf.printf "o %s | SKIPPED\n" opname
        else begin
          match parse_op ws with
          | None -> Printf.printf "o %s | UNKNOWN\n" opname
          | Some o ->
              (match step !st o with
               | None -> Printf.printf "o %s | ERROR\n" opname; dead := true
               | Some (st', msgs) -> st := st'; observe opname st' msgs)
        end)
