(* C18 model driver: executes a clipboard session script on the extracted Coq model
   (Session/ClipboardDefs.v: wstep) and prints one canonical observation line per script line,
   in the format of harness/vdrv_clip.c.  Parsing and printing only; the zlib oracle answers
   (what a compressed string inflates to and how its stream ends, what compress() and
   deflate(Z_SYNC_FLUSH) produce) come from "zdef" lines of the script - they were computed by
   the real zlib outside of both drivers. *)
open Model
open Vutil

let showlen = 32
let hexval c = if c <= '9' then Char.code c - 48 else (Char.code (Char.lowercase_ascii c)) - 87
let ztab = Array.init 256 z_of_int

let bytes_of_hex (s : string) : z list =
  if s = "-" then [] else begin
    let n = String.length s / 2 in
    let r = ref [] in
    for i = n - 1 downto 0 do
      r := ztab.(hexval s.[2 * i] * 16 + hexval s.[2 * i + 1]) :: !r
    done;
    !r end

let ints_of (t : z list) : int list = List.rev (List.rev_map int_of_z t)

let hex_of (t : z list) : string =
  let b = Buffer.create 64 in
  List.iter (fun v -> Buffer.add_string b (Printf.sprintf "%02x" (int_of_z v))) t;
  if Buffer.length b = 0 then "-" else Buffer.contents b

let frags_of (s : string) : z list list =
  if s = "" then [] else List.map bytes_of_hex (String.split_on_char ',' s)

let fnv (l : int list) : int64 =
  List.fold_left (fun h b -> Int64.mul (Int64.logxor h (Int64.of_int b)) 1099511628211L)
    (-3750763034362895579L) l

let fmt_text (t : z list) : string =
  let l = ints_of t in
  let n = List.length l in
  if n = 0 then "-"
  else if n <= showlen then String.concat "" (List.map (Printf.sprintf "%02x") l)
  else Printf.sprintf "#%016Lx" (fnv l)

let zlen (t : z list) = List.length t

(* ---- zlib oracle tables ---- *)
exception Oracle_miss of string
let t_inf : (string, z list * zterm) Hashtbl.t = Hashtbl.create 64
let t_cmp : (string, z list) Hashtbl.t = Hashtbl.create 64
let t_syn : (string, z list) Hashtbl.t = Hashtbl.create 64
let key (t : z list) : string =
  let l = ints_of t in
  if List.length l <= 64 then hex_of t else Printf.sprintf "%d#%016Lx" (List.length l) (fnv l)
let zinflate (z : z list) = try Hashtbl.find t_inf (key z) with Not_found -> raise (Oracle_miss "inflate")
let zcompress (d : z list) = try Hashtbl.find t_cmp (key d) with Not_found -> raise (Oracle_miss "compress")
let zsync (d : z list) = try Hashtbl.find t_syn (key d) with Not_found -> raise (Oracle_miss "sync")

let ev_s (e : event) : string =
  match e with
  | EvKey (c, d, k) -> Printf.sprintf "K:%d:%d:%d" (int_of_z c) (int_of_z d) (int_of_z k)
  | EvPtr (c, m, x, y) -> Printf.sprintf "P:%d:%d:%d:%d" (int_of_z c) (int_of_z m) (int_of_z x) (int_of_z y)
  | EvPtrUndef (c, m) -> Printf.sprintf "PU:%d:%d" (int_of_z c) (int_of_z m)
  | EvCut (c, t) -> Printf.sprintf "C:%d:%d:%s" (int_of_z c) (zlen t) (fmt_text t)
  | EvCutUTF8 (c, t, j) -> Printf.sprintf "U:%d:%d:%s:%d" (int_of_z c) (zlen t + int_of_z j) (fmt_text t) (int_of_z j)
  | EvUndef c -> Printf.sprintf "UX:%d" (int_of_z c)

let wev_s (e : wevent) : string =
  match e with
  | WSrv e -> ev_s e
  | WLvc (id, GotCut t) -> Printf.sprintf "GC:%d:%d:%s" (int_of_z id) (zlen t) (fmt_text t)
  | WLvc (id, GotCutUTF8 (t, j)) -> Printf.sprintf "GU:%d:%d:%s:%d" (int_of_z id) (zlen t + int_of_z j) (fmt_text t) (int_of_z j)
  | WLvc (id, GotUndef) -> Printf.sprintf "GX:%d" (int_of_z id)
  | WLvcSendFail id -> Printf.sprintf "SF:%d" (int_of_z id)
  | WLvcGaveUp id -> Printf.sprintf "GD:%d" (int_of_z id)

let cl_s (c : client) : string =
  let p = c.c_ptr in
  Printf.sprintf "%d:%d:%s:%d:%d:%d:%s:%s" (int_of_z c.c_id) (int_of_z (state_code c.c_state))
    (b2s c.c_viewonly) (int_of_z c.c_sw) (int_of_z c.c_sh) (int_of_z p.p_lastbtn) (b2s c.c_clip.k_ext)
    (if int_of_z p.p_lastx >= 0 then Printf.sprintf "%d,%d" (int_of_z p.p_lastx) (int_of_z p.p_lasty) else "-")

(* clipboard messages already shown, per connection; connections whose output is decoded *)
let shown : (int, int) Hashtbl.t = Hashtbl.create 16
let dec_on : (int, bool) Hashtbl.t = Hashtbl.create 16

let is_lvc (w : world) (id : int) = List.exists (fun ((i, _), _) -> int_of_z i = id) w.w_lvcs

let out_s (w : world) : string =
  let live = List.filter (fun c -> not c.c_closed) w.w_srv.s_clients in
  (* the harness lists connections in the order they were created *)
  let sorted = List.sort (fun a b -> compare (int_of_z a.c_id) (int_of_z b.c_id)) live in
  ignore sorted;
  let parts = ref [] in
  List.iter (fun c ->
    let id = int_of_z c.c_id in
    if Hashtbl.mem dec_on id && not (is_lvc w id) then begin
      let outs = c.c_clip.k_out in
      let n0 = try Hashtbl.find shown id with Not_found -> 0 in
      List.iteri (fun i m ->
        if i >= n0 then begin
          let (k, b) = out_view m in
          parts := Printf.sprintf "%d:%d:%d:%s" id (int_of_z k) (zlen b) (fmt_text b) :: !parts end) outs;
      Hashtbl.replace shown id (List.length outs) end) (List.rev w.w_srv.s_clients);
  String.concat ";" (List.rev !parts)

let lk_s (w : world) : string =
  String.concat "," (List.map (fun c -> string_of_int (int_of_z c.c_id))
    (List.filter (fun c -> (not c.c_closed) && c.c_clip.k_locked) w.w_srv.s_clients))

let print_state (tag : string) (w : world) (evs : wevent list) : unit =
  let s = w.w_srv in
  Printf.printf "%s ev=[%s] cl=[%s] own=%s out=[%s] lk=[%s]\n" tag
    (String.concat ";" (List.map wev_s evs))
    (String.concat ";" (List.map cl_s (List.filter (fun c -> not c.c_closed) s.s_clients)))
    (match s.s_owner with Some h -> string_of_int (int_of_z h) | None -> "-")
    (out_s w) (lk_s w)

let wld : world option ref = ref None
let npw = ref 0

let step1 w o = wstep zinflate zcompress zsync w o

let () =
  let zi s = z_of_int (int_of_string s) in
  let bi s = int_of_string s <> 0 in
  let run tag (ops : wop list) =
    match !wld with
    | None -> Printf.printf "?? no screen\n"
    | Some w ->
        (try
           let (w', evs) = List.fold_left (fun (w, acc) o -> let (w', e) = step1 w o in (w', acc @ e)) (w, []) ops in
           print_state tag w' evs; wld := Some (unlock_all w')
         with Oracle_miss what -> Printf.printf "?? oracle %s\n" what) in
  let inop o = WOp (CIn o) in
  iter_lines stdin (fun line ->
    match split_ws line with
    | [] -> ()
    | "case" :: _ -> wld := None; Hashtbl.reset shown; Hashtbl.reset dec_on;
        Hashtbl.reset t_inf; Hashtbl.reset t_cmp; Hashtbl.reset t_syn; print_endline line
    | ["zdef"; "inf"; z; c; t] ->
        Hashtbl.replace t_inf (key (bytes_of_hex z)) (bytes_of_hex c, (match t with "E" -> ZEnd | "M" -> ZMore | _ -> ZErr));
        print_endline "zdef"
    | ["zdef"; "cmp"; c; z] -> Hashtbl.replace t_cmp (key (bytes_of_hex c)) (bytes_of_hex z); print_endline "zdef"
    | ["zdef"; "syn"; c; z] -> Hashtbl.replace t_syn (key (bytes_of_hex c)) (bytes_of_hex z); print_endline "zdef"
    | "screen" :: w :: h :: np :: fvo :: nev :: alw :: dd :: dp :: u8 :: var ->
        npw := int_of_string np;
        let v = match var with [x] -> zi x | _ -> z_of_int 0 in
        let cfg = { g_w = zi w; g_h = zi h; g_haspw = int_of_string np > 0; g_firstvo = zi fvo;
                    g_never = bi nev; g_always = bi alw; g_dontdisc = bi dd; g_deferptr = zi dp;
                    g_utf8cb = bi u8; g_variant = v } in
        let wd = { w_srv = init_server cfg; w_lvcs = []; w_sched = [] } in
        wld := Some wd; print_state "screen" wd []
    | _ when !wld = None -> Printf.printf "?? no screen: %s\n" line
    | ["connect"; id; vo] -> run "connect" [inop (OConnect (zi id, bi vo))]
    | "send" :: id :: rest -> run "send" [inop (OSend (zi id, frags_of (match rest with [f] -> f | _ -> "")))]
    | ["eof"; id] -> run "eof" [inop (OEof (zi id))]
    | ["vo"; id; v] -> run "vo" [inop (OViewOnly (zi id, bi v))]
    | ["tick"; ms] -> run "tick" [inop (OTick (zi ms))]
    | ["p"] -> run "p" [inop OProcess]
    | ["pub"; t] -> run "pub" [WOp (CPub (bytes_of_hex t))]
    | ["pubu"; t; f] -> run "pubu" [WOp (CPubUTF8 (bytes_of_hex t, if f = "N" then None else Some (bytes_of_hex f)))]
    | ["hsdone"; id] ->
        let i = int_of_string id in
        Hashtbl.replace dec_on i true;
        (match !wld with
         | Some w ->
             List.iter (fun c -> if int_of_z c.c_id = i then Hashtbl.replace shown i (List.length c.c_clip.k_out)) w.w_srv.s_clients
         | None -> ());
        run "hsdone" []
    | ["rc_connect"; id; u8] ->
        (* the bytes a LibVNCClient sends to get going, as far as this model can tell them apart:
           version 3.8, security type None, ClientInit(shared), SetPixelFormat(32 bpp true colour),
           SetEncodings (with the extended-clipboard pseudo-encoding iff it has GotXCutTextUTF8) *)
        let ver = bytes_of_hex "524642203030332e3030380a" in
        let spfb = bytes_of_hex "0000000020180001ff00ff00ff00100800000000" in
        let se = if bi u8 then bytes_of_hex "02000001c0a1e5ce" else bytes_of_hex "02000000" in
        run "rc_connect"
          ([inop (OConnect (zi id, false));
            inop (OSend (zi id, [ver @ bytes_of_hex "01" @ bytes_of_hex "01" @ spfb @ se]))]
           @ List.init 8 (fun _ -> inop OProcess)
           @ [WLvcNew (zi id, bi u8)])
    | ["rc_cut"; id; t] -> run "rc_cut" [WLvcCut (zi id, bytes_of_hex t)]
    | ["rc_utf8"; id; t] -> run "rc_utf8" [WLvcUTF8 (zi id, bytes_of_hex t)]
    | ["rc_pump"; id] -> run "rc_pump" [WLvcPump (zi id, nat_of_int 0)]
    | ["rc_pump"; id; n] ->
        (* n FramebufferUpdate messages were among those the client digested (told by the script) *)
        let k = int_of_string n in
        (match !wld with
         | None -> Printf.printf "?? no screen\n"
         | Some w ->
             (try
                let (w', evs) = step1 w (WLvcPump (zi id, nat_of_int k)) in
                let gf = List.init k (fun _ -> Printf.sprintf "GF:%s" id) in
                let s = w'.w_srv in
                Printf.printf "rc_pump ev=[%s] cl=[%s] own=%s out=[%s] lk=[%s]\n"
                  (String.concat ";" (let (gd, rest) = List.partition (fun e -> match e with WLvcGaveUp _ -> true | _ -> false) evs in
                                      List.map wev_s rest @ gf @ List.map wev_s gd))
                  (String.concat ";" (List.map cl_s (List.filter (fun c -> not c.c_closed) s.s_clients)))
                  (match s.s_owner with Some h -> string_of_int (int_of_z h) | None -> "-")
                  (out_s w') (lk_s w');
                wld := Some (unlock_all w')
              with Oracle_miss what -> Printf.printf "?? oracle %s\n" what))
    | ["rc_fur"; id] ->
        (* SendFramebufferUpdateRequest(client, 0, 0, width, height, FALSE) *)
        (match !wld with
         | Some w -> run "rc_fur" [WLvcFur (zi id, z_of_int 0, z_of_int 0, z_of_int 0, w.w_srv.s_cfg.g_w, w.w_srv.s_cfg.g_h)]
         | None -> Printf.printf "?? no screen\n")
    | ["rc_sched"; id; sc] ->
        run "rc_sched" [WLvcSched (zi id, List.map (fun x -> z_of_int (int_of_string x)) (String.split_on_char ',' sc))]
    | _ -> Printf.printf "?? %s\n" line)
