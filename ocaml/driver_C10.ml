(* C10 model driver: executes a pixel-translation script on the extracted Coq model
   (Pixel/Translate.v) and prints one canonical observation line per operation, same format as
   harness/vdrv_translate.c.  Parsing and printing only. *)
open Model
open Vutil

let zi s = z_of_int (int_of_string s)

let fmt_of (a : string list) : pixfmt option =
  match a with
  | [b; d; e; t; rm; gm; bm; r; g; bl] ->
      Some { bpp = zi b; depth = zi d; be = (int_of_string e <> 0); tc = (int_of_string t <> 0);
             rmax = zi rm; gmax = zi gm; bmax = zi bm; rs = zi r; gs = zi g; bs = zi bl }
  | _ -> None

let zero_fmt = { bpp = Z0; depth = Z0; be = false; tc = false; rmax = Z0; gmax = Z0; bmax = Z0; rs = Z0; gs = Z0; bs = Z0 }

let hex_of_bytes (l : z list) : string =
  let b = Buffer.create 1024 in
  List.iter (fun v -> Buffer.add_string b (Printf.sprintf "%02x" (int_of_z v))) l;
  Buffer.contents b

let bytes_of_hex (s : string) : z list =
  let n = String.length s / 2 in
  let rec go i acc = if i < 0 then acc else go (i - 1) (z_of_int (int_of_string ("0x" ^ String.sub s (2 * i) 2)) :: acc) in
  go (n - 1) []

let fnv64 (l : z list) : string =
  let h = ref 0xcbf29ce484222325L in
  List.iter (fun v -> h := Int64.mul (Int64.logxor !h (Int64.of_int (int_of_z v))) 0x100000001b3L) l;
  Printf.sprintf "%016Lx" !h

let fmt_s (f : pixfmt) =
  Printf.sprintf "%d %d %d %d %d %d %d %d %d %d" (int_of_z f.bpp) (int_of_z f.depth) (if f.be then 1 else 0)
    (if f.tc then 1 else 0) (int_of_z f.rmax) (int_of_z f.gmax) (int_of_z f.bmax) (int_of_z f.rs) (int_of_z f.gs) (int_of_z f.bs)

let () =
  let sf = ref zero_fmt and cf = ref zero_fmt and econ = ref false and cm = ref empty_cmap in
  let state : (pixfmt * strategy) option ref = ref None in
  let tcm = ref empty_cmap in     (* the colour map the client's table was built from *)
  let tbl_s st cf' = (match st with
      | SNone -> "tbl=- tsum=-"
      | _ -> let t = table_bytes st !sf cf' !tcm in Printf.sprintf "tbl=%d tsum=%s" (List.length t) (fnv64 t)) in
  iter_lines stdin (fun line ->
    match split_ws line with
    | [] -> ()
    | "case" :: _ ->
        sf := zero_fmt; cf := zero_fmt; econ := false; cm := empty_cmap; tcm := empty_cmap; state := None; print_endline line
    | "sf" :: a -> (match fmt_of a with Some f -> sf := f | None -> ())
    | "cf" :: a -> (match fmt_of a with Some f -> cf := f | None -> ())
    | ["econ"; v] -> econ := (int_of_string v <> 0)
    | "cmap" :: is16 :: count :: data ->
        cm := { cm_is16 = (int_of_string is16 <> 0); cm_count = zi count; cm_data = List.map zi data }
    | ["setup"] | ["setupmsg"; _; _] as ws ->
        state := None;
        (* a SetPixelFormat message delivers the two flags as bytes: any non-zero value is true *)
        let cfv = (match ws with
                   | ["setupmsg"; b; t] -> { !cf with be = wire_flag (zi b); tc = wire_flag (zi t) }
                   | _ -> !cf) in
        (match set_translate !econ !sf cfv with
         | SetupErr _ -> print_endline "setup ok=0"
         | SetupCrash -> print_endline "setup crash"
         | SetupOk (cf', st, msg) ->
             state := Some (cf', st);
             tcm := !cm;
             Printf.printf "setup ok=1 fn=%s cf=%s msg=%s %s\n" (match st with SNone -> "none" | _ -> "table")
               (fmt_s cf') (if msg = [] then "-" else hex_of_bytes msg) (tbl_s st cf'))
    | ["newfb"; bps; _; bytespp] ->
        (match !state with
         | None -> print_endline "newfb nosetup"
         | Some (cfe, st) ->
             let (sf', r) = new_framebuffer !econ !sf (zi bytespp) (zi bps) cfe in
             sf := sf'; cm := empty_cmap;
             (match r with
              | None -> Printf.printf "newfb sf=%s client ok=1 fn=%s cf=%s msg=- %s\n" (fmt_s sf')
                          (match st with SNone -> "none" | _ -> "table") (fmt_s cfe) (tbl_s st cfe)
              | Some (SetupOk (cf', st', msg)) ->
                  state := Some (cf', st'); tcm := empty_cmap;
                  Printf.printf "newfb sf=%s client ok=1 fn=%s cf=%s msg=%s %s\n" (fmt_s sf')
                    (match st' with SNone -> "none" | _ -> "table") (fmt_s cf')
                    (if msg = [] then "-" else hex_of_bytes msg) (tbl_s st' cf')
              | Some SetupCrash -> state := None; print_endline "newfb crash"
              | Some (SetupErr _) -> state := None; Printf.printf "newfb sf=%s ok=0\n" (fmt_s sf')))
    | "recmap" :: ready :: is16 :: count :: data ->
        cm := { cm_is16 = (int_of_string is16 <> 0); cm_count = zi count; cm_data = List.map zi data };
        (match !state with
         | None -> print_endline "recmap nosetup"
         | Some (cf', st) ->
             tcm := recolour !sf (int_of_string ready <> 0) !tcm !cm;
             Printf.printf "recmap ret=1 mod=%s %s\n"
               (if recolour_marks_screen !sf (int_of_string ready <> 0) then "full" else "empty") (tbl_s st cf'))
    | "xlate" :: stride :: w :: h :: rest ->
        (match !state with
         | None -> print_endline "xlate nosetup"
         | Some (cf', st) ->
             let input = (match rest with [hx] -> bytes_of_hex hx | _ -> []) in
             (match translate_fn st !sf cf' !tcm (zi stride) (zi w) (zi h) input with
              | XOk out -> print_endline ("xlate out=" ^ hex_of_bytes out)
              | XFault off -> Printf.printf "xlate FAULT at=%d\n" (int_of_z off)
              | XUndef why -> Printf.printf "xlate undef=%d\n" (int_of_z why)))
    | ["extent"; stride; w; h] ->
        (match !state with
         | None -> print_endline "extent nosetup"
         | Some (cf', st) ->
             Printf.printf "extent hi=%d\n" (int_of_z (read_extent (reads_fn st !sf cf' (zi stride) (zi w) (zi h)))))
    | _ -> Printf.printf "?? %s\n" line)
