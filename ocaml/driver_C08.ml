(* C08 model driver: identical to driver_C07.ml (same mirror model, same script language); kept as a
   separate file because every property owns its driver.  Parsing / printing only.
   mode "enc": high-level script -> token script, using the extracted reference encoders
               (the Model.ref_ functions) with a choice oracle derived from the seed given in the script;
   mode "dec": token script -> observation lines of the extracted client mirror (Model.step),
               same format as harness/vdrv_client.c. *)
open Model
open Vutil

let hexd = "0123456789abcdef"
let hex_of_bytes (l : z list) : string =
  let b = Buffer.create 256 in
  List.iter (fun v -> let n = int_of_z v in
              if n < 0 then Buffer.add_string b "uu"      (* a byte the C code leaves undefined *)
              else (let n = n land 255 in Buffer.add_char b hexd.[n lsr 4]; Buffer.add_char b hexd.[n land 15])) l;
  Buffer.contents b
let hv c = match c with '0'..'9' -> Char.code c - 48 | 'a'..'f' -> Char.code c - 87 | 'A'..'F' -> Char.code c - 55 | _ -> 0
let bytes_of_hex (s : string) : z list =
  let n = String.length s / 2 in
  let rec go i acc = if i < 0 then acc else go (i - 1) (z_of_int ((hv s.[2*i] lsl 4) lor hv s.[2*i+1]) :: acc) in
  go (n - 1) []

(* fixed-width hex pixel values, row-major -> rows *)
let rows_of_hex (s : string) (bypp : int) (w : int) (h : int) : z list list =
  let d = 2 * bypp in
  let px i = let v = ref 0 in for k = 0 to d - 1 do v := (!v lsl 4) lor hv s.[i * d + k] done; z_of_int !v in
  List.init h (fun j -> List.init w (fun i -> px (j * w + i)))

(* choice oracle: a pure function of (seed, index) *)
let mk_choice (seed : int) : z -> z = fun zi ->
  let i = int_of_z zi in
  let x = ref ((seed * 0x9E3779B1 + i * 0x85EBCA77 + 0x1234567) land 0x3FFFFFFFFFFFFF) in
  x := (!x lxor (!x lsr 15)) * 0x2C1B3C6D land 0x3FFFFFFFFFFFFF;
  x := (!x lxor (!x lsr 12)) * 0x297A2D39 land 0x3FFFFFFFFFFFFF;
  x := !x lxor (!x lsr 15);
  z_of_int (!x land 0x3FFFFFFF)

(* "SEED" or "SEED/i=v,i=v,...": the hash oracle with the answers at the listed indices forced (any function is a
   legitimate choice oracle; the forced answers let the generator aim at given tile-type sequences) *)
let mk_choice_ov (spec : string) : z -> z =
  match String.index_opt spec '/' with
  | None -> mk_choice (int_of_string spec)
  | Some k ->
      let base = mk_choice (int_of_string (String.sub spec 0 k)) in
      let ovs = List.filter_map (fun kv ->
                  match String.split_on_char '=' kv with
                  | [i; v] -> Some (int_of_string i, int_of_string v)
                  | _ -> None)
                  (String.split_on_char ',' (String.sub spec (k + 1) (String.length spec - k - 1))) in
      fun zi -> (match List.assoc_opt (int_of_z zi) ovs with Some v -> z_of_int v | None -> base zi)

let bool_of s = s <> "0"
let words_of_encs (ws : string list) : z list =
  List.map (fun w -> z_of_int (match String.lowercase_ascii w with
    | "raw" -> 0 | "copyrect" -> 1 | "tight" -> 2 | "hextile" -> 3 | "zlib" -> 4 | "zlibhex" -> 5
    | "trle" -> 6 | "zrle" -> 7 | "zywrle" -> 8 | "ultra" | "ultrazip" -> 9 | "corre" -> 10 | "rre" -> 11
    | _ -> 99)) ws

let enc_num = function
  | "raw" -> 0 | "copyrect" -> 1 | "rre" -> 2 | "corre" -> 4 | "hextile" -> 5 | "zlib" -> 6 | "tight" -> 7
  | "ultra" -> 9 | "trle" -> 15 | "zrle" -> 16 | s -> int_of_string s

(* ------------------------------------------------------------------ enc mode *)
let cur_bypp = ref 4
let cur_fmt : pixfmt option ref = ref None
let fresh0 = ref true
let fresh5 = ref true      (* ZRLE has a deflate stream of its own *)
let tight_st = ref [false; false; false; false]

let emit_b (l : z list) = print_string "b "; print_endline (hex_of_bytes l)

(* token list -> script lines: runs of plain bytes are merged *)
let emit_toks (ts : tok list) =
  let flush acc = if acc <> [] then emit_b (List.rev acc) in
  let rec go acc = function
    | [] -> flush acc
    | TB b :: r -> go (b :: acc) r
    | TZ (sid, fresh, ok, data) :: r ->
        flush acc;
        Printf.printf "z %d %s %s %s\n" (int_of_z sid) (b2s fresh) (b2s ok) (hex_of_bytes data); go [] r
    | TL data :: r -> flush acc; Printf.printf "l %s\n" (hex_of_bytes data); go [] r in
  go [] ts

let enc_mode () =
  let zi s = z_of_int (int_of_string s) in
  iter_lines stdin (fun line ->
    match split_ws line with
    | [] -> ()
    | "init" :: _w :: _h :: bpp :: depth :: be :: rmax :: gmax :: bmax :: rs :: gs :: bs :: _ ->
        cur_bypp := int_of_string bpp / 8;
        cur_fmt := Some { f_bpp = zi bpp; f_depth = zi depth; f_be = (be <> "0"); f_rmax = zi rmax; f_gmax = zi gmax;
                          f_bmax = zi bmax; f_rshift = zi rs; f_gshift = zi gs; f_bshift = zi bs };
        fresh0 := true; fresh5 := true; tight_st := [false; false; false; false];
        print_endline line
    | ["fbu"; n] -> emit_b (fbu_header (zi n))
    | ["copyrect"; x; y; w; h; sx; sy] ->
        emit_b (app (rect_header (zi x) (zi y) (zi w) (zi h) (z_of_int 1)) (ref_copyrect (zi sx) (zi sy)))
    | ["rect"; enc; x; y; w; h; seed; pix] ->
        let bypp = !cur_bypp in
        let wi = int_of_string w and hi = int_of_string h in
        let rows = rows_of_hex pix bypp wi hi in
        let ch = mk_choice_ov seed in
        let zb = z_of_int bypp in
        let hdr = rect_header (zi x) (zi y) (zi w) (zi h) (z_of_int (enc_num enc)) in
        (match enc with
         | "raw" -> emit_b (app hdr (ref_raw zb rows))
         | "rre" -> emit_b (app hdr (ref_rre ch zb (zi w) (zi h) rows))
         | "corre" -> emit_b (app hdr (ref_corre ch zb (zi w) (zi h) rows))
         | "hextile" -> emit_b (app hdr (ref_hextile ch zb (zi w) (zi h) rows))
         | "zlib" | "zrle" | "trle" | "tight" | "ultra" ->
             let f = match !cur_fmt with Some f -> f | None -> failwith "no init" in
             let body = match enc with
               | "zlib" -> let r = ref_zlib f !fresh0 rows in fresh0 := false; r
               | "zrle" -> let r = ref_zrle ch f !fresh5 (zi w) (zi h) rows in fresh5 := false; r
               | "trle" -> ref_trle ch f (zi w) (zi h) rows
               | "ultra" -> ref_ultra f rows
               | _ -> let (r, st) = ref_tight ch f (zi w) (zi h) rows !tight_st in tight_st := st; r in
             emit_toks (app (toks hdr) body)
         | _ -> Printf.printf "?? %s\n" line)
    | _ -> print_endline line)

(* ------------------------------------------------------------------ dec mode *)
let ev_s (e : event) : string =
  let i = int_of_z in
  match e with
  | EvUpdate (x, y, w, h) -> Printf.sprintf "U%d,%d,%d,%d" (i x) (i y) (i w) (i h)
  | EvFinished -> "F"
  | EvBell -> "B"
  | EvCut t -> "T" ^ hex_of_bytes t
  | EvCursor (xh, yh, w, h, b, src, mask) ->
      Printf.sprintf "C%d,%d,%d,%d,%d s=%s m=%s" (i xh) (i yh) (i w) (i h) (i b) (hex_of_bytes src) (hex_of_bytes mask)
  | EvPos (x, y) -> Printf.sprintf "P%d,%d" (i x) (i y)
  | EvLed v -> Printf.sprintf "L%d" (i v)
  | EvResize (w, h) -> Printf.sprintf "R%d,%d" (i w) (i h)

let report (tag : string) (s : cst) =
  Printf.printf "%s ev=[%s] sent=%s\n" tag (String.concat " " (List.rev_map ev_s (c_ev s)))
    (hex_of_bytes (List.rev (c_out s)))

let dump = ref true

let print_fb (s : cst) =
  if c_taint s then print_endline "fb tainted" else begin
    let bypp = int_of_z (c_fmt s).f_bpp / 8 in
    let f = c_fmt s in
    let i = int_of_z in
    let mask = (((i f.f_rmax) lsl (i f.f_rshift)) lor ((i f.f_gmax) lsl (i f.f_gshift)) lor ((i f.f_bmax) lsl (i f.f_bshift)))
               land ((1 lsl (8 * bypp)) - 1) in
    let b = Buffer.create 4096 in
    let hsh = ref 7 in                      (* 40-bit polynomial hash, same arithmetic as the C harness *)
    List.iter (fun row -> List.iter (fun v ->
      let n = (int_of_z v) land mask in
      if !dump then Buffer.add_string b (Printf.sprintf "%0*x" (2 * bypp) n)
      else for k = 0 to bypp - 1 do hsh := (!hsh * 1000003 + ((n lsr (8 * k)) land 255)) land 0xFFFFFFFFFF done) row) (c_fb s);
    if !dump then Printf.printf "fb %dx%d %s\n" (int_of_z (c_w s)) (int_of_z (c_h s)) (Buffer.contents b)
    else Printf.printf "fb %dx%d h=%010x\n" (int_of_z (c_w s)) (int_of_z (c_h s)) !hsh
  end

let has_finished (s : cst) = List.exists (fun e -> e = EvFinished) (c_ev s)

let dec_mode () =
  let st : cst option ref = ref None in
  let pending : tok list ref = ref [] in       (* reversed *)
  let zi s = z_of_int (int_of_string s) in
  iter_lines stdin (fun line ->
    match split_ws line with
    | [] -> ()
    | "case" :: _ -> st := None; pending := []; print_endline line
    | "init" :: w :: h :: bpp :: depth :: be :: rmax :: gmax :: bmax :: rs :: gs :: bs :: _sibpp :: sigmax :: encs ->
        let f = { f_bpp = zi bpp; f_depth = zi depth; f_be = bool_of be; f_rmax = zi rmax; f_gmax = zi gmax;
                  f_bmax = zi bmax; f_rshift = zi rs; f_gshift = zi gs; f_bshift = zi bs } in
        let s0 = init_state f (zi sigmax) (zi w) (zi h) in
        pending := [];
        st := Some s0;
        Printf.printf "init rc=1 %sx%s ev=[R%s,%s] sent=%s\n" w h w h
          (hex_of_bytes (init_out f (words_of_encs encs) (z_of_int 3) (z_of_int 9) false true true (zi w) (zi h)))
    | ["fill"; seed] ->
        (match !st with
         | None -> print_endline "fill none"
         | Some s ->
             let w = int_of_z (c_w s) and h = int_of_z (c_h s) and bpp = int_of_z (c_fmt s).f_bpp in
             let sd = int_of_string seed in
             let px i = z_of_int ((((sd + i) * 2654435761) land 0xffffffff) lsr (32 - bpp)) in
             let fb = List.init h (fun j -> List.init w (fun i -> px (j * w + i))) in
             st := Some (load_fb s fb); print_endline "fill")
    | ["dump"; v] -> dump := (v <> "0"); print_endline "dump"
    | ["fixed"; m] ->
        (match !st with Some s -> st := Some (set_fix s (zi m)) | None -> ()); print_endline "fixed"
    | ["b"] -> print_endline "b"
    | ["b"; hx] -> pending := List.rev_append (List.map (fun b -> TB b) (bytes_of_hex hx)) !pending; print_endline "b"
    | "z" :: sid :: fresh :: ok :: rest ->
        let hx = match rest with [h] -> h | _ -> "" in
        pending := TZ (zi sid, bool_of fresh, bool_of ok, bytes_of_hex hx) :: !pending; print_endline "z"
    | "l" :: rest ->
        let hx = match rest with [h] -> h | _ -> "" in
        pending := TL (bytes_of_hex hx) :: !pending; print_endline "l"
    | "seg" :: _ -> print_endline "seg"
    | ["api"; "extsize"; w; h] ->
        (* SendExtDesktopSize called by the application between two messages *)
        (match !st with
         | None -> print_endline "api none"
         | Some s -> let s' = api_ext_size (zi w) (zi h) (clr_log s) in report "api" s'; st := Some (clr_log s'))
    | ["run"] ->
        (match !st with
         | None -> print_endline "end none"
         | Some s0 ->
             let rec loop s ts =
               if ts = [] then (print_endline "end ok"; Some s) else
               match step s ts with
               | StepOk (s', ts') ->
                   report "msg" s';
                   if has_finished s' then print_fb s';
                   loop (clr_log s') ts'
               | StepFail -> print_endline "end fail"; None
               | StepMore -> print_endline "end eof"; None
               | StepDesync -> print_endline "end desync"; None
               | StepOob c -> Printf.printf "end oob %d\n" (int_of_z c); None in
             let r = loop (clr_log s0) (List.rev !pending) in
             pending := []; st := r)
    | _ -> Printf.printf "?? %s\n" line)

let () =
  match Sys.argv with
  | [| _; "enc" |] -> enc_mode ()
  | _ -> dec_mode ()
