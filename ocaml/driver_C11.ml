(* C11 model driver: executes a region script on the extracted Coq model and prints one
   canonical observation line per operation (same format as harness/vdrv_region.c). *)
open Model
open Vutil

let nreg = 16
let regs : region array = Array.make nreg rgn_empty

let rect_s ((((x1, y1), x2), y2) : rect) =
  Printf.sprintf "%d,%d,%d,%d" (int_of_z x1) (int_of_z y1) (int_of_z x2) (int_of_z y2)

(* the four orders are produced by the iterator MACHINE (one iter_next per sraRgnIteratorNext);
   where it meets the C code's undefined behaviour (a band without spans) the line says so *)
let iter_s rx ry r =
  match rgn_iter_machine rx ry r with
  | Some l -> String.concat ";" (List.map rect_s l)
  | None -> "undefined:" ^ String.concat ";" (List.map rect_s (rgn_iter rx ry r))

let obs (tag : string) (r : region) : string =
  Printf.sprintf "%s e=%s n=%d f=[%s] x=[%s] y=[%s] xy=[%s]" tag (b2s (rgn_is_empty r))
    (int_of_z (rgn_count r)) (iter_s false false r) (iter_s true false r) (iter_s false true r)
    (iter_s true true r)

let () =
  let zi s = z_of_int (int_of_string s) in
  let ri s = int_of_string s in
  iter_lines stdin (fun line ->
    match split_ws line with
    | [] -> ()
    | "case" :: _ -> Array.fill regs 0 nreg rgn_empty; print_endline line
    | ["new"; i] -> regs.(ri i) <- rgn_empty; print_endline (obs "new" regs.(ri i))
    | ["rect"; i; x1; y1; x2; y2] ->
        regs.(ri i) <- rgn_create_rect (zi x1) (zi y1) (zi x2) (zi y2);
        print_endline (obs "rect" regs.(ri i))
    | ["dup"; i; j] -> regs.(ri i) <- regs.(ri j); print_endline (obs "dup" regs.(ri i))
    | ["or"; i; j] -> regs.(ri i) <- rgn_or regs.(ri i) regs.(ri j); print_endline (obs "or" regs.(ri i))
    | ["and"; i; j] ->
        let (r, b) = rgn_and regs.(ri i) regs.(ri j) in
        regs.(ri i) <- r; print_endline (obs ("and b=" ^ b2s b) r)
    | ["sub"; i; j] ->
        let (r, b) = rgn_sub regs.(ri i) regs.(ri j) in
        regs.(ri i) <- r; print_endline (obs ("sub b=" ^ b2s b) r)
    | ["offset"; i; dx; dy] ->
        regs.(ri i) <- rgn_offset regs.(ri i) (zi dx) (zi dy); print_endline (obs "offset" regs.(ri i))
    | ["bbox"; i; j] -> regs.(ri i) <- rgn_bbox regs.(ri j); print_endline (obs "bbox" regs.(ri i))
    | ["pop"; i; fl] ->
        let f = ri fl in
        (match rgn_pop_rect regs.(ri i) (f land 2 = 2) (f land 1 = 1) with
         | None -> print_endline (obs "pop b=0" regs.(ri i))
         | Some (rc, r) -> regs.(ri i) <- r; print_endline (obs ("pop b=1 r=" ^ rect_s rc) r))
    | ["clip"; x; y; w; h; cx; cy; cw; ch] ->
        let ((((b, x'), y'), w'), h') = sraClipRect (zi x) (zi y) (zi w) (zi h) (zi cx) (zi cy) (zi cw) (zi ch) in
        Printf.printf "clip b=%s %d %d %d %d\n" (b2s b) (int_of_z x') (int_of_z y') (int_of_z w') (int_of_z h')
    | ["clip2"; x; y; x2; y2; cx; cy; cx2; cy2] ->
        let ((((b, x'), y'), x2'), y2') = sraClipRect2 (zi x) (zi y) (zi x2) (zi y2) (zi cx) (zi cy) (zi cx2) (zi cy2) in
        Printf.printf "clip2 b=%s %d %d %d %d\n" (b2s b) (int_of_z x') (int_of_z y') (int_of_z x2') (int_of_z y2')
    | ["mem"; i; x; y] -> Printf.printf "mem %s\n" (b2s (rgn_mem regs.(ri i) (zi x) (zi y)))
    | _ -> Printf.printf "?? %s\n" line)
