(* C03 model driver (parsing / printing only; every decision is made by the extracted Model functions).
   Input: the session script merged with what the real server did (snap lines = client state at
   each rfbSendFramebufferUpdate entry, out lines = every byte the server wrote).  For every
   snapshot the model predicts the update (announced count + rectangle headers); every out chunk
   is parsed by the extracted strict parser parse_stream; each parsed FramebufferUpdate is
   compared with the next pending prediction using Model.hdr_matches. *)
open Model
open Vutil

let zi s = z_of_int (int_of_string s)
let iz = int_of_z

let ztab = Array.init 256 z_of_int
let hexval c = match c with '0'..'9' -> Char.code c - 48 | 'a'..'f' -> Char.code c - 87 | 'A'..'F' -> Char.code c - 55 | _ -> 0
let bytes_of_hex (s : string) : z list =
  if s = "-" then [] else begin
    let n = String.length s / 2 in
    let r = ref [] in
    for i = n - 1 downto 0 do
      r := ztab.(hexval s.[2*i] * 16 + hexval s.[2*i+1]) :: !r
    done; !r end

let rec zlen (l : 'a list) = List.length l

(* ---- state of one case ---- *)
let caps = ref caps_init
let cfg = ref { g_dont_convert_rich = false; g_xvp = false; g_utf8 = false; g_ledhook = false; g_reset_extclip = false; g_raw_for_24bpp = false; g_wrap_coalesce = false; g_wrap_copy = false }
let clipcursor = ref false
let mk_pst bpp depth tc rmax gmax bmax w h =
  { p_bpp = bpp; p_depth = depth; p_truecolour = tc; p_rmax = rmax; p_gmax = gmax; p_bmax = bmax;
    p_fbw = w; p_fbh = h; p_latest = []; p_named = []; p_scale_requested = false }
let pst = ref (mk_pst (z_of_int 32) (z_of_int 24) true (z_of_int 255) (z_of_int 255) (z_of_int 255) (z_of_int 0) (z_of_int 0))
let screen = ref None
let fbw = ref 0 and fbh = ref 0
let pending : (upd_out * bool) Queue.t = Queue.create ()      (* predictions not yet matched; bool = scaled *)
let leftover : z list ref = ref []
let offset = ref 0

let sgn32 v = if v >= 0x80000000 then v - 0x100000000 else v

let caps_line tag (c : caps) =
  Printf.sprintf "%s pref=%d copy=%s newfb=%s extds=%s cchg=%s rich=%s cpos=%s cshape=%s last=%s led=%s smsg=%s senc=%s sid=%s q=%d zl=%d cmoved=%s xclip=%s ready=%s fbpend=%s lastled=%d"
    tag (sgn32 (iz c.c_pref)) (b2s c.c_copyrect) (b2s c.c_newfbsize) (b2s c.c_extdesktop) (b2s c.c_cursor_changed)
    (b2s c.c_richcursor) (b2s c.c_cursorpos) (b2s c.c_cursorshape) (b2s c.c_lastrect) (b2s c.c_led)
    (b2s c.c_suppmsgs) (b2s c.c_suppencs) (b2s c.c_ident) (iz c.c_quality) (iz c.c_zliblevel)
    (b2s c.c_cursor_moved) (b2s c.c_extclip) (b2s c.c_ready) (b2s c.c_fbpending) (iz c.c_lastled)

let kv (toks : string list) (key : string) : string =
  let p = key ^ "=" in
  let n = String.length p in
  match List.find_opt (fun t -> String.length t >= n && String.sub t 0 n = p) toks with
  | Some t -> String.sub t n (String.length t - n)
  | None -> ""
let kvi toks key = let s = kv toks key in if s = "" then 0 else int_of_string s

let parse_rects (s : string) : rect list =
  (* "[x1,y1,x2,y2;...]" *)
  let s = String.sub s 1 (String.length s - 2) in
  if s = "" then [] else
  List.map (fun r -> match List.map zi (String.split_on_char ',' r) with
                     | [a; b; c; d] -> (((a, b), c), d)
                     | _ -> failwith "rect") (String.split_on_char ';' s)

let hdr_s (((((x, y), w), h), e) : hdr) = Printf.sprintf "%d,%d,%d,%d,%d" (iz x) (iz y) (iz w) (iz h) (sgn32 (iz e))

let phdr_s = function
  | PH h -> hdr_s h
  | PData ((((x, y), w), h), e) -> Printf.sprintf "D:%d,%d,%d,%d,%d" (iz x) (iz y) (iz w) (iz h) (sgn32 (iz e))

let pred_line (o : upd_out) =
  match o with
  | UNone -> "pred none"
  | UTrap w -> Printf.sprintf "pred trap %d" (iz w)
  | USent (n, hs, lm, ovf) ->
      Printf.sprintf "pred n=%d last=%s ovf=%s known=%d hdrs=[%s]" (iz n) (b2s lm) (b2s ovf)
        (match phdr_count hs with Some k -> iz k | None -> -1) (String.concat ";" (List.map phdr_s hs))

(* compare a prediction with a parsed update *)
let compare_update (o : upd_out) (announced : z) (rects : hdr list) (lm : bool) : string =
  match o with
  | USent (n, hs, plm, _) ->
      if iz n <> iz announced then Printf.sprintf "cmp FAIL announced model=%d impl=%d" (iz n) (iz announced)
      else if plm <> lm then "cmp FAIL lastrect-termination differs"
      else begin
        (* the LastRect marker is not part of the parsed rectangle list *)
        let hs = if plm then List.filter (fun p -> match p with PH ((((_, _), _), _), e) -> iz e <> iz enc_LastRect | _ -> true) hs else hs in
        let rec go (ps : phdr list) (rs : hdr list) (i : int) : string =
          match ps, rs with
          | [], [] -> "cmp ok"
          | [], r :: _ -> Printf.sprintf "cmp FAIL extra rectangle #%d %s" i (hdr_s r)
          | PH p :: pt, r :: rt ->
              if hdr_matches p r then go pt rt (i + 1)
              else Printf.sprintf "cmp FAIL rectangle #%d model=%s impl=%s" i (hdr_s p) (hdr_s r)
          | PH p :: _, [] -> Printf.sprintf "cmp FAIL missing rectangle #%d %s" i (hdr_s p)
          | PData ((((x, y), w), h), e) :: pt, _ ->
              (* Tight rectangles inside (x,y,w,h) whose areas sum to w*h *)
              let x = iz x and y = iz y and w = iz w and h = iz h in
              let rec eat (rs : hdr list) (area : int) (i : int) =
                if area = w * h then go pt rs i
                else match rs with
                  | [] -> Printf.sprintf "cmp FAIL data-dependent split of %d,%d,%d,%d covers only %d pixels" x y w h area
                  | (((((rx, ry), rw), rh), re) as r) :: rt ->
                      let rx = iz rx and ry = iz ry and rw = iz rw and rh = iz rh in
                      if iz re = iz e && rx >= x && ry >= y && rx + rw <= x + w && ry + rh <= y + h && rw > 0 && rh > 0
                         && area + rw * rh <= w * h
                      then eat rt (area + rw * rh) (i + 1)
                      else Printf.sprintf "cmp FAIL rectangle #%d %s does not tile %d,%d,%d,%d" i (hdr_s r) x y w h
              in eat rs 0 i
        in go hs rects 0
      end
  | UNone -> "cmp FAIL model predicted no update"
  | UTrap _ -> "cmp FAIL model predicted a trap"

let msg_line (m : msg) =
  match m with
  | MFbu (n, rs, lm) -> Printf.sprintf "msg fbu n=%d last=%s rects=[%s]" (iz n) (b2s lm) (String.concat ";" (List.map hdr_s rs))
  | MCMap (f, n) -> Printf.sprintf "msg cmap first=%d n=%d" (iz f) (iz n)
  | MBell -> "msg bell"
  | MCutText (n, ext) -> Printf.sprintf "msg cuttext len=%d ext=%s" (iz n) (b2s ext)
  | MResize (w, h) -> Printf.sprintf "msg resize w=%d h=%d" (iz w) (iz h)
  | MPalmResize (w, h) -> Printf.sprintf "msg palmresize w=%d h=%d" (iz w) (iz h)
  | MXvp (v, c) -> Printf.sprintf "msg xvp ver=%d code=%d" (iz v) (iz c)

let handle_out (hex : string) =
  let bytes = !leftover @ bytes_of_hex hex in
  let ((msgs, s'), fin) = parse_stream !pst bytes in
  pst := s';
  List.iter (fun m ->
    print_endline (msg_line m);
    match m with
    | MFbu (n, rs, lm) ->
        (* skip predictions that announce nothing on the wire *)
        let rec next () =
          if Queue.is_empty pending then None
          else match Queue.pop pending with
            | (UNone, _) -> next ()
            | (UTrap _, _) -> next ()
            | p -> Some p in
        (match next () with
         | None -> print_endline "cmp FAIL update without prediction"
         | Some (_, true) -> print_endline "cmp skipped (scaled client or unsupported pixel format)"
         | Some (o, false) -> print_endline (compare_update o n rs lm))
    | _ -> ()) msgs;
  (match fin with
   | SeClean -> leftover := []; print_endline "end clean"
   | SeIncomplete rest -> leftover := rest; Printf.printf "end incomplete %d\n" (List.length rest)
   | SeBad (c, rest) -> leftover := []; Printf.printf "end bad code=%d at=%d\n" (iz c) (List.length bytes - List.length rest))

let () =
  iter_lines stdin (fun line ->
    let toks = split_ws line in
    match toks with
    | [] -> ()
    | "case" :: _ ->
        caps := caps_init; Queue.clear pending; leftover := []; screen := None;
        print_endline line
    | "screen" :: _ ->
        let g k = z_of_int (kvi toks k) in
        let name = List.init (kvi toks "namelen") (fun i -> z_of_int (97 + i mod 26)) in
        let sc = { sc_w = g "w"; sc_h = g "h"; sc_bpp = g "bpp"; sc_depth = g "depth"; sc_be = g "be"; sc_tc = g "tc";
                   sc_rmax = g "rmax"; sc_gmax = g "gmax"; sc_bmax = g "bmax"; sc_rs = g "rs"; sc_gs = g "gs"; sc_bs = g "bs";
                   sc_name = name; sc_password = kvi toks "pw" = 1 } in
        screen := Some sc;
        cfg := { g_dont_convert_rich = kvi toks "dontconv" = 1; g_xvp = kvi toks "xvp" = 1; g_utf8 = kvi toks "utf8" = 1;
                 g_ledhook = kvi toks "ledhook" = 1; g_reset_extclip = kvi toks "resetextclip" = 1;
                 g_raw_for_24bpp = kvi toks "raw24" = 1; g_wrap_coalesce = kvi toks "wrapfix" = 1;
                 g_wrap_copy = kvi toks "wrapcopy" = 1 };
        clipcursor := (kvi toks "clipcursor" = 1);
        fbw := kvi toks "w"; fbh := kvi toks "h";
        pst := mk_pst (g "bpp") (g "depth") (kvi toks "tc" = 1) (g "rmax") (g "gmax") (g "bmax") (g "w") (g "h");
        print_endline "screen ok"
    | ["hs"; minor; choice; authok; reasonlen; hex] ->
        (match !screen with
         | None -> print_endline "hs noscreen"
         | Some sc ->
             let h = { hs_minor = zi minor; hs_choice = zi choice; hs_auth_ok = authok = "1"; hs_reason_len = zi reasonlen } in
             let (_, fin) = handshake_shape sc h in
             Printf.printf "hs ok=%s closed=%s\n" (b2s (check_handshake sc h (bytes_of_hex hex)))
               (match fin with HsClosed -> "1" | HsNormal -> "0"))
    | "setenc" :: encs ->
        let l = List.map (fun s -> let v = int_of_string s in z_of_int (if v < 0 then v + 0x100000000 else v)) encs in
        let (c', imms) = set_encodings !cfg !caps l in
        caps := c'; pst := pst_set_encodings !pst l;
        print_endline (caps_line "caps" c');
        Printf.printf "imm [%s]\n" (String.concat "," (List.map (function ImmXvpInit -> "xvp" | ImmExtClipCaps -> "extclip") imms))
    | ["pixfmt"; bpp; depth; _be; tc; rmax; gmax; bmax; _; _; _] ->
        caps := on_pixfmt !caps;
        pst := pst_set_format !pst (zi bpp) (zi depth) (tc <> "0") (zi rmax) (zi gmax) (zi bmax);
        print_endline (caps_line "caps" !caps)
    | "fur" :: incr :: x :: y :: w :: h :: rest ->
        (* scaled clients: rectSwapIfLEAndClip works on coordinates mapped through floating point
           (rfbScaledCorrection); the acceptance is then computed by props/C03.py and passed as acc= *)
        let acc = match rest with
          | [a] when String.length a > 4 && String.sub a 0 4 = "acc=" -> a = "acc=1"
          | _ -> fur_accepted (z_of_int !fbw) (z_of_int !fbh) (zi x) (zi y) (zi w) (zi h) in
        caps := on_fur !caps acc (incr <> "0");
        print_endline (caps_line "caps" !caps)
    | ["ev"; "ptrmoved"] -> caps := on_ptr_moved !caps; print_endline (caps_line "caps" !caps)
    | ["ev"; "setcursor"] -> caps := on_set_cursor !caps; print_endline (caps_line "caps" !caps)
    | ["ev"; "newfb"; w; h] ->
        caps := on_newfb !caps; fbw := int_of_string w; fbh := int_of_string h;
        (* a client without NewFBSize is never told: its announced size stays what it was *)
        print_endline (caps_line "caps" !caps)
    | ["ev"; "sdsfail"] -> caps := on_sds_fail !caps; print_endline (caps_line "caps" !caps)
    | ["ev"; "setscale"] ->
        let (c', resize) = on_setscale !caps in
        caps := c'; pst := pst_set_scale !pst;
        Printf.printf "%s\nresize=%s\n" (caps_line "caps" !caps) (b2s resize)
    | "snap" :: _ ->
        let rg k = region_of_rects (parse_rects (kv toks k)) in
        let g k = z_of_int (kvi toks k) in
        let cur = match kv toks "cur" with
          | "none" -> None
          | s -> (match List.map int_of_string (String.split_on_char ',' s) with
                  | [a; b; c; d; e] -> Some { cu_xhot = z_of_int a; cu_yhot = z_of_int b; cu_w = z_of_int c; cu_h = z_of_int d; cu_empty = e = 1 }
                  | _ -> None) in
        let sn = { sn_mod = rg "mod"; sn_req = rg "req"; sn_copy = rg "copy"; sn_dx = g "dx"; sn_dy = g "dy";
                   sn_clx = g "clx"; sn_cly = g "cly"; sn_scx = g "scx"; sn_scy = g "scy"; sn_cursor = cur;
                   sn_ledval = g "led"; sn_fbw = g "fbw"; sn_fbh = g "fbh"; sn_maxrects = g "maxrects";
                   sn_cmw = g "cmw"; sn_cmh = g "cmh"; sn_nscreens = g "nscr";
                   sn_bpp = (if kv toks "bpp" = "" then (!pst).p_bpp else g "bpp");
                   sn_rdsc = g "rdsc"; sn_dserr = g "dse" } in
        print_endline (caps_line "mcaps" !caps);
        let (c', o) = model_update_sel !clipcursor !cfg !caps sn in
        caps := c';
        let scaled = kvi toks "scaled" = 1 in
        (* the update model covers unscaled clients with a pixel format the encoders support *)
        let bpp = iz (!pst).p_bpp in
        let unsupported = not (bpp = 8 || bpp = 16 || bpp = 32 || (bpp = 24 && (!cfg).g_raw_for_24bpp)) in
        Queue.push (o, scaled || unsupported) pending;
        print_endline (if scaled then "pred scaled" else if unsupported then "pred unsupported-bpp" else pred_line o)
    | ["out"; hex] -> handle_out hex
    | ["endcase"] ->
        let n = Queue.fold (fun a (o, skip) -> match o with UNone | UTrap _ -> a | _ -> if skip then a else a + 1) 0 pending in
        Printf.printf "endcase unmatched_predictions=%d leftover=%d\n" n (List.length !leftover)
    | _ -> Printf.printf "?? %s\n" line)
