(* C17 model driver: executes a scaling script on the extracted Coq model (integer part) and prints
   one canonical observation line per operation (same format as harness/vdrv_scale.c).
   The floating-point geometry comes from coq/Scale/ScaleF.v, evaluated by coqc (props/C17.py):
     driver collect          < script   prints the float queries the script needs ("Q <key>")
     driver run <table> [zerofix] < script   executes with the answers ("<key>=<1 v...|0>" per line) *)
open Model
open Vutil

let mode = if Array.length Sys.argv > 1 then Sys.argv.(1) else "collect"
let collect = (mode = "collect")
let zero_fix = Array.length Sys.argv > 3 && Sys.argv.(3) = "zerofix"
(* proposed repair notes/fix_C17_3.diff: rfbScheduleCopyRegion refreshes the scaled copies of the destination *)
let copy_fix = Array.exists (fun a -> a = "copyfix") Sys.argv
let table : (string, int list option) Hashtbl.t = Hashtbl.create 1024

let () =
  if not collect && Array.length Sys.argv > 2 then begin
    let ic = open_in Sys.argv.(2) in
    iter_lines ic (fun l ->
      match String.index_opt l '=' with
      | None -> ()
      | Some i ->
          let k = String.sub l 0 i and v = String.sub l (i + 1) (String.length l - i - 1) in
          (match List.map int_of_string (split_ws v) with
           | 1 :: rest -> Hashtbl.replace table k (Some rest)
           | _ -> Hashtbl.replace table k None));
    close_in ic
  end

(* ask the float model; in collect mode print the query and answer with a harmless placeholder *)
let ask (key : string) (placeholder : int list) : int list option =
  if collect then (Printf.printf "Q %s\n" key; Some placeholder)
  else (try Hashtbl.find table key with Not_found -> (Printf.printf "MISSING %s\n" key; None))

let zi s = z_of_int (int_of_string s)
let zhex s = z_of_int (int_of_string ("0x" ^ s))

let dump (f : fb) : string =
  String.concat "/" (List.map (fun r -> String.concat "," (List.map (fun p -> Printf.sprintf "%x" (int_of_z p)) r)) f.rows)
let bytes_s (l : z list) : string = String.concat "" (List.map (fun b -> Printf.sprintf "%02x" (int_of_z b)) l)

let rec chunks n l =
  if l = [] then [] else
  let rec take k l acc = if k = 0 then (List.rev acc, l) else match l with [] -> (List.rev acc, []) | a :: t -> take (k - 1) t (a :: acc) in
  let (a, b) = take n l [] in a :: chunks n b

let fmt = ref { bpp = z_of_int 4; rmax = z_of_int 255; gmax = z_of_int 255; bmax = z_of_int 255;
                rshift = z_of_int 0; gshift = z_of_int 8; bshift = z_of_int 16 }
let tc = ref true
let sw = ref 0
let sh = ref 0
let empty_fb = { fw = Z0; fh = Z0; rows = [] }
let st = ref { mainscr = { ssw = Z0; ssh = Z0; ssref = Z0; ssfb = empty_fb }; chain = []; clients = [] }

(* [x1; y1; w1; h1; ax; ay] ++ sxs (w1) ++ sys (h1) ++ cxs (w1) ++ cys (h1), see ScaleF.upd_geomF *)
let geom_of (l : int list) : geom =
  let rec take k l = if k <= 0 then ([], l) else match l with [] -> ([], []) | a :: t -> let (x, r) = take (k - 1) t in (a :: x, r) in
  match l with
  | a :: b :: c :: d :: e :: f :: rest ->
      let (sxs, r1) = take c rest in let (sys, r2) = take d r1 in
      let (cxs, r3) = take c r2 in let (cys, _) = take d r3 in
      let z = List.map z_of_int in
      { gx1 = z_of_int a; gy1 = z_of_int b; gw1 = z_of_int c; gh1 = z_of_int d; gax = z_of_int e; gay = z_of_int f;
        gsxs = z sxs; gsys = z sys; gcxs = z cxs; gcys = z cys }
  | _ -> { gx1 = Z0; gy1 = Z0; gw1 = Z0; gh1 = Z0; gax = Z0; gay = Z0; gsxs = []; gsys = []; gcxs = []; gcys = [] }
let zero8 = [0; 0; 0; 0; 0; 0]

(* geometry of rfbScaledScreenUpdateRect(main W x H -> w x h, rectangle) *)
let geom_query w h x y ww hh : geom option =
  match ask (Printf.sprintf "G %d %d %d %d %d %d %d %d" !sw !sh w h x y ww hh) zero8 with
  | Some l -> Some (geom_of l)
  | None -> None

let state_s () : string =
  let s = !st in
  Printf.sprintf "main=%dx%d:%d chain=[%s] cl=[%s]" (int_of_z s.mainscr.ssw) (int_of_z s.mainscr.ssh) (int_of_z s.mainscr.ssref)
    (String.concat ";" (List.map (fun c -> Printf.sprintf "%dx%d:%d:%s" (int_of_z c.ssw) (int_of_z c.ssh) (int_of_z c.ssref)
                                     (if collect then "" else dump c.ssfb)) s.chain))
    (String.concat " " (List.mapi (fun k c -> if c.calive then Printf.sprintf "%d:%dx%d" k (int_of_z c.ckw) (int_of_z c.ckh)
                                             else Printf.sprintf "%d:dead" k) s.clients))

(* pointer state machine (Scale/ScalePtr.v): deferPtrUpdateTime, pointerClient, remembered motions *)
let pst = ref { pdefer = Z0; powner = None; pcls = [] }
let ev_s (pre : string) (e : ((z * z option) * z option) option) : string =
  let o = function Some v -> string_of_int (int_of_z v) | None -> "indef" in
  match e with
  | None -> pre ^ " cb=-"
  | Some ((b, x), y) -> Printf.sprintf "%s cb=%s,%s b=%d" pre (o x) (o y) (int_of_z b)

(* rfbMarkRectAsModified -> rfbScaledScreenUpdate of every scaled screen in use (the float queries are
   issued in any case, so that the collected table serves every variant) *)
let mark (name : string) a b c d (refresh : bool) : unit =
  let geoms = List.map (fun s -> geom_query (int_of_z s.ssw) (int_of_z s.ssh) a b (c - a) (d - b)) !st.chain in
  if not refresh then print_endline (name ^ " " ^ state_s ())
  else if List.exists (fun g -> g = None) geoms then print_endline (name ^ " ERR(geometry indefinite)")
  else
    (match mark_modified !tc !fmt (List.map (function Some g -> g | None -> geom_of zero8) geoms) !st with
     | None -> print_endline (name ^ " ERR")
     | Some s' -> st := s'; print_endline (name ^ " " ^ state_s ()))

let () =
  iter_lines stdin (fun line ->
    match split_ws line with
    | [] -> ()
    | "case" :: _ ->
        st := { mainscr = { ssw = Z0; ssh = Z0; ssref = Z0; ssfb = empty_fb }; chain = []; clients = [] };
        pst := { pdefer = Z0; powner = None; pcls = [] };
        print_endline line
    | ["screen"; w; h; b; rm; gm; bm; rs; gs; bs; t] ->
        sw := int_of_string w; sh := int_of_string h; tc := (t = "1");
        fmt := { bpp = zi b; rmax = zi rm; gmax = zi gm; bmax = zi bm; rshift = zi rs; gshift = zi gs; bshift = zi bs };
        st := { mainscr = { ssw = zi w; ssh = zi h; ssref = Z0; ssfb = blank_fb (zi w) (zi h) }; chain = []; clients = [] };
        pst := { pdefer = Z0; powner = None; pcls = [] };
        print_endline "screen ok"
    | ["deferptr"; n] -> pst := { !pst with pdefer = zi n }; print_endline "deferptr ok"
    | "fb" :: toks ->
        let f = { fw = z_of_int !sw; fh = z_of_int !sh; rows = chunks !sw (List.map zhex toks) } in
        st := { !st with mainscr = { !st.mainscr with ssfb = f } };
        print_endline "fb ok"
    | "client" :: _ :: _ ->
        st := client_new !st; pst := ptr_new !pst; print_endline ("client " ^ state_s ())
    | ["scale"; k; n; palm] ->
        let k = int_of_string k and n = int_of_string n in
        (match List.nth_opt !st.clients k with
         | Some c when c.calive ->
             let c = if palm = "1" then { c with cpalm = true } else c in
             st := { !st with clients = List.mapi (fun i x -> if i = k then c else x) !st.clients };
             (match scaled_size (z_of_int !sw) (z_of_int !sh) (z_of_int n) with
              | None ->
                  st := client_gone !st (nat_of_int k); pst := ptr_gone !pst (nat_of_int k);
                  print_endline ("scale msg= " ^ state_s ())
              | Some (w, h) ->
                  (match geom_query (int_of_z w) (int_of_z h) 0 0 !sw !sh with
                   | None -> print_endline "scale ERR(geometry indefinite)"
                   | Some g ->
                     (match scaling_setup zero_fix !tc !fmt g !st (nat_of_int k) w h with
                      | None -> print_endline "scale ERR"
                      | Some s' ->
                          st := s';
                          let c' = List.nth s'.clients k in
                          print_endline ("scale msg=" ^ bytes_s (resize_msg c'.cpalm (z_of_int !sw) (z_of_int !sh) c'.ckw c'.ckh)
                                         ^ " " ^ state_s ()))))
         | _ -> print_endline ("scale msg= " ^ state_s ()))
    | ["fill"; x1; y1; x2; y2; v] ->
        let (a, b, c, d) = (int_of_string x1, int_of_string y1, int_of_string x2, int_of_string y2) in
        let pv = zhex v in
        let m = !st.mainscr in
        let rows = List.mapi (fun y r -> List.mapi (fun x p -> if a <= x && x < c && b <= y && y < d then pv else p) r) m.ssfb.rows in
        st := { !st with mainscr = { m with ssfb = { m.ssfb with rows = rows } } };
        mark "fill" a b c d true
    | ["copy"; x1; y1; x2; y2; dx; dy] ->
        let (a, b, c, d) = (int_of_string x1, int_of_string y1, int_of_string x2, int_of_string y2) in
        let m = !st.mainscr in
        (match copy_pixels m.ssfb (zi x1) (zi y1) (zi x2) (zi y2) (zi dx) (zi dy) with
         | None -> print_endline "copy ERR(source outside the framebuffer)"
         | Some pix ->
             st := { !st with mainscr = { m with ssfb = { m.ssfb with rows = chunks !sw pix } } };
             (* the tree: the scaled copies are left as they are *)
             mark "copy" a b c d copy_fix)
    | ["gone"; k] -> st := client_gone !st (nat_of_int (int_of_string k)); pst := ptr_gone !pst (nat_of_int (int_of_string k)); print_endline ("gone " ^ state_s ())
    | "ptr" :: k :: x :: y :: bt ->
        let b = match bt with [b] -> zi b | _ -> Z0 in
        (match List.nth_opt !st.clients (int_of_string k) with
         | Some c when c.calive ->
             let (cw, ch) = (int_of_z c.ckw, int_of_z c.ckh) in
             let q a b v = if a = b then Some (zi v)             (* from == to: unscaled *)
               else match ask (Printf.sprintf "S %d %d %s" a b v) [0] with
                 | Some [r] -> Some (z_of_int r) | _ -> None in
             let (p', e) = ptr_msg !pst (nat_of_int (int_of_string k)) b (q cw !sw x) (q ch !sh y) in
             pst := p'; print_endline (ev_s "ptr" e)
         | _ -> print_endline "ptr cb=-")
    | ["flush"; k] ->
        (match List.nth_opt !st.clients (int_of_string k) with
         | Some c when c.calive ->
             let (p', e) = ptr_flush !pst (nat_of_int (int_of_string k)) in
             pst := p'; print_endline (ev_s "flush" e)
         | _ -> print_endline "flush cb=-")
    | ["corr"; fw_; fh_; tw; th; x; y; w; h] ->
        (match ask (Printf.sprintf "C %s %s %s %s %s %s %s %s" fw_ fh_ tw th x y w h) [0; 0; 0; 0] with
         | Some [a; b; c; d] -> Printf.printf "corr %d %d %d %d\n" a b c d
         | _ -> print_endline "corr indef")
    | ["sx"; a; b; x] ->
        (match ask (Printf.sprintf "S %s %s %s" a b x) [0] with
         | Some [r] -> Printf.printf "sx %d\n" r
         | _ -> print_endline "sx indef")
    | ["cnt"; which; w; h] ->
        let mx = if which = "zlib" then zlib_max_rect_size else ultra_max_rect_size in
        (match split_rect_count mx (zi w) (zi h) with
         | Some n -> Printf.printf "cnt %d\n" (int_of_z n)
         | None -> print_endline "cnt DIV0")
    | "curs" :: _ -> print_endline "curs ok"       (* cursor painting is C15's model; here: scaled copies stay cursor-free *)
    | "upd" :: _ -> print_endline "upd -"          (* real update session: spec oracle only, see props/C17.py *)
    | ["zupd"; k; which] ->
        (* update of a Zlib/Ultra client: the rectangle count is computed on the corrected width *)
        (match List.nth_opt !st.clients (int_of_string k) with
         | Some c when c.calive ->
             let mx = if which = "zlib" then zlib_max_rect_size else ultra_max_rect_size in
             (match ask (Printf.sprintf "C %d %d %d %d 0 0 %d %d" !sw !sh (int_of_z c.ckw) (int_of_z c.ckh) !sw !sh) [0; 0; 1; 1] with
              | Some [_; _; w; h] ->
                  (match split_rect_count mx (z_of_int w) (z_of_int h) with
                   | Some n -> Printf.printf "zupd count=%d\n" (int_of_z n)
                   | None -> print_endline "zupd DIV0")
              | _ -> print_endline "zupd indef")
         | _ -> print_endline "zupd -")
    | _ -> Printf.printf "?? %s\n" line)
