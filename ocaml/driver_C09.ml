(* C09 model driver: executes a WebSocket script on the extracted Coq model and prints one
   canonical observation line per operation (same format as harness/vdrv_ws.c).
   argv[1] = "1": model of the decoder with notes/fix_C09_1.diff, "0": decoder as in the snapshot.
   Parsing and printing only. *)
open Model
open Vutil

let fx = Array.length Sys.argv > 1 && Sys.argv.(1) = "1"

(* decimal printing of arbitrarily large extracted Z (size_t values do not fit an OCaml int) *)
let rec dbl (d : int list) (carry : int) : int list =
  match d with
  | [] -> if carry = 0 then [] else [carry]
  | x :: r -> let v = 2 * x + carry in (v mod 10) :: dbl r (v / 10)
let rec digits_of_pos (p : positive) : int list =
  match p with XH -> [1] | XO q -> dbl (digits_of_pos q) 0 | XI q -> dbl (digits_of_pos q) 1
let string_of_z (v : z) : string =
  let s d = String.concat "" (List.rev_map string_of_int d) in
  match v with Z0 -> "0" | Zpos p -> s (digits_of_pos p) | Zneg p -> "-" ^ s (digits_of_pos p)

let hexval c =
  match c with
  | '0' .. '9' -> Char.code c - 48
  | 'a' .. 'f' -> Char.code c - 87
  | 'A' .. 'F' -> Char.code c - 55
  | _ -> -1

(* small cache: bytes 0..255 as extracted Z *)
let zbyte = Array.init 256 z_of_int

let unhex (s : string) : z list =
  if s = "-" || s = "" then []
  else begin
    let n = String.length s / 2 in
    let rec go i acc = if i < 0 then acc else go (i - 1) (zbyte.(hexval s.[2 * i] * 16 + hexval s.[2 * i + 1]) :: acc) in
    go (n - 1) []
  end

let hex (l : z list) : string =
  match l with
  | [] -> "-"
  | _ ->
    let b = Buffer.create 64 in
    List.iter (fun v -> Buffer.add_string b (Printf.sprintf "%02x" (int_of_z v))) l;
    Buffer.contents b

let errname (e : errno option) : string =
  match e with
  | None -> "-"
  | Some EAGAIN -> "EAGAIN" | Some EPROTO -> "EPROTO" | Some ECONNRESET -> "ECONNRESET" | Some EIO -> "EIO" | Some EINTR -> "EINTR"

let rq_s (log : rqlog) : string =
  match log with
  | [] -> "-"
  | _ -> String.concat "," (List.map (fun ((d, n), t) ->
           string_of_z d ^ ":" ^ string_of_z n ^ ":" ^ (match t with QData k -> string_of_z k | QAgain -> "a" | QEof -> "e" | QErr EINTR -> "i" | QErr _ -> "x")) log)

let w = ref ws_init
let stream = ref ([] : z list)
let sched = ref ([] : rev0 list)
let nstream = ref 0
let nsched = ref 0
let fault = ref false

let reset () = w := ws_init; stream := []; sched := []; nstream := 0; nsched := 0; fault := false

let rest_after (line : string) (k : int) : string =
  (* the text after the k-th space-separated token *)
  let rec go i k = if k = 0 then i else
      match String.index_from_opt line i ' ' with Some j -> go (j + 1) (k - 1) | None -> String.length line in
  let i = go 0 k in String.sub line i (String.length line - i)

let () =
  iter_lines stdin (fun line ->
    match split_ws line with
    | [] -> ()
    | "case" :: _ -> reset (); print_endline line
    | ["ctx"] -> reset (); print_endline "ctx"
    | ["stream"; h] ->
        let b = unhex h in
        stream := !stream @ b; nstream := !nstream + List.length b;
        Printf.printf "stream %d\n" !nstream
    | "sched" :: items ->
        let ev s = match s.[0] with
          | 'a' -> RAgain | 'e' -> REof | 'x' -> RErr ECONNRESET | 'i' -> RErr EINTR | _ -> RAvail (z_of_int (int_of_string s)) in
        let l = List.map ev items in
        sched := !sched @ l; nsched := !nsched + List.length l;
        Printf.printf "sched %d\n" !nsched
    | ["dec"; len] ->
        if !fault then print_endline "dec FAULT"
        else begin
          match ws_decode fx !w { io_stream = !stream; io_sched = !sched } (z_of_int (int_of_string len)) with
          | OFault _ -> fault := true; print_endline "dec FAULT"
          | ORet (ret, e, data, w', io', log) ->
              w := w'; stream := io'.io_stream; sched := io'.io_sched;
              let r = int_of_z ret in
              Printf.printf "dec ret=%d err=%s data=%s st=%d nread=%d rl=%d cl=%d cont=%d left=%d rq=%s\n"
                r (if r < 0 then errname e else "-") (hex data) (int_of_z (w_st w'))
                (int_of_z (h_nread (w_hd w'))) (int_of_z (w_readlen w')) (int_of_z (w_carrylen w'))
                (int_of_z (w_contop w')) (List.length io'.io_stream) (rq_s log)
        end
    | "enc" :: b64 :: rest ->
        let src = unhex (match rest with h :: _ -> h | [] -> "-") in
        let (ret, out) = ws_encode (b64 = "1") src in
        let r = int_of_z ret in
        Printf.printf "enc ret=%d out=%s\n" r (if r > 0 then hex out else "-")
    | "wr" :: b64 :: rest ->
        let src = unhex (match rest with h :: _ -> h | [] -> "-") in
        (match ws_write (b64 = "1") src with
         | Some out -> Printf.printf "wr ret=1 out=%s\n" (hex out)
         | None -> Printf.printf "wr ret=-1 out=-\n")
    | "b64e" :: ts :: rest ->
        let src = unhex (match rest with h :: _ -> h | [] -> "-") in
        (match b64_ntop src (z_of_int (int_of_string ts)) with
         | Some out -> Printf.printf "b64e ret=%d out=%s\n" (List.length out) (hex out)
         | None -> print_endline "b64e ret=-1 out=-")
    | (("b64d" | "b64i") as op) :: ts :: rest ->
        let src = unhex (match rest with h :: _ -> h | [] -> "-") in
        (match b64_pton src (z_of_int (int_of_string ts)) with
         | Some out -> Printf.printf "%s ret=%d out=%s\n" op (List.length out) (hex out)
         | None -> Printf.printf "%s ret=-1 out=-\n" op)
    | [("hs" | "hst") as op; h] ->
        let path_s p = match p with None -> "~" | Some l -> hex l in
        (match ws_handshake (op = "hst") (unhex h) with
         | HsFault -> Printf.printf "%s FAULT\n" op
         | HsPlain -> Printf.printf "%s ok=1 ws=0 b64=-1 path=~ resp=-\n" op
         | HsFail p -> Printf.printf "%s ok=0 ws=0 b64=-1 path=%s resp=-\n" op (path_s p)
         | HsOk (p, b, r) -> Printf.printf "%s ok=1 ws=1 b64=%d path=%s resp=%s\n" op (if b then 1 else 0) (path_s p) (hex r))
    | ["sha1"; h] -> Printf.printf "sha1 ok=1 out=%s\n" (hex (sha1 (unhex h)))
    | _ -> Printf.printf "?? %s\n" line)
