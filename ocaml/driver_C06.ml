(* C06 model driver: executes a session script on the extracted Coq model
   (Session/InputDefs.v: c06_step; Session/InputWorld.v: c06_ustep = the same plus the UDP channel
   and connections on hold) and prints one canonical observation line per script line,
   in the format of harness/vdrv_input.c.  Parsing and printing only. *)
open Model
open Vutil

let showlen = 32

let hexval c = if c <= '9' then Char.code c - 48 else (Char.code (Char.lowercase_ascii c)) - 87

(* byte table: the 256 byte values as extracted Z, built once *)
let ztab = Array.init 256 z_of_int

let bytes_of_hex (s : string) : z list =
  let n = String.length s / 2 in
  let r = ref [] in
  for i = n - 1 downto 0 do
    r := ztab.(hexval s.[2 * i] * 16 + hexval s.[2 * i + 1]) :: !r
  done;
  !r

let frags_of (s : string) : z list list =
  if s = "" then [] else
  List.map (fun f -> if f = "-" then [] else bytes_of_hex f) (String.split_on_char ',' s)

let fnv (l : int list) : int64 =
  List.fold_left (fun h b -> Int64.mul (Int64.logxor h (Int64.of_int b)) 1099511628211L)
    (-3750763034362895579L) (* 1469598103934665603 = 0xcbf29ce484222325 *) l

let fmt_text (t : z list) : string =
  let l = List.rev (List.rev_map int_of_z t) in
  let n = List.length l in
  if n = 0 then "-"
  else if n <= showlen then String.concat "" (List.map (Printf.sprintf "%02x") l)
  else Printf.sprintf "#%016Lx" (fnv l)

let zlen (t : z list) = List.length t

let ev_s (e : event) : string =
  match e with
  | EvKey (c, d, k) -> Printf.sprintf "K:%d:%d:%d" (int_of_z c) (int_of_z d) (int_of_z k)
  | EvPtr (c, m, x, y) -> Printf.sprintf "P:%d:%d:%d:%d" (int_of_z c) (int_of_z m) (int_of_z x) (int_of_z y)
  | EvPtrUndef (c, m) -> Printf.sprintf "PU:%d:%d" (int_of_z c) (int_of_z m)
  | EvCut (c, t) -> Printf.sprintf "C:%d:%d:%s" (int_of_z c) (zlen t) (fmt_text t)
  | EvCutUTF8 (c, t, j) -> Printf.sprintf "U:%d:%d:%s:%d" (int_of_z c) (zlen t + int_of_z j) (fmt_text t) (int_of_z j)
  | EvUndef c -> Printf.sprintf "UX:%d" (int_of_z c)

let cl_s (c : client) : string =
  let p = c.c_ptr in
  Printf.sprintf "%d:%d:%s:%d:%d:%d:%s:%s" (int_of_z c.c_id) (int_of_z (state_code c.c_state))
    (b2s c.c_viewonly) (int_of_z c.c_sw) (int_of_z c.c_sh) (int_of_z p.p_lastbtn) (b2s c.c_clip.k_ext)
    (if int_of_z p.p_lastx >= 0 then Printf.sprintf "%d,%d" (int_of_z p.p_lastx) (int_of_z p.p_lasty) else "-")

let print_state (tag : string) (s : server) (evs : event list) : unit =
  Printf.printf "%s ev=[%s] cl=[%s] own=%s\n" tag
    (String.concat ";" (List.map ev_s evs))
    (String.concat ";" (List.map cl_s (List.filter (fun c -> not c.c_closed) s.s_clients)))
    (match s.s_owner with Some h -> string_of_int (int_of_z h) | None -> "-")

let variant : z ref = ref (z_of_int 0)
let wld : uworld option ref = ref None
let npw = ref 0

let has_client (s : server) (id : int) =
  List.exists (fun c -> int_of_z c.c_id = id) s.s_clients

let () =
  let zi s = z_of_int (int_of_string s) in
  let bi s = int_of_string s <> 0 in
  let douop tag (o : uop) =
    match !wld with
    | None -> ()
    | Some u -> let (u', evs) = c06_ustep u o in wld := Some u'; print_state tag u'.u_srv evs in
  let doop tag (o : op) = douop tag (UOp o) in
  iter_lines stdin (fun line ->
    match split_ws line with
    | [] -> ()
    | "case" :: _ -> wld := None; print_endline line
    | "screen" :: w :: h :: np :: fvo :: nev :: alw :: dd :: dp :: u8 :: var ->
        npw := int_of_string np;
        let v = match var with [x] -> zi x | _ -> z_of_int 0 in
        variant := v;
        let cfg = { g_w = zi w; g_h = zi h; g_haspw = int_of_string np > 0; g_firstvo = zi fvo;
                    g_never = bi nev; g_always = bi alw; g_dontdisc = bi dd; g_deferptr = zi dp;
                    g_utf8cb = bi u8; g_variant = v } in
        let u = init_world cfg in
        wld := Some u; print_state "screen" u.u_srv []
    | ["sx"; fw; tw; x] ->
        let f v = match v with Some r -> string_of_int (int_of_z r) | None -> "undef" in
        let cfg0 = { g_w = z_of_int 1; g_h = z_of_int 1; g_haspw = false; g_firstvo = z_of_int 0; g_never = false;
                     g_always = false; g_dontdisc = false; g_deferptr = z_of_int 0; g_utf8cb = false; g_variant = !variant } in
        let r = f (scale_v cfg0 (zi x) (zi fw) (zi tw)) in
        Printf.printf "sx %s %s\n" r r
    | _ when !wld = None -> Printf.printf "?? no screen: %s\n" line
    | ["connect"; id; vo] ->
        (match !wld with
         | Some u when has_client u.u_srv (int_of_string id) -> Printf.printf "?? %s\n" line
         | _ -> doop "connect" (OConnect (zi id, bi vo)))
    | ["hconnect"; id; vo] ->
        (match !wld with
         | Some u when has_client u.u_srv (int_of_string id) -> Printf.printf "?? %s\n" line
         | _ -> douop "hconnect" (UConnectHold (zi id, bi vo)))
    | ["release"; id] -> douop "release" (URelease (zi id))
    | ["rev"; id] -> douop "rev" (URev (zi id))
    | ["udpon"; h] -> douop "udpon" (UUdpOn (bi h))
    | "udp" :: rest -> douop "udp" (UUdp (bytes_of_hex (match rest with [f] -> f | _ -> "")))
    | "send" :: id :: rest ->
        doop "send" (OSend (zi id, frags_of (match rest with [f] -> f | _ -> "")))
    | ["eof"; id] -> doop "eof" (OEof (zi id))
    | "auth" :: id :: k :: rest ->
        let k = int_of_string k in
        let sizes = match rest with [f] -> List.map int_of_string (String.split_on_char ',' f) | _ -> [] in
        let off = ref 0 in
        let frs = ref [] in
        List.iter (fun sz ->
          if !off < 16 then begin
            let sz = if sz < 0 then 0 else sz in
            let sz = if !off + sz > 16 then 16 - !off else sz in
            frs := List.init sz (fun _ -> ztab.(0)) :: !frs; off := !off + sz end) sizes;
        if !off < 16 then frs := List.init (16 - !off) (fun _ -> ztab.(0)) :: !frs;
        (match !wld with
         | Some u ->
             let (u1, _) = c06_ustep u (UOp (OAuthRes (zi id, if k >= 0 && k < !npw && k < 8 then Some (z_of_int k) else None))) in
             let (u2, evs) = c06_ustep u1 (UOp (OSend (zi id, List.rev !frs))) in
             wld := Some u2; print_state "auth" u2.u_srv evs
         | None -> ())
    | ["vo"; id; v] -> doop "vo" (OViewOnly (zi id, bi v))
    | ["tick"; ms] -> doop "tick" (OTick (zi ms))
    | ["p"] -> doop "p" OProcess
    | _ -> Printf.printf "?? %s\n" line)
