(* C12 model driver: executes a lifecycle script on the extracted Coq model and prints one
   canonical observation line per operation (same format as harness/vdrv_life.c).
   Parsing and printing only; every state change is Model.step. *)
open Model
open Vutil

let unhex (s : string) : z list =
  let n = String.length s / 2 in
  List.init n (fun i -> z_of_int (int_of_string ("0x" ^ String.sub s (2 * i) 2)))

let st : screen option ref = ref None
let seen_log = ref 0

let ev_s = function
  | ENew k -> Printf.sprintf "N%d" (int_of_nat k)
  | EGone k -> Printf.sprintf "G%d" (int_of_nat k)
  | EClose k -> Printf.sprintf "X%d" (int_of_nat k)

let rec take n l = if n <= 0 then [] else match l with [] -> [] | x :: t -> x :: take (n - 1) t

let count_res r l = List.length (List.filter (fun x -> res_eqb r x) l)

let observe (opname : string) =
  match !st with
  | None -> Printf.printf "%s io=0 ev=[] bad=0 ref=- max=- ptr=-\n" opname
  | Some s ->
    let log = s_log s in
    let n = List.length log in
    let fresh = List.rev (take (n - !seen_log) log) in
    seen_log := n;
    let b = Buffer.create 256 in
    Buffer.add_string b (Printf.sprintf "%s io=%d ev=[%s] bad=%d" opname (int_of_nat (s_ioc s))
                           (String.concat "," (List.map ev_s fresh)) (int_of_nat (s_bad s)));
    if s_hung s then Buffer.add_string b " HUNG"
    else begin
      if s_cleaned s then Buffer.add_string b " ref=- max=- ptr=- sc=-"
      else Buffer.add_string b (Printf.sprintf " ref=%d max=%d ptr=%d sc=[%s]" (int_of_z (s_ref s)) (int_of_z (s_maxfd s))
                                  (match s_ptr s with Some k -> int_of_nat k | None -> -1)
                                  (String.concat ";" (List.map (fun ((w, h), r) ->
                                     Printf.sprintf "%dx%d:%d" (int_of_z w) (int_of_z h) (int_of_z r)) (s_scaled s))));
      List.iteri (fun k c ->
        let l = c_life c and p = c_proto c in
        let cnt = Printf.sprintf "n%d,g%d,x%d,w%d" (int_of_nat (l_new l)) (int_of_nat (l_gone l))
                    (int_of_nat (l_close l)) (int_of_nat (p_wr p)) in
        if l_freed l then
          Buffer.add_string b (Printf.sprintf " | %d:freed,%s,fd%s" k cnt (b2s (l_open l)))
        else if s_cleaned s then
          Buffer.add_string b (Printf.sprintf " | %d:lost,%s,fd%s" k cnt (b2s (l_open l)))
        else begin
          let inlist = List.exists (fun j -> int_of_nat j = k) (s_order s) in
          let infds = List.exists (fun f -> int_of_z f = int_of_z (c_fd c)) (s_allfds s) in
          let r = (if has_res RZStream (p_res p) then "Z" else "") ^ (if has_res RBefore (p_res p) then "B" else "")
                  ^ (if has_res RAfter (p_res p) then "A" else "") ^ (if p_ftopen p then "F" else "") in
          Buffer.add_string b
            (Printf.sprintf " | %d:s%d,%s,h%s,%s,L%s,F%s,q%s,m%s,e%d,r%s,z%s,fd%s" k (int_of_z (state_num (p_state p)))
               (if l_open l then "o" else "c") (b2s (p_hold p)) cnt (b2s inlist) (b2s infds) (b2s (p_req p))
               (b2s (p_mod p)) (int_of_z (p_enc p)) r
               (if p_scaled p then Printf.sprintf "%dx%d" (int_of_z (p_sw p)) (int_of_z (p_sh p)) else "-")
               (b2s (l_open l)))
        end) (s_conns s);
      if not (s_cleaned s) then begin
        let it = iter_clients s in       (* the function the iterator theorems are about *)
        Buffer.add_string b (Printf.sprintf " | it=[%s]" (String.concat "," (List.map (fun k -> string_of_int (int_of_nat k)) it)))
      end
    end;
    if s_unmod s then Buffer.add_string b " UNMODELLED";
    print_endline (Buffer.contents b)

let apply (o : op) = match !st with Some s -> st := Some (step s o) | None -> ()

let () =
  let nat s = nat_of_int (int_of_string s) in
  let bool s = int_of_string s <> 0 in
  iter_lines stdin (fun line ->
    match split_ws line with
    | [] -> ()
    | "case" :: _ -> st := None; seen_log := 0; print_endline line
    | "config" :: w :: h :: au :: al :: ne :: dd :: xv :: ft :: _ ->
        st := Some (init { g_w = z_of_int (int_of_string w); g_h = z_of_int (int_of_string h); g_auth = bool au;
                           g_always = bool al; g_never = bool ne; g_dontdisc = bool dd; g_xvp = bool xv; g_ft = bool ft });
        seen_log := 0; observe "config"
    | "accept" :: d :: rest ->
        let dec = (match d with "h" -> DHold | "r" -> DRefuse | "n" -> DNonblock | "m" -> DNonblockLate | _ -> DAccept) in
        let (pre, po) = (match rest with "closed" :: _ -> ([], false) | hx :: _ -> (unhex hx, true) | [] -> ([], true)) in
        apply (OAccept (dec, pre, po)); observe "accept"
    | "laccept" :: d :: rest ->
        let dec = (match d with "h" -> DHold | "r" -> DRefuse | "n" -> DNonblock | "m" -> DNonblockLate | _ -> DAccept) in
        let (pre, po) = (match rest with "closed" :: _ -> ([], false) | hx :: _ -> (unhex hx, true) | [] -> ([], true)) in
        apply (OLAccept (dec, pre, po)); observe "laccept"
    | "inetd" :: d :: rest ->
        let dec = (match d with "h" -> DHold | "r" -> DRefuse | "n" -> DNonblock | "m" -> DNonblockLate | _ -> DAccept) in
        let (pre, po) = (match rest with "closed" :: _ -> ([], false) | hx :: _ -> (unhex hx, true) | [] -> ([], true)) in
        apply (OInetd (dec, pre, po)); observe "inetd"
    | ["in"; k; hx] -> apply (OIn (nat k, unhex hx)); observe "in"
    | ["in"; k] -> apply (OIn (nat k, [])); observe "in"
    | ["peerclose"; k] -> apply (OPeerClose (nat k)); observe "peerclose"
    | ["pe"] -> apply OPe; observe "pe"
    | ["appclose"; k] -> apply (OAppClose (nat k)); observe "appclose"
    | ["start"; k] -> apply (OStart (nat k)); observe "start"
    | ["refuse"; k] -> apply (ORefuse (nat k)); observe "refuse"
    | ["appxvp"; k] -> apply (OAppXvp (nat k)); observe "appxvp"
    | ["mark"] -> apply OMark; observe "mark"
    | ["bell"] -> apply OBell; observe "bell"
    | ["cuttext"] -> apply OCutText; observe "cuttext"
    | ["cuttext8"] -> apply OCutText8; observe "cuttext8"
    | ["fault"; i; f] ->
        apply (OFault (nat i, (match f with "e" -> FEof | "r" -> FReset | "a" -> FAgain | _ -> FNone))); observe "fault"
    | ["shutdown"] -> apply OShutdown; observe "shutdown"
    | ["cleanup"] -> apply OCleanup; observe "cleanup"
    | ["end"] ->
        (match !st with
         | Some s when not (s_cleaned s) && not (s_hung s) -> apply OCleanup
         | _ -> ());
        observe "end";
        (match !st with
         | Some s ->
             let nfl = List.fold_left (fun a c ->
                 a + count_res RFileFd (c_leak c) + (if l_freed (c_life c) then 0 else count_res RFileFd (p_res (c_proto c))))
                 0 (s_conns s) in
             Printf.printf "fin filefds=%d busy=0 appfds_lost=0\n" nfl
         | None -> Printf.printf "fin filefds=0 busy=0 appfds_lost=0\n")
    | _ -> Printf.printf "?? %s\n" line)
