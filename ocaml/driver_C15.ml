(* C15 model driver: executes a cursor script on the extracted Coq model and prints one canonical
   observation line per operation (same format as harness/vdrv_cursor.c).
   argv[1] = comma-separated repairs the model mirrors ("clip" = 1a3b6d2, "empty" = 0775c26,
   "switch" = 2b32386); props/C15.py passes all three (the tree); without argument: the code before them. *)
open Model
open Vutil

let variant = if Array.length Sys.argv > 1 then String.split_on_char ',' Sys.argv.(1) else []
let fixed = List.mem "clip" variant
let v_empty = List.mem "empty" variant
let v_switch = List.mem "switch" variant
let v_cache = List.mem "cache" variant    (* /repo commit 8f58d2d *)
(* notes/fix_C03_8.diff (C03 F22): the update region is clipped to the request after the cursor redraw *)
let v_reqclip = List.mem "reqclip" variant

let zi s = z_of_int (int_of_string s)
let zhex s = z_of_int (int_of_string ("0x" ^ s))
let hexlist toks = List.map zhex toks
let hexbytes s =
  let n = String.length s / 2 in
  List.init n (fun i -> z_of_int (int_of_string ("0x" ^ String.sub s (2 * i) 2)))

let dump (f : fb) : string =
  String.concat "/" (List.map (fun r -> String.concat "," (List.map (fun p -> Printf.sprintf "%x" (int_of_z p)) r)) f.rows)

let bytes_s (l : z list) : string = String.concat "" (List.map (fun b -> Printf.sprintf "%02x" (int_of_z b)) l)
let pix_s (l : z list) : string = String.concat "," (List.map (fun b -> Printf.sprintf "%x" (int_of_z b)) l)

let rec chunks n l =
  if l = [] then [] else
  let rec take k l acc = if k = 0 then (List.rev acc, l) else match l with [] -> (List.rev acc, []) | a :: t -> take (k - 1) t (a :: acc) in
  let (a, b) = take n l [] in a :: chunks n b

let fmt = ref { bpp = z_of_int 4; rmax = z_of_int 255; gmax = z_of_int 255; bmax = z_of_int 255;
                rshift = z_of_int 0; gshift = z_of_int 8; bshift = z_of_int 16 }
let empty_fb = { fw = Z0; fh = Z0; rows = [] }
let scr = ref { sfb = empty_fb; scur = None; sx = Z0; sy = Z0; subuf = [] }
let sw = ref 0
let sh = ref 0
let pending = ref { cw = Z0; ch = Z0; cxhot = Z0; cyhot = Z0; csource = None; cmask = []; crich = None;
                    calpha = None; cpremult = false; cfore = ((Z0, Z0), Z0); cback = ((Z0, Z0), Z0); cderived = false }
let px = ref Z0
let py = ref Z0
let maxcl = 4
let cls : client option array = Array.make maxcl None

let set_fb f = scr := { !scr with sfb = f }
let set_cur c = scr := { !scr with scur = c }

(* connected clients in index order, with their indices *)
let conn () = List.filter_map (fun k -> match cls.(k) with Some c -> Some (k, c) | None -> None) [0; 1; 2; 3]
let put_back ks cl = List.iter2 (fun k c -> cls.(k) <- Some c) ks cl

(* a cursor pseudo-rectangle with w*h = 0 has no payload in RFB; bytes the model emits beyond the
   12-byte header are printed after a '!' (same convention as the harness) *)
let shape_s (b : z list) : string =
  let a = Array.of_list (List.map int_of_z b) in
  let n = Array.length a in
  if n > 12 && ((a.(4) * 256 + a.(5)) * (a.(6) * 256 + a.(7)) = 0) then
    bytes_s (List.filteri (fun i _ -> i < 12) b) ^ "!" ^ bytes_s (List.filteri (fun i _ -> i >= 12) b)
  else bytes_s b

let obs_clients (outs : (int * upd_out) list) : string =
  String.concat "" (List.map (fun (k, c) ->
    if not c.alive then Printf.sprintf " | %d: dead" k
    else
      let o = try List.assoc k outs with Not_found -> no_out in
      Printf.sprintf " | %d: sent=%s shape=%s pos=%s f=%s%s%s%s%s cl=%d,%d pic=%s" k (b2s o.o_sent)
        (match o.o_shape with None -> "-" | Some b -> shape_s b)
        (match o.o_pos with None -> "-" | Some (x, y) -> Printf.sprintf "%d,%d" (int_of_z x) (int_of_z y))
        (b2s c.shape) (b2s c.userich) (b2s c.posupd) (b2s c.changed) (b2s c.moved)
        (int_of_z c.clx) (int_of_z c.cly) (dump c.pic)) (conn ()))

(* the library's built-in cursor is one static object for all screens of the process: its derived rich
   form survives from screen to screen (dtag = bytes per pixel it was derived for) *)
let dc = ref default_cursor
let dtag : z option ref = ref None
let cur_is_default = ref false
let harvest () =
  if !cur_is_default && !dtag = None && not v_cache then
    (match !scr.scur with
     | Some c when c.crich <> None -> dc := c; dtag := Some !fmt.bpp
     | _ -> ())

(* cursor that the application's displayHook installs at the head of the next update of client hk *)
let hook : (int * cursor option) option ref = ref None

(* run the event loop once and print the observation of a session op *)
let pump_obs (tag : string) : unit =
  let l = conn () in
  let ks = List.map fst l in
  let pos k = let rec go i = function [] -> -1 | k' :: t -> if k' = k then i else go (i + 1) t in go 0 ks in
  let h = match !hook with
    | Some (k, c) when pos k >= 0 -> Some (nat_of_int (pos k), c)
    | _ -> None in
  match (if v_reqclip then pump_rounds_r else pump_rounds) (nat_of_int 4) fixed v_empty !fmt h !scr (List.map snd l) [] with
  | None -> print_endline (tag ^ " ERR")
  | Some (((s', cls'), outs), consumed) ->
      scr := s';
      put_back ks cls';
      if h <> None && consumed then hook := None;
      (* a client is updated in at most one round: keep its entry that was sent *)
      let outs = List.filter (fun (_, o) -> o.o_sent) outs in
      let outs = List.map (fun (i, o) -> (List.nth ks (int_of_nat i), o)) outs in
      print_endline (tag ^ " app=" ^ dump !scr.sfb ^ obs_clients outs)

let pos_in_conn k = let rec go i = function [] -> -1 | (k', _) :: t -> if k' = k then i else go (i + 1) t in go 0 (conn ())

let () =
  iter_lines stdin (fun line ->
    match split_ws line with
    | [] -> ()
    | "case" :: _ ->
        scr := { sfb = empty_fb; scur = None; sx = Z0; sy = Z0; subuf = [] }; px := Z0; py := Z0;
        Array.fill cls 0 maxcl None; hook := None;
        dc := default_cursor; dtag := None; cur_is_default := false;     (* defcur cases run in a process of their own *)
        print_endline line
    | ["screen"; w; h; b; rm; gm; bm; rs; gs; bs] ->
        harvest (); cur_is_default := false;
        sw := int_of_string w; sh := int_of_string h;
        fmt := { bpp = zi b; rmax = zi rm; gmax = zi gm; bmax = zi bm; rshift = zi rs; gshift = zi gs; bshift = zi bs };
        scr := { sfb = { fw = zi w; fh = zi h; rows = List.init !sh (fun _ -> List.init !sw (fun _ -> Z0)) };
                 scur = None; sx = Z0; sy = Z0; subuf = [] };
        Array.fill cls 0 maxcl None;
        print_endline "screen ok"
    | ["stride"; _] -> print_endline "stride ok"    (* rows further apart in memory: not visible at pixel level *)
    | "fb" :: toks ->
        set_fb { fw = z_of_int !sw; fh = z_of_int !sh; rows = chunks !sw (hexlist toks) };
        print_endline "fb ok"
    | ["cur"; w; h; xh; yh; pm; fr; fg; fb_; br; bg; bb] ->
        pending := { cw = zi w; ch = zi h; cxhot = zi xh; cyhot = zi yh; csource = None; cmask = []; crich = None;
                     calpha = None; cpremult = (pm = "1"); cfore = ((zi fr, zi fg), zi fb_); cback = ((zi br, zi bg), zi bb);
                     cderived = false };
        print_endline "cur ok"
    | ["src"; s] -> pending := { !pending with csource = (if s = "-" then None else Some (hexbytes s)) }; print_endline "src ok"
    | ["mask"; s] -> pending := { !pending with cmask = (if s = "-" then [] else hexbytes s) }; print_endline "mask ok"
    | "rich" :: toks -> pending := { !pending with crich = (if toks = ["-"] then None else Some (hexlist toks)) }; print_endline "rich ok"
    | ["alpha"; s] -> pending := { !pending with calpha = (if s = "-" then None else Some (hexbytes s)) }; print_endline "alpha ok"
    | "newfb" :: bps :: toks ->
        (* rfbNewFramebuffer(same size, same bytes per pixel, bitsPerSample bps) with the given pixels *)
        let fnew = init_format !fmt.bpp (zi bps) in
        let f = { fw = z_of_int !sw; fh = z_of_int !sh; rows = chunks !sw (hexlist toks) } in
        let l = conn () in
        let (s', cl') = new_framebuffer !fmt fnew !scr (List.map snd l) f in
        scr := s'; put_back (List.map fst l) cl'; fmt := fnew;
        if l = [] then print_endline "newfb ok" else pump_obs "newfb"
    | ["defcur"] ->
        harvest ();
        let c = use_shared v_cache !dtag !fmt !dc in
        let l = conn () in
        let (s', cl') = set_cursor !scr (List.map snd l) (Some c) in
        scr := s'; put_back (List.map fst l) cl'; cur_is_default := true;
        let ((fr, fg), fb_) = c.cfore and ((br, bg), bb) = c.cback in
        Printf.printf "defcur %d %d %d %d %d %d %d %d %d %d %s %s\n" (int_of_z c.cw) (int_of_z c.ch) (int_of_z c.cxhot) (int_of_z c.cyhot)
          (int_of_z fr) (int_of_z fg) (int_of_z fb_) (int_of_z br) (int_of_z bg) (int_of_z bb)
          (match c.csource with Some s -> bytes_s s | None -> "-") (bytes_s c.cmask)
    | ["setcur"] | ["nocur"] ->
        harvest (); cur_is_default := false;
        let nc = if List.hd (split_ws line) = "setcur" then Some !pending else None in
        let l = conn () in
        let (s', cl') = set_cursor !scr (List.map snd l) nc in
        scr := s'; put_back (List.map fst l) cl';
        if l = [] then print_endline (List.hd (split_ws line) ^ " ok") else pump_obs (List.hd (split_ws line))
    | ["pos"; x; y] -> px := zi x; py := zi y; print_endline "pos ok"
    | ["show"] ->
        (match !scr.scur with
         | None -> print_endline ("show " ^ dump !scr.sfb)
         | Some c ->
           (match show fixed !fmt !scr.sfb c !px !py !scr.subuf with
            | None -> print_endline "show ERR"
            | Some ((f1, b), c') -> scr := { !scr with sfb = f1; subuf = b; scur = Some c' }; print_endline ("show " ^ dump f1)))
    | ["hide"] ->
        (match !scr.scur with
         | None -> print_endline ("hide " ^ dump !scr.sfb)
         | Some c ->
           (match hide fixed !scr.sfb c !px !py !scr.subuf with
            | None -> print_endline "hide ERR"
            | Some f1 -> set_fb f1; print_endline ("hide " ^ dump f1)))
    | ["getrich"] ->
        (match !scr.scur with
         | Some { crich = Some r } -> print_endline ("getrich " ^ pix_s r)
         | _ -> print_endline "getrich -")
    | ["makemask"; w; h; s] ->
        (match make_mask_for_xcursor (zi w) (zi h) (if s = "-" then [] else hexbytes s) with
         | None -> print_endline "makemask ERR"
         | Some m -> print_endline ("makemask " ^ bytes_s m))
    | ["makex"] ->
        (match !scr.scur with
         | None -> print_endline "makex -"
         | Some c ->
           (match make_x_from_rich !fmt c with
            | None -> print_endline "makex ERR"
            | Some c' ->
                set_cur (Some c');
                let ((fr, fg), fb_) = c'.cfore in
                Printf.printf "makex %s %d %d %d\n" (match c'.csource with Some s -> bytes_s s | None -> "-")
                  (int_of_z fr) (int_of_z fg) (int_of_z fb_)))
    (* ---- session ops *)
    | "client" :: k :: encs ->
        let k = int_of_string k in
        let c = new_client !scr in
        let code e = z_of_int (match e with "x" -> 0 | "rich" -> 1 | "pos" -> 2 | _ -> 9) in
        cls.(k) <- Some (set_encodings v_switch !scr (List.map code encs) c);
        pump_obs "client"
    | "setenc" :: k :: encs ->
        let k = int_of_string k in
        let code e = z_of_int (match e with "x" -> 0 | "rich" -> 1 | "pos" -> 2 | _ -> 9) in
        (match cls.(k) with
         | Some c when c.alive -> cls.(k) <- Some (set_encodings v_switch !scr (List.map code encs) c)
         | _ -> ());
        pump_obs "setenc"
    | ["fur"; k; incr; x; y; w; h] ->
        let k = int_of_string k in
        (match cls.(k) with
         | Some c when c.alive -> cls.(k) <- Some (fur c (incr = "1") (zi x) (zi y) (zi w) (zi h))
         | _ -> ());
        pump_obs "fur"
    | ["ptr"; k; x; y] ->
        let k = int_of_string k in
        (match cls.(k) with
         | Some c when c.alive ->
             let l = conn () in
             let (s', cl') = ptr_event !scr (List.map snd l) (z_of_int (pos_in_conn k)) (zi x) (zi y) in
             scr := s'; put_back (List.map fst l) cl'
         | _ -> ());
        pump_obs "ptr"
    | ["fill"; x1; y1; x2; y2; v] ->
        let l = conn () in
        let (s', cl') = fill !scr (List.map snd l) (zi x1) (zi y1) (zi x2) (zi y2) (zhex v) in
        scr := s'; put_back (List.map fst l) cl';
        pump_obs "fill"
    | ["hookcur"; k] -> hook := Some (int_of_string k, Some !pending); print_endline "hookcur ok"
    | ["failwrite"; k; _] ->
        let k = int_of_string k in
        (match cls.(k) with
         | Some c -> cls.(k) <- Some { c with failnext = true }
         | None -> ());
        print_endline "failwrite ok"
    | _ -> Printf.printf "?? %s\n" line)
