(* C14 model driver: executes a sharing script on the extracted Coq model (Session/Sharing.v,
   function [step]) and prints one observation line per operation (format of harness/vdrv_share.c):
   the state of every client, -1 = closed. *)
open Model
open Vutil

let fl = ref { f_always = false; f_never = false; f_dontdisc = false }
let st : client list ref = ref []

let obs () =
  Printf.printf "o%s\n" (String.concat "" (List.map (fun c -> " " ^ string_of_int (int_of_z (obs_code c))) !st))

let doit o = st := step !fl !st o; obs ()

let () =
  let ni s = nat_of_int (int_of_string s) in
  iter_lines stdin (fun line ->
    match split_ws line with
    | [] -> ()
    | "case" :: _ -> st := []; fl := { f_always = false; f_never = false; f_dontdisc = false }; print_endline line
    | ["flags"; a; n; d] -> fl := { f_always = (a = "1"); f_never = (n = "1"); f_dontdisc = (d = "1") }; obs ()
    | ["conn"; rev; m] -> doit (OConn (rev = "1", z_of_int (int_of_string m)))
    | ["connhold"; rev; m] -> doit (OConnHold (rev = "1", z_of_int (int_of_string m)))
    | ["connrefuse"; rev] -> doit (OConnRefuse (rev = "1"))
    | ["release"; i] -> doit (ORelease (ni i))
    | ["adv"; i] -> doit (OAdv (ni i, false))
    | ["advq"; i] -> doit (OAdv (ni i, true))
    | ["init"; i; sh] -> doit (OInit (ni i, sh <> "0", false))
    | ["initq"; i; sh] -> doit (OInit (ni i, sh <> "0", true))
    | ["drop"; i] -> doit (ODrop (ni i, false))
    | ["dropq"; i] -> doit (ODrop (ni i, true))
    | ["probe"] -> st := pump !fl !st; obs ()
    | _ -> Printf.printf "?? %s\n" line)
