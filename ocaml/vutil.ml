(* shared helpers for the model drivers: conversion between OCaml ints and the extracted
   inductive Z / N / positive / nat; parsing and printing only. *)
open Model

let rec pos_of_int (n : int) : positive =
  if n = 1 then XH
  else if n land 1 = 0 then XO (pos_of_int (n lsr 1))
  else XI (pos_of_int (n lsr 1))

let z_of_int (n : int) : z =
  if n = 0 then Z0 else if n > 0 then Zpos (pos_of_int n) else Zneg (pos_of_int (- n))

let rec int_of_pos (p : positive) : int =
  match p with XH -> 1 | XO q -> 2 * int_of_pos q | XI q -> 2 * int_of_pos q + 1

let int_of_z (v : z) : int =
  match v with Z0 -> 0 | Zpos p -> int_of_pos p | Zneg p -> - (int_of_pos p)

let rec nat_of_int (n : int) : nat = if n <= 0 then O else S (nat_of_int (n - 1))
let rec int_of_nat (n : nat) : int = match n with O -> 0 | S m -> 1 + int_of_nat m

let split_ws (s : string) : string list =
  List.filter (fun x -> x <> "") (String.split_on_char ' ' (String.trim s))

let iter_lines (ic : in_channel) (f : string -> unit) : unit =
  try while true do f (input_line ic) done with End_of_file -> ()

let b2s (b : bool) : string = if b then "1" else "0"
