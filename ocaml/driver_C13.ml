(* C13 model driver: prints the schedule-independent predictions of the protocol models
   (Session/ThreadsModel.v) that the stress harness can observe, and replays the refutation
   witnesses.  Parsing and printing only. *)
open Model
open Vutil

(* decode a mutex number of lock_table_n 3 (Session/ThreadsModel.v: P_send .. P_out with N = 3) *)
let cls (m : int) : char * int =
  if m >= 11 then ('O', m - 11) else if m >= 8 then ('R', m - 8) else if m = 7 then ('G', -1)
  else if m >= 4 then ('U', m - 4) else if m = 3 then ('C', -1) else ('S', m)

(* token = held class, acquired class, relation of the two clients: '=' same client (or both screen-wide),
   '/' one of the two is screen-wide, '<' the held mutex belongs to the client EARLIER in the client list, '>' later *)
let token ((h, a) : nat * nat) : string =
  let (ch, sh) = cls (int_of_nat h) and (ca, sa) = cls (int_of_nat a) in
  let rel = if sh = sa then '=' else if sh < 0 || sa < 0 then '/' else if sh < sa then '<' else '>' in
  Printf.sprintf "%c%c%c" ch ca rel

let uniq l = List.sort_uniq compare l
let sched_of ws = List.map (fun w -> nat_of_int (int_of_string w)) ws

let () =
  iter_lines stdin (fun line ->
    match split_ws line with
    | [] -> ()
    | "case" :: _ -> print_endline line
    | ["table"] ->
        Printf.printf "table %s\n" (String.concat " " (uniq (List.map token lock_table)));
        Printf.printf "table_palette %s\n" (String.concat " " (uniq (List.map token lock_table_palette)));
        Printf.printf "ranked %s %s\n" (b2s (respects_rank lock_table)) (b2s (respects_rank lock_table_palette))
    | ["cycles"; n] ->
        let k = nat_of_int (int_of_string n) in
        let s = th_run true (th_cycles k) and o = th_run false (th_cycles k) in
        Printf.printf "cycles %s zombies=%d live=%d zombies_before_600ddcc=%d\n" n (int_of_nat (th_zombie s)) (int_of_nat (th_live s)) (int_of_nat (th_zombie o))
    | ["witness"] ->
        let c = run (cur_step false) cur_witness cur_init in
        Printf.printf "witness cursor final=%s burned=%s\n" (b2s (cur_final c)) (b2s (cu_fb c));
        let i = run (it_step false) it_witness it_init in
        Printf.printf "witness iterator uaf=%s\n" (b2s (it_uaf i));
        let s = run (sh_step false) sh_witness sh_init in
        let en = List.exists (fun t -> enabled (sh_step false) (nat_of_int t) s) [0; 1; 2; 3] in
        Printf.printf "witness shutdown final=%s some_thread_enabled=%s gone=%d\n" (b2s (sh_final s)) (b2s en) (int_of_nat (sh_gone s));
        let r = run (sh_step true) sh_witness sh_init in
        let r2 = run (sh_step true) sh_finishing r in
        Printf.printf "witness shutdown_repaired finishes=%s gone=%d\n" (b2s (sh_final r2)) (int_of_nat (sh_gone r2));
        let j = run (sj_step false) sj_witness sj_init in
        Printf.printf "witness shutdown_join freed=%s uaf=%s\n" (b2s (sj_freed j)) (b2s (sj_uaf j));
        let e = run (sh_step_cfg cfg_before_86ddb5d) sh_selfail_witness sh_init in
        let en = List.exists (fun t -> enabled (sh_step_cfg cfg_before_86ddb5d) (nat_of_int t) e) [1; 2] in
        Printf.printf "witness select_failure shut=%s gone=%d input_pc=%d output_waits=%s client_thread_enabled=%s\n"
          (b2s (sh_shut e)) (int_of_nat (sh_gone e)) (int_of_nat (sh_pcI e)) (b2s (sh_wait e)) (b2s en);
        let f = run (sh_step true) (sh_selfail_witness @ sh_finishing) sh_init in
        Printf.printf "witness select_failure_head finishes=%s gone=%d\n" (b2s (sh_final f)) (int_of_nat (sh_gone f));
        let ls = run (ls_step false) ls_witness ls_init in
        Printf.printf "witness shutdown_vs_listener_before_633e5d0 join_of_unstarted_thread=%s thread_created_after_shutdown=%s\n" (b2s (ls_badjoin ls)) (b2s (ls_late ls));
        let hs = run (hs_step false) hs_witness hs_init in
        let hen = List.exists (fun t -> enabled (hs_step false) (nat_of_int t) hs) [0; 1] in
        Printf.printf "witness close_in_handshake_before_4891477 state=%d final=%s some_thread_enabled=%s\n" (int_of_nat (hs_state hs)) (b2s (hs_final hs)) (b2s hen);
        let hf = run (hs_step true) (hs_witness @ hs_finishing) hs_init in
        Printf.printf "witness close_in_handshake_head final=%s\n" (b2s (hs_final hf));
        let l = run (rc_step false false) rc_leak_witness rc_init in
        Printf.printf "witness thread_reclaim_before_600ddcc final=%s reclaimed=%d\n" (b2s (rc_final l)) (int_of_nat (rc_reclaimed l));
        let l6 = run (rc_step true false) (rc_leak_witness @ rc_finishing) rc_init in
        Printf.printf "witness thread_reclaim_head final=%s reclaimed=%d joined=%d detached=%s bad=%s\n" (b2s (rc_final l6)) (int_of_nat (rc_reclaimed l6)) (int_of_nat (rc_joined l6)) (b2s (rc_detached l6)) (b2s (rc_bad l6));
        let n0 = run (nf_step false (nat_of_int 0)) nf_gone_witness (nf_init (nat_of_int 0)) in
        Printf.printf "witness newfb_disconnect returned=%s sendmutex_owner=%d client_thread_pc=%d ok=%s\n"
          (b2s (int_of_nat (nf_pcA n0) = 8)) (int_of_nat (nf_send n0)) (int_of_nat (nf_pcB n0)) (b2s (nf_ok n0));
        let n1 = run (nf_step false (nat_of_int 1)) nf_new_witness (nf_init (nat_of_int 1)) in
        Printf.printf "witness newfb_accept bad_unlock=%s\n" (b2s (nf_badunlock n1));
        let g0 = run (nf_step true (nat_of_int 0)) (nf_gone_witness @ nf_finishing) (nf_init (nat_of_int 0)) in
        let g1 = run (nf_step true (nat_of_int 1)) (nf_new_witness @ nf_finishing) (nf_init (nat_of_int 1)) in
        Printf.printf "witness newfb_fixed disconnect_ok=%s final=%s accept_ok=%s final=%s\n" (b2s (nf_ok g0)) (b2s (nf_final g0)) (b2s (nf_ok g1)) (b2s (nf_final g1))
    | "sj" :: rep :: ws ->
        let s = run (sj_step (rep = "1")) (sched_of ws) sj_init in
        Printf.printf "sj final=%s freed=%s uaf=%s\n" (b2s (sj_final s)) (b2s (sj_freed s)) (b2s (sj_uaf s))
    | "sh" :: rep :: ws ->
        let f = sh_step (rep = "1") in
        let s = run f (sched_of ws) sh_init in
        let en = List.exists (fun t -> enabled f (nat_of_int t) s) [0; 1; 2; 3] in
        Printf.printf "sh final=%s enabled=%s gone=%d\n" (b2s (sh_final s)) (b2s en) (int_of_nat (sh_gone s))
    | "nf" :: fixed :: mode :: ws ->
        let m = nat_of_int (int_of_string mode) in
        let s = run (nf_step (fixed = "1") m) (sched_of ws) (nf_init m) in
        Printf.printf "nf final=%s ok=%s send=%d bad_unlock=%s\n" (b2s (nf_final s)) (b2s (nf_ok s)) (int_of_nat (nf_send s)) (b2s (nf_badunlock s))
    | "ls" :: fixed :: ws ->
        let s = run (ls_step (fixed = "1")) (sched_of ws) ls_init in
        Printf.printf "ls final=%s badjoin=%s late=%s\n" (b2s (ls_final s)) (b2s (ls_badjoin s)) (b2s (ls_late s))
    | "rc" :: fixed :: early :: ws ->
        let s = run (rc_step (fixed = "1") (early = "1")) (sched_of ws) rc_init in
        Printf.printf "rc final=%s reclaimed=%d joined=%d detached=%s bad=%s\n" (b2s (rc_final s)) (int_of_nat (rc_reclaimed s)) (int_of_nat (rc_joined s)) (b2s (rc_detached s)) (b2s (rc_bad s))
    | "iw" :: waits :: ws ->
        let s = run (iw_step (waits = "1")) (sched_of ws) iw_init in
        Printf.printf "iw final=%s uaf=%s freed0=%s freed1=%s\n" (b2s (iw_final s)) (b2s (iw_uaf s)) (b2s (iw_fr0 s)) (b2s (iw_fr1 s))
    | "it" :: rep :: ws ->
        let s = run (it_step (rep = "1")) (sched_of ws) it_init in
        Printf.printf "it uaf=%s\n" (b2s (it_uaf s))
    | "cur" :: ser :: ws ->
        let s = run (cur_step (ser = "1")) (sched_of ws) cur_init in
        Printf.printf "cur final=%s burned=%s\n" (b2s (cur_final s)) (b2s (cu_fb s))
    | _ -> Printf.printf "?? %s\n" line)
