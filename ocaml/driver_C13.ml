(* C13 model driver: prints the schedule-independent predictions of the protocol models
   (Session/ThreadsModel.v) that the stress harness can observe, and replays the refutation
   witnesses.  Parsing and printing only. *)
open Model
open Vutil

let cls (m : int) : char * int =
  if m >= 500 then ('O', m - 500) else if m >= 400 then ('R', m - 400) else if m >= 300 then ('G', -1)
  else if m >= 200 then ('U', m - 200) else if m >= 100 then ('C', -1) else ('S', m - 10)

let token ((h, a) : nat * nat) : string =
  let (ch, sh) = cls (int_of_nat h) and (ca, sa) = cls (int_of_nat a) in
  Printf.sprintf "%c%c%c" ch ca (if sh = sa then '=' else '/')

let uniq l = List.sort_uniq compare l
let sched_of ws = List.map (fun w -> nat_of_int (int_of_string w)) ws

let () =
  iter_lines stdin (fun line ->
    match split_ws line with
    | [] -> ()
    | "case" :: _ -> print_endline line
    | ["table"] ->
        Printf.printf "table %s\n" (String.concat " " (uniq (List.map token lock_table)));
        Printf.printf "table_palette %s\n" (String.concat " " (uniq (List.map token lock_table_palette)));
        Printf.printf "ranked %s %s\n" (b2s (respects_rank lock_table)) (b2s (respects_rank lock_table_palette))
    | ["cycles"; n] ->
        let s = th_run (th_cycles (nat_of_int (int_of_string n))) in
        Printf.printf "cycles %s zombies=%d live=%d\n" n (int_of_nat (th_zombie s)) (int_of_nat (th_live s))
    | ["witness"] ->
        let c = run (cur_step false) cur_witness cur_init in
        Printf.printf "witness cursor final=%s burned=%s\n" (b2s (cur_final c)) (b2s (cu_fb c));
        let i = run (it_step false) it_witness it_init in
        Printf.printf "witness iterator uaf=%s\n" (b2s (it_uaf i));
        let s = run (sh_step false) sh_witness sh_init in
        let en = List.exists (fun t -> enabled (sh_step false) (nat_of_int t) s) [0; 1; 2; 3] in
        Printf.printf "witness shutdown final=%s some_thread_enabled=%s gone=%d\n" (b2s (sh_final s)) (b2s en) (int_of_nat (sh_gone s));
        let r = run (sh_step true) sh_witness sh_init in
        let r2 = run (sh_step true) sh_finishing r in
        Printf.printf "witness shutdown_repaired finishes=%s gone=%d\n" (b2s (sh_final r2)) (int_of_nat (sh_gone r2));
        let j = run (sj_step false) sj_witness sj_init in
        Printf.printf "witness shutdown_join freed=%s uaf=%s\n" (b2s (sj_freed j)) (b2s (sj_uaf j))
    | "sj" :: rep :: ws ->
        let s = run (sj_step (rep = "1")) (sched_of ws) sj_init in
        Printf.printf "sj final=%s freed=%s uaf=%s\n" (b2s (sj_final s)) (b2s (sj_freed s)) (b2s (sj_uaf s))
    | "sh" :: rep :: ws ->
        let f = sh_step (rep = "1") in
        let s = run f (sched_of ws) sh_init in
        let en = List.exists (fun t -> enabled f (nat_of_int t) s) [0; 1; 2; 3] in
        Printf.printf "sh final=%s enabled=%s gone=%d\n" (b2s (sh_final s)) (b2s en) (int_of_nat (sh_gone s))
    | "it" :: rep :: ws ->
        let s = run (it_step (rep = "1")) (sched_of ws) it_init in
        Printf.printf "it uaf=%s\n" (b2s (it_uaf s))
    | "cur" :: ser :: ws ->
        let s = run (cur_step (ser = "1")) (sched_of ws) cur_init in
        Printf.printf "cur final=%s burned=%s\n" (b2s (cur_final s)) (b2s (cu_fb s))
    | _ -> Printf.printf "?? %s\n" line)
