(* C04 model driver: executes a fuzz script (see harness/vdrv_fuzz.c) on the extracted Coq model and
   prints the same observation lines.  Parsing and printing only, plus the three oracles the model
   takes as parameters: the floating-point unit (rfbScaledCorrection / ScaleX), zlib's inflate
   (answers supplied by "zhint" lines of the script) and the password check (placeholder bytes). *)
open Model
open Vutil

let floor_ = 4096

(* ---- oracles ---------------------------------------------------------------------------- *)
let wrap32 (v : int) : int =
  let m = v land 0xFFFFFFFF in if m >= 0x80000000 then m - 0x100000000 else m

(* C cast (int)double on x86-64 (cvttsd2si r32): out of range / NaN -> INT_MIN *)
let c_int (f : float) : int =
  if Float.is_nan f || f >= 2147483648.0 || f <= -2147483649.0 then -2147483648
  else int_of_float f

let c_floor (x : float) = float_of_int (c_int x)
let c_ceil (x : float) =
  if float_of_int (c_int x) = x then float_of_int (c_int x) else float_of_int (wrap32 (c_int x + 1))

(* scale.c rfbScaledCorrection(from, to, &x, &y, &w, &h): the part computed in doubles, up to the
   four conversions to int *)
let o_corr_f fw fh tw th x y w h : rect4 =
  let fw = int_of_z fw and fh = int_of_z fh and tw = int_of_z tw and th = int_of_z th in
  let x = int_of_z x and y = int_of_z y and w = int_of_z w and h = int_of_z h in
  let scale_w = float_of_int tw /. float_of_int fw and scale_h = float_of_int th /. float_of_int fh in
  let x1 = float_of_int x *. scale_w and y1 = float_of_int y *. scale_h in
  let w1 = float_of_int w *. scale_w and h1 = float_of_int h *. scale_h in
  let x2 = c_floor x1 and y2 = c_floor y1 in
  let w2 = c_ceil (w1 +. (x1 -. x2)) and h2 = c_ceil (h1 +. (y1 -. y2)) in
  let rx = c_int x2 and ry = c_int y2 and rw = c_int w2 and rh = c_int h2 in
  (* driver-side check of the hypothesis fpu_ok of C04_no_div_zero on the doubles actually computed *)
  if tw > 0 && tw <= 65535 && th > 0 && th <= 65535 && x >= 0 && w > 0 && x + w <= fw && y >= 0 && h > 0 && y + h <= fh
     && not (rx >= 0 && rx < tw && ry >= 0 && ry < th && rw >= 0 && rw <= 65536 && rh >= 0 && rh <= 65536)
  then Printf.printf "FPU-ASSERT fpu_ok violated by the doubles: %d %d %d %d  %d %d %d %d -> %d %d %d %d\n" fw fh tw th x y w h rx ry rw rh;
  (((z_of_int rx, z_of_int ry), z_of_int rw), z_of_int rh)

(* scale.c ScaleX(from, to, v) with from != to: (int)(((double)v * (double)to) / (double)from) *)
let o_scale from_ to_ v : z =
  z_of_int (c_int ((float_of_int (int_of_z v) *. float_of_int (int_of_z to_)) /. float_of_int (int_of_z from_)))

let zhints : (string, zres) Hashtbl.t = Hashtbl.create 16
exception Unknown_inflate
let o_inflate flags data : zres =
  let key = Printf.sprintf "%d:%d:%d" (int_of_z flags) (List.length data) (int_of_z (bsum data)) in
  match Hashtbl.find_opt zhints key with
  | Some r -> r
  | None -> raise Unknown_inflate       (* no answer supplied for this payload: the driver stops comparing *)

let auth_ok = List.init 16 (fun _ -> z_of_int 0xA1)
let auth_bad = List.init 16 (fun _ -> z_of_int 0xB2)
let o_pw (l : z list) : bool = (l = auth_ok)

(* ---- printing ---------------------------------------------------------------------------- *)
let zi = int_of_z

let cb_s name (c : callback) : string =
  match c with
  | CbKbd (d, k) -> Printf.sprintf "kbd:%s:%d:%d" name (zi d) (zi k)
  | CbPtr (m, x, y) -> Printf.sprintf "ptr:%s:%d:%d:%d" name (zi m) (zi x) (zi y)
  | CbCut (l, s) -> Printf.sprintf "cut:%s:%d:%d" name (zi l) (zi s)
  | CbUtf8 l -> Printf.sprintf "utf8:%s:%d" name (zi l)
  | CbChat (l, s) -> Printf.sprintf "chat:%s:%d:%d" name (zi l) (zi s)
  | CbXvp (v, c) -> Printf.sprintf "xvp:%s:%d:%d" name (zi v) (zi c)
  | CbDsz (w, h, n, s) -> Printf.sprintf "dsz:%s:%d:%d:%d:%d" name (zi w) (zi h) (zi n) (zi s)
  | CbSW (x, y) -> Printf.sprintf "sw:%s:%d:%d" name (zi x) (zi y)
  | CbSI s -> Printf.sprintf "si:%s:%d" name (zi s)
  | CbFur (i, x, y, w, h) -> Printf.sprintf "fur:%s:%d:%d:%d:%d:%d" name (zi i) (zi x) (zi y) (zi w) (zi h)

let tail_s name (effs : effect list) : string =
  let cbs = List.filter_map (function Callback c -> Some (cb_s name c) | _ -> None) effs in
  let big = List.filter_map (function Alloc n when zi n > floor_ -> Some (string_of_int (zi n)) | _ -> None) effs in
  let waits = List.filter_map (function Wait t -> Some (zi t) | _ -> None) effs in
  Printf.sprintf " cb=[%s] big=[%s] w=%d nw=%d mw=%d" (String.concat "," cbs) (String.concat "," big)
    (List.fold_left (+) 0 waits) (List.length waits) (List.fold_left max 0 waits)

let has_div0 effs = List.exists (function Div (_, b) -> zi b = 0 | _ -> false) effs
let has_opaque effs = List.exists (function Opaque -> true | _ -> false) effs

(* ---- script state ------------------------------------------------------------------------ *)
type conn = { name : string; mutable st : cstate; mutable rd : reader; mutable evs : event list;
              mutable connected : bool; mutable opaque : bool }

let conns : (string, conn) Hashtbl.t = Hashtbl.create 4
let cfg : cfg option ref = ref None
let dead = ref false          (* the server process of this case is gone (crash / wedge) *)

let kv (toks : string list) (key : string) (def : int) : int =
  let pre = key ^ "=" in
  let n = String.length pre in
  match List.find_opt (fun t -> String.length t > n && String.sub t 0 n = pre) toks with
  | Some t -> (try int_of_string (String.sub t n (String.length t - n)) with _ -> def)
  | None -> def

let ztab = Array.init 256 z_of_int
let hv c = match c with '0'..'9' -> Char.code c - 48 | 'a'..'f' -> Char.code c - 87 | 'A'..'F' -> Char.code c - 55 | _ -> 0
let bytes_of_hex (h : string) : z list =
  let n = String.length h / 2 in
  let rec go i acc = if i < 0 then acc else go (i - 1) (ztab.(hv h.[2 * i] * 16 + hv h.[2 * i + 1]) :: acc) in
  go (n - 1) []

let st_s (s : cstate) = if s.s_closed then "-" else string_of_int (zi s.s_state)
let b01 b = if b then 1 else 0

let () =
  iter_lines stdin (fun line ->
    let toks = split_ws line in
    match toks with
    | [] -> ()
    | "case" :: _ -> Hashtbl.reset conns; Hashtbl.reset zhints; cfg := None; dead := false; print_endline line
    | _ when !dead -> ()
    | "cfg" :: _ ->
        let g k d = kv toks k d in
        cfg := Some { cf_w = z_of_int (g "w" 8); cf_h = z_of_int (g "h" 8); cf_bpp = z_of_int (g "bpp" 32);
                      cf_pw = g "pw" 0 <> 0; cf_ft = g "ft" 0 <> 0; cf_xvp = g "xvp" 0 <> 0;
                      cf_utf8 = g "utf8" 0 <> 0; cf_wait = z_of_int (g "wait" 0); cf_view = g "view" 0 <> 0;
                      cf_dsz = g "dsz" 0 <> 0; cf_namelen = z_of_int 5;
                      cf_fix_scale = g "fixscale" 0 <> 0; cf_fix_peek = g "fixpeek" 0 <> 0; cf_fix_fur = g "fixfur" 0 <> 0 };
        Printf.printf "cfg ok wit=%d\n" (g "wit" 1)
    | "zhint" :: flags :: len :: sum :: res :: _ ->
        let r = match res with
          | "bad" -> Some ZBad
          | "unknown" -> None
          | s when String.length s >= 6 && String.sub s 0 6 = "steps:" ->
              let body = String.sub s 6 (String.length s - 6) in
              let parts = if body = "" then [] else String.split_on_char ',' body in
              Some (ZSteps (List.map (fun p -> match String.split_on_char '/' p with
                                         | [a; b] -> (z_of_int (int_of_string a), b = "1")
                                         | _ -> (z_of_int (-1), false)) parts))
          | _ -> None in
        (match r with Some r -> Hashtbl.replace zhints (Printf.sprintf "%s:%s:%s" flags len sum) r | None -> ());
        print_endline "zhint"
    | _ ->
      match !cfg with
      | None -> print_endline "nocfg"
      | Some c ->
        let fresh name = { name; st = init_state c; evs = []; connected = false; opaque = false;
                           rd = { r_avail = []; r_evs = []; r_eof = false; r_reset = false; r_stalled = false; r_dead = false } } in
        (match toks with
         | ["open"; name] -> Hashtbl.replace conns name (fresh name); Printf.printf "open %s\n" name
         | "ev" :: name :: kind :: rest ->
             (match Hashtbl.find_opt conns name with
              | None -> print_endline "ev noconn"
              | Some cn ->
                  let e = match kind, rest with
                    | "data", [h] when String.length h >= 2 -> Some (EData (bytes_of_hex h))
                    | "pause", [n] -> Some (EPause (z_of_int (max 1 (int_of_string n))))
                    | "pause", [] -> Some (EPause (z_of_int 1))
                    | "eof", _ -> Some EEof
                    | "reset", _ -> Some EReset
                    | "stall", _ -> Some EStall
                    | "auth", ["ok"] -> Some (EData auth_ok)
                    | "auth", _ -> Some (EData auth_bad)
                    | _ -> None in
                  (match e with
                   | Some e -> cn.evs <- cn.evs @ [e];
                       if cn.connected then cn.rd <- { cn.rd with r_evs = cn.rd.r_evs @ [e] };
                       print_endline "ev"
                   | None -> print_endline (if kind = "data" then "ev empty" else "ev ?")))
         | "connect" :: name :: rest ->
             (match Hashtbl.find_opt conns name with
              | None -> print_endline "connect noconn"
              | Some cn ->
                  let r0 = { r_avail = []; r_evs = cn.evs; r_eof = false; r_reset = false; r_stalled = false; r_dead = false } in
                  let r0 = if rest = ["pre"] then (match top_feed r0.r_evs false with (Some r, _) -> r | (None, st) -> { r0 with r_evs = []; r_stalled = st }) else r0 in
                  let ((res, r1), effs) = connect c r0 in
                  cn.rd <- r1; cn.connected <- true;
                  (match res with
                   | COk -> Printf.printf "connect %s res=ok%s\n" name (tail_s name effs)
                   | CClosed -> cn.st <- set_closed cn.st; Printf.printf "connect %s res=closed%s\n" name (tail_s name effs)
                   | CWebSocket -> cn.opaque <- true; Printf.printf "connect %s res=ws%s\n" name (tail_s name effs)
                   | CWedge ->
                       let waits = List.filter_map (function Wait t -> Some (zi t) | _ -> None) effs in
                       Printf.printf "connect %s res=wedge what=busy-loop w=%d nw=%d mw=%d\n" name
                         (List.fold_left (+) 0 waits) (List.length waits) (List.fold_left max 0 waits);
                       dead := true))
         | ["run"; name] ->
             (match Hashtbl.find_opt conns name with
              | None -> print_endline "run noconn"
              | Some cn when cn.opaque -> print_endline "opaque"
              | Some cn ->
                  match (try Some (run_conn o_corr_f o_scale o_inflate o_pw c (conn_fuel cn.rd) cn.st cn.rd)
                         with Unknown_inflate -> None) with
                  | None -> cn.opaque <- true; print_endline "opaque"
                  | Some (((obs, v), r1), ok) ->
                  cn.rd <- r1;
                  List.iter (fun (MkObs (ty, so, effs)) ->
                    match so with
                    | Some s -> cn.st <- s;
                        Printf.printf "pe t=%d st=%s closed=%d%s\n" (zi ty) (st_s s) (b01 s.s_closed) (tail_s name effs)
                    | None ->
                        if has_opaque effs then (cn.opaque <- true; print_endline "opaque")
                        else (print_endline "pe dies"; dead := true)) obs;
                  ignore v;
                  if not ok then print_endline "FUEL-EXHAUSTED";
                  if not cn.opaque && not !dead then
                    Printf.printf "run %s end closed=%d st=%s\n" name (b01 cn.st.s_closed) (st_s cn.st))
         | ["update"; name] ->
             (match Hashtbl.find_opt conns name with
              | None -> print_endline "update noconn"
              | Some cn when cn.opaque -> print_endline "opaque"
              | Some cn ->
                  if cn.st.s_closed then Printf.printf "update %s closed=1 n=-1\n" name
                  else begin
                    let first = ref None in
                    let how = ref "" in
                    let stop = ref false in
                    for _ = 1 to 3 do
                      if not !stop then begin
                        let ((v, r1), effs) = update o_corr_f c cn.st cn.rd in
                        cn.rd <- r1;
                        match v with
                        | None -> stop := true; dead := true;
                            how := (if has_div0 effs then "div0" else "index")
                        | Some (s, u) ->
                            cn.st <- s;
                            ignore effs;
                            (match u with
                             | UNone -> stop := true; if !first = None then first := Some "-1"
                             | UCount n -> if !first = None then first := Some (string_of_int (zi n))
                             | UUnknown -> stop := true; cn.opaque <- true; if !first = None then first := Some "?")
                      end
                    done;
                    if !dead then Printf.printf "update %s dies=%s\n" name !how
                    else if cn.opaque then Printf.printf "update %s n=?\n" name
                    else Printf.printf "update %s closed=%d n=%s\n" name (b01 cn.st.s_closed)
                           (match !first with Some s -> s | None -> "-1")
                  end)
         | ["witness"] -> print_endline "witness ok=1"
         | _ -> Printf.printf "?? %s\n" (List.hd toks)))
