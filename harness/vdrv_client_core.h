#ifndef VDRV_CLIENT_CORE_H
#define VDRV_CLIENT_CORE_H
/* vdrv_client_core.h - shared by vdrv_client.c (C07) and vdrv_clifuzz.c (C08): drives the REAL LibVNCClient (static ASan build of /repo) from a token script.
 *
 * The client never sees a socket: read()/write()/select() on its fd are interposed at link time
 * (-Wl,--wrap=read,--wrap=write,--wrap=select).  The harness plays the server: it renders the
 * script's tokens into wire bytes (plain bytes; deflate blocks compressed with REAL zlib using
 * persistent per-connection streams; LZO blocks compressed with the repo's minilzo), serves them to
 * the client's read() calls in the requested segmentation, and logs every callback and every byte
 * the client writes.
 *
 * Script (one op per line; a case starts with "case <n> ..."):
 *   init W H bpp depth be rmax gmax bmax rs gs bs sibpp sigmax ENC...   handshake 3.8/None + ServerInit,
 *                                      then rfbClientInitialise(); ENC = words of the encodings string
 *   fill SEED                          deterministic framebuffer content
 *   b HEX                              plain bytes
 *   z SID FRESH OK HEX                 deflate block (SID 0: 4-byte BE length prefix; SID 1..4: Tight
 *                                      compact length prefix); FRESH=1: new deflate stream; OK=0: corrupt it
 *   l HEX                              4-byte length + LZO1X block
 *   seg N1 N2 ...                      cyclic read segmentation (N=0: one EAGAIN)
 *   run                                HandleRFBServerMessage until the stream is exhausted or failure
 *   dump 0|1                           print whole framebuffer (1) or a hash only (0) after updates
 * Output: one line per op (run: one line per message + "end ..."), identical format in
 * ocaml/driver_C07.ml.
 */
#ifdef VDRV_LIVE
#include <rfb/rfb.h>
#endif
#include <rfb/rfbclient.h>
#include <zlib.h>
#include <errno.h>
#include <fcntl.h>
#include <stdio.h>
#include <stdlib.h>
#include <string.h>
#include <stdint.h>
#include <unistd.h>
#include <sys/select.h>
#include <stdarg.h>
#include "minilzo.h"

/* ------------------------------------------------------------------ byte buffers */
typedef struct { unsigned char *p; size_t n, cap; } bbuf;
static void bb_add(bbuf *b, const void *d, size_t n) {
  if (b->n + n > b->cap) { b->cap = (b->n + n) * 2 + 256; b->p = realloc(b->p, b->cap); }
  if (n) memcpy(b->p + b->n, d, n);
  b->n += n;
}
static void bb_byte(bbuf *b, int v) { unsigned char c = (unsigned char)v; bb_add(b, &c, 1); }
static void bb_reset(bbuf *b) { b->n = 0; }

static bbuf g_in;            /* server -> client bytes not yet consumed */
static size_t g_in_rd;
static bbuf g_out;           /* client -> server bytes since last report */
static bbuf g_ev;            /* textual event log since last report */
static int g_fd = -1;        /* the client's "socket" */
static int g_seg[64], g_nseg = 0, g_segi = 0;
static int g_eof_hit = 0;
static int g_dump = 1;

static void ev(const char *fmt, ...) {
  char tmp[512]; va_list ap; va_start(ap, fmt);
  int k = vsnprintf(tmp, sizeof tmp, fmt, ap); va_end(ap);
  if (k > (int)sizeof tmp - 1) k = sizeof tmp - 1;
  if (g_ev.n) bb_byte(&g_ev, ' ');
  bb_add(&g_ev, tmp, k);
}
static void ev_hex(const char *tag, const unsigned char *p, size_t n) {
  static const char *hx = "0123456789abcdef"; size_t i;
  if (g_ev.n) bb_byte(&g_ev, ' ');
  bb_add(&g_ev, tag, strlen(tag));
  for (i = 0; i < n; i++) { bb_byte(&g_ev, hx[p[i] >> 4]); bb_byte(&g_ev, hx[p[i] & 15]); }
}

#ifdef VDRV_LIVE
static int g_live;
static void live_pump(void);
#endif
/* ------------------------------------------------------------------ interposed syscalls */
ssize_t __real_read(int fd, void *buf, size_t n);
ssize_t __real_write(int fd, const void *buf, size_t n);
int __real_select(int nfds, fd_set *r, fd_set *w, fd_set *e, struct timeval *t);

ssize_t __wrap_read(int fd, void *buf, size_t n) {
  if (fd != g_fd || g_fd < 0) return __real_read(fd, buf, n);
  size_t avail = g_in.n - g_in_rd, k = n;
#ifdef VDRV_LIVE
  if (avail == 0 && g_live) { live_pump(); avail = g_in.n - g_in_rd; }
#endif
  if (avail == 0) { g_eof_hit = 1; return 0; }
  if (g_nseg) {
    int s = g_seg[g_segi % g_nseg]; g_segi++;
    if (s == 0) { errno = EAGAIN; return -1; }
    if ((size_t)s < k) k = (size_t)s;
  }
  if (k > avail) k = avail;
  memcpy(buf, g_in.p + g_in_rd, k);
  g_in_rd += k;
  return (ssize_t)k;
}
ssize_t __wrap_write(int fd, const void *buf, size_t n) {
  if (fd != g_fd || g_fd < 0) return __real_write(fd, buf, n);
  bb_add(&g_out, buf, n);
  return (ssize_t)n;
}
int __wrap_select(int nfds, fd_set *r, fd_set *w, fd_set *e, struct timeval *t) {
  if (g_fd >= 0 && nfds == g_fd + 1 && ((r && FD_ISSET(g_fd, r)) || (w && FD_ISSET(g_fd, w)))) return 1;
  return __real_select(nfds, r, w, e, t);
}

/* ------------------------------------------------------------------ server-side compression */
static z_stream g_zs[6]; static int g_zs_on[6];   /* 0 Zlib, 1..4 Tight, 5 ZRLE: one deflate stream per encoding */
static void z_close_all(void) { int i; for (i = 0; i < 6; i++) if (g_zs_on[i]) { deflateEnd(&g_zs[i]); g_zs_on[i] = 0; } }

static void put_compact(bbuf *o, size_t n) {
  if (n < 128) bb_byte(o, n);
  else if (n < 16384) { bb_byte(o, (n & 0x7f) | 0x80); bb_byte(o, n >> 7); }
  else { bb_byte(o, (n & 0x7f) | 0x80); bb_byte(o, ((n >> 7) & 0x7f) | 0x80); bb_byte(o, n >> 14); }
}
static void put32(bbuf *o, uint32_t v) { bb_byte(o, v >> 24); bb_byte(o, v >> 16); bb_byte(o, v >> 8); bb_byte(o, v); }

static void emit_z(int sid, int fresh, int ok, const unsigned char *d, size_t n) {
  if (sid < 0 || sid > 5) return;
  if (fresh && g_zs_on[sid]) { deflateEnd(&g_zs[sid]); g_zs_on[sid] = 0; }
  if (!g_zs_on[sid]) { memset(&g_zs[sid], 0, sizeof(z_stream)); deflateInit(&g_zs[sid], 1 + (int)(n % 9)); g_zs_on[sid] = 1; }
  size_t cap = deflateBound(&g_zs[sid], n) + 64;
  unsigned char *o = malloc(cap);
  g_zs[sid].next_in = (Bytef *)d; g_zs[sid].avail_in = n;
  g_zs[sid].next_out = o; g_zs[sid].avail_out = cap;
  deflate(&g_zs[sid], Z_SYNC_FLUSH);
  size_t cn = cap - g_zs[sid].avail_out;
  if (!ok) { size_t i; for (i = 0; i < cn; i++) o[i] = 0xff; }   /* invalid block type / stored-length mismatch */
  if (sid == 0 || sid == 5) put32(&g_in, (uint32_t)cn); else put_compact(&g_in, cn);   /* Zlib / ZRLE: 4-byte length, Tight: compact length */
  bb_add(&g_in, o, cn);
  free(o);
}
static void emit_lzo(const unsigned char *d, size_t n) {
  static lzo_align_t wrk[(LZO1X_1_MEM_COMPRESS + sizeof(lzo_align_t) - 1) / sizeof(lzo_align_t)];
  lzo_uint cn = n + n / 16 + 64 + 3;
  unsigned char *o = malloc(cn);
  lzo1x_1_compress(d, n, o, &cn, wrk);
  put32(&g_in, (uint32_t)cn);
  bb_add(&g_in, o, cn);
  free(o);
}

/* ------------------------------------------------------------------ callbacks */
static rfbClient *g_cl;
static MallocFrameBufferProc g_default_malloc;
/* application policy of this harness: refuse framebuffers above 4 MiB, zero new framebuffers */
static rfbBool cb_malloc(rfbClient *c) {
  uint64_t sz = (uint64_t)c->width * c->height * (c->format.bitsPerPixel / 8);
  ev("R%d,%d", c->width, c->height);
  if (sz > (1ULL << 22)) { if (c->frameBuffer) { free(c->frameBuffer); c->frameBuffer = NULL; } return FALSE; }
  if (!g_default_malloc(c)) return FALSE;
  memset(c->frameBuffer, 0, (size_t)sz);
  return TRUE;
}
static int g_sawrect;
static void cb_update(rfbClient *c, int x, int y, int w, int h) { ev("U%d,%d,%d,%d", x, y, w, h); g_sawrect = 1; }
/* only the bits that carry colour are compared (the padding bits of a pixel have no meaning) */
static uint32_t px_mask(rfbClient *c) {
  int B = c->format.bitsPerPixel / 8;
  uint64_t m = ((uint64_t)c->format.redMax << c->format.redShift) | ((uint64_t)c->format.greenMax << c->format.greenShift) |
               ((uint64_t)c->format.blueMax << c->format.blueShift);
  return (uint32_t)(m & (B >= 4 ? 0xffffffffULL : ((1ULL << (8 * B)) - 1)));
}
static uint32_t px_at(rfbClient *c, size_t i) {
  int B = c->format.bitsPerPixel / 8;
  return B == 1 ? ((uint8_t *)c->frameBuffer)[i] : B == 2 ? ((uint16_t *)c->frameBuffer)[i] : ((uint32_t *)c->frameBuffer)[i];
}
static uint64_t fb_hash(rfbClient *c) {
  uint64_t hsh = 7; size_t i, n = (size_t)c->width * c->height; int k, B = c->format.bitsPerPixel / 8; uint32_t m = px_mask(c);
  for (i = 0; i < n; i++) { uint32_t v = px_at(c, i) & m; for (k = 0; k < B; k++) hsh = (hsh * 1000003ULL + ((v >> (8 * k)) & 255)) & 0xFFFFFFFFFFULL; }
  return hsh;
}
static void print_fb(rfbClient *c) {
  size_t i, n = (size_t)c->width * c->height; int B = c->format.bitsPerPixel / 8;
  if (!c->frameBuffer) { printf("fb null\n"); return; }
  if (!g_dump) { printf("fb %dx%d h=%010llx\n", c->width, c->height, (unsigned long long)fb_hash(c)); return; }
  printf("fb %dx%d ", c->width, c->height);
  { uint32_t m = px_mask(c);
    for (i = 0; i < n; i++) printf(B == 1 ? "%02x" : B == 2 ? "%04x" : "%08x", px_at(c, i) & m); }
  printf("\n");
}
static int g_finished;
static void cb_finished(rfbClient *c) { ev("F"); g_finished = 1; }
static void cb_bell(rfbClient *c) { ev("B"); }
static void cb_cut(rfbClient *c, const char *t, int n) { ev_hex("T", (const unsigned char *)t, n); }
static void cb_cursor(rfbClient *c, int xh, int yh, int w, int h, int bpp) {
  ev("C%d,%d,%d,%d,%d", xh, yh, w, h, bpp);
  /* XCursor leaves bytes of rcSource undefined only for indices; after conversion every pixel is whole */
  ev_hex("s=", c->rcSource, (size_t)w * h * bpp);
  ev_hex("m=", c->rcMask, (size_t)w * h);
}
static rfbBool cb_pos(rfbClient *c, int x, int y) { ev("P%d,%d", x, y); return TRUE; }
static void cb_led(rfbClient *c, int v, int pad) { ev("L%d", v); }
static void cb_log(const char *fmt, ...) { (void)fmt; }

#ifdef VDRV_GUARD
static rfbBool cb_malloc_guard(rfbClient *c);
#endif
static char *g_pw(rfbClient *c);
static rfbCredential *g_cred(rfbClient *c, int type);
/* ------------------------------------------------------------------ script */
static int hexval(int c) { return c >= '0' && c <= '9' ? c - '0' : c >= 'a' && c <= 'f' ? c - 'a' + 10 : c >= 'A' && c <= 'F' ? c - 'A' + 10 : -1; }
static size_t parse_hex(const char *s, unsigned char **out) {
  size_t n = strlen(s) / 2, i; unsigned char *p = malloc(n + 1);
  for (i = 0; i < n; i++) p[i] = (unsigned char)((hexval(s[2 * i]) << 4) | hexval(s[2 * i + 1]));
  *out = p; return n;
}
static void flush_report(const char *tag) {
  size_t i;
  printf("%s ev=[", tag); fwrite(g_ev.p, 1, g_ev.n, stdout); printf("] sent=");
  for (i = 0; i < g_out.n; i++) printf("%02x", g_out.p[i]);
  printf("\n");
  bb_reset(&g_ev); bb_reset(&g_out);
}
static void drop_client(void) {
  if (g_cl) {
#ifdef VDRV_GUARD
    g_cl->frameBuffer = NULL;
#endif
    rfbClientCleanup(g_cl); g_cl = NULL; }
  g_fd = -1; z_close_all(); bb_reset(&g_in); g_in_rd = 0; bb_reset(&g_out); bb_reset(&g_ev); g_nseg = 0; g_segi = 0; g_eof_hit = 0;
}

static void do_init(char *args) {
  int W, H, bpp, depth, be, rmax, gmax, bmax, rs, gs, bs, sibpp, sigmax, off = 0;
  static char enc[512];
  drop_client();
  if (sscanf(args, "%d %d %d %d %d %d %d %d %d %d %d %d %d%n", &W, &H, &bpp, &depth, &be, &rmax, &gmax, &bmax, &rs, &gs, &bs, &sibpp, &sigmax, &off) < 13) { printf("init bad\n"); return; }
  while (args[off] == ' ') off++;
  strncpy(enc, args + off, sizeof enc - 1);
  { size_t L = strlen(enc); while (L && (enc[L - 1] == '\n' || enc[L - 1] == ' ')) enc[--L] = 0; }
  rfbClient *c = rfbGetClient(8, 3, 4);
  c->format.bitsPerPixel = bpp; c->format.depth = depth; c->format.bigEndian = be; c->format.trueColour = 1;
  c->format.redMax = rmax; c->format.greenMax = gmax; c->format.blueMax = bmax;
  c->format.redShift = rs; c->format.greenShift = gs; c->format.blueShift = bs;
  c->appData.encodingsString = enc; c->appData.useRemoteCursor = TRUE; c->canHandleNewFBSize = TRUE;
  c->appData.compressLevel = 3; c->appData.qualityLevel = 9; c->appData.enableJPEG = FALSE;
  g_default_malloc = c->MallocFrameBuffer; c->MallocFrameBuffer = cb_malloc;
#ifdef VDRV_GUARD
  c->MallocFrameBuffer = cb_malloc_guard;
#endif
  c->GotFrameBufferUpdate = cb_update; c->FinishedFrameBufferUpdate = cb_finished; c->Bell = cb_bell;
  c->GotXCutText = cb_cut; c->GotCursorShape = cb_cursor; c->HandleCursorPos = cb_pos; c->HandleKeyboardLedState = cb_led;
  c->GetPassword = g_pw;
  c->readTimeout = 0;   /* no retry limit: the interposed read() never blocks */
  g_fd = open("/dev/null", O_RDWR); c->sock = g_fd;
  /* canned server side of the handshake */
  bb_add(&g_in, "RFB 003.008\n", 12);
  bb_byte(&g_in, 1); bb_byte(&g_in, 1);          /* one security type: None */
  put32(&g_in, 0);                                /* SecurityResult OK */
  { unsigned char si[24]; memset(si, 0, sizeof si);
    si[0] = W >> 8; si[1] = W; si[2] = H >> 8; si[3] = H;
    si[4] = sibpp; si[5] = sibpp == 32 ? 24 : sibpp; si[6] = 0; si[7] = 1;
    si[8] = 0; si[9] = sigmax; si[10] = 0; si[11] = sigmax; si[12] = 0; si[13] = sigmax; si[14] = 0; si[15] = 8; si[16] = 16;
    si[20] = 0; si[21] = 0; si[22] = 0; si[23] = 1; bb_add(&g_in, si, 24); bb_byte(&g_in, 'v'); }
  g_cl = c;
  rfbBool rc = rfbClientInitialise(c);
  if (!rc) { g_cl = NULL; /* rfbClientInitialise does not free; rfbInitClient would */ rfbClientCleanup(c); g_fd = -1; printf("init rc=0\n"); bb_reset(&g_ev); bb_reset(&g_out); return; }
  { char t[64]; snprintf(t, sizeof t, "init rc=1 %dx%d", c->width, c->height); flush_report(t); }
}

static void do_fill(unsigned seed) {
  rfbClient *c = g_cl; if (!c || !c->frameBuffer) { printf("fill none\n"); return; }
  size_t i, n = (size_t)c->width * c->height; int bpp = c->format.bitsPerPixel;
  for (i = 0; i < n; i++) {
    uint32_t v = (uint32_t)(((uint64_t)(seed + i) * 2654435761ULL) & 0xffffffffULL) >> (32 - bpp);
    if (bpp == 8) ((uint8_t *)c->frameBuffer)[i] = v; else if (bpp == 16) ((uint16_t *)c->frameBuffer)[i] = v; else ((uint32_t *)c->frameBuffer)[i] = v;
  }
  printf("fill\n");
}

static void do_run(void) {
  rfbClient *c = g_cl;
  if (!c) { printf("end none\n"); return; }
  for (;;) {
    if (g_in_rd >= g_in.n && c->buffered == 0) { printf("end ok\n"); return; }
    g_finished = 0; g_eof_hit = 0;
    rfbBool rc = HandleRFBServerMessage(c);
    if (!rc) {
      bb_reset(&g_ev); bb_reset(&g_out);
      printf(g_eof_hit ? "end eof\n" : "end fail\n");
      g_cl = NULL; rfbClientCleanup(c); g_fd = -1; return;
    }
    flush_report("msg");
    if (g_finished) print_fb(c);
  }
}

static char *g_pw(rfbClient *c) { return strdup("secret"); }
/* user name / password for the schemes that ask for them (Plain, MSLogon, ARD, SASL); no X509 material */
static rfbCredential *g_cred(rfbClient *c, int type) {
  rfbCredential *cr;
  if (type != rfbCredentialTypeUser) return NULL;
  cr = (rfbCredential *)calloc(1, sizeof *cr);
  cr->userCredential.username = strdup("user"); cr->userCredential.password = strdup("secret");
  return cr;
}

/* an application call between two messages: SendExtDesktopSize.  Of the rfbExtDesktopScreen it sends the library only
 * sets width and height; id, x, y and flags are uninitialised stack bytes, printed as "uu" (as the model does) */
static void do_api_extsize(char *args) {
  rfbClient *c = g_cl; int w, h; size_t i, n0;
  if (!c || sscanf(args, "%d %d", &w, &h) < 2) { printf("api none\n"); return; }
  bb_reset(&g_ev); bb_reset(&g_out); n0 = g_out.n;
  SendExtDesktopSize(c, (uint16_t)w, (uint16_t)h);
  printf("api ev=["); fwrite(g_ev.p, 1, g_ev.n, stdout); printf("] sent=");
  for (i = 0; i < g_out.n; i++) {
    size_t k = i - n0;
    int undef = g_out.n - n0 >= 24 && g_out.p[n0] == rfbSetDesktopSize && (k == 1 || k == 7 || (k >= 8 && k < 16) || (k >= 20 && k < 24));
    if (undef) printf("uu"); else printf("%02x", g_out.p[i]);
  }
  printf("\n");
  bb_reset(&g_ev); bb_reset(&g_out);
}

#ifdef VDRV_GUARD
/* framebuffer with poisoned guard bands (ASan reports any access, however far from the buffer) */
#include <sanitizer/asan_interface.h>
#define GUARD_BYTES (4u << 20)
static char *g_fb_base;
static rfbBool cb_malloc_guard(rfbClient *c) {
  uint64_t sz = (uint64_t)c->width * c->height * (c->format.bitsPerPixel / 8);
  ev("R%d,%d", c->width, c->height);
  if (g_fb_base) { ASAN_UNPOISON_MEMORY_REGION(g_fb_base, GUARD_BYTES); free(g_fb_base); g_fb_base = NULL; }
  c->frameBuffer = NULL;
  if (sz > (1ULL << 22)) return FALSE;
  g_fb_base = malloc((size_t)sz + 2 * (size_t)GUARD_BYTES);
  if (!g_fb_base) return FALSE;
  c->frameBuffer = (uint8_t *)g_fb_base + GUARD_BYTES;
  memset(c->frameBuffer, 0, (size_t)sz);
  ASAN_POISON_MEMORY_REGION(g_fb_base, GUARD_BYTES);
  ASAN_POISON_MEMORY_REGION(g_fb_base + GUARD_BYTES + sz, GUARD_BYTES);
  return TRUE;
}
#endif

/* "hsraw bpp depth be rmax gmax bmax rs gs bs | HEX": the server side of the handshake is HEX (verbatim) */
static void do_hsraw(char *args) {
  int bpp, depth, be, rmax, gmax, bmax, rs, gs, bs, off = 0; unsigned char *p; size_t n;
  drop_client();
  if (sscanf(args, "%d %d %d %d %d %d %d %d %d%n", &bpp, &depth, &be, &rmax, &gmax, &bmax, &rs, &gs, &bs, &off) < 9) { printf("hsraw bad\n"); return; }
  char *bar = strchr(args + off, '|'); if (!bar) { printf("hsraw bad\n"); return; }
  bar++; while (*bar == ' ') bar++;
  rfbClient *c = rfbGetClient(8, 3, 4);
  c->format.bitsPerPixel = bpp; c->format.depth = depth; c->format.bigEndian = be; c->format.trueColour = 1;
  c->format.redMax = rmax; c->format.greenMax = gmax; c->format.blueMax = bmax;
  c->format.redShift = rs; c->format.greenShift = gs; c->format.blueShift = bs;
  c->appData.encodingsString = "tight zrle ultra copyrect hextile zlib corre rre raw trle"; c->appData.useRemoteCursor = TRUE; c->canHandleNewFBSize = TRUE;
  c->appData.enableJPEG = FALSE;
  g_default_malloc = c->MallocFrameBuffer;
#ifdef VDRV_GUARD
  c->MallocFrameBuffer = cb_malloc_guard;
#else
  c->MallocFrameBuffer = cb_malloc;
#endif
  c->GotFrameBufferUpdate = cb_update; c->FinishedFrameBufferUpdate = cb_finished; c->Bell = cb_bell;
  c->GotXCutText = cb_cut; c->GotCursorShape = cb_cursor; c->HandleCursorPos = cb_pos; c->HandleKeyboardLedState = cb_led;
  c->GetPassword = g_pw; c->GetCredential = g_cred;
  c->readTimeout = 0;
  g_fd = open("/dev/null", O_RDWR); c->sock = g_fd;
  n = parse_hex(bar, &p); bb_add(&g_in, p, n); free(p);
  g_cl = c;
  rfbBool rc = rfbClientInitialise(c);
  if (!rc) { g_cl = NULL; rfbClientCleanup(c); g_fd = -1; printf("init rc=0\n"); bb_reset(&g_ev); bb_reset(&g_out); return; }
  printf("init rc=1 %dx%d\n", c->width, c->height); bb_reset(&g_ev); bb_reset(&g_out);
}


#ifdef VDRV_LIVE
/* ------------------------------------------------------------------ live pairing with THIS repository's server
 * "live W H BYPP SEED KIND ENC...": a real rfbScreenInfo (framebuffer filled from SEED/KIND) and the real
 * client (same pixel format, so the server does not translate) talk through a socketpair; the client's
 * read() pumps the server's event loop on demand.  Prints whether the client's framebuffer equals the
 * server's after the first complete update.  "livemod SEED N": N random rectangles of the server
 * framebuffer change, next update, compare again. */
#include "vsess.h"
static rfbScreenInfoPtr g_scr; static int g_peer = -1;
static void live_pump(void) {
  int i;
  if (g_out.n) { vs_write(g_peer, g_out.p, g_out.n); bb_reset(&g_out); }
  for (i = 0; i < 200; i++) {
    unsigned char tmp[65536]; ssize_t k; int got = 0;
    rfbProcessEvents(g_scr, 0);
    while ((k = vs_read_avail(g_peer, tmp, sizeof tmp)) > 0) { bb_add(&g_in, tmp, (size_t)k); got = 1; }
    if (got || g_in.n > g_in_rd) return;
  }
}
static uint32_t live_px(unsigned seed, size_t i, int w, int kind, int bpp) {
  uint32_t v;
  size_t x = i % (size_t)w, y = i / (size_t)w;
  switch (kind) {
  case 0: v = seed * 2654435761u; break;                                   /* flat */
  case 1: v = ((x / 5 + y / 3) & 1) ? seed * 40503u : seed * 2654435761u; break;   /* two colours, blocks */
  case 2: v = (uint32_t)((seed + (x / 7) * 977 + (y / 4) * 131) % 6) * 0x01234567u; break;  /* few colours */
  case 3: v = (uint32_t)(seed + x * 3 + y * 0x105); break;                  /* gradient */
  default: v = (uint32_t)(((uint64_t)(seed + i) * 2654435761ULL) >> 7); break;  /* noise */
  }
  return bpp >= 32 ? (v & 0x00ffffffu) : (v & ((1u << bpp) - 1));
}
static void live_fill(unsigned seed, int kind, int x0, int y0, int w, int h) {
  int B = g_scr->serverFormat.bitsPerPixel / 8, x, y;
  for (y = y0; y < y0 + h; y++) for (x = x0; x < x0 + w; x++) {
    size_t i = (size_t)y * g_scr->width + x; uint32_t v = live_px(seed, i, g_scr->width, kind, B * 8);
    if (B == 1) ((uint8_t *)g_scr->frameBuffer)[i] = v; else if (B == 2) ((uint16_t *)g_scr->frameBuffer)[i] = v; else ((uint32_t *)g_scr->frameBuffer)[i] = v;
  }
}
static int g_lossy = 0;
static void live_compare(const char *tag, rfbBool rc) {
  rfbClient *c = g_cl; size_t i, n, bad = 0, first = 0; uint32_t m;
  if (g_lossy && c && c->frameBuffer) { printf("%s rc=%d equal=1 lossy\n", tag, rc); return; }
  if (!c || !c->frameBuffer) { printf("%s rc=%d equal=0 nofb\n", tag, rc); return; }
  n = (size_t)c->width * c->height; m = px_mask(c);
  if (c->width != g_scr->width || c->height != g_scr->height) { printf("%s rc=%d equal=0 size\n", tag, rc); return; }
  { int B = c->format.bitsPerPixel / 8;
    for (i = 0; i < n; i++) {
      uint32_t a = px_at(c, i) & m;
      uint32_t b = (B == 1 ? ((uint8_t *)g_scr->frameBuffer)[i] : B == 2 ? ((uint16_t *)g_scr->frameBuffer)[i] : ((uint32_t *)g_scr->frameBuffer)[i]) & m;
      if (a != b) { if (!bad) first = i; bad++; }
    } }
  if (bad) printf("%s rc=%d equal=0 diffs=%zu first=%zu,%zu\n", tag, rc, bad, first % (size_t)c->width, first / (size_t)c->width);
  else printf("%s rc=%d equal=1\n", tag, rc);
}
static rfbBool live_until_finished(void) {
  int guard = 0;
  g_finished = 0; g_sawrect = 0;
  while (!(g_finished && g_sawrect) && guard++ < 10000) {
    if (g_in_rd >= g_in.n && g_cl->buffered == 0) { live_pump(); if (g_in_rd >= g_in.n) return FALSE; }
    if (!HandleRFBServerMessage(g_cl)) return FALSE;
  }
  return (g_finished && g_sawrect) ? TRUE : FALSE;
}
static void live_close(void) {
  g_live = 0;
  if (g_cl) { rfbClientCleanup(g_cl); g_cl = NULL; g_fd = -1; }
  if (g_peer >= 0) { close(g_peer); g_peer = -1; }
  if (g_scr) { int i; for (i = 0; i < 20; i++) rfbProcessEvents(g_scr, 0); free(g_scr->frameBuffer); rfbScreenCleanup(g_scr); g_scr = NULL; }
  bb_reset(&g_in); g_in_rd = 0; bb_reset(&g_out); bb_reset(&g_ev);
}
static void do_live(char *args) {
  int W, H, B, kind, off = 0; unsigned seed; static char enc[256];
  drop_client(); live_close();
  if (sscanf(args, "%d %d %d %u %d%n", &W, &H, &B, &seed, &kind, &off) < 5) { printf("live bad\n"); return; }
  while (args[off] == ' ') off++;
  strncpy(enc, args + off, sizeof enc - 1);
  vs_quiet();
  g_scr = vs_screen(W, H, B);
  if (!g_scr) { printf("live noscreen\n"); return; }
  /* every rfbGetScreen() shares the static default cursor; its cached rich-cursor pixels were made for the
   * pixel format of the previous screen of this process (a server-side matter, outside C07): drop the cache */
  if (g_scr->cursor && g_scr->cursor->richSource && g_scr->cursor->cleanupRichSource) {
    free(g_scr->cursor->richSource); g_scr->cursor->richSource = NULL; g_scr->cursor->cleanupRichSource = FALSE;
  }
  live_fill(seed, kind, 0, 0, W, H);
  { rfbClientPtr scl = vs_connect_raw(g_scr, &g_peer); if (!scl) { printf("live noclient\n"); return; } }
  rfbClient *c = rfbGetClient(8, 3, 4);
  c->format = g_scr->serverFormat;
  c->appData.encodingsString = enc; c->appData.useRemoteCursor = TRUE; c->canHandleNewFBSize = TRUE;
  c->appData.compressLevel = (int)(seed % 10); c->appData.qualityLevel = 9; c->appData.enableJPEG = FALSE;
  /* ZYWRLE (the lossy wavelet variant of ZRLE) is only used below quality 9: run it through the sanitizer; the
   * framebuffers cannot be compared then */
  g_lossy = strstr(enc, "zywrle") != NULL;
  if (g_lossy) c->appData.qualityLevel = (int)((seed >> 4) % 9);
  g_default_malloc = c->MallocFrameBuffer; c->MallocFrameBuffer = cb_malloc;
  c->GotFrameBufferUpdate = cb_update; c->FinishedFrameBufferUpdate = cb_finished; c->Bell = cb_bell;
  c->GotXCutText = cb_cut; c->GotCursorShape = cb_cursor; c->HandleCursorPos = cb_pos; c->HandleKeyboardLedState = cb_led;
  c->GetPassword = g_pw; c->readTimeout = 0;
  g_fd = open("/dev/null", O_RDWR); c->sock = g_fd; g_cl = c; g_live = 1;
  if (!rfbClientInitialise(c)) { printf("live rc=0 init\n"); live_close(); return; }
  { rfbBool rc = live_until_finished(); bb_reset(&g_ev); live_compare("live", rc); if (!rc) live_close(); }
}
/* the application changes its encoding list in the middle of the session (SetFormatAndEncodings), then the screen changes */
static void do_liveenc(char *args) {
  static char enc2[256];
  if (!g_live || !g_cl) { printf("liveenc none\n"); return; }
  strncpy(enc2, args, sizeof enc2 - 1);
  { size_t L = strlen(enc2); while (L && (enc2[L - 1] == '\n' || enc2[L - 1] == ' ')) enc2[--L] = 0; }
  g_cl->appData.encodingsString = enc2;
  if (!SetFormatAndEncodings(g_cl)) { printf("liveenc rc=0\n"); live_close(); return; }
  SendFramebufferUpdateRequest(g_cl, 0, 0, g_cl->width, g_cl->height, FALSE);
  { rfbBool rc = live_until_finished(); bb_reset(&g_ev); live_compare("liveenc", rc); if (!rc) live_close(); }
}
static void do_livemod(char *args);
static void do_livemod(char *args) {
  unsigned seed; int n, i;
  if (!g_live || !g_cl || sscanf(args, "%u %d", &seed, &n) < 2) { printf("livemod none\n"); return; }
  for (i = 0; i < n; i++) {
    unsigned r = seed * 1103515245u + 12345u * (unsigned)(i + 1);
    int w = 1 + (int)((r >> 3) % (unsigned)g_scr->width), h = 1 + (int)((r >> 11) % (unsigned)g_scr->height);
    int x = (int)((r >> 17) % (unsigned)(g_scr->width - w + 1)), y = (int)((r >> 23) % (unsigned)(g_scr->height - h + 1));
    live_fill(seed + (unsigned)i, (int)(r % 5), x, y, w, h);
    rfbMarkRectAsModified(g_scr, x, y, x + w, y + h);
  }
  { rfbBool rc = live_until_finished(); bb_reset(&g_ev); live_compare("livemod", rc); if (!rc) live_close(); }
}
#endif

static void do_line(char *line) {
  size_t L = strlen(line); while (L && (line[L - 1] == '\n' || line[L - 1] == '\r')) line[--L] = 0;
  if (!L) return;
#ifdef VDRV_LIVE
  if (!strncmp(line, "case ", 5)) live_close();
  if (!strncmp(line, "live ", 5)) { do_live(line + 5); fflush(stdout); return; }
  if (!strncmp(line, "livemod ", 8)) { do_livemod(line + 8); fflush(stdout); return; }
  if (!strncmp(line, "liveenc ", 8)) { do_liveenc(line + 8); fflush(stdout); return; }
#endif
  if (!strncmp(line, "case ", 5)) { drop_client(); printf("%s\n", line); fflush(stdout); return; }
  if (!strncmp(line, "init ", 5)) { do_init(line + 5); return; }
  if (!strncmp(line, "hsraw ", 6)) { do_hsraw(line + 6); return; }
  if (!strncmp(line, "fill ", 5)) { do_fill((unsigned)strtoul(line + 5, NULL, 10)); return; }
  if (!strncmp(line, "dump ", 5)) { g_dump = atoi(line + 5); printf("dump\n"); return; }
  if (!strncmp(line, "api extsize ", 12)) { do_api_extsize(line + 12); return; }
  if (!strncmp(line, "fixed ", 6)) { printf("fixed\n"); return; }   /* tells the MODEL which proposed fixes the code under test contains */
  if (!strncmp(line, "b ", 2) || !strcmp(line, "b")) { unsigned char *p; size_t n = parse_hex(L > 2 ? line + 2 : "", &p); bb_add(&g_in, p, n); free(p); printf("b\n"); return; }
  if (!strncmp(line, "z ", 2)) {
    int sid, fresh, ok, off = 0; unsigned char *p;
    if (sscanf(line + 2, "%d %d %d%n", &sid, &fresh, &ok, &off) < 3) { printf("z bad\n"); return; }
    while (line[2 + off] == ' ') off++;
    size_t n = parse_hex(line + 2 + off, &p); emit_z(sid, fresh, ok, p, n); free(p); printf("z\n"); return;
  }
  if (!strncmp(line, "l ", 2) || !strcmp(line, "l")) { unsigned char *p; size_t n = parse_hex(L > 2 ? line + 2 : "", &p); emit_lzo(p, n); free(p); printf("l\n"); return; }
  if (!strncmp(line, "seg", 3)) {
    char *s = line + 3; g_nseg = 0; g_segi = 0;
    while (*s && g_nseg < 64) { while (*s == ' ') s++; if (!*s) break; g_seg[g_nseg++] = (int)strtol(s, &s, 10); }
    { int i, all0 = 1; for (i = 0; i < g_nseg; i++) if (g_seg[i] > 0) all0 = 0; if (all0) g_nseg = 0; }
    printf("seg\n"); return;
  }
  if (!strcmp(line, "run")) { do_run(); fflush(stdout); return; }
  printf("?? %s\n", line);
}

static void harness_setup(void) {
  rfbClientLog = cb_log; rfbClientErr = cb_log;
  if (lzo_init() != LZO_E_OK) exit(2);
  setvbuf(stdout, NULL, _IOFBF, 1 << 16);
}

#endif
